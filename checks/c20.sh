#!/bin/bash
# C20 = behaviour half (harness crate c20: lifts, casts, approximate equality, interop; generated values)
#     + configuration half (tools/featmat.py: generated feature configurations, build and digest oracles).
# Called by ./vcheck C20 ... with cwd = harness, VERIF_ROOT and CARGO_NET_OFFLINE set. One merged evidence file.
ROOT="${VERIF_ROOT:-/verif}"
TOOLS="$(dirname "$(readlink -f "$0")")/../tools"
tier="${VERIF_TIER:-quick}"; replay=""; only=""
args=("$@")
for ((i=0; i<${#args[@]}; i++)); do
  case "${args[$i]}" in
    --tier) tier="${args[$((i+1))]}";;
    --replay) replay="${args[$((i+1))]}";;
    --only) only="${args[$((i+1))]}";;
  esac
done
mkdir -p "$ROOT/work" "$ROOT/evidence"
log="$ROOT/work/build-c20.log"
built=1
if ! cargo build --release -p c20 >"$log" 2>&1; then
  built=0
  echo "[C20] behaviour harness does not build against the current tree (that half is inconclusive); see $log" >&2
  grep -E "^error" -A 6 "$log" | head -30 >&2
fi
norm() { if [ "$1" -ne 0 ] && [ "$1" -ne 1 ]; then echo 2; else echo "$1"; fi; }

if [ -n "$replay" ]; then
  if grep -q '"check": *"feature-' "$replay"; then
    python3 "$TOOLS/featmat.py" --replay "$replay"; exit $(norm $?)
  fi
  [ $built = 1 ] || exit 2
  timeout --signal=KILL "${VERIF_TIMEOUT:-14400}" ./target/release/c20 "$@"; exit $(norm $?)
fi

eb="$ROOT/work/C20-behaviour.json"; ef="$ROOT/work/C20-featmat.json"
rm -f "$eb" "$ef"
rb=2
bx=()
if [ "$tier" = quick ] && [ -z "$only" ] && [[ " $* " != *" --scale "* ]]; then bx+=(--scale "${VERIF_QUICK_SCALE:-4}"); fi
if [ "$tier" = thorough ] && [ -z "$only" ] && [[ " $* " != *" --scale "* ]]; then bx+=(--scale "${VERIF_THOROUGH_SCALE:-8}"); fi
if [ "$tier" = thorough ] && [ -z "$only" ] && [ -z "$VERIF_NO_FUZZ" ] && [ $built = 1 ]; then
  seed="${VERIF_SEED:-1}"
  for ((i=0; i<${#args[@]}; i++)); do [ "${args[$i]}" = "--seed" ] && seed="${args[$((i+1))]}"; done
  rep="$ROOT/work/fuzz-c20.json"; rm -f "$rep"
  if python3 "$TOOLS/fuzz_campaign.py" c20 --seed "$seed" --out "$rep"; then bx+=(--fuzz-report "$rep"); fi
fi
if [ $built = 1 ]; then
  timeout --signal=KILL "${VERIF_TIMEOUT:-14400}" ./target/release/c20 "$@" "${bx[@]}" --evidence "$eb"; rb=$(norm $?)
  rm -rf "$ROOT/work/fuzz-c20/corpus"
fi
fm_args=(--tier "$tier" --evidence "$ef")
[ -n "$only" ] && fm_args+=(--only "$only")
for ((i=0; i<${#args[@]}; i++)); do
  [ "${args[$i]}" = "--seed" ] && fm_args+=(--seed "${args[$((i+1))]}")
done
timeout --signal=KILL "${VERIF_TIMEOUT:-14400}" python3 "$TOOLS/featmat.py" "${fm_args[@]}"; rf=$(norm $?)
if [ -z "$only" ]; then
  python3 "$TOOLS/merge_evidence.py" "$ROOT/evidence/C20.json" "$eb" "$ef" || exit 2
fi
if [ "$rb" = 1 ] || [ "$rf" = 1 ]; then exit 1; fi
if [ "$rb" = 2 ] || [ "$rf" = 2 ]; then
  echo "[C20] inconclusive (behaviour half rc=$rb, configuration half rc=$rf)" >&2; exit 2
fi
exit 0
