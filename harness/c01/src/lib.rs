//! C01 — matrix products are the linear-algebra product in both storage layouts.

use num_traits::{One, Zero};
use vek::mat::repr_c::column_major as cm;
use vek::mat::repr_c::row_major as rm;
use vek::vec::repr_c::{Vec2, Vec3, Vec4};
use vkit::refmath as rf;
use vkit::vk::{self, MatN};
use vkit::*;

mod sized;
mod structured;

fn distinct_nonzero<S: Dom, const N: usize>(a: &[[S; N]; N]) -> usize {
    let mut v: Vec<S> = Vec::new();
    for r in a {
        for x in r {
            if !x.is_zero() && !v.contains(x) {
                v.push(*x);
            }
        }
    }
    v.len()
}

macro_rules! products_case {
    ($fname:ident, $N:expr, $Mat:ident, $Vec:ident, $va:path, $av:path) => {
        fn $fname<S: Dom>(t: &mut Tape, cx: &mut Cx) -> CaseResult {
            const N: usize = $N;
            let mut a: [[S; N]; N] = vk::gen_mat(t, 9);
            let mut b: [[S; N]; N] = vk::gen_mat(t, 9);
            let v: [S; N] = vk::gen_vec(t, 9);
            let s: S = S::any(t, 9);
            // RELATED / STRUCTURED operand pairs, which independent generation never produces: B = A^T, B = A,
            // a diagonal / scalar / permutation / symmetric / triangular operand on either side, zero
            let structured = |t: &mut Tape, m: &mut [[S; N]; N], other: &[[S; N]; N]| -> &'static str {
                match t.below(10) {
                    0 => { *m = rf::transpose(other); "operand = transpose of the other" }
                    1 => { *m = *other; "operand = the other operand" }
                    2 => { for i in 0..N { for j in 0..N { if i != j { m[i][j] = S::zero(); } } } "diagonal operand" }
                    3 => { let d = m[0][0]; for i in 0..N { for j in 0..N { m[i][j] = if i == j { d } else { S::zero() }; } } "scalar-matrix operand" }
                    4 => { let k = t.below(N); let old = *m; for i in 0..N { for j in 0..N { m[i][j] = if j == (i + 1 + k) % N { old[i][j].max(S::one()) } else { S::zero() }; } } "generalised permutation operand" }
                    5 => { for i in 0..N { for j in 0..i { m[i][j] = m[j][i]; } } "symmetric operand" }
                    6 => { for i in 0..N { for j in 0..i { m[i][j] = S::zero(); } } "upper-triangular operand" }
                    7 => { *m = [[S::zero(); N]; N]; "zero operand" }
                    8 => { *m = rf::identity(); "identity operand" }
                    _ => { let r = t.below(N); for j in 0..N { m[N - 1][j] = if j == r { S::one() } else { S::zero() }; } "operand with a unit-vector last row" }
                }
            };
            match t.below(4) {
                0 => { let l = structured(t, &mut b, &a); cx.label(l); }
                1 => { let l = structured(t, &mut a, &b); cx.label(l); }
                _ => {}
            }
            let (a, b) = (a, b);
            let (ra, rb) = (rm::$Mat::<S>::from_arr(&a), rm::$Mat::<S>::from_arr(&b));
            let (ca, cb) = (cm::$Mat::<S>::from_arr(&a), cm::$Mat::<S>::from_arr(&b));
            let vv: $Vec<S> = $va(&v);
            let ab = rf::matmul(&a, &b);
            let ba = rf::matmul(&b, &a);
            let nt = distinct_nonzero(&a) >= 3 && distinct_nonzero(&b) >= 3 && a != rf::transpose(&a) && b != rf::transpose(&b) && ab != ba;
            cx.set_nontrivial(nt);
            sample!(cx, "{} n={} A={:?} B={:?} v={:?} s={:?}", S::NAME, N, a, b, v, s);
            let sc = (N as f64) * vk::mat_max(&a).max(1.0) * vk::mat_max(&b).max(vk::vec_max(&v)).max(1.0);
            // matrix * matrix, all four layout pairs
            check_mat!(cx, S, (ra * rb).to_arr(), ab, sc, 8, "row*row");
            check_mat!(cx, S, (ca * cb).to_arr(), ab, sc, 8, "col*col");
            check_mat!(cx, S, (ra * cb).to_arr(), ab, sc, 8, "row*col (-> col)");
            check_mat!(cx, S, (ca * rb).to_arr(), ab, sc, 8, "col*row (-> row)");
            check_mat!(cx, S, (rb * ra).to_arr(), ba, sc, 8, "row*row (B*A)");
            check_mat!(cx, S, (cb * ca).to_arr(), ba, sc, 8, "col*col (B*A)");
            // matrix * column vector, row vector * matrix
            let av = rf::matvec(&a, &v);
            let va_ = rf::vecmat(&v, &a);
            check_vec!(cx, S, $av(&(ra * vv)), av, sc, 8, "row-major M*v");
            check_vec!(cx, S, $av(&(ca * vv)), av, sc, 8, "col-major M*v");
            check_vec!(cx, S, $av(&(vv * ra)), va_, sc, 8, "v*row-major M");
            check_vec!(cx, S, $av(&(vv * ca)), va_, sc, 8, "v*col-major M");
            // identity
            let id: [[S; N]; N] = rf::identity();
            check_eq!(cx, rm::$Mat::<S>::identity().to_arr(), id, "row identity()");
            check_eq!(cx, cm::$Mat::<S>::identity().to_arr(), id, "col identity()");
            check_eq!(cx, <rm::$Mat<S> as One>::one().to_arr(), id, "row One::one");
            check_eq!(cx, <cm::$Mat<S> as One>::one().to_arr(), id, "col One::one");
            check_eq!(cx, <rm::$Mat<S> as Default>::default().to_arr(), id, "row Default");
            check_eq!(cx, <cm::$Mat<S> as Default>::default().to_arr(), id, "col Default");
            let (ri, ci) = (rm::$Mat::<S>::identity(), cm::$Mat::<S>::identity());
            check_eq!(cx, (ra * ri).to_arr(), a, "row A*I");
            check_eq!(cx, (ri * ra).to_arr(), a, "row I*A");
            check_eq!(cx, (ca * ci).to_arr(), a, "col A*I");
            check_eq!(cx, (ci * ca).to_arr(), a, "col I*A");
            check_eq!(cx, (ra * ci).to_arr(), a, "row A * col I");
            check_eq!(cx, (ri * ca).to_arr(), a, "row I * col A");
            check_eq!(cx, (ca * ri).to_arr(), a, "col A * row I");
            check_eq!(cx, (ci * ra).to_arr(), a, "col I * row A");
            check_eq!(cx, $av(&(ri * vv)), v, "row I*v");
            check_eq!(cx, $av(&(vv * ci)), v, "v*col I");
            // zero
            let z = [[S::zero(); N]; N];
            check_eq!(cx, rm::$Mat::<S>::zero().to_arr(), z, "row zero()");
            check_eq!(cx, cm::$Mat::<S>::zero().to_arr(), z, "col zero()");
            check_eq!(cx, <rm::$Mat<S> as Zero>::zero().to_arr(), z, "row Zero::zero");
            check!(cx, <rm::$Mat<S> as Zero>::is_zero(&rm::$Mat::from_arr(&z)), "row is_zero(zero)");
            check!(cx, <cm::$Mat<S> as Zero>::is_zero(&cm::$Mat::from_arr(&z)), "col is_zero(zero)");
            check_eq!(cx, <rm::$Mat<S> as Zero>::is_zero(&ra), a == z, "row is_zero(A)");
            check_eq!(cx, <cm::$Mat<S> as Zero>::is_zero(&ca), a == z, "col is_zero(A)");
            // in-place trait methods on an arbitrary receiver: One::set_one / is_one, Zero::set_zero
            {
                let (mut r1, mut c1) = (ra, ca);
                One::set_one(&mut r1);
                One::set_one(&mut c1);
                check_eq!(cx, r1.to_arr(), id, "row One::set_one on A");
                check_eq!(cx, c1.to_arr(), id, "col One::set_one on A");
                check!(cx, One::is_one(&r1) && One::is_one(&c1), "is_one after set_one");
                check_eq!(cx, One::is_one(&ra), a == id, "row is_one(A)");
                check_eq!(cx, One::is_one(&ca), a == id, "col is_one(A)");
                check_mat!(cx, S, (r1 * rb).to_arr(), b, sc, 8, "row set_one(A) * B = B");
                check_mat!(cx, S, (cb * c1).to_arr(), b, sc, 8, "col B * set_one(A) = B");
                let (mut r0, mut c0) = (ra, ca);
                Zero::set_zero(&mut r0);
                Zero::set_zero(&mut c0);
                check_eq!(cx, r0.to_arr(), z, "row Zero::set_zero on A");
                check_eq!(cx, c0.to_arr(), z, "col Zero::set_zero on A");
            }
            // one element non-zero => not zero
            {
                let (i, j) = (t.below(N), t.below(N));
                let mut e = z;
                e[i][j] = S::one();
                check!(cx, !<rm::$Mat<S> as Zero>::is_zero(&rm::$Mat::from_arr(&e)), "row is_zero(E{}{})", i, j);
                check!(cx, !<cm::$Mat<S> as Zero>::is_zero(&cm::$Mat::from_arr(&e)), "col is_zero(E{}{})", i, j);
            }
            // scalar product and MulAssign
            let mut as_ = a;
            for i in 0..N { for j in 0..N { as_[i][j] = a[i][j] * s; } }
            check_eq!(cx, (ra * s).to_arr(), as_, "row A*s");
            check_eq!(cx, (ca * s).to_arr(), as_, "col A*s");
            let mut m = ra; m *= rb;
            check_mat!(cx, S, m.to_arr(), ab, sc, 8, "row A*=B");
            let mut m = ca; m *= cb;
            check_mat!(cx, S, m.to_arr(), ab, sc, 8, "col A*=B");
            let mut m = ra; m *= s;
            check_eq!(cx, m.to_arr(), as_, "row A*=s");
            let mut m = ca; m *= s;
            check_eq!(cx, m.to_arr(), as_, "col A*=s");
            // mul_memberwise
            let mut had = a;
            for i in 0..N { for j in 0..N { had[i][j] = a[i][j] * b[i][j]; } }
            check_eq!(cx, ra.mul_memberwise(rb).to_arr(), had, "row mul_memberwise");
            check_eq!(cx, ca.mul_memberwise(cb).to_arr(), had, "col mul_memberwise");
            Ok(())
        }
    };
}
products_case!(products2, 2, Mat2, Vec2, vk::v2, vk::a2);
products_case!(products3, 3, Mat3, Vec3, vk::v3, vk::a3);
products_case!(products4, 4, Mat4, Vec4, vk::v4, vk::a4);

/// Element-wise operators (matrix-matrix, matrix-scalar, negation, compound assignment) on opaque terms:
/// element (i,j) of the result must be exactly op(a[i][j], b[i][j]) resp. op(a[i][j], s).
macro_rules! elementwise_case {
    ($fname:ident, $N:expr, $Mat:ident) => {
        fn $fname(t: &mut Tape, cx: &mut Cx) -> CaseResult {
            const N: usize = $N;
            // pairwise distinct atoms, in a tape-chosen arrangement
            let base = t.below(200) as u32;
            let mut a = [[Sym::atom(0); N]; N];
            let mut b = [[Sym::atom(0); N]; N];
            for i in 0..N { for j in 0..N {
                a[i][j] = Sym::atom(base + (i * N + j) as u32);
                b[i][j] = Sym::atom(base + 100 + (i * N + j) as u32);
            } }
            let s = Sym::atom(base + 999);
            cx.nontrivial();
            sample!(cx, "Sym n={} A={:?} B={:?} s={:?}", N, a, b, s);
            macro_rules! both {
                ($what:expr, |$x:ident, $y:ident| $e:expr, $f:expr) => {{
                    let mut want = a;
                    for i in 0..N { for j in 0..N { want[i][j] = $f(a[i][j], b[i][j]); } }
                    #[allow(unused_mut, unused_variables)]
                    let r: rm::$Mat<Sym> = { let mut $x = rm::$Mat::<Sym>::from_arr(&a); let $y = rm::$Mat::<Sym>::from_arr(&b); $e };
                    check_eq!(cx, r.to_arr(), want, "row-major {}", $what);
                    #[allow(unused_mut, unused_variables)]
                    let c: cm::$Mat<Sym> = { let mut $x = cm::$Mat::<Sym>::from_arr(&a); let $y = cm::$Mat::<Sym>::from_arr(&b); $e };
                    check_eq!(cx, c.to_arr(), want, "col-major {}", $what);
                }};
            }
            both!("A+B", |x, y| x + y, |p: Sym, q: Sym| p + q);
            both!("A-B", |x, y| x - y, |p: Sym, q: Sym| p - q);
            both!("A/B", |x, y| x / y, |p: Sym, q: Sym| p / q);
            both!("A%B", |x, y| x % y, |p: Sym, q: Sym| p % q);
            both!("A+s", |x, y| x + s, |p: Sym, _q: Sym| p + s);
            both!("A-s", |x, y| x - s, |p: Sym, _q: Sym| p - s);
            both!("A/s", |x, y| x / s, |p: Sym, _q: Sym| p / s);
            both!("A%s", |x, y| x % s, |p: Sym, _q: Sym| p % s);
            both!("-A", |x, y| -x, |p: Sym, _q: Sym| -p);
            both!("A+=B", |x, y| { x += y; x }, |p: Sym, q: Sym| p + q);
            both!("A-=B", |x, y| { x -= y; x }, |p: Sym, q: Sym| p - q);
            both!("A/=B", |x, y| { x /= y; x }, |p: Sym, q: Sym| p / q);
            both!("A%=B", |x, y| { x %= y; x }, |p: Sym, q: Sym| p % q);
            both!("A+=s", |x, y| { x += s; x }, |p: Sym, _q: Sym| p + s);
            both!("A-=s", |x, y| { x -= s; x }, |p: Sym, _q: Sym| p - s);
            both!("A/=s", |x, y| { x /= s; x }, |p: Sym, _q: Sym| p / s);
            both!("A%=s", |x, y| { x %= s; x }, |p: Sym, _q: Sym| p % s);
            // memberwise product and scalar product on terms
            {
                let mut want = a;
                for i in 0..N { for j in 0..N { want[i][j] = a[i][j] * b[i][j]; } }
                check_eq!(cx, rm::$Mat::<Sym>::from_arr(&a).mul_memberwise(rm::$Mat::from_arr(&b)).to_arr(), want, "row mul_memberwise");
                check_eq!(cx, cm::$Mat::<Sym>::from_arr(&a).mul_memberwise(cm::$Mat::from_arr(&b)).to_arr(), want, "col mul_memberwise");
                for i in 0..N { for j in 0..N { want[i][j] = a[i][j] * s; } }
                check_eq!(cx, (rm::$Mat::<Sym>::from_arr(&a) * s).to_arr(), want, "row A*s");
                check_eq!(cx, (cm::$Mat::<Sym>::from_arr(&a) * s).to_arr(), want, "col A*s");
            }
            Ok(())
        }
    };
}
elementwise_case!(elementwise2, 2, Mat2);
elementwise_case!(elementwise3, 3, Mat3);
elementwise_case!(elementwise4, 4, Mat4);


/// IEEE special values: the products and the scalar / element-wise forms must act per element also on
/// infinities, NaN and signed zeros (inf * 0 = NaN; no shortcut may skip an element).
trait Fl: Dom + Copy + PartialEq + std::fmt::Debug {
    fn pool() -> [Self; 12];
    fn same_bits(a: Self, b: Self) -> bool;
    fn is_nan_(self) -> bool;
}
macro_rules! fl_impl {
    ($F:ident) => {
        impl Fl for $F {
            fn pool() -> [$F; 12] {
                [0.0, -0.0, 1.0, -1.0, 2.0, -3.0, 0.5, $F::INFINITY, $F::NEG_INFINITY, $F::NAN, 4.0, -0.25]
            }
            fn same_bits(a: $F, b: $F) -> bool {
                (a.is_nan() && b.is_nan()) || a.to_bits() == b.to_bits()
            }
            fn is_nan_(self) -> bool {
                self.is_nan()
            }
        }
    };
}
fl_impl!(f32);
fl_impl!(f64);

fn special_elem<S: Fl>(t: &mut Tape, hot: bool) -> S {
    let p = S::pool();
    if hot {
        p[t.below(12)]
    } else {
        // benign: a small exact value
        p[t.pick(&[2usize, 3, 4, 5, 6, 10, 11])]
    }
}

macro_rules! specials_case {
    ($fname:ident, $N:expr, $Mat:ident, $Vec:ident, $va:path, $av:path) => {
        fn $fname<S: Fl>(t: &mut Tape, cx: &mut Cx) -> CaseResult {
            const N: usize = $N;
            let mut a = [[S::zero(); N]; N];
            let mut b = [[S::zero(); N]; N];
            let mut v = [S::zero(); N];
            // 1..3 hot positions per operand, the rest benign
            let hot_a: Vec<usize> = (0..1 + t.below(3)).map(|_| t.below(N * N)).collect();
            let hot_b: Vec<usize> = (0..1 + t.below(3)).map(|_| t.below(N * N)).collect();
            let hot_v = t.below(N);
            for i in 0..N {
                for j in 0..N {
                    a[i][j] = special_elem::<S>(t, hot_a.contains(&(i * N + j)));
                    b[i][j] = special_elem::<S>(t, hot_b.contains(&(i * N + j)));
                }
                v[i] = special_elem::<S>(t, i == hot_v);
            }
            let s: S = S::pool()[t.below(12)];
            let nonfinite = |x: S| x.is_nan_() || x.f().is_infinite();
            let any_special = a.iter().flatten().chain(b.iter().flatten()).any(|x| nonfinite(*x) || x.f() == 0.0) || nonfinite(s) || s.f() == 0.0;
            cx.set_nontrivial(any_special);
            if a.iter().flatten().any(|x| nonfinite(*x)) && s.f() == 0.0 {
                cx.label("non-finite element times zero scalar");
            }
            if a.iter().flatten().any(|x| x.is_nan_()) || s.is_nan_() {
                cx.label("NaN operand");
            }
            sample!(cx, "{} n={} A={:?} B={:?} v={:?} s={:?}", S::NAME, N, a, b, v, s);
            let (ra, rb) = (rm::$Mat::<S>::from_arr(&a), rm::$Mat::<S>::from_arr(&b));
            let (ca, cb) = (cm::$Mat::<S>::from_arr(&a), cm::$Mat::<S>::from_arr(&b));
            // per-element forms: bit-exact (NaN matches NaN)
            macro_rules! elem {
                ($what:expr, $got_r:expr, $got_c:expr, |$x:ident, $y:ident| $e:expr) => {{
                    let (gr, gc) = ($got_r.to_arr(), $got_c.to_arr());
                    for i in 0..N {
                        for j in 0..N {
                            let ($x, $y) = (a[i][j], b[i][j]);
                            let w: S = $e;
                            check!(cx, S::same_bits(gr[i][j], w), "row-major {}: element ({},{}) got {:?}, want {:?} (a={:?} b={:?} s={:?})", $what, i, j, gr[i][j], w, a[i][j], b[i][j], s);
                            check!(cx, S::same_bits(gc[i][j], w), "col-major {}: element ({},{}) got {:?}, want {:?} (a={:?} b={:?} s={:?})", $what, i, j, gc[i][j], w, a[i][j], b[i][j], s);
                        }
                    }
                }};
            }
            elem!("A*s", ra * s, ca * s, |x, _y| x * s);
            elem!("A/s", ra / s, ca / s, |x, _y| x / s);
            elem!("A+s", ra + s, ca + s, |x, _y| x + s);
            elem!("A-s", ra - s, ca - s, |x, _y| x - s);
            elem!("A*=s", { let mut m = ra; m *= s; m }, { let mut m = ca; m *= s; m }, |x, _y| x * s);
            elem!("A/=s", { let mut m = ra; m /= s; m }, { let mut m = ca; m /= s; m }, |x, _y| x / s);
            elem!("A%s", ra % s, ca % s, |x, _y| x % s);
            elem!("A%=s", { let mut m = ra; m %= s; m }, { let mut m = ca; m %= s; m }, |x, _y| x % s);
            elem!("A+=s", { let mut m = ra; m += s; m }, { let mut m = ca; m += s; m }, |x, _y| x + s);
            elem!("A-=s", { let mut m = ra; m -= s; m }, { let mut m = ca; m -= s; m }, |x, _y| x - s);
            elem!("A%B", ra % rb, ca % cb, |x, y| x % y);
            elem!("A+=B", { let mut m = ra; m += rb; m }, { let mut m = ca; m += cb; m }, |x, y| x + y);
            elem!("A-=B", { let mut m = ra; m -= rb; m }, { let mut m = ca; m -= cb; m }, |x, y| x - y);
            elem!("A/=B", { let mut m = ra; m /= rb; m }, { let mut m = ca; m /= cb; m }, |x, y| x / y);
            elem!("A%=B", { let mut m = ra; m %= rb; m }, { let mut m = ca; m %= cb; m }, |x, y| x % y);
            elem!("A+B", ra + rb, ca + cb, |x, y| x + y);
            elem!("A-B", ra - rb, ca - cb, |x, y| x - y);
            elem!("A/B", ra / rb, ca / cb, |x, y| x / y);
            elem!("mul_memberwise", ra.mul_memberwise(rb), ca.mul_memberwise(cb), |x, y| x * y);
            elem!("-A", -ra, -ca, |x, _y| -x);
            // products: sum of products; the association order is free, which cannot change NaN-ness, infinities or
            // (for these exactly representable operands) finite values; the sign of a zero sum is not asserted
            let close = |g: S, w: S| (g.is_nan_() && w.is_nan_()) || g == w;
            let ab = rf::matmul(&a, &b);
            let av = rf::matvec(&a, &v);
            let va_ = rf::vecmat(&v, &a);
            let vv: $Vec<S> = $va(&v);
            for (what, got) in [("row*row", (ra * rb).to_arr()), ("col*col", (ca * cb).to_arr()), ("row*col", (ra * cb).to_arr()), ("col*row", (ca * rb).to_arr()), ("row A*=B", { let mut m = ra; m *= rb; m.to_arr() }), ("col A*=B", { let mut m = ca; m *= cb; m.to_arr() })] {
                for i in 0..N {
                    for j in 0..N {
                        check!(cx, close(got[i][j], ab[i][j]), "{} with special values: element ({},{}) got {:?}, want {:?}", what, i, j, got[i][j], ab[i][j]);
                    }
                }
            }
            for (what, got, want) in [("row M*v", $av(&(ra * vv)), av), ("col M*v", $av(&(ca * vv)), av), ("v*row M", $av(&(vv * ra)), va_), ("v*col M", $av(&(vv * ca)), va_)] {
                for i in 0..N {
                    check!(cx, close(got[i], want[i]), "{} with special values: element {} got {:?}, want {:?}", what, i, got[i], want[i]);
                }
            }
            Ok(())
        }
    };
}
specials_case!(specials2, 2, Mat2, Vec2, vk::v2, vk::a2);
specials_case!(specials3, 3, Mat3, Vec3, vk::v3, vk::a3);
specials_case!(specials4, 4, Mat4, Vec4, vk::v4, vk::a4);

/// Vec4-as-2x2 helpers against the 2x2 matrix expressions.
fn mat2_helpers<S: Dom>(t: &mut Tape, cx: &mut Cx) -> CaseResult {
    let a: [[S; 2]; 2] = vk::gen_mat(t, 12);
    let b: [[S; 2]; 2] = vk::gen_mat(t, 12);
    let adj = |m: &[[S; 2]; 2]| [[m[1][1], -m[0][1]], [-m[1][0], m[0][0]]];
    let rows = |m: &[[S; 2]; 2]| Vec4 { x: m[0][0], y: m[0][1], z: m[1][0], w: m[1][1] };
    let cols = |m: &[[S; 2]; 2]| Vec4 { x: m[0][0], y: m[1][0], z: m[0][1], w: m[1][1] };
    let from_rows = |v: Vec4<S>| [[v.x, v.y], [v.z, v.w]];
    let from_cols = |v: Vec4<S>| [[v.x, v.z], [v.y, v.w]];
    let ab = rf::matmul(&a, &b);
    cx.set_nontrivial(distinct_nonzero(&a) >= 3 && distinct_nonzero(&b) >= 3 && ab != rf::matmul(&b, &a) && a != rf::transpose(&a));
    sample!(cx, "{} A={:?} B={:?}", S::NAME, a, b);
    let sc = 2.0 * vk::mat_max(&a).max(1.0) * vk::mat_max(&b).max(1.0);
    check_mat!(cx, S, from_rows(rows(&a).mat2_rows_mul(rows(&b))), ab, sc, 8, "mat2_rows_mul");
    check_mat!(cx, S, from_rows(rows(&a).mat2_rows_adj_mul(rows(&b))), rf::matmul(&adj(&a), &b), sc, 8, "mat2_rows_adj_mul");
    check_mat!(cx, S, from_rows(rows(&a).mat2_rows_mul_adj(rows(&b))), rf::matmul(&a, &adj(&b)), sc, 8, "mat2_rows_mul_adj");
    check_mat!(cx, S, from_cols(cols(&a).mat2_cols_mul(cols(&b))), ab, sc, 8, "mat2_cols_mul");
    check_mat!(cx, S, from_cols(cols(&a).mat2_cols_adj_mul(cols(&b))), rf::matmul(&adj(&a), &b), sc, 8, "mat2_cols_adj_mul");
    check_mat!(cx, S, from_cols(cols(&a).mat2_cols_mul_adj(cols(&b))), rf::matmul(&a, &adj(&b)), sc, 8, "mat2_cols_mul_adj");
    Ok(())
}


/// Unsigned element types: the six helpers are differences of products; whenever every entry of the true result is
/// non-negative (and the products fit) the result is representable and must be returned, without a detour through a
/// negated operand (`0 - b` panics / wraps for unsigned types).
fn mat2_helpers_unsigned(t: &mut Tape, cx: &mut Cx) -> CaseResult {
    let big = t.bool();
    let mut g = |big: bool| -> [[i128; 2]; 2] {
        let mut m = [[0i128; 2]; 2];
        for i in 0..2 { for j in 0..2 { m[i][j] = if big { t.int(0, 60000) as i128 } else { t.int(0, 12) as i128 }; } }
        m
    };
    let (a, b) = (g(big), g(big));
    let adj = |m: &[[i128; 2]; 2]| [[m[1][1], -m[0][1]], [-m[1][0], m[0][0]]];
    let mm = |x: &[[i128; 2]; 2], y: &[[i128; 2]; 2]| { let mut r = [[0i128; 2]; 2]; for i in 0..2 { for j in 0..2 { r[i][j] = x[i][0] * y[0][j] + x[i][1] * y[1][j]; } } r };
    let rows = |m: &[[i128; 2]; 2]| Vec4 { x: m[0][0] as u32, y: m[0][1] as u32, z: m[1][0] as u32, w: m[1][1] as u32 };
    let cols = |m: &[[i128; 2]; 2]| Vec4 { x: m[0][0] as u32, y: m[1][0] as u32, z: m[0][1] as u32, w: m[1][1] as u32 };
    let from_rows = |v: Vec4<u32>| [[v.x as i128, v.y as i128], [v.z as i128, v.w as i128]];
    let from_cols = |v: Vec4<u32>| [[v.x as i128, v.z as i128], [v.y as i128, v.w as i128]];
    let ok = |m: &[[i128; 2]; 2]| m.iter().flatten().all(|x| *x >= 0 && *x <= u32::MAX as i128);
    sample!(cx, "u32 A={:?} B={:?}", a, b);
    let (ab, ajb, abj) = (mm(&a, &b), mm(&adj(&a), &b), mm(&a, &adj(&b)));
    cx.set_nontrivial(a[0][1] != 0 && a[1][0] != 0 && b[0][1] != 0 && b[1][0] != 0 && (ok(&ajb) || ok(&abj)));
    if ok(&ab) {
        check_eq!(cx, from_rows(rows(&a).mat2_rows_mul(rows(&b))), ab, "u32 mat2_rows_mul");
        check_eq!(cx, from_cols(cols(&a).mat2_cols_mul(cols(&b))), ab, "u32 mat2_cols_mul");
    }
    if ok(&ajb) {
        cx.label("unsigned adj(A)*B representable");
        check_eq!(cx, from_rows(rows(&a).mat2_rows_adj_mul(rows(&b))), ajb, "u32 mat2_rows_adj_mul");
        check_eq!(cx, from_cols(cols(&a).mat2_cols_adj_mul(cols(&b))), ajb, "u32 mat2_cols_adj_mul");
    }
    if ok(&abj) {
        cx.label("unsigned A*adj(B) representable");
        check_eq!(cx, from_rows(rows(&a).mat2_rows_mul_adj(rows(&b))), abj, "u32 mat2_rows_mul_adj");
        check_eq!(cx, from_cols(cols(&a).mat2_cols_mul_adj(cols(&b))), abj, "u32 mat2_cols_mul_adj");
    }
    Ok(())
}

/// Integer instantiation (i64, small values, no overflow): product and `%` with truncating semantics.
fn products_int(t: &mut Tape, cx: &mut Cx) -> CaseResult {
    let mut a = [[0i64; 4]; 4];
    let mut b = [[0i64; 4]; 4];
    for i in 0..4 { for j in 0..4 { a[i][j] = t.int(-20, 20); b[i][j] = t.int(-20, 20); } }
    let v = [t.int(-20, 20), t.int(-20, 20), t.int(-20, 20), t.int(-20, 20)];
    let ab = rf::matmul(&a, &b);
    cx.set_nontrivial(ab != rf::matmul(&b, &a) && a != rf::transpose(&a));
    sample!(cx, "i64 A={:?} B={:?} v={:?}", a, b, v);
    let (ra, rb) = (rm::Mat4::<i64>::from_arr(&a), rm::Mat4::<i64>::from_arr(&b));
    let (ca, cb) = (cm::Mat4::<i64>::from_arr(&a), cm::Mat4::<i64>::from_arr(&b));
    check_eq!(cx, (ra * rb).to_arr(), ab, "i64 row*row");
    check_eq!(cx, (ca * cb).to_arr(), ab, "i64 col*col");
    check_eq!(cx, (ra * cb).to_arr(), ab, "i64 row*col");
    check_eq!(cx, (ca * rb).to_arr(), ab, "i64 col*row");
    check_eq!(cx, vk::a4(&(ra * vk::v4(&v))), rf::matvec(&a, &v), "i64 row M*v");
    check_eq!(cx, vk::a4(&(ca * vk::v4(&v))), rf::matvec(&a, &v), "i64 col M*v");
    check_eq!(cx, vk::a4(&(vk::v4(&v) * ra)), rf::vecmat(&v, &a), "i64 v*row M");
    check_eq!(cx, vk::a4(&(vk::v4(&v) * ca)), rf::vecmat(&v, &a), "i64 v*col M");
    // 3x3 and 2x2 upper-left blocks
    let mut a3 = [[0i64; 3]; 3];
    let mut b3 = [[0i64; 3]; 3];
    for i in 0..3 { for j in 0..3 { a3[i][j] = a[i][j]; b3[i][j] = b[i][j]; } }
    check_eq!(cx, (rm::Mat3::<i64>::from_arr(&a3) * rm::Mat3::from_arr(&b3)).to_arr(), rf::matmul(&a3, &b3), "i64 row3*row3");
    check_eq!(cx, (cm::Mat3::<i64>::from_arr(&a3) * cm::Mat3::from_arr(&b3)).to_arr(), rf::matmul(&a3, &b3), "i64 col3*col3");
    check_eq!(cx, (rm::Mat3::<i64>::from_arr(&a3) * cm::Mat3::from_arr(&b3)).to_arr(), rf::matmul(&a3, &b3), "i64 row3*col3");
    check_eq!(cx, (cm::Mat3::<i64>::from_arr(&a3) * rm::Mat3::from_arr(&b3)).to_arr(), rf::matmul(&a3, &b3), "i64 col3*row3");
    // element-wise % and / with non-zero divisors
    let mut want_rem = a;
    let mut want_div = a;
    let mut ok = true;
    for i in 0..4 { for j in 0..4 { if b[i][j] == 0 { ok = false; } else { want_rem[i][j] = a[i][j] % b[i][j]; want_div[i][j] = a[i][j] / b[i][j]; } } }
    if ok {
        check_eq!(cx, (ra % rb).to_arr(), want_rem, "i64 row A%B");
        check_eq!(cx, (ca % cb).to_arr(), want_rem, "i64 col A%B");
        check_eq!(cx, (ra / rb).to_arr(), want_div, "i64 row A/B");
        check_eq!(cx, (ca / cb).to_arr(), want_div, "i64 col A/B");
    }
    Ok(())
}

pub fn property() -> Property {
    let mut checks = Vec::new();
    macro_rules! tape {
        ($name:expr, $about:expr, $len:expr, $q:expr, $th:expr, $f:expr) => {
            checks.push(Check { name: $name, about: $about, kind: Kind::Tape { len: $len, quick: $q, thorough: $th, f: $f } });
        };
    }
    let about = "M*M (4 layout pairs), M*v, v*M, identity/zero/One/Default/is_zero, M*s, *=, mul_memberwise vs sum-of-products on arrays read from the public fields";
    tape!("products2-rat", about, 64, 20_000, 400_000, products2::<Rat>);
    tape!("products3-rat", about, 96, 20_000, 400_000, products3::<Rat>);
    tape!("products4-rat", about, 128, 20_000, 400_000, products4::<Rat>);
    tape!("products2-f64", about, 96, 10_000, 200_000, products2::<f64>);
    tape!("products3-f64", about, 160, 10_000, 200_000, products3::<f64>);
    tape!("products4-f64", about, 256, 10_000, 200_000, products4::<f64>);
    tape!("products2-f32", about, 96, 10_000, 200_000, products2::<f32>);
    tape!("products3-f32", about, 160, 10_000, 200_000, products3::<f32>);
    tape!("products4-f32", about, 256, 10_000, 200_000, products4::<f32>);
    let sp = "IEEE special values (+-0, +-inf, NaN among small exact values; 1..3 hot positions per operand, scalar from the pool): scalar and element-wise forms (A*s, A/s, A+-s, compound, A+-B, A/B, mul_memberwise, -A) are bit-exact per element in both layouts (inf*0 = NaN: no shortcut may skip an element); all matrix/vector products equal the sum of products (NaN, infinities and finite values; the sign of a zero sum is free)";
    tape!("specials2-f64", sp, 48, 6_000, 200_000, specials2::<f64>);
    tape!("specials3-f64", sp, 64, 6_000, 200_000, specials3::<f64>);
    tape!("specials4-f64", sp, 96, 6_000, 200_000, specials4::<f64>);
    tape!("specials2-f32", sp, 48, 6_000, 200_000, specials2::<f32>);
    tape!("specials3-f32", sp, 64, 6_000, 200_000, specials3::<f32>);
    tape!("specials4-f32", sp, 96, 6_000, 200_000, specials4::<f32>);
    tape!("products-i64", "integer instantiation of all products (2 layouts, mixed), element-wise / and %", 64, 20_000, 400_000, products_int);
    let ew = "element-wise + - / % with matrix and scalar, negation, all compound assignments, on opaque terms: (i,j) == op(a[i][j], b[i][j])";
    tape!("elementwise2-sym", ew, 4, 2_000, 20_000, elementwise2);
    tape!("elementwise3-sym", ew, 4, 2_000, 20_000, elementwise3);
    tape!("elementwise4-sym", ew, 4, 2_000, 20_000, elementwise4);
    let m2 = "Vec4::mat2_{rows,cols}_{mul,adj_mul,mul_adj} vs A*B, adj(A)*B, A*adj(B) on 2x2 arrays";
    tape!("mat2-helpers-rat", m2, 32, 20_000, 400_000, mat2_helpers::<Rat>);
    tape!("mat2-helpers-f64", m2, 48, 10_000, 200_000, mat2_helpers::<f64>);
    checks.extend(sized::checks());
    checks.extend(structured::checks());
    tape!("mat2-helpers-u32", "the six Vec4-as-2x2 helpers on an UNSIGNED element type: whenever every entry of the true result (i128 model) is representable it must be returned -- no detour through a negated operand", 24, 20_000, 400_000, mat2_helpers_unsigned);
    Property {
        id: "C01",
        rule: "cases are byte tapes generated by proptest (uniform bytes, fixed seed) decoded to matrices/vectors/scalars with small rational or float entries; a case is non-trivial when both operands have >= 3 distinct non-zero entries, neither is symmetric and A*B != B*A (element-wise checks: all entries pairwise distinct opaque terms); distinct = distinct consumed tape prefix per check; sized-*: A, B non-symmetric, A*B != B*A and A*B non-symmetric for n = 2, 3 and 4 at once; structured-*: index-enumerated (size x position x structure kind x sub-position x variant), non-trivial when the structured operand(s) are neither identity nor zero, the generic operand is non-symmetric and the product differs from both operands",
        assumptions: &[
            "rustc and the proptest runner/shrinker are trusted",
            "vkit::refmath (sum-of-products, Leibniz determinant, adjugate) is the oracle; it never calls vek",
            "matrices are built and read through the public rows/cols fields (row-major: rows.x is row 0; column-major: cols.x is column 0)",
            "exact rational arithmetic (Rat over i128); cases that overflow i128 are discarded and counted",
        "sized-*: the element types are exact commutative rings (Z/251; wrapping integers; jets = value + partials with e_i e_j = 0 over wrapping integers), so the sum-of-products identity holds whatever the association / operand order or the use of mul_add; only A+B among the element-wise operators is run on them (they have no division)",
        "structured-*: floats are compared with 8 eps * n * max|L| * max|R| (any association order, with or without fma); the sign of a zero is not asserted",
        ],
        checks,
        max_discard_frac: 0.2,
    }
}
