fn main() {
    vkit::driver::main(c01::property())
}
