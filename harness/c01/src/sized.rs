//! C01, class "element size": every product form on exact commutative-ring element types of many sizes / alignments
//! (1 byte ... > 2 KiB), so that a code path selected by `size_of::<T>()` / `align_of::<T>()` is executed and judged.
//!
//! The element types only implement what the vek impls ask for (`Copy + Mul + MulAdd`, `Zero + Add` for `*=` and the
//! scalar product, `One` for `identity()`), plus `Sub`/`Neg`/`PartialEq`/`Default` for convenience.  All arithmetic is
//! exact in a commutative ring (Z/251, Z/2^w, and "jets" = Z/2^w[e_1..e_k]/(e_i e_j): a value and k partials), so the
//! polynomial identity "element (i,j) of A*B is the sum over k of A(i,k)*B(k,j)" must hold exactly, whatever the
//! association order, the operand order inside a product or the use of `mul_add`.

use num_traits::{MulAdd, One, Zero};
use std::fmt::{self, Debug};
use std::ops::{Add, Mul, Neg, Sub};
use vek::mat::repr_c::column_major as cm;
use vek::mat::repr_c::row_major as rm;
use vek::vec::repr_c::{Vec2, Vec3, Vec4};
use vkit::tape::mix64;
use vkit::vk::{self, MatN};
use vkit::*;

pub trait Elem: Copy + PartialEq + Debug + Add<Output = Self> + Mul<Output = Self> + MulAdd<Self, Self, Output = Self> + Zero + One + 'static {
    const NAME: &'static str;
    const SIZE: usize;
    const ALIGN: usize;
    const SIZE_LABEL: &'static str;
    /// returns the element and whether it carries full-range (wrapping) lanes
    fn gen(t: &mut Tape) -> (Self, bool);
}

/// The prime field Z/251 on one byte.
#[derive(Clone, Copy, PartialEq, Default)]
pub struct Z251(pub u8);
impl Debug for Z251 {
    fn fmt(&self, f: &mut fmt::Formatter) -> fmt::Result {
        write!(f, "{}", self.0)
    }
}
impl Add for Z251 {
    type Output = Self;
    fn add(self, o: Self) -> Self {
        Z251(((self.0 as u16 + o.0 as u16) % 251) as u8)
    }
}
impl Sub for Z251 {
    type Output = Self;
    fn sub(self, o: Self) -> Self {
        Z251(((self.0 as u16 + 251 - o.0 as u16) % 251) as u8)
    }
}
impl Neg for Z251 {
    type Output = Self;
    fn neg(self) -> Self {
        Z251(((251 - self.0 as u16) % 251) as u8)
    }
}
impl Mul for Z251 {
    type Output = Self;
    fn mul(self, o: Self) -> Self {
        Z251(((self.0 as u16 * o.0 as u16) % 251) as u8)
    }
}
impl MulAdd for Z251 {
    type Output = Self;
    fn mul_add(self, a: Self, b: Self) -> Self {
        self * a + b
    }
}
impl Zero for Z251 {
    fn zero() -> Self {
        Z251(0)
    }
    fn is_zero(&self) -> bool {
        self.0 == 0
    }
}
impl One for Z251 {
    fn one() -> Self {
        Z251(1)
    }
}
impl Elem for Z251 {
    const NAME: &'static str = "Z251(u8)";
    const SIZE: usize = 1;
    const ALIGN: usize = 1;
    const SIZE_LABEL: &'static str = "element size 1 byte";
    fn gen(t: &mut Tape) -> (Self, bool) {
        (Z251(t.u8() % 251), false)
    }
}

/// Jets over the wrapping integers `$B`: lane 0 is the value, lanes 1.. are partials;
/// (a0, a_i) * (b0, b_i) = (a0 b0, a0 b_i + b0 a_i): the commutative ring Z/2^w[e_1..]/(e_i e_j). One lane = Z/2^w.
macro_rules! jet {
    ($(#[$attr:meta])* $Name:ident, $B:ty, $K:expr, $size:expr, $align:expr, $label:expr) => {
        #[derive(Clone, Copy, PartialEq)]
        $(#[$attr])*
        pub struct $Name(pub [$B; $K]);
        impl Debug for $Name {
            fn fmt(&self, f: &mut fmt::Formatter) -> fmt::Result {
                // compact: the first lanes and a digest of the rest (a replay reproduces the full value)
                write!(f, "<")?;
                for i in 0..($K as usize).min(3) {
                    if i > 0 { write!(f, ",")?; }
                    write!(f, "{}", self.0[i])?;
                }
                if $K > 3 {
                    if self.0[3..].iter().all(|x| *x == 0) {
                        write!(f, ",0..")?;
                    } else {
                        let mut h = 0u64;
                        for i in 3..$K { h = mix64(h ^ self.0[i] as u64); }
                        write!(f, ",..#{:04x}", h & 0xffff)?;
                    }
                }
                write!(f, ">")
            }
        }
        impl Default for $Name {
            fn default() -> Self { $Name([0; $K]) }
        }
        impl Add for $Name {
            type Output = Self;
            fn add(self, o: Self) -> Self {
                let mut r = self;
                for i in 0..$K { r.0[i] = self.0[i].wrapping_add(o.0[i]); }
                r
            }
        }
        impl Sub for $Name {
            type Output = Self;
            fn sub(self, o: Self) -> Self {
                let mut r = self;
                for i in 0..$K { r.0[i] = self.0[i].wrapping_sub(o.0[i]); }
                r
            }
        }
        impl Neg for $Name {
            type Output = Self;
            fn neg(self) -> Self {
                let mut r = self;
                for i in 0..$K { r.0[i] = self.0[i].wrapping_neg(); }
                r
            }
        }
        impl Mul for $Name {
            type Output = Self;
            fn mul(self, o: Self) -> Self {
                let mut r = self;
                r.0[0] = self.0[0].wrapping_mul(o.0[0]);
                for i in 1..$K {
                    r.0[i] = self.0[0].wrapping_mul(o.0[i]).wrapping_add(o.0[0].wrapping_mul(self.0[i]));
                }
                r
            }
        }
        impl MulAdd for $Name {
            type Output = Self;
            fn mul_add(self, a: Self, b: Self) -> Self { self * a + b }
        }
        impl Zero for $Name {
            fn zero() -> Self { $Name([0; $K]) }
            fn is_zero(&self) -> bool { self.0.iter().all(|x| *x == 0) }
        }
        impl One for $Name {
            fn one() -> Self { let mut r = [0 as $B; $K]; r[0] = 1; $Name(r) }
        }
        impl Elem for $Name {
            const NAME: &'static str = stringify!($Name);
            const SIZE: usize = $size;
            const ALIGN: usize = $align;
            const SIZE_LABEL: &'static str = $label;
            fn gen(t: &mut Tape) -> (Self, bool) {
                let (b0, b1) = (t.u8(), t.u8());
                let mut r = [0 as $B; $K];
                if b0 == 0 && b1 == 0 {
                    return ($Name(r), false);
                }
                let wide = b1 >= 250;
                let seed = (((b1 as u64) << 8 | b0 as u64) + 1).wrapping_mul(0x1_0000_0001);
                r[0] = if wide { mix64(seed) as i64 as $B } else { ((b0 as i8) / 10) as i64 as $B };
                for i in 1..$K {
                    let h = mix64(seed.wrapping_add(i as u64));
                    r[i] = if wide { h as i64 as $B } else { ((h >> 59) as i64 - 16) as $B };
                }
                ($Name(r), wide)
            }
        }
    };
}

jet!(W8, u8, 1, 1, 1, "element size 1 byte");
jet!(W16, u16, 1, 2, 2, "element size 2..8 bytes");
jet!(J8x3, u8, 3, 3, 1, "element size 2..8 bytes");
jet!(W32, u32, 1, 4, 4, "element size 2..8 bytes");
jet!(J64x1, i64, 1, 8, 8, "element size 2..8 bytes");
jet!(J32x3, i32, 3, 12, 4, "element size 9..32 bytes");
jet!(J64x2, i64, 2, 16, 8, "element size 9..32 bytes");
jet!(J64x3, i64, 3, 24, 8, "element size 9..32 bytes");
jet!(J64x4, i64, 4, 32, 8, "element size 9..32 bytes");
jet!(#[repr(align(32))] A32W8, u8, 1, 32, 32, "element size 9..32 bytes");
jet!(J64x5, i64, 5, 40, 8, "element size 33..64 bytes");
jet!(J64x8, i64, 8, 64, 8, "element size 33..64 bytes");
jet!(J64x9, i64, 9, 72, 8, "element size 65..128 bytes");
jet!(J64x16, i64, 16, 128, 8, "element size 65..128 bytes");
jet!(J64x17, i64, 17, 136, 8, "element size 129..512 bytes");
jet!(J64x33, i64, 33, 264, 8, "element size 129..512 bytes");
jet!(J64x64, i64, 64, 512, 8, "element size 129..512 bytes");
jet!(J64x65, i64, 65, 520, 8, "element size > 512 bytes");
jet!(#[repr(align(64))] A64J64x65, i64, 65, 576, 64, "element size > 512 bytes");
jet!(J64x257, i64, 257, 2056, 8, "element size > 512 bytes");
jet!(J64x520, i64, 520, 4160, 8, "element size > 512 bytes");

// ---- the oracle: sums of products on plain arrays (Zero + Add + Mul only; no mul_add, no vek)
fn mm<E: Elem, const N: usize>(a: &[[E; N]; N], b: &[[E; N]; N]) -> [[E; N]; N] {
    let mut r = [[E::zero(); N]; N];
    for i in 0..N {
        for j in 0..N {
            let mut acc = E::zero();
            for k in 0..N {
                acc = acc + a[i][k] * b[k][j];
            }
            r[i][j] = acc;
        }
    }
    r
}
fn mv<E: Elem, const N: usize>(a: &[[E; N]; N], v: &[E; N]) -> [E; N] {
    let mut r = [E::zero(); N];
    for i in 0..N {
        let mut acc = E::zero();
        for k in 0..N {
            acc = acc + a[i][k] * v[k];
        }
        r[i] = acc;
    }
    r
}
fn vm<E: Elem, const N: usize>(v: &[E; N], a: &[[E; N]; N]) -> [E; N] {
    let mut r = [E::zero(); N];
    for j in 0..N {
        let mut acc = E::zero();
        for k in 0..N {
            acc = acc + v[k] * a[k][j];
        }
        r[j] = acc;
    }
    r
}
fn tr<E: Copy, const N: usize>(a: &[[E; N]; N]) -> [[E; N]; N] {
    let mut r = *a;
    for i in 0..N {
        for j in 0..N {
            r[i][j] = a[j][i];
        }
    }
    r
}
fn block<E: Elem, const N: usize>(a: &[[E; 4]; 4]) -> [[E; N]; N] {
    let mut r = [[E::zero(); N]; N];
    for i in 0..N {
        for j in 0..N {
            r[i][j] = a[i][j];
        }
    }
    r
}

/// Exact comparison of two matrices / vectors of ring elements; the message names the first differing element.
macro_rules! eq_mat {
    ($cx:expr, $got:expr, $want:expr, $($arg:tt)*) => {{
        $cx.count();
        let (g, w) = ($got, $want);
        if g != w {
            let n = g.len();
            let (i, j) = (0..n * n).map(|k| (k / n, k % n)).find(|&(i, j)| g[i][j] != w[i][j]).unwrap();
            return Err(Fail::Violation(format!("{}: element ({},{}) is {:?}, the sum of products is {:?}\n got  {:?}\n want {:?}", format!($($arg)*), i, j, g[i][j], w[i][j], g, w)));
        }
    }};
}
macro_rules! eq_vec {
    ($cx:expr, $got:expr, $want:expr, $($arg:tt)*) => {{
        $cx.count();
        let (g, w) = ($got, $want);
        if g != w {
            let i = (0..g.len()).find(|&i| g[i] != w[i]).unwrap();
            return Err(Fail::Violation(format!("{}: element {} is {:?}, the sum of products is {:?}\n got  {:?}\n want {:?}", format!($($arg)*), i, g[i], w[i], g, w)));
        }
    }};
}

macro_rules! sized_n {
    ($fname:ident, $N:expr, $Mat:ident, $Vec:ident, $va:path, $av:path) => {
        /// returns whether the operands are non-trivial (non-symmetric, non-commuting)
        fn $fname<E: Elem>(a4: &[[E; 4]; 4], b4: &[[E; 4]; 4], v4: &[E; 4], s: E, cx: &mut Cx) -> Result<bool, Fail> {
            const N: usize = $N;
            let a: [[E; N]; N] = block(a4);
            let b: [[E; N]; N] = block(b4);
            let mut v = [E::zero(); N];
            v.copy_from_slice(&v4[..N]);
            let (ra, rb) = (rm::$Mat::<E>::from_arr(&a), rm::$Mat::<E>::from_arr(&b));
            let (ca, cb) = (cm::$Mat::<E>::from_arr(&a), cm::$Mat::<E>::from_arr(&b));
            let vv: $Vec<E> = $va(&v);
            let (ab, ba) = (mm(&a, &b), mm(&b, &a));
            let e = E::NAME;
            // matrix * matrix: four layout pairs, both orders
            eq_mat!(cx, (ra * rb).to_arr(), ab, "{} n={} row*row", e, N);
            eq_mat!(cx, (ca * cb).to_arr(), ab, "{} n={} col*col", e, N);
            eq_mat!(cx, (ra * cb).to_arr(), ab, "{} n={} row*col (-> col)", e, N);
            eq_mat!(cx, (ca * rb).to_arr(), ab, "{} n={} col*row (-> row)", e, N);
            eq_mat!(cx, (rb * ra).to_arr(), ba, "{} n={} row*row (B*A)", e, N);
            eq_mat!(cx, (cb * ca).to_arr(), ba, "{} n={} col*col (B*A)", e, N);
            eq_mat!(cx, (rb * ca).to_arr(), ba, "{} n={} row*col (B*A)", e, N);
            eq_mat!(cx, (cb * ra).to_arr(), ba, "{} n={} col*row (B*A)", e, N);
            // compound assignment
            let mut m = ra;
            m *= rb;
            eq_mat!(cx, m.to_arr(), ab, "{} n={} row A*=B", e, N);
            let mut m = ca;
            m *= cb;
            eq_mat!(cx, m.to_arr(), ab, "{} n={} col A*=B", e, N);
            let mut m = rb;
            m *= ra;
            eq_mat!(cx, m.to_arr(), ba, "{} n={} row B*=A", e, N);
            let mut m = cb;
            m *= ca;
            eq_mat!(cx, m.to_arr(), ba, "{} n={} col B*=A", e, N);
            // matrix * column vector, row vector * matrix, with both matrices
            eq_vec!(cx, $av(&(ra * vv)), mv(&a, &v), "{} n={} row-major A*v", e, N);
            eq_vec!(cx, $av(&(ca * vv)), mv(&a, &v), "{} n={} col-major A*v", e, N);
            eq_vec!(cx, $av(&(vv * ra)), vm(&v, &a), "{} n={} v*row-major A", e, N);
            eq_vec!(cx, $av(&(vv * ca)), vm(&v, &a), "{} n={} v*col-major A", e, N);
            eq_vec!(cx, $av(&(rb * vv)), mv(&b, &v), "{} n={} row-major B*v", e, N);
            eq_vec!(cx, $av(&(cb * vv)), mv(&b, &v), "{} n={} col-major B*v", e, N);
            eq_vec!(cx, $av(&(vv * rb)), vm(&v, &b), "{} n={} v*row-major B", e, N);
            eq_vec!(cx, $av(&(vv * cb)), vm(&v, &b), "{} n={} v*col-major B", e, N);
            // identity is neutral (same and mixed layouts, vectors)
            let mut id = [[E::zero(); N]; N];
            for i in 0..N {
                id[i][i] = E::one();
            }
            let (ri, ci) = (rm::$Mat::<E>::identity(), cm::$Mat::<E>::identity());
            eq_mat!(cx, ri.to_arr(), id, "{} n={} row identity()", e, N);
            eq_mat!(cx, ci.to_arr(), id, "{} n={} col identity()", e, N);
            eq_mat!(cx, (ra * ri).to_arr(), a, "{} n={} row A*I", e, N);
            eq_mat!(cx, (ri * ra).to_arr(), a, "{} n={} row I*A", e, N);
            eq_mat!(cx, (ca * ci).to_arr(), a, "{} n={} col A*I", e, N);
            eq_mat!(cx, (ci * ca).to_arr(), a, "{} n={} col I*A", e, N);
            eq_mat!(cx, (ra * ci).to_arr(), a, "{} n={} row A * col I", e, N);
            eq_mat!(cx, (ri * ca).to_arr(), a, "{} n={} row I * col A", e, N);
            eq_mat!(cx, (ca * ri).to_arr(), a, "{} n={} col A * row I", e, N);
            eq_mat!(cx, (ci * ra).to_arr(), a, "{} n={} col I * row A", e, N);
            eq_vec!(cx, $av(&(ri * vv)), v, "{} n={} row I*v", e, N);
            eq_vec!(cx, $av(&(ci * vv)), v, "{} n={} col I*v", e, N);
            eq_vec!(cx, $av(&(vv * ri)), v, "{} n={} v*row I", e, N);
            eq_vec!(cx, $av(&(vv * ci)), v, "{} n={} v*col I", e, N);
            // scalar product, memberwise product, sum: per element
            let (mut as_, mut had, mut sum) = (a, a, a);
            for i in 0..N {
                for j in 0..N {
                    as_[i][j] = a[i][j] * s;
                    had[i][j] = a[i][j] * b[i][j];
                    sum[i][j] = a[i][j] + b[i][j];
                }
            }
            eq_mat!(cx, (ra * s).to_arr(), as_, "{} n={} row A*s", e, N);
            eq_mat!(cx, (ca * s).to_arr(), as_, "{} n={} col A*s", e, N);
            let mut m = ra;
            m *= s;
            eq_mat!(cx, m.to_arr(), as_, "{} n={} row A*=s", e, N);
            let mut m = ca;
            m *= s;
            eq_mat!(cx, m.to_arr(), as_, "{} n={} col A*=s", e, N);
            eq_mat!(cx, ra.mul_memberwise(rb).to_arr(), had, "{} n={} row mul_memberwise", e, N);
            eq_mat!(cx, ca.mul_memberwise(cb).to_arr(), had, "{} n={} col mul_memberwise", e, N);
            eq_mat!(cx, (ra + rb).to_arr(), sum, "{} n={} row A+B", e, N);
            eq_mat!(cx, (ca + cb).to_arr(), sum, "{} n={} col A+B", e, N);
            Ok(a != tr(&a) && b != tr(&b) && ab != ba && ab != tr(&ab))
        }
    };
}
sized_n!(sized2, 2, Mat2, Vec2, vk::v2, vk::a2);
sized_n!(sized3, 3, Mat3, Vec3, vk::v3, vk::a3);
sized_n!(sized4, 4, Mat4, Vec4, vk::v4, vk::a4);

fn sized_case<E: Elem>(t: &mut Tape, cx: &mut Cx) -> CaseResult {
    // the harness's own claim about the type under test
    check!(cx, std::mem::size_of::<E>() == E::SIZE && std::mem::align_of::<E>() == E::ALIGN, "harness: {} has size {} align {}, declared {} / {}", E::NAME, std::mem::size_of::<E>(), std::mem::align_of::<E>(), E::SIZE, E::ALIGN);
    cx.label(E::SIZE_LABEL);
    if E::ALIGN > 16 {
        cx.label("over-aligned element (align >= 32)");
    }
    let mut wide = false;
    let mut g = |t: &mut Tape| {
        let (x, w) = E::gen(t);
        wide |= w;
        x
    };
    let mut a = [[E::zero(); 4]; 4];
    let mut b = [[E::zero(); 4]; 4];
    let mut v = [E::zero(); 4];
    for i in 0..4 {
        for j in 0..4 {
            a[i][j] = g(t);
            b[i][j] = g(t);
        }
        v[i] = g(t);
    }
    let s = g(t);
    if wide {
        cx.label("full-range (wrapping) lanes present");
    }
    sample!(cx, "{} ({} bytes, align {}) A={:?} B={:?} v={:?} s={:?}", E::NAME, E::SIZE, E::ALIGN, a, b, v, s);
    let n2 = sized2::<E>(&a, &b, &v, s, cx)?;
    let n3 = sized3::<E>(&a, &b, &v, s, cx)?;
    let n4 = sized4::<E>(&a, &b, &v, s, cx)?;
    cx.set_nontrivial(n2 && n3 && n4);
    Ok(())
}

pub fn checks() -> Vec<Check> {
    let about = "element types of many sizes / alignments (exact commutative rings: Z/251, Z/2^w, jets with up to 519 partials; 1 B ... 4 KiB, align up to 64): every product form -- M*M in the four layout pairs (both orders), A*=B, M*v, v*M, identity neutral (same and mixed layout), A*s, A*=s, mul_memberwise, A+B -- for n = 2, 3, 4 (upper-left blocks of one 4x4 pair) equals the sums of products computed on plain arrays";
    let mut out = Vec::new();
    macro_rules! add {
        ($name:expr, $E:ty, $q:expr, $th:expr) => {
            out.push(Check { name: $name, about, kind: Kind::Tape { len: 80, quick: $q, thorough: $th, f: sized_case::<$E> } });
        };
    }
    add!("sized-z251-1B", Z251, 400, 20_000);
    add!("sized-w8-1B", W8, 400, 20_000);
    add!("sized-w16-2B", W16, 300, 20_000);
    add!("sized-j8x3-3B", J8x3, 300, 20_000);
    add!("sized-w32-4B", W32, 300, 20_000);
    add!("sized-j64x1-8B", J64x1, 300, 20_000);
    add!("sized-j32x3-12B", J32x3, 300, 20_000);
    add!("sized-j64x2-16B", J64x2, 300, 20_000);
    add!("sized-j64x3-24B", J64x3, 300, 20_000);
    add!("sized-j64x4-32B", J64x4, 300, 20_000);
    add!("sized-w8-align32-32B", A32W8, 300, 20_000);
    add!("sized-j64x5-40B", J64x5, 300, 20_000);
    add!("sized-j64x8-64B", J64x8, 300, 20_000);
    add!("sized-j64x9-72B", J64x9, 300, 20_000);
    add!("sized-j64x16-128B", J64x16, 300, 20_000);
    add!("sized-j64x17-136B", J64x17, 300, 20_000);
    add!("sized-j64x33-264B", J64x33, 200, 10_000);
    add!("sized-j64x64-512B", J64x64, 200, 10_000);
    add!("sized-j64x65-520B", J64x65, 200, 10_000);
    add!("sized-j64x65-align64-576B", A64J64x65, 200, 10_000);
    add!("sized-j64x257-2056B", J64x257, 100, 4_000);
    add!("sized-j64x520-4160B", J64x520, 48, 2_000);
    out
}
