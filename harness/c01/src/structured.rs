//! C01, class "value-keyed fast paths": products in which one operand (left or right, or both) has a special exact
//! structure -- the kind of structure an optimised implementation tests for (`if rhs.rows.w == (0,0,0,1)`,
//! `if m is a plane rotation`, `if only one entry is non-zero` ...) -- while the other operand is dense and
//! non-symmetric.  The family is ENUMERATED: index = (size, position, structure kind, sub-position, variant); the low
//! digits (size x position x kind x sub-position) are covered completely by any run of >= LOW consecutive sample
//! steps (the sampled indices form an arithmetic progression with a stride coprime to the total), the variant digit
//! seeds the values.  Every case runs ALL forms: the four layout pairs of `L * R`, `L *= R` in both layouts, and
//! matrix * vector / vector * matrix in both layouts with both operands and the special vectors (every unit axis,
//! w = 0, w = 1, zero, a 0/1/-1 vector, a generic vector).

use num_traits::{MulAdd, One, Zero};
use std::fmt::Debug;
use std::ops::{Neg, Sub};
use vek::mat::repr_c::column_major as cm;
use vek::mat::repr_c::row_major as rm;
use vek::vec::repr_c::{Vec2, Vec3, Vec4};
use vkit::refmath as rf;
use vkit::tape::mix64;
use vkit::vk::{self, MatN};
use vkit::*;

/// Scalar domains of this module: Rat, i64 (exact), f64, f32 (tolerance derived from the operation count).
pub trait BDom: Copy + Zero + One + Sub<Output = Self> + Neg<Output = Self> + PartialEq + Debug + MulAdd<Self, Self, Output = Self> + 'static {
    const NAME: &'static str;
    fn from_i(n: i64) -> Self;
    /// a generic value of moderate magnitude (may be zero)
    fn generic(t: &mut Tape) -> Self;
    /// (c, s) of a rotation that is not a quarter turn (i64: a similarity, c^2 + s^2 = h^2)
    fn rot(t: &mut Tape) -> (Self, Self);
    /// a 3D rotation matrix from a quaternion (i64: times |q|^2, so that it stays integral)
    fn rot3(t: &mut Tape) -> [[Self; 3]; 3];
    fn mag(self) -> f64;
    fn close(cx: &mut Cx, got: Self, want: Self, scale: f64) -> bool;
}

const PYTH: [(i64, i64, i64); 4] = [(3, 4, 5), (5, 12, 13), (8, 15, 17), (7, 24, 25)];
fn pyth(t: &mut Tape) -> (i64, i64, i64) {
    let (a, b, h) = PYTH[t.below(4)];
    let (a, b) = if t.bool() { (b, a) } else { (a, b) };
    (if t.bool() { -a } else { a }, if t.bool() { -b } else { b }, h)
}
/// integer quaternion -> |q|^2 * R (integral), and |q|^2
fn quat_int(t: &mut Tape) -> ([[i64; 3]; 3], i64) {
    let mut q = [t.int(-3, 3), t.int(-3, 3), t.int(-3, 3), t.int(-3, 3)];
    if q[1] == 0 && q[2] == 0 && q[3] == 0 {
        q[1] = 1;
        q[2] = 2;
    }
    let [w, x, y, z] = q;
    let n = w * w + x * x + y * y + z * z;
    (
        [
            [w * w + x * x - y * y - z * z, 2 * (x * y - w * z), 2 * (x * z + w * y)],
            [2 * (x * y + w * z), w * w - x * x + y * y - z * z, 2 * (y * z - w * x)],
            [2 * (x * z - w * y), 2 * (y * z + w * x), w * w - x * x - y * y + z * z],
        ],
        n,
    )
}

impl BDom for Rat {
    const NAME: &'static str = "Rat";
    fn from_i(n: i64) -> Rat {
        Rat::int(n)
    }
    fn generic(t: &mut Tape) -> Rat {
        <Rat as Dom>::small(t, 9)
    }
    fn rot(t: &mut Tape) -> (Rat, Rat) {
        let (a, b, h) = pyth(t);
        (Rat::frac(a, h), Rat::frac(b, h))
    }
    fn rot3(t: &mut Tape) -> [[Rat; 3]; 3] {
        let (m, n) = quat_int(t);
        let mut r = [[Rat::int(0); 3]; 3];
        for i in 0..3 {
            for j in 0..3 {
                r[i][j] = Rat::frac(m[i][j], n);
            }
        }
        r
    }
    fn mag(self) -> f64 {
        self.to_f64_lossy().abs()
    }
    fn close(cx: &mut Cx, got: Rat, want: Rat, _scale: f64) -> bool {
        cx.count();
        got == want
    }
}
impl BDom for i64 {
    const NAME: &'static str = "i64";
    fn from_i(n: i64) -> i64 {
        n
    }
    fn generic(t: &mut Tape) -> i64 {
        t.int(-20, 20)
    }
    fn rot(t: &mut Tape) -> (i64, i64) {
        let (a, b, _) = pyth(t);
        (a, b)
    }
    fn rot3(t: &mut Tape) -> [[i64; 3]; 3] {
        quat_int(t).0
    }
    fn mag(self) -> f64 {
        (self as f64).abs()
    }
    fn close(cx: &mut Cx, got: i64, want: i64, _scale: f64) -> bool {
        cx.count();
        got == want
    }
}
macro_rules! bdom_float {
    ($F:ident, $name:expr) => {
        impl BDom for $F {
            const NAME: &'static str = $name;
            fn from_i(n: i64) -> $F {
                n as $F
            }
            fn generic(t: &mut Tape) -> $F {
                // half of the values are dyadic with few bits (every product and sum exact), half continuous
                if t.bool() {
                    t.int(-64, 64) as $F / 8.0
                } else {
                    t.range_f64(-9.0, 9.0) as $F
                }
            }
            fn rot(t: &mut Tape) -> ($F, $F) {
                let a = t.range_f64(-6.2, 6.2);
                (a.cos() as $F, a.sin() as $F)
            }
            fn rot3(t: &mut Tape) -> [[$F; 3]; 3] {
                let (m, n) = quat_int(t);
                let mut r = [[0.0; 3]; 3];
                for i in 0..3 {
                    for j in 0..3 {
                        r[i][j] = m[i][j] as $F / n as $F;
                    }
                }
                r
            }
            fn mag(self) -> f64 {
                (self as f64).abs()
            }
            fn close(cx: &mut Cx, got: $F, want: $F, scale: f64) -> bool {
                // n <= 4 products and 3 additions per element, any association order, with or without fma:
                // |error| <= 4 ulp of the largest partial sum <= 4 eps * n * max|L| * max|R|; 8 is generous
                vkit::dom::close::<$F>(cx, got, want, scale, 8.0)
            }
        }
    };
}
bdom_float!(f64, "f64");
bdom_float!(f32, "f32");

pub const KIND_NAMES: [&str; 26] = [
    "S: identity + plane block, integer quarter turn",
    "S: identity + plane block, rotation (not a quarter turn)",
    "S: identity + plane block, shear",
    "S: identity + plane block, non-uniform scaling",
    "S: identity + plane block, arbitrary non-symmetric 2x2",
    "S: elementary, identity + one off-diagonal entry",
    "S: elementary, row swap",
    "S: elementary, one scaled row",
    "S: exactly affine (last row 0..0 1)",
    "S: exactly linear (last row and last column 0..0 1)",
    "S: last column 0..0 1 (transposed affine)",
    "S: block-diagonal (2+2, 1+3, 3+1 / 2+1, 1+2 / 1+1)",
    "S: rank one (u v^T)",
    "S: exactly one non-zero entry",
    "S: all entries in {0, 1, -1}",
    "S: translation (identity + last column)",
    "S: identity + last row (transposed translation)",
    "S: uniform scaling with last diagonal entry 1",
    "S: diagonal of +-1 (reflection)",
    "S: permutation matrix",
    "S: identity except a dense last row (projective)",
    "S: strictly triangular (nilpotent)",
    "S: skew-symmetric",
    "S: 3D rotation from a quaternion, embedded",
    "S: diagonal (non-uniform scaling of all axes)",
    "S: constant matrix (all entries equal)",
];
const KINDS: usize = KIND_NAMES.len();
const SUBS: usize = 18;
const POS_NAMES: [&str; 4] = ["position: structured * generic", "position: generic * structured", "position: structured * structured (same kind)", "position: structured * structured (different kinds)"];
const SIZE_NAMES: [&str; 3] = ["n = 2", "n = 3", "n = 4"];
/// size x position x kind x sub-position
pub const LOW: u64 = (3 * 4 * KINDS * SUBS) as u64;
pub const VARIANTS: u64 = 64;

/// non-zero generic value
fn nz<S: BDom>(t: &mut Tape) -> S {
    let x = S::generic(t);
    if x == S::zero() {
        S::from_i(1 + t.below(5) as i64)
    } else {
        x
    }
}
/// non-zero generic value different from one
fn nz1<S: BDom>(t: &mut Tape) -> S {
    let x = nz::<S>(t);
    if x == S::one() {
        S::from_i(-2)
    } else {
        x
    }
}

/// Dense (all entries non-zero), non-symmetric generic operand.
fn dense<S: BDom, const N: usize>(t: &mut Tape) -> [[S; N]; N] {
    let mut m = [[S::zero(); N]; N];
    for i in 0..N {
        for j in 0..N {
            m[i][j] = nz(t);
        }
    }
    if m[0][1] == m[1][0] {
        m[0][1] = m[0][1] + S::one();
        if m[0][1] == S::zero() {
            m[0][1] = S::from_i(2);
        }
    }
    m
}

/// The structured operand of kind `kind`; `sub` enumerates the position-like parameter (plane, entry, row pair...).
fn build<S: BDom, const N: usize>(kind: usize, sub: usize, t: &mut Tape) -> [[S; N]; N] {
    let (o, l) = (S::zero(), S::one());
    let mut m: [[S; N]; N] = rf::identity();
    let mut planes = Vec::new();
    let mut offdiag = Vec::new();
    for p in 0..N {
        for q in 0..N {
            if p < q {
                planes.push((p, q));
            }
            if p != q {
                offdiag.push((p, q));
            }
        }
    }
    let (p, q) = planes[sub % planes.len()];
    let set_block = |m: &mut [[S; N]; N], b: [[S; 2]; 2]| {
        m[p][p] = b[0][0];
        m[p][q] = b[0][1];
        m[q][p] = b[1][0];
        m[q][q] = b[1][1];
    };
    match kind {
        0 => {
            let (c, s) = [(o, l), (-l, o), (o, -l)][(sub / planes.len()) % 3];
            set_block(&mut m, [[c, -s], [s, c]]);
        }
        1 => {
            let (c, s) = S::rot(t);
            set_block(&mut m, [[c, -s], [s, c]]);
        }
        2 => {
            let k = nz::<S>(t);
            if (sub / planes.len()) % 2 == 0 {
                set_block(&mut m, [[l, k], [o, l]]);
            } else {
                set_block(&mut m, [[l, o], [k, l]]);
            }
        }
        3 => {
            let a = nz1::<S>(t);
            let mut b = nz1::<S>(t);
            if a == b {
                b = a + S::one();
                if b == S::zero() || b == S::one() {
                    b = S::from_i(3);
                }
            }
            set_block(&mut m, [[a, o], [o, b]]);
        }
        4 => {
            let (a, b, mut c, d) = (nz::<S>(t), nz::<S>(t), nz::<S>(t), nz::<S>(t));
            if b == c {
                c = c + S::one();
                if c == S::zero() {
                    c = S::from_i(2);
                }
            }
            set_block(&mut m, [[a, b], [c, d]]);
        }
        5 => {
            let (i, j) = offdiag[sub % offdiag.len()];
            m[i][j] = nz(t);
        }
        6 => {
            m[p][p] = o;
            m[q][q] = o;
            m[p][q] = l;
            m[q][p] = l;
        }
        7 => {
            let i = sub % N;
            m[i][i] = nz1(t);
        }
        8 => {
            for i in 0..N - 1 {
                for j in 0..N {
                    m[i][j] = nz(t);
                }
            }
        }
        9 => {
            for i in 0..N - 1 {
                for j in 0..N - 1 {
                    m[i][j] = nz(t);
                }
            }
        }
        10 => {
            for i in 0..N {
                for j in 0..N - 1 {
                    m[i][j] = nz(t);
                }
            }
        }
        11 => {
            let split = match N {
                4 => [2, 2, 1, 3][sub % 4],
                3 => [2, 1][sub % 2],
                _ => 1,
            };
            for i in 0..N {
                for j in 0..N {
                    m[i][j] = if (i < split) == (j < split) { nz(t) } else { o };
                }
            }
        }
        12 => {
            let mut u = [o; N];
            let mut v = [o; N];
            for i in 0..N {
                u[i] = nz(t);
                v[i] = nz(t);
            }
            for i in 0..N {
                for j in 0..N {
                    m[i][j] = u[i] * v[j];
                }
            }
        }
        13 => {
            m = [[o; N]; N];
            let (i, j) = ((sub / N) % N, sub % N);
            m[i][j] = if t.bool() { l } else { nz(t) };
        }
        14 => {
            for i in 0..N {
                for j in 0..N {
                    m[i][j] = [o, l, -l, l, -l][t.below(5)];
                }
            }
        }
        15 => {
            for i in 0..N - 1 {
                m[i][N - 1] = nz(t);
            }
        }
        16 => {
            for j in 0..N - 1 {
                m[N - 1][j] = nz(t);
            }
        }
        17 => {
            let s = nz1::<S>(t);
            for i in 0..N - 1 {
                m[i][i] = s;
            }
        }
        18 => {
            let bits = (sub % ((1 << N) - 1)) + 1;
            for i in 0..N {
                if bits >> i & 1 == 1 {
                    m[i][i] = -l;
                }
            }
        }
        19 => {
            // the (sub + 18 * bit)-th permutation in Lehmer order, never the identity
            let mut nfact = 1;
            for i in 2..=N {
                nfact *= i;
            }
            let mut code = 1 + (sub + if t.bool() { SUBS } else { 0 }) % (nfact - 1);
            let mut avail: Vec<usize> = (0..N).collect();
            let mut f = nfact;
            m = [[o; N]; N];
            for i in 0..N {
                f /= N - i;
                let k = code / f;
                code %= f;
                m[i][avail.remove(k)] = l;
            }
        }
        20 => {
            for j in 0..N {
                m[N - 1][j] = nz(t);
            }
        }
        21 => {
            let upper = sub % 2 == 0;
            for i in 0..N {
                for j in 0..N {
                    m[i][j] = if (upper && i < j) || (!upper && i > j) { nz(t) } else { o };
                }
            }
        }
        22 => {
            for i in 0..N {
                m[i][i] = o;
                for j in i + 1..N {
                    let x = nz::<S>(t);
                    m[i][j] = x;
                    m[j][i] = -x;
                }
            }
        }
        23 => {
            if N >= 3 {
                let r = S::rot3(t);
                for i in 0..3 {
                    for j in 0..3 {
                        m[i][j] = r[i][j];
                    }
                }
            } else {
                let (c, s) = S::rot(t);
                set_block(&mut m, [[c, -s], [s, c]]);
            }
        }
        24 => {
            for i in 0..N {
                m[i][i] = nz1::<S>(t) + S::from_i(i as i64 * 20);
            }
        }
        _ => {
            let c = nz1::<S>(t);
            m = [[c; N]; N];
        }
    }
    m
}

fn mat_mag<S: BDom, const N: usize>(m: &[[S; N]; N]) -> f64 {
    m.iter().flatten().fold(1.0f64, |a, x| a.max(x.mag()))
}
fn first_diff_mat<S: BDom, const N: usize>(cx: &mut Cx, got: &[[S; N]; N], want: &[[S; N]; N], sc: f64) -> Option<(usize, usize)> {
    for i in 0..N {
        for j in 0..N {
            if !S::close(cx, got[i][j], want[i][j], sc) {
                return Some((i, j));
            }
        }
    }
    None
}
fn first_diff_vec<S: BDom, const N: usize>(cx: &mut Cx, got: &[S; N], want: &[S; N], sc: f64) -> Option<usize> {
    (0..N).find(|&i| !S::close(cx, got[i], want[i], sc))
}

macro_rules! structured_n {
    ($fname:ident, $N:expr, $Mat:ident, $Vec:ident, $va:path, $av:path) => {
        fn $fname<S: BDom>(pos: usize, kind: usize, sub: usize, t: &mut Tape, cx: &mut Cx) -> CaseResult {
            const N: usize = $N;
            let kind2 = if pos == 3 { (kind + 1 + t.below(KINDS - 1)) % KINDS } else { kind };
            let sub2 = t.below(SUBS);
            let s1: [[S; N]; N] = build(kind, sub, t);
            let s2: [[S; N]; N] = build(kind2, sub2, t);
            let g: [[S; N]; N] = dense(t);
            let (l, r) = match pos {
                0 => (s1, g),
                1 => (g, s1),
                _ => (s1, s2),
            };
            if pos == 3 {
                cx.label(KIND_NAMES[kind2]);
            }
            let lr = rf::matmul(&l, &r);
            let id: [[S; N]; N] = rf::identity();
            let zero = [[S::zero(); N]; N];
            cx.set_nontrivial(s1 != id && s1 != zero && g != rf::transpose(&g) && lr != l && lr != r && (pos < 2 || (s2 != id && s2 != zero)));
            sample!(cx, "{} n={} {} / {}: L={:?} R={:?}", S::NAME, N, KIND_NAMES[kind], POS_NAMES[pos], l, r);
            let sc = N as f64 * mat_mag(&l) * mat_mag(&r);
            let (rl, rr) = (rm::$Mat::<S>::from_arr(&l), rm::$Mat::<S>::from_arr(&r));
            let (cl, cr) = (cm::$Mat::<S>::from_arr(&l), cm::$Mat::<S>::from_arr(&r));
            macro_rules! mat_is {
                ($what:expr, $got:expr) => {{
                    let got: [[S; N]; N] = $got;
                    if let Some((i, j)) = first_diff_mat(cx, &got, &lr, sc) {
                        fail!("{} n={} [{} / {}] {}: element ({},{}) is {:?}, the sum of products is {:?}\n L = {:?}\n R = {:?}\n got  {:?}\n want {:?}", S::NAME, N, KIND_NAMES[kind], POS_NAMES[pos], $what, i, j, got[i][j], lr[i][j], l, r, got, lr);
                    }
                }};
            }
            mat_is!("row * row", (rl * rr).to_arr());
            mat_is!("col * col", (cl * cr).to_arr());
            mat_is!("row * col (-> col)", (rl * cr).to_arr());
            mat_is!("col * row (-> row)", (cl * rr).to_arr());
            mat_is!("row L *= R", { let mut m = rl; m *= rr; m.to_arr() });
            mat_is!("col L *= R", { let mut m = cl; m *= cr; m.to_arr() });
            // vectors: every unit axis, w = 0, w = 1, zero, signs, generic
            let mut vecs: Vec<([S; N], &'static str)> = Vec::new();
            for k in 0..N {
                let mut e = [S::zero(); N];
                e[k] = S::one();
                vecs.push((e, "unit axis"));
            }
            let mut w0 = [S::zero(); N];
            let mut sg = [S::zero(); N];
            let mut ge = [S::zero(); N];
            for k in 0..N {
                w0[k] = nz(t);
                sg[k] = [S::zero(), S::one(), -S::one()][t.below(3)];
                ge[k] = nz(t);
            }
            let mut w1 = w0;
            w0[N - 1] = S::zero();
            w1[N - 1] = S::one();
            vecs.push((w0, "vector with last = 0"));
            vecs.push((w1, "vector with last = 1"));
            vecs.push(([S::zero(); N], "zero vector"));
            vecs.push((sg, "0/1/-1 vector"));
            vecs.push((ge, "generic vector"));
            for (m, mname) in [(&l, "L"), (&r, "R")] {
                let (rmm, cmm) = (rm::$Mat::<S>::from_arr(m), cm::$Mat::<S>::from_arr(m));
                let mm_ = mat_mag(m);
                for (v, vname) in vecs.iter() {
                    let vv: $Vec<S> = $va(v);
                    let scv = N as f64 * mm_ * v.iter().fold(1.0f64, |a, x| a.max(x.mag()));
                    let (mv, vm) = (rf::matvec(m, v), rf::vecmat(v, m));
                    for (what, got, want) in [("row-major M * v", $av(&(rmm * vv)), mv), ("col-major M * v", $av(&(cmm * vv)), mv), ("v * row-major M", $av(&(vv * rmm)), vm), ("v * col-major M", $av(&(vv * cmm)), vm)] {
                        if let Some(i) = first_diff_vec(cx, &got, &want, scv) {
                            fail!("{} n={} [{} / {}] {} with M = {} and v = {}: element {} is {:?}, the sum of products is {:?}\n M = {:?}\n v = {:?}\n got  {:?}\n want {:?}", S::NAME, N, KIND_NAMES[kind], POS_NAMES[pos], what, mname, vname, i, got[i], want[i], m, v, got, want);
                        }
                    }
                }
            }
            Ok(())
        }
    };
}
structured_n!(structured2, 2, Mat2, Vec2, vk::v2, vk::a2);
structured_n!(structured3, 3, Mat3, Vec3, vk::v3, vk::a3);
structured_n!(structured4, 4, Mat4, Vec4, vk::v4, vk::a4);

fn structured_case<S: BDom>(idx: u64, cx: &mut Cx) -> CaseResult {
    let mut i = idx;
    let nsel = (i % 3) as usize;
    i /= 3;
    let pos = (i % 4) as usize;
    i /= 4;
    let kind = (i % KINDS as u64) as usize;
    i /= KINDS as u64;
    let sub = (i % SUBS as u64) as usize;
    // the values: a tape that is a pure function of the index
    let mut bytes = [0u8; 640];
    let seed = mix64(idx ^ 0xC01_B5_7A9E);
    for (j, chunk) in bytes.chunks_mut(8).enumerate() {
        chunk.copy_from_slice(&mix64(seed.wrapping_add((j as u64).wrapping_mul(0x9E37_79B9_7F4A_7C15))).to_le_bytes());
    }
    let mut t = Tape::new(&bytes);
    cx.label(SIZE_NAMES[nsel]);
    cx.label(POS_NAMES[pos]);
    cx.label(KIND_NAMES[kind]);
    let r = match nsel {
        0 => structured2::<S>(pos, kind, sub, &mut t, cx),
        1 => structured3::<S>(pos, kind, sub, &mut t, cx),
        _ => structured4::<S>(pos, kind, sub, &mut t, cx),
    };
    if t.exhausted() {
        fail!("harness: the index-derived tape of structured_case is too short");
    }
    r
}

pub fn checks() -> Vec<Check> {
    let about = "value-keyed fast paths: products with a structured operand (26 kinds: identity + 2x2 block in a coordinate plane -- quarter turn / rotation / shear / scaling / arbitrary --, elementary matrices, exactly affine / linear / transposed affine, block-diagonal, rank one, single entry, 0/1/-1 entries, translation, reflection, permutation, projective row, nilpotent, skew, embedded 3D rotation, diagonal, constant) on the left, on the right or on both sides against a dense non-symmetric operand; enumerated over size x position x kind x sub-position (plane / entry / row pair), values seeded by the variant digit; every case runs L*R in the four layout pairs, L*=R in both layouts and M*v / v*M in both layouts with both operands and the vectors e_0..e_{n-1}, (..,0), (..,1), 0, a 0/1/-1 vector and a generic one, against the sums of products on arrays";
    let total = LOW * VARIANTS;
    let mut out = Vec::new();
    out.push(Check { name: "structured-rat", about, kind: Kind::Index { total, quick: LOW, thorough: total, f: structured_case::<Rat> } });
    out.push(Check { name: "structured-i64", about, kind: Kind::Index { total, quick: 2 * LOW, thorough: total, f: structured_case::<i64> } });
    out.push(Check { name: "structured-f64", about, kind: Kind::Index { total, quick: 2 * LOW, thorough: total, f: structured_case::<f64> } });
    out.push(Check { name: "structured-f32", about, kind: Kind::Index { total, quick: LOW, thorough: total / 2, f: structured_case::<f32> } });
    out
}
