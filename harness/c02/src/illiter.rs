//! C02, class "constructors and folds driven by ill-behaved but legal iterators".
//!
//! `FromIterator` (`from_iter`, `collect`), `from_slice`, `Sum` and `Product` are the vek items that consume an iterator
//! (or slice). Here the source is a scripted iterator (`Script`): a fixed list of steps `Some(item)` / `None`, so it
//! may yield `None` and later `Some` again (not fused), end before the vector is full, go on after it, and report a
//! `size_hint` that is exact, vague ((0, None)), or wrong in the harmless direction the std docs allow for safe code
//! (upper bound too small / too large; lower bound anything from 0 to the true length). The same scripts also run
//! through the std adaptors that are not fused (`map_while`, `scan`, `iter::from_fn`) and through `by_ref()`, after
//! which the rest of the source is consumed by a *second* constructor call.
//!
//! Asserted (the textbook meaning only): the lanes are the items yielded before the first `None`, in order, then
//! `Default::default()` (documented on `from_slice`); a longer source contributes its first N items; nothing the
//! sequence did not contain up to its first `None` appears. For `Sum` / `Product`: lane i is the fold, in order, of
//! lane i of the items before the first `None` (empty: the additive / multiplicative identity). NOT asserted: how often
//! `next()` or `size_hint()` is called, or how many items a constructor takes from a long source — after `by_ref()` the
//! position the source was left at is *read*, and the second call is judged on the steps from there.

use super::*;

#[derive(Clone, Copy, Debug, PartialEq)]
pub enum Hint {
    /// (len, Some(len)), len = number of items up to the next None
    Exact,
    /// (0, None)
    ZeroNone,
    /// (0, Some(len - 1 - d)): an upper bound that is too small
    UpperSmall(usize),
    /// (min(lo, len), Some(len + 1 + extra)): an upper bound that is too large
    UpperLarge(usize, usize),
    /// (min(lo, len), None)
    LowNone(usize),
}

pub fn hint_label(h: Hint) -> &'static str {
    match h {
        Hint::Exact => "size_hint: exact",
        Hint::ZeroNone => "size_hint: (0, None)",
        Hint::UpperSmall(_) => "size_hint: upper bound too small",
        Hint::UpperLarge(..) => "size_hint: upper bound too large, lower bound anywhere in 0..=len",
        Hint::LowNone(_) => "size_hint: (lo <= len, None)",
    }
}

pub fn gen_hint(t: &mut Tape, n: usize) -> Hint {
    match t.below(5) {
        0 => Hint::Exact,
        1 => Hint::ZeroNone,
        2 => Hint::UpperSmall(t.below(n.min(8))),
        3 => Hint::UpperLarge(t.below(2 * n + 1), t.below(100)),
        _ => Hint::LowNone(t.below(2 * n + 1)),
    }
}

/// A scripted iterator: yields `steps[pos]` (which may be `None` in the middle) and `None` for ever after the script.
#[derive(Clone)]
pub struct Script<T: Clone> {
    pub steps: Vec<Option<T>>,
    pub pos: usize,
    pub hint: Hint,
}
impl<T: Clone> Script<T> {
    pub fn new(steps: &[Option<T>], hint: Hint) -> Script<T> {
        Script { steps: steps.to_vec(), pos: 0, hint }
    }
}
impl<T: Clone> Iterator for Script<T> {
    type Item = T;
    fn next(&mut self) -> Option<T> {
        if self.pos < self.steps.len() {
            self.pos += 1;
            self.steps[self.pos - 1].clone()
        } else {
            None
        }
    }
    fn size_hint(&self) -> (usize, Option<usize>) {
        let len = self.steps[self.pos.min(self.steps.len())..].iter().take_while(|x| x.is_some()).count();
        match self.hint {
            Hint::Exact => (len, Some(len)),
            Hint::ZeroNone => (0, None),
            Hint::UpperSmall(d) => (0, Some(len.saturating_sub(1 + d))),
            Hint::UpperLarge(lo, extra) => (lo.min(len), Some(len + 1 + extra)),
            Hint::LowNone(lo) => (lo.min(len), None),
        }
    }
}

/// The items from step `from` up to (not including) the first `None`.
pub fn before_none<T: Clone>(steps: &[Option<T>], from: usize) -> Vec<T> {
    steps.iter().skip(from).take_while(|x| x.is_some()).map(|x| x.clone().unwrap()).collect()
}

/// Step list over serial numbers 0, 1, 2, ...: `cut` items, then (unless the source simply ends) a `None` and a tail
/// that may hold further items and further `None`s. `n` is the length the consumer cares about (vector dimension, or
/// a handful of summands). Returns (steps, cut, tail class).
pub fn gen_steps(t: &mut Tape, n: usize) -> (Vec<Option<usize>>, usize, usize) {
    let cut = match t.below(6) {
        0 => 0,
        1 => if n >= 2 { 1 + t.below(n - 1) } else { 0 },
        2 => n - 1,
        3 => n,
        4 => n + 1,
        _ => n + 1 + t.below(n + 1),
    };
    let tail = t.below(4);
    let mut steps: Vec<Option<usize>> = (0..cut).map(Some).collect();
    let mut next = cut;
    let mut push_items = |steps: &mut Vec<Option<usize>>, k: usize| {
        for _ in 0..k {
            steps.push(Some(next));
            next += 1;
        }
    };
    match tail {
        0 => {} // fused-like: the source ends after `cut` items
        1 => {
            // one None, then a few items
            steps.push(None);
            let k = 1 + t.below(3);
            push_items(&mut steps, k);
        }
        2 => {
            // one None, then enough items to fill the whole consumer again
            steps.push(None);
            push_items(&mut steps, n + t.below(3));
        }
        _ => {
            // Nones and items interleaved
            steps.push(None);
            for _ in 0..(n + 4).min(24) {
                if t.chance(64) {
                    steps.push(None);
                } else {
                    push_items(&mut steps, 1);
                }
            }
        }
    }
    (steps, cut, tail)
}

pub fn label_steps(cx: &mut Cx, what_n: usize, cut: usize, tail: usize) {
    cx.label(if cut == 0 { "first None: before any item" } else if cut < what_n { "first None: source shorter than the consumer" } else if cut == what_n { "first None: exactly when the consumer is full" } else { "first None: source longer than the consumer" });
    cx.label(["after the first None: nothing (source ends)", "after the first None: a few more items (not fused)", "after the first None: enough items to fill the consumer again (not fused)", "after the first None: items and further Nones interleaved (not fused)"][tail]);
}

/// Distinct 2-letter word for serial number j (and a salt): fixed-width blocks keep concatenations unambiguous.
pub fn word(salt: usize, j: usize) -> Seq {
    let id = (j * 2 + 1).wrapping_mul(salt * 2 + 1) & 0xffff;
    Seq(vec![(id & 0xff) as u8, (id >> 8) as u8])
}

macro_rules! gen_illiter {
    ($V:ident, $m:ident, $N:expr, $sp:ident, $kind:ident, ($($f:ident)+), ($($i:tt)+)) => {
        pub mod $m {
            #![allow(unused_imports, unused_mut, unused_variables, unused_assignments, clippy::all)]
            use super::*;
            use crate::$m::{mk, rd, N, NAME};
            use vek::vec::repr_c::$V;

            fn want_lanes<T: Clone + Default>(steps: &[Option<T>], from: usize) -> [T; N] {
                let items = before_none(steps, from);
                from_fn(|i| if i < items.len() { items[i].clone() } else { T::default() })
            }

            /// FromIterator / collect / from_slice on one script of element type T.
            fn ctor<T: Clone + Default + PartialEq + std::fmt::Debug>(t: &mut Tape, cx: &mut Cx, ty: &str, steps: &[Option<T>], hint: Hint) -> CaseResult {
                let want: [T; N] = want_lanes(steps, 0);
                let d = |s: &[Option<T>]| format!("{:?}", s);
                check_eq!(cx, rd($V::from_iter(Script::new(steps, hint))), want, "{}<{}>::from_iter(scripted source {}, {:?})", NAME, ty, d(steps), hint);
                check_eq!(cx, rd(Script::new(steps, hint).collect::<$V<T>>()), want, "collect::<{}<{}>>(scripted source {}, {:?})", NAME, ty, d(steps), hint);
                // std adaptors that are not fused, over the same steps
                check_eq!(cx, rd(steps.iter().cloned().map_while(|x| x).collect::<$V<T>>()), want, "collect::<{}<{}>>(map_while over {})", NAME, ty, d(steps));
                check_eq!(cx, rd($V::from_iter(steps.to_vec().into_iter().map_while(|x| x))), want, "{}<{}>::from_iter(vec::IntoIter.map_while over {})", NAME, ty, d(steps));
                check_eq!(cx, rd($V::from_iter(steps.iter().cloned().scan((), |_, x| x))), want, "{}<{}>::from_iter(scan over {})", NAME, ty, d(steps));
                {
                    let mut k = 0usize;
                    let it = std::iter::from_fn(|| { k += 1; steps.get(k - 1).cloned().flatten() });
                    check_eq!(cx, rd(it.collect::<$V<T>>()), want, "collect::<{}<{}>>(iter::from_fn over {})", NAME, ty, d(steps));
                }
                // by_ref: the source stays with the caller; whatever position it was left at, the NEXT constructor call
                // sees the steps from there
                {
                    let mut it = Script::new(steps, hint);
                    let got = rd($V::from_iter(it.by_ref()));
                    check_eq!(cx, got, want, "{}<{}>::from_iter(by_ref of scripted source {}, {:?})", NAME, ty, d(steps), hint);
                    let mut rounds = 0;
                    while it.pos < steps.len() && rounds < 4 {
                        let p = it.pos;
                        cx.label(if p > 0 && steps[p - 1].is_none() { "by_ref: next call starts right after a None" } else { "by_ref: next call starts in the middle of a run of items" });
                        let want2: [T; N] = want_lanes(steps, p);
                        let got2 = if rounds % 2 == 0 { rd((&mut it).collect::<$V<T>>()) } else { rd($V::from_iter(it.by_ref())) };
                        check_eq!(cx, got2, want2, "{}<{}>: constructor call #{} on the same by_ref source {} resumed at step {} ({:?})", NAME, ty, rounds + 2, d(steps), p, hint);
                        if it.pos == p { break; }
                        rounds += 1;
                    }
                }
                {
                    // the same through iter::from_fn with the position kept outside
                    let k = std::cell::Cell::new(0usize);
                    let mut it = std::iter::from_fn(|| { k.set(k.get() + 1); steps.get(k.get() - 1).cloned().flatten() });
                    let got = rd($V::from_iter(it.by_ref()));
                    check_eq!(cx, got, want, "{}<{}>::from_iter(by_ref of iter::from_fn over {})", NAME, ty, d(steps));
                    let p = k.get();
                    if p < steps.len() {
                        let want2: [T; N] = want_lanes(steps, p);
                        check_eq!(cx, rd(it.by_ref().collect::<$V<T>>()), want2, "{}<{}>: second collect on the same iter::from_fn source {} resumed at step {}", NAME, ty, d(steps), p);
                    }
                }
                Ok(())
            }

            /// Sum / Product over a script of vectors. `add` / `mul` are the element's own operators, `zero` / `one` its identities.
            fn folds<T: Clone + PartialEq + std::fmt::Debug + Zero + One + std::ops::Add<Output = T> + std::ops::Mul<Output = T>>(
                cx: &mut Cx, ty: &str, steps: &[Option<[T; N]>], hint: Hint,
            ) -> CaseResult {
                let vsteps: Vec<Option<$V<T>>> = steps.iter().map(|s| s.clone().map(mk)).collect();
                let fold = |from: usize, product: bool| -> [T; N] {
                    let items = before_none(steps, from);
                    from_fn(|i| {
                        let mut acc = if product { T::one() } else { T::zero() };
                        for it in &items {
                            acc = if product { acc * it[i].clone() } else { acc + it[i].clone() };
                        }
                        acc
                    })
                };
                let d = || format!("{:?}", steps);
                let (ws, wp) = (fold(0, false), fold(0, true));
                check_eq!(cx, rd(Script::new(&vsteps, hint).sum::<$V<T>>()), ws, "Sum for {}<{}> over scripted source {} ({:?})", NAME, ty, d(), hint);
                check_eq!(cx, rd(Script::new(&vsteps, hint).product::<$V<T>>()), wp, "Product for {}<{}> over scripted source {} ({:?})", NAME, ty, d(), hint);
                check_eq!(cx, rd(<$V<T> as std::iter::Sum>::sum(vsteps.iter().cloned().map_while(|x| x))), ws, "Sum for {}<{}> over map_while {}", NAME, ty, d());
                check_eq!(cx, rd(<$V<T> as std::iter::Product>::product(vsteps.iter().cloned().scan((), |_, x| x))), wp, "Product for {}<{}> over scan {}", NAME, ty, d());
                // by_ref, then the next fold on the rest of the same source
                for product in [false, true] {
                    let mut it = Script::new(&vsteps, hint);
                    let mut from = 0usize;
                    let mut rounds = 0;
                    loop {
                        let want = fold(from, product);
                        let got = if product { rd(it.by_ref().product::<$V<T>>()) } else { rd(it.by_ref().sum::<$V<T>>()) };
                        check_eq!(cx, got, want, "{} for {}<{}>: call #{} on the same by_ref source {} starting at step {} ({:?})", if product { "Product" } else { "Sum" }, NAME, ty, rounds + 1, d(), from, hint);
                        if it.pos >= vsteps.len() || it.pos == from || rounds == 3 { break; }
                        if rounds == 0 { cx.label("Sum/Product: by_ref source folded again from where it was left"); }
                        from = it.pos;
                        rounds += 1;
                    }
                }
                Ok(())
            }

            pub fn iters(t: &mut Tape, cx: &mut Cx) -> CaseResult {
                // --- constructors
                let (ser, cut, tail) = gen_steps(t, N);
                let hint = gen_hint(t, N);
                label_steps(cx, N, cut, tail);
                cx.label(hint_label(hint));
                // atoms: serial j -> atom (j * stride + off), stride odd: distinct and in a tape-chosen arrangement
                let stride = 2 * t.below(64) as u32 + 1;
                let off = t.below(200) as u32;
                let salt = t.below(120);
                let ssteps: Vec<Option<Sym>> = ser.iter().map(|s| s.map(|j| Sym::atom((j as u32 * stride + off) & 0xfff))).collect();
                let qsteps: Vec<Option<Seq>> = ser.iter().map(|s| s.map(|j| word(salt, j))).collect();
                sample!(cx, "{} steps = {:?}, {:?}", NAME, ssteps, hint);
                ctor::<Sym>(t, cx, "Sym", &ssteps, hint)?;
                ctor::<Seq>(t, cx, "Seq", &qsteps, hint)?;
                // from_slice has no None: the items before the first None as a slice, and all items of the script
                {
                    let pre = before_none(&ssteps, 0);
                    let want: [Sym; N] = from_fn(|i| if i < pre.len() { pre[i] } else { Sym::default() });
                    check_eq!(cx, rd($V::from_slice(&pre)), want, "{}::from_slice({:?})", NAME, pre);
                    let all: Vec<Sym> = ssteps.iter().filter_map(|x| *x).collect();
                    let want: [Sym; N] = from_fn(|i| if i < all.len() { all[i] } else { Sym::default() });
                    check_eq!(cx, rd($V::from_slice(&all)), want, "{}::from_slice({:?})", NAME, all);
                }
                // --- folds over 0..=4 vectors before the first None
                let (fser, fcut, ftail) = gen_steps(t, 3);
                let fhint = gen_hint(t, 3);
                cx.label(["Sum/Product: 0 items before the first None", "Sum/Product: 1 item before the first None", "Sum/Product: 2 items before the first None", "Sum/Product: 3 items before the first None", "Sum/Product: 4+ items before the first None"][fcut.min(4)]);
                if ftail > 0 { cx.label("Sum/Product: items after the first None (not fused)"); }
                cx.label(hint_label(fhint));
                let fq: Vec<Option<[Seq; N]>> = fser.iter().map(|s| s.map(|j| from_fn(|i| word(salt, j * N + i)))).collect();
                folds::<Seq>(cx, "Seq", &fq, fhint)?;
                let fw: Vec<Option<[Wrapping<u64>; N]>> = fser.iter().map(|s| s.map(|j| from_fn(|i| Wrapping(vkit::tape::mix64((salt * 4096 + j * N + i) as u64) | 1)))).collect();
                folds::<Wrapping<u64>>(cx, "Wrapping<u64>", &fw, fhint)?;
                // non-trivial unless both sources are well-behaved and exactly as long as the consumer
                cx.set_nontrivial(tail > 0 || cut != N || hint != Hint::Exact || ftail > 0 || fhint != Hint::Exact);
                Ok(())
            }
        }
    };
}

for_all_types!(gen_illiter);

pub fn register(checks: &mut Vec<Check>) {
    macro_rules! reg {
        ($V:ident, $m:ident, $N:expr, $sp:ident, $kind:ident, ($($f:ident)+), ($($i:tt)+)) => {{
            let n: usize = $N;
            let q: u64 = if n <= 4 { 250 } else if n <= 16 { 120 } else { 60 };
            checks.push(Check {
                name: concat!("ill-iter-", stringify!($V)),
                about: "from_iter / collect / from_slice / Sum / Product driven by scripted sources: not fused (None, then items again), shorter / exactly as long / longer than the vector, size_hint exact, (0, None), upper bound too small or too large, any lower bound <= len; std map_while / scan / iter::from_fn; by_ref() and a second constructor call on the rest. Lanes == the items before the first None in order, then Default; Sum / Product == ordered fold (free monoid, Z/2^64) of the items before the first None",
                kind: Kind::Tape { len: 96, quick: q, thorough: q * 50, f: $m::iters },
            });
        }};
    }
    for_all_types!(reg);
}
