fn main() {
    vkit::driver::main(c02::property())
}
