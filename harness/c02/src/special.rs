//! C02, class "scalar operand / lanes at special exact values".
//!
//! The concrete scalar-on-the-left impls (`s + v`, `s * v` for s: i8 u8 i16 u16 i32 u32 i64 u64 f32 f64 — the only
//! `impl Op<Vec<S>> for S` vek has, `vec_impl_binop_commutative!`) and, next to them, every other way a scalar meets
//! a vector: `v op s`, `&v op s`, `&v op &s`, `v op= s`, and the same with the scalar spelled `broadcast(s)` on either
//! side in all owned/borrowed forms. The SCALAR and the LANES are taken from a per-type pool of 16 special values
//! (floats: +-0, +-1, 2, 1/2, MAX, MIN, +-MIN_POSITIVE, subnormals, +-inf, NaN, 1+eps; integers: 0, +-1, +-2, MIN, MAX and
//! their neighbours, halves, the bit width and the bit width - 1) and 16 ordinary values.
//!
//! Oracle: per lane, the primitive's own operator applied to (lane, s) resp. (s, lane) in the order the form denotes.
//! Floats are compared bit for bit (any NaN equals any NaN), so 0*inf = NaN, inf-inf, x % 0, the sign of a zero result,
//! overflow to inf and subnormal results are all observed. Integers: the build has overflow checks on; the vector
//! operation must panic exactly when the scalar operator panics in some lane (`checked_*` as oracle), otherwise lane i is
//! the scalar result. When some lane panics, the lanes are additionally *sanitised* (each offending lane replaced by a
//! harmless value for this scalar and operator) so that the neighbours of the limits are also compared by value.
//!
//! The whole form table runs on f32, f64, i32 and u8 (vek implements those forms once, generically in the element type);
//! the six other integer types get the concrete scalar-on-the-left impls `s + v`, `s * v` next to `v op s`, `v op= s`
//! and `broadcast(s) op v`. (All ten types in all forms would triple the build time of this crate for no new code path.)
//!
//! Nothing here calls the operator it judges; `mk`/`rd` go through struct literals and fields only.

use super::*;

/// The operators, by number: 0 `+` 1 `-` 2 `*` 3 `/` 4 `%` 5 `&` 6 `|` 7 `^` 8 `<<` 9 `>>` (floats: 0..5 only).
pub const OPS: [&str; 10] = ["+", "-", "*", "/", "%", "&", "|", "^", "<<", ">>"];

/// Number of special values at the front of every pool; the other 16 entries are ordinary values.
pub const NSPECIAL: usize = 16;
pub const NPOOL: usize = 32;

pub trait Prim: Copy + PartialEq + std::fmt::Debug + 'static {
    const TY: &'static str;
    const FLOAT: bool;
    fn pool() -> [Self; NPOOL];
    /// Bit-for-bit equality, any NaN equal to any NaN.
    fn same(a: Self, b: Self) -> bool;
    /// The primitive operator #k on (x, y); `None` iff that operator panics in a build with overflow checks.
    fn chk(k: usize, x: Self, y: Self) -> Option<Self>;
    /// 0 ordinary, 1 NaN, 2 negative zero, 3 infinite, 4 subnormal (floats only).
    fn kind(x: Self) -> u8;
}

macro_rules! prim_float {
    ($F:ident) => {
        impl Prim for $F {
            const TY: &'static str = stringify!($F);
            const FLOAT: bool = true;
            fn pool() -> [$F; NPOOL] {
                [
                    0.0, -0.0, 1.0, -1.0, 2.0, 0.5, $F::MAX, $F::MIN, $F::MIN_POSITIVE, -$F::MIN_POSITIVE, $F::from_bits(1), -($F::MIN_POSITIVE / 4.0),
                    $F::INFINITY, $F::NEG_INFINITY, $F::NAN, 1.0 + $F::EPSILON,
                    3.0, -2.5, 0.75, 7.25, -1.5, 10.0, 0.1, -0.3, 1e10, -1e-10, 5.5, 100.0, 1.0 / 3.0, -6.0, 12345.678, 0.015625,
                ]
            }
            fn same(a: $F, b: $F) -> bool {
                (a.is_nan() && b.is_nan()) || a.to_bits() == b.to_bits()
            }
            fn chk(k: usize, x: $F, y: $F) -> Option<$F> {
                Some(match k {
                    0 => x + y,
                    1 => x - y,
                    2 => x * y,
                    3 => x / y,
                    4 => x % y,
                    _ => unreachable!(),
                })
            }
            fn kind(x: $F) -> u8 {
                if x.is_nan() { 1 } else if x == 0.0 && x.is_sign_negative() { 2 } else if x.is_infinite() { 3 } else if x != 0.0 && x.abs() < $F::MIN_POSITIVE { 4 } else { 0 }
            }
        }
    };
}
prim_float!(f32);
prim_float!(f64);

macro_rules! prim_int_common {
    ($I:ident) => {
        const TY: &'static str = stringify!($I);
        const FLOAT: bool = false;
        fn same(a: $I, b: $I) -> bool {
            a == b
        }
        fn chk(k: usize, x: $I, y: $I) -> Option<$I> {
            let sh = |y: $I| -> Option<u32> {
                let b = y as i128;
                if b < 0 || b >= $I::BITS as i128 { None } else { Some(b as u32) }
            };
            match k {
                0 => x.checked_add(y),
                1 => x.checked_sub(y),
                2 => x.checked_mul(y),
                3 => x.checked_div(y),
                4 => x.checked_rem(y),
                5 => Some(x & y),
                6 => Some(x | y),
                7 => Some(x ^ y),
                8 => sh(y).map(|b| x << b),
                9 => sh(y).map(|b| x >> b),
                _ => unreachable!(),
            }
        }
        fn kind(_x: $I) -> u8 {
            0
        }
    };
}
macro_rules! prim_signed {
    ($I:ident) => {
        impl Prim for $I {
            prim_int_common!($I);
            fn pool() -> [$I; NPOOL] {
                const B: $I = $I::BITS as $I;
                [
                    0, 1, -1, $I::MIN, $I::MAX, 2, -2, $I::MIN + 1, $I::MAX - 1, $I::MAX / 2, $I::MAX / 2 + 1, $I::MIN / 2, B - 1, B, 3, -3,
                    5, -5, 7, -7, 4, -4, 6, -6, 9, -9, 10, -10, 11, -11, 8, -8,
                ]
            }
        }
    };
}
macro_rules! prim_unsigned {
    ($I:ident) => {
        impl Prim for $I {
            prim_int_common!($I);
            fn pool() -> [$I; NPOOL] {
                const B: $I = $I::BITS as $I;
                const H: $I = 1 << ($I::BITS / 2);
                [
                    0, 1, $I::MAX, 2, $I::MAX - 1, $I::MAX / 2, $I::MAX / 2 + 1, 3, B - 1, B, $I::MAX / 3, H, H - 1, H + 1, 4, $I::MAX - 2,
                    5, 6, 7, 9, 10, 11, 12, 13, 14, 15, 8, 5, 6, 7, 9, 10,
                ]
            }
        }
    };
}
prim_signed!(i8);
prim_signed!(i16);
prim_signed!(i32);
prim_signed!(i64);
prim_unsigned!(u8);
prim_unsigned!(u16);
prim_unsigned!(u32);
prim_unsigned!(u64);

/// What a case met (turned into labels at the end of the case).
#[derive(Default)]
pub struct Seen {
    pub nan_from_numbers: bool,
    pub neg_zero_result: bool,
    pub inf_from_finite: bool,
    pub subnormal_result: bool,
    pub int_lane_panics: bool,
    pub int_panic_checked: bool,
    pub int_sanitised: bool,
    pub int_no_panic: bool,
}

/// Per-lane oracle: `s op lane` (s_left) or `lane op s`; `None` iff some lane's scalar operator panics.
pub fn want_of<T: Prim, const N: usize>(k: usize, a: &[T; N], s: T, s_left: bool, seen: &mut Seen) -> Option<[T; N]> {
    let mut out = *a;
    let mut ok = true;
    for i in 0..N {
        let r = if s_left { T::chk(k, s, a[i]) } else { T::chk(k, a[i], s) };
        match r {
            Some(v) => {
                out[i] = v;
                if T::FLOAT {
                    let (ks, ka, kv) = (T::kind(s), T::kind(a[i]), T::kind(v));
                    if kv == 1 && ks != 1 && ka != 1 { seen.nan_from_numbers = true; }
                    if kv == 2 { seen.neg_zero_result = true; }
                    if kv == 3 && ks != 3 && ka != 3 { seen.inf_from_finite = true; }
                    if kv == 4 { seen.subnormal_result = true; }
                }
            }
            None => ok = false,
        }
    }
    if !T::FLOAT {
        if ok { seen.int_no_panic = true; } else { seen.int_lane_panics = true; }
    }
    if ok { Some(out) } else { None }
}

/// Replace every lane whose scalar operation panics by the first pool value (1, 0, then the rest in pool order) for which it does
/// not. `None` when nothing had to be replaced or no harmless value exists (division by s = 0, oversized shift by s).
pub fn sanitise<T: Prim, const N: usize>(k: usize, a: &[T; N], s: T, s_left: bool) -> Option<[T; N]> {
    let f = |x: T| if s_left { T::chk(k, s, x) } else { T::chk(k, x, s) };
    let pool = T::pool();
    // pool[1] == 1 and pool[0] == 0 in every pool: they come first in the search
    let order: [usize; NPOOL] = from_fn(|j| match j { 0 => 1, 1 => 0, _ => j });
    let fallback = order.iter().map(|&j| pool[j]).find(|&c| f(c).is_some())?;
    let mut out = *a;
    let mut changed = false;
    for i in 0..N {
        if f(a[i]).is_none() {
            out[i] = fallback;
            changed = true;
        }
    }
    if changed { Some(out) } else { None }
}

/// Compare one form's outcome with the oracle.
#[allow(clippy::too_many_arguments)]
pub fn judge<T: Prim, const N: usize>(cx: &mut Cx, vname: &str, form: &str, k: usize, s: T, a: &[T; N], got: Result<[T; N], String>, want: &Option<[T; N]>) -> CaseResult {
    cx.count();
    match (got, want) {
        (Ok(g), Some(w)) => {
            for i in 0..N {
                if !T::same(g[i], w[i]) {
                    fail!("{}<{}>: {} with op {} : lane {} is {:?}, the scalar operator gives {:?} (s = {:?}, lanes = {:?}; got {:?}, want {:?})", vname, T::TY, form, OPS[k], i, g[i], w[i], s, a, g, w);
                }
            }
            Ok(())
        }
        (Err(_), None) => Ok(()),
        (Ok(g), None) => fail!("{}<{}>: {} with op {} : the scalar operator panics in some lane but the vector operation returned {:?} (s = {:?}, lanes = {:?})", vname, T::TY, form, OPS[k], g, s, a),
        (Err(e), Some(w)) => fail!("{}<{}>: {} with op {} : no lane's scalar operator panics but the vector operation panicked with {:?} (s = {:?}, lanes = {:?}, want {:?})", vname, T::TY, form, OPS[k], e, s, a, w),
    }
}

/// Which forms an instance exercises. `full`: all of them. `bits` (& | ^ - no special values, no panics): three of them.
/// `light` (the element types that only get the scalar-on-the-left table: + and *): `s op V`, `V op s`, `V op= s`,
/// `broadcast(s) op V`. The tag list after the mode names the reduced modes in which the form stays.
macro_rules! form_if {
    (full, [$($l:ident)*], $b:block) => { $b };
    (fullf, [$($l:ident)*], $b:block) => { $b };
    (bits, [bits $($l:ident)*], $b:block) => { $b };
    (bits, [$($l:ident)*], $b:block) => {};
    (light, [light], $b:block) => { $b };
    (light, [bits light], $b:block) => { $b };
    (light, [$($l:ident)*], $b:block) => {};
}
/// Float operators never panic: no unwinding machinery around them (`fullf` = `full` for floats).
macro_rules! call {
    (fullf, $e:expr) => { Ok($e) };
    ($other:ident, $e:expr) => { catch(|| $e) };
}
macro_rules! mode_is_light {
    (light) => { true };
    ($other:ident) => { false };
}

/// All forms in which the scalar is the RIGHT operand: lane i must be `a[i] op s`. When the oracle says "panics" only
/// one form (rotating with `sel`) of one integer type (`dop`, rotating with `sel` too) is exercised: a panic costs
/// microseconds. The sanitised lanes right after are compared in every form of every type.
macro_rules! ls_forms {
    ($mode:ident, $cx:ident, $V:ident, $T:ty, $k:expr, $a:ident, $s:ident, $w:ident, $sel:expr, $dop:expr, $op:tt, $opa:tt) => {{
        let va = mk($a);
        let vb = $V::broadcast($s);
        let all = $w.is_some();
        let pick = |j: usize| all || ($dop && (mode_is_light!($mode) || j == $sel % 9));
        form_if!($mode, [bits light], { if pick(0) { judge::<$T, N>($cx, NAME, "V op s", $k, $s, &$a, call!($mode, rd(va $op $s)), &$w)?; } });
        form_if!($mode, [], { if pick(1) { judge::<$T, N>($cx, NAME, "&V op s", $k, $s, &$a, call!($mode, rd(&va $op $s)), &$w)?; } });
        form_if!($mode, [], { if pick(2) { judge::<$T, N>($cx, NAME, "&V op &s", $k, $s, &$a, call!($mode, rd(&va $op &$s)), &$w)?; } });
        form_if!($mode, [bits], { if pick(3) { judge::<$T, N>($cx, NAME, "V op broadcast(s)", $k, $s, &$a, call!($mode, rd(va $op vb)), &$w)?; } });
        form_if!($mode, [], { if pick(4) { judge::<$T, N>($cx, NAME, "V op &broadcast(s)", $k, $s, &$a, call!($mode, rd(va $op &vb)), &$w)?; } });
        form_if!($mode, [], { if pick(5) { judge::<$T, N>($cx, NAME, "&V op broadcast(s)", $k, $s, &$a, call!($mode, rd(&va $op vb)), &$w)?; } });
        form_if!($mode, [], { if pick(6) { judge::<$T, N>($cx, NAME, "&V op &broadcast(s)", $k, $s, &$a, call!($mode, rd(&va $op &vb)), &$w)?; } });
        form_if!($mode, [bits light], { if pick(7) { judge::<$T, N>($cx, NAME, "V op= s", $k, $s, &$a, call!($mode, { let mut m = va; m $opa $s; rd(m) }), &$w)?; } });
        form_if!($mode, [], { if pick(8) { judge::<$T, N>($cx, NAME, "V op= broadcast(s)", $k, $s, &$a, call!($mode, { let mut m = va; m $opa vb; rd(m) }), &$w)?; } });
    }};
}

/// All forms in which the scalar is the LEFT operand: lane i must be `s op a[i]`.
macro_rules! sl_forms {
    ($mode:ident, $cx:ident, $V:ident, $T:ty, $k:expr, $a:ident, $s:ident, $w:ident, $sel:expr, $dop:expr, $op:tt, $opa:tt, $left:ident) => {{
        let va = mk($a);
        let vb = $V::broadcast($s);
        let all = $w.is_some();
        let nforms = sl_count!($left);
        let pick = |j: usize| all || ($dop && (mode_is_light!($mode) || j == $sel % nforms));
        form_if!($mode, [bits light], { if pick(0) { judge::<$T, N>($cx, NAME, "broadcast(s) op V", $k, $s, &$a, call!($mode, rd(vb $op va)), &$w)?; } });
        form_if!($mode, [], { if pick(1) { judge::<$T, N>($cx, NAME, "broadcast(s) op &V", $k, $s, &$a, call!($mode, rd(vb $op &va)), &$w)?; } });
        form_if!($mode, [], { if pick(2) { judge::<$T, N>($cx, NAME, "&broadcast(s) op V", $k, $s, &$a, call!($mode, rd(&vb $op va)), &$w)?; } });
        form_if!($mode, [], { if pick(3) { judge::<$T, N>($cx, NAME, "&broadcast(s) op &V", $k, $s, &$a, call!($mode, rd(&vb $op &va)), &$w)?; } });
        form_if!($mode, [], { if pick(4) { judge::<$T, N>($cx, NAME, "broadcast(s) op= V", $k, $s, &$a, call!($mode, { let mut m = vb; m $opa va; rd(m) }), &$w)?; } });
        sl_left!($left, { if pick(5) { judge::<$T, N>($cx, NAME, "s op V (scalar on the left)", $k, $s, &$a, call!($mode, rd($s $op va)), &$w)?; } });
    }};
}
macro_rules! sl_count {
    (left) => { 6 };
    (noleft) => { 5 };
}
macro_rules! sl_left {
    (left, $body:block) => { $body };
    (noleft, $body:block) => {};
}

/// One operator of one element type: both operand orders, raw lanes and (if some lane panics) sanitised lanes.
/// Each instance is a function of its own (not inlined), so that the compiler sees many small functions instead of one huge body.
macro_rules! a_op {
    ($mode:ident, $cx:ident, $seen:ident, $V:ident, $T:ty, $s:ident, $a:ident, $sel:expr, $dop:expr, $k:expr, $op:tt, $opa:tt, $left:ident) => {{
        #[inline(never)]
        fn run(cx: &mut Cx, seen: &mut Seen, s: $T, a: [$T; N], sel: usize, dop: bool) -> CaseResult {
            for pass in 0..2 {
                let lanes: [$T; N] = if pass == 0 { a } else {
                    match sanitise::<$T, N>($k, &a, s, false) { Some(x) => { seen.int_sanitised = true; x } None => break }
                };
                let w = want_of::<$T, N>($k, &lanes, s, false, &mut *seen);
                ls_forms!($mode, cx, $V, $T, $k, lanes, s, w, sel, dop, $op, $opa);
                if w.is_some() { break; }
                if dop { seen.int_panic_checked = true; }
            }
            for pass in 0..2 {
                let lanes: [$T; N] = if pass == 0 { a } else {
                    match sanitise::<$T, N>($k, &a, s, true) { Some(x) => { seen.int_sanitised = true; x } None => break }
                };
                let w = want_of::<$T, N>($k, &lanes, s, true, &mut *seen);
                sl_forms!($mode, cx, $V, $T, $k, lanes, s, w, sel, dop, $op, $opa, $left);
                if w.is_some() { break; }
                if dop { seen.int_panic_checked = true; }
            }
            Ok(())
        }
        run($cx, &mut $seen, $s, $a, $sel, $dop)?;
    }};
}

/// f32 / f64: + - * / %, every form.
macro_rules! a_float {
    ($cx:ident, $seen:ident, $V:ident, $F:ty, $si:expr, $li:expr, $sel:expr) => {{
        let pool = <$F as Prim>::pool();
        let s: $F = pool[$si];
        let a: [$F; N] = from_fn(|i| pool[$li[i]]);
        a_op!(fullf, $cx, $seen, $V, $F, s, a, $sel, false, 0, +, +=, left);
        a_op!(fullf, $cx, $seen, $V, $F, s, a, $sel, false, 1, -, -=, noleft);
        a_op!(fullf, $cx, $seen, $V, $F, s, a, $sel, false, 2, *, *=, left);
        a_op!(fullf, $cx, $seen, $V, $F, s, a, $sel, false, 3, /, /=, noleft);
        a_op!(fullf, $cx, $seen, $V, $F, s, a, $sel, false, 4, %, %=, noleft);
    }};
}
/// The two integer types that get the whole table (one signed, one unsigned; vek's impls of these forms are generic
/// in the element type): + - * / % << >> in every form, & | ^ in three forms.
macro_rules! a_int {
    ($cx:ident, $seen:ident, $V:ident, $I:ty, $si:expr, $li:expr, $sel:expr, $dop:expr) => {{
        let pool = <$I as Prim>::pool();
        let s: $I = pool[$si];
        let a: [$I; N] = from_fn(|i| pool[$li[i]]);
        a_op!(full, $cx, $seen, $V, $I, s, a, $sel, $dop, 0, +, +=, left);
        a_op!(full, $cx, $seen, $V, $I, s, a, $sel + 1, $dop, 1, -, -=, noleft);
        a_op!(full, $cx, $seen, $V, $I, s, a, $sel + 2, $dop, 2, *, *=, left);
        a_op!(full, $cx, $seen, $V, $I, s, a, $sel + 3, $dop, 3, /, /=, noleft);
        a_op!(full, $cx, $seen, $V, $I, s, a, $sel + 4, $dop, 4, %, %=, noleft);
        a_op!(bits, $cx, $seen, $V, $I, s, a, $sel + 5, $dop, 5, &, &=, noleft);
        a_op!(bits, $cx, $seen, $V, $I, s, a, $sel + 6, $dop, 6, |, |=, noleft);
        a_op!(bits, $cx, $seen, $V, $I, s, a, $sel + 7, $dop, 7, ^, ^=, noleft);
        a_op!(full, $cx, $seen, $V, $I, s, a, $sel + 8, $dop, 8, <<, <<=, noleft);
        a_op!(full, $cx, $seen, $V, $I, s, a, $sel + 9, $dop, 9, >>, >>=, noleft);
    }};
}
/// The other six integer types: the concrete scalar-on-the-left impls `s + V`, `s * V` next to `V op s`, `V op= s`,
/// `broadcast(s) op V`.
macro_rules! a_int_light {
    ($cx:ident, $seen:ident, $V:ident, $I:ty, $si:expr, $li:expr, $sel:expr, $dop:expr) => {{
        let pool = <$I as Prim>::pool();
        let s: $I = pool[$si];
        let a: [$I; N] = from_fn(|i| pool[$li[i]]);
        a_op!(light, $cx, $seen, $V, $I, s, a, $sel, $dop, 0, +, +=, left);
        a_op!(light, $cx, $seen, $V, $I, s, a, $sel, $dop, 2, *, *=, left);
    }};
}

macro_rules! gen_special {
    ($V:ident, $m:ident, $N:expr, $sp:ident, $kind:ident, ($($f:ident)+), ($($i:tt)+)) => {
        pub mod $m {
            #![allow(unused_imports, unused_mut, unused_variables, unused_assignments, clippy::all)]
            use super::*;
            use crate::$m::{mk, rd, N, NAME};
            use vek::vec::repr_c::$V;

            /// Needle positions are taken modulo K: for N <= 4 every single lane, for wider types every 4th lane.
            pub const K: usize = if N < 4 { N } else { 4 };
            /// scalar index (16 specials + 2 ordinary) x rotation (16) x fill (rotated, uniform, K needle phases)
            pub const NSCALAR: usize = NSPECIAL + 2;
            pub const TOTAL: u64 = (NSCALAR * NSPECIAL * (2 + K)) as u64;

            /// Every operator and form (see the module doc for the per-type table) on the pool indices (si; li[..]).
            pub fn body(cx: &mut Cx, si: usize, li: [usize; N], sel: usize) -> CaseResult {
                let mut seen = Seen::default();
                a_float!(cx, seen, $V, f32, si, li, sel);
                a_float!(cx, seen, $V, f64, si, li, sel + 1);
                a_int!(cx, seen, $V, i32, si, li, sel, sel % 2 == 0);
                a_int!(cx, seen, $V, u8, si, li, sel + 1, sel % 2 == 1);
                a_int_light!(cx, seen, $V, i8, si, li, sel, sel % 6 == 0);
                a_int_light!(cx, seen, $V, i16, si, li, sel, sel % 6 == 1);
                a_int_light!(cx, seen, $V, i64, si, li, sel, sel % 6 == 2);
                a_int_light!(cx, seen, $V, u16, si, li, sel, sel % 6 == 3);
                a_int_light!(cx, seen, $V, u32, si, li, sel, sel % 6 == 4);
                a_int_light!(cx, seen, $V, u64, si, li, sel, sel % 6 == 5);
                cx.label(if si < NSPECIAL { "scalar: special value" } else { "scalar: ordinary value" });
                let nsp = li.iter().filter(|&&j| j < NSPECIAL).count();
                cx.label(if nsp == N { "lanes: all special" } else if nsp == 0 { "lanes: all ordinary" } else { "lanes: special and ordinary mixed" });
                if seen.nan_from_numbers { cx.label("float: a lane's result is NaN although neither operand is (0*inf, inf-inf, 0/0, x%0, inf%x)"); }
                if seen.neg_zero_result { cx.label("float: a lane's result is -0.0"); }
                if seen.inf_from_finite { cx.label("float: a lane overflows to inf / divides by zero from finite operands"); }
                if seen.subnormal_result { cx.label("float: a lane's result is subnormal"); }
                if seen.int_lane_panics { cx.label("int: some lane's scalar operator panics"); }
                if seen.int_panic_checked { cx.label("int: panic equivalence exercised (the vector op panicked where a lane's scalar op does)"); }
                if seen.int_sanitised { cx.label("int: panicking lanes replaced, the rest compared by value next to the limits"); }
                if seen.int_no_panic { cx.label("int: no lane panics (compared by value)"); }
                // non-trivial: the scalar or at least one lane is a special value
                cx.set_nontrivial(si < NSPECIAL || nsp > 0);
                Ok(())
            }

            /// Index-driven, exhaustive: every scalar of the pool x every special value at every lane position.
            pub fn grid(idx: u64, cx: &mut Cx) -> CaseResult {
                let mut r = idx as usize;
                let si = r % NSCALAR; r /= NSCALAR;
                let rot = r % NSPECIAL; r /= NSPECIAL;
                let fill = r;
                let li: [usize; N] = match fill {
                    0 => { cx.label("fill: pool rotated over the lanes (different special in every lane)"); from_fn(|i| (rot + i) % NSPECIAL) }
                    1 => { cx.label("fill: the same special value in all lanes"); [rot; N] }
                    f => {
                        // needles: lanes with i % K == phase carry a special value, the others ordinary ones
                        cx.label("fill: special needles (every lane position in turn) among ordinary lanes");
                        let phase = f - 2;
                        from_fn(|i| if i % K == phase { (rot + i / K) % NSPECIAL } else { NSPECIAL + (i * 5 + rot) % (NPOOL - NSPECIAL) })
                    }
                };
                sample!(cx, "{} scalar = pool[{}], lanes = pool{:?}; e.g. f64: s = {:?}, lanes = {:?}; i8: s = {:?}, lanes = {:?}", NAME, si, li,
                    f64::pool()[si], li.map(|j| f64::pool()[j]), i8::pool()[si], li.map(|j| i8::pool()[j]));
                body(cx, si, li, si + rot + fill)
            }

            /// Tape-driven: scalar and every lane drawn independently (special with probability 1/2).
            pub fn mix(t: &mut Tape, cx: &mut Cx) -> CaseResult {
                let si = t.below(NPOOL);
                let p_special = [64u32, 128, 224][t.below(3)];
                let li: [usize; N] = from_fn(|_| if t.chance(p_special) { t.below(NSPECIAL) } else { NSPECIAL + t.below(NPOOL - NSPECIAL) });
                let sel = t.below(64);
                cx.label("fill: every lane drawn independently");
                sample!(cx, "{} scalar = pool[{}], lanes = pool{:?}; e.g. f32: s = {:?}, lanes = {:?}; u8: s = {:?}, lanes = {:?}", NAME, si, li,
                    f32::pool()[si], li.map(|j| f32::pool()[j]), u8::pool()[si], li.map(|j| u8::pool()[j]));
                body(cx, si, li, sel)
            }
        }
    };
}

for_all_types!(gen_special);

pub fn register(checks: &mut Vec<Check>) {
    macro_rules! reg {
        ($V:ident, $m:ident, $N:expr, $sp:ident, $kind:ident, ($($f:ident)+), ($($i:tt)+)) => {{
            let n: usize = $N;
            checks.push(Check {
                name: concat!("special-grid-", stringify!($V)),
                about: "scalar at special exact values x lanes at special values (floats: +-0, +-1, 2, 1/2, MAX, MIN, +-MIN_POSITIVE, subnormals, +-inf, NaN, 1+eps; integers: 0, +-1, +-2, MIN, MAX and neighbours, halves, bit width and bit width - 1; plus ordinary values): s + v, s * v with the scalar on the left for all ten primitive types next to v op s, v op= s, broadcast(s) op v; on f32, f64, i32, u8 the whole table + - * / % (<< >> & | ^ on the integers) in the forms v op s, &v op s, &v op &s, v op= s and broadcast(s) on either side owned / borrowed / assigned. Lane i == the primitive operator on (lane, s) resp. (s, lane), bit for bit on floats (NaN == NaN); integers: panics iff a lane's primitive operator panics, and with the panicking lanes replaced the rest is compared by value. Exhaustive grid: every pool scalar x every special value at every lane position (pool rotated over the lanes, one value in all lanes, needles among ordinary lanes)",
                kind: Kind::Index { total: $m::TOTAL, quick: $m::TOTAL, thorough: $m::TOTAL, f: $m::grid },
            });
            let q: u64 = if n <= 4 { 100 } else if n <= 16 { 50 } else { 20 };
            checks.push(Check {
                name: concat!("special-mix-", stringify!($V)),
                about: "the same oracle and forms with the scalar and every lane drawn independently from the pool (special values with probability 1/4, 1/2 or 7/8 per lane)",
                kind: Kind::Tape { len: 2 * n + 8, quick: q, thorough: q * 50, f: $m::mix },
            });
        }};
    }
    for_all_types!(reg);
}
