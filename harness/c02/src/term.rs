//! `Tm`: a local opaque term wrapping `vkit::Sym` that implements **all eight** owned/borrowed forms of
//! `num_traits::MulAdd`, which vek's `MulAdd` impls for `V`/`&V` x `V`/`&V` x `V`/`&V` require of the
//! element type (`vkit::Sym` itself only has the owned form, and the orphan rule forbids adding the others
//! to it from here). Every form yields the same term `fma(self, a, b)`, so the *position* of each operand
//! in the result is what is observed.

use num_traits::ops::mul_add::MulAdd;
use std::fmt;
use vkit::Sym;

#[derive(Copy, Clone, PartialEq, Eq, Hash)]
pub struct Tm(pub Sym);

impl fmt::Debug for Tm {
    fn fmt(&self, f: &mut fmt::Formatter) -> fmt::Result {
        write!(f, "{:?}", self.0)
    }
}

pub fn fma(x: Sym, a: Sym, b: Sym) -> Tm {
    Tm(Sym::op3("fma", x, a, b))
}

macro_rules! tm_fma {
    ([$($lt:lifetime),*] $Self:ty, $A:ty, $B:ty) => {
        impl<$($lt),*> MulAdd<$A, $B> for $Self {
            type Output = Tm;
            fn mul_add(self, a: $A, b: $B) -> Tm {
                fma(self.0, a.0, b.0)
            }
        }
    };
}
tm_fma!([] Tm, Tm, Tm);
tm_fma!(['c] &'c Tm, Tm, Tm);
tm_fma!(['b] Tm, Tm, &'b Tm);
tm_fma!(['b, 'c] &'c Tm, Tm, &'b Tm);
tm_fma!(['a] Tm, &'a Tm, Tm);
tm_fma!(['a, 'c] &'c Tm, &'a Tm, Tm);
tm_fma!(['a, 'b] Tm, &'a Tm, &'b Tm);
tm_fma!(['a, 'b, 'c] &'c Tm, &'a Tm, &'b Tm);
