//! C03 regimes that ordinary programs never reach:
//!
//! * index pairs `(i, j)` with a component outside `0..N` (invalid but accepted by the type): no element is
//!   `(i, j)`, so whatever the access does (panic, or resolve to some element) it must do the same thing in
//!   both layouts, for `Index` and `IndexMut`, in all three sizes;
//! * `Display` under every caller-supplied format flag (precision, width, fill, alignment, sign, `#`, `0`,
//!   run-time `w$` / `p$` / `.*`) on float, integer, string and flag-recording elements;
//! * `as_` / `numcast` / element moves on IEEE specials and integers next to the type limits.

use std::fmt::{self, Debug, Display};
use std::ops::IndexMut;

use num_traits::NumCast;
use vek::mat::repr_c::column_major as cm;
use vek::mat::repr_c::row_major as rm;
use vkit::regimes::{int_edge, Special};
use vkit::vk::{self, MatN};

use crate::owned::{El, E16, ES};
use vkit::*;

// ---------------------------------------------------------------------------------------------------------
// (i, j) outside the matrix

/// Index values tried for one component on an N x N matrix: every small value 0..=N*N (so every pair whose
/// flat offset `i*N+j` or `j*N+i` still lies inside the N*N elements), and huge ones (including those whose
/// product with N wraps around). The first N entries are the in-range ones.
pub fn index_candidates(n: usize) -> Vec<usize> {
    let mut v: Vec<usize> = (0..=n * n).collect();
    for h in [1usize << 16, usize::MAX / 2 + 1, usize::MAX / n, usize::MAX / n + 1, usize::MAX - 1, usize::MAX] {
        if !v.contains(&h) {
            v.push(h);
        }
    }
    v
}

pub fn oob_label(n: usize, i: usize, j: usize) -> &'static str {
    let big = 1usize << 16;
    if i < n && j < n {
        "index in range"
    } else if i >= big || j >= big {
        "index: huge component"
    } else if i < n {
        if i * n + j < n * n {
            "index: j >= N, i*N+j inside the flat row-major storage"
        } else {
            "index: j >= N"
        }
    } else if j < n {
        if j * n + i < n * n {
            "index: i >= N, j*N+i inside the flat col-major storage"
        } else {
            "index: i >= N"
        }
    } else {
        "index: both components >= N"
    }
}

fn outcome<T: Debug>(r: &Result<T, String>) -> String {
    match r {
        Ok(v) => format!("returned {:?}", v),
        Err(e) => format!("panicked ({})", e),
    }
}

/// One read or write through `(i, j)` on a row-major and a column-major value holding the model `m`.
///
/// In range: both resolve to `m[i][j]`. Out of range: the property only demands that the meaning of `(i, j)`
/// does not depend on the layout, so the two accesses must either both panic (leaving both values untouched)
/// or both resolve to the same abstract element. On return `m` is the common abstract value.
#[allow(clippy::too_many_arguments)]
pub fn index_pair_case<const N: usize, R, C>(cx: &mut Cx, i: usize, j: usize, write: bool, r: &mut R, c: &mut C, m: &mut [[Sym; N]; N], x: Sym) -> CaseResult
where
    R: MatN<Sym, N> + IndexMut<(usize, usize), Output = Sym>,
    C: MatN<Sym, N> + IndexMut<(usize, usize), Output = Sym>,
{
    index_pair_case_with(cx, i, j, write, r, c, m, x, |r: &R| r.to_arr(), |c: &C| c.to_arr())
}

/// The same for any element type (non-`Copy` ones included); `ra` / `ca` read a value through its fields.
#[allow(clippy::too_many_arguments)]
pub fn index_pair_case_with<T, const N: usize, R, C>(cx: &mut Cx, i: usize, j: usize, write: bool, r: &mut R, c: &mut C, m: &mut [[T; N]; N], x: T, ra: impl Fn(&R) -> [[T; N]; N], ca: impl Fn(&C) -> [[T; N]; N]) -> CaseResult
where
    T: Clone + PartialEq + Debug,
    R: IndexMut<(usize, usize), Output = T>,
    C: IndexMut<(usize, usize), Output = T>,
{
    let inr = i < N && j < N;
    if !write {
        let gr = catch(|| r[(i, j)].clone());
        let gc = catch(|| c[(i, j)].clone());
        if inr {
            check_eq!(cx, gr, Ok(m[i][j].clone()), "row-major m[({},{})]", i, j);
            check_eq!(cx, gc, Ok(m[i][j].clone()), "col-major m[({},{})]", i, j);
        } else {
            check!(
                cx,
                gr.is_err() == gc.is_err(),
                "m[({},{})] on a {}x{} matrix (no such element) depends on the layout: row-major {}, col-major {}; matrix {:?}",
                i, j, N, N, outcome(&gr), outcome(&gc), m
            );
            if let (Ok(a), Ok(b)) = (&gr, &gc) {
                check!(
                    cx,
                    a == b,
                    "m[({},{})] on a {}x{} matrix (no such element) resolves to different elements: row-major {:?}, col-major {:?}; matrix {:?}",
                    i, j, N, N, a, b, m
                );
            }
        }
        check_eq!(cx, ra(r), *m, "row-major value after reading ({},{})", i, j);
        check_eq!(cx, ca(c), *m, "col-major value after reading ({},{})", i, j);
    } else {
        let gr = catch(|| {
            r[(i, j)] = x.clone();
        });
        let gc = catch(|| {
            c[(i, j)] = x.clone();
        });
        if inr {
            check!(cx, gr.is_ok() && gc.is_ok(), "m[({},{})] = x in range: row-major {}, col-major {}", i, j, outcome(&gr), outcome(&gc));
            m[i][j] = x.clone();
            check_eq!(cx, ra(r), *m, "row-major value after m[({},{})] = x", i, j);
            check_eq!(cx, ca(c), *m, "col-major value after m[({},{})] = x", i, j);
        } else {
            check!(
                cx,
                gr.is_err() == gc.is_err(),
                "m[({},{})] = x on a {}x{} matrix (no such element) depends on the layout: row-major {} and is now {:?}, col-major {} and is now {:?}; before {:?}",
                i, j, N, N, outcome(&gr), ra(r), outcome(&gc), ca(c), m
            );
            if gr.is_err() {
                check_eq!(cx, ra(r), *m, "row-major value changed by a panicking m[({},{})] = x", i, j);
                check_eq!(cx, ca(c), *m, "col-major value changed by a panicking m[({},{})] = x", i, j);
            } else {
                check!(
                    cx,
                    ra(r) == ca(c),
                    "m[({},{})] = x on a {}x{} matrix (no such element) wrote different elements: row-major now {:?}, col-major now {:?}; before {:?}",
                    i, j, N, N, ra(r), ca(c), m
                );
                *m = ra(r);
            }
        }
    }
    Ok(())
}

/// Element domains of the enumerated check: different size / alignment / Copy / drop-glue classes.
const BOUNDS_DOMAINS: [&str; 5] = ["Sym (8 B)", "u8 (1 B)", "i32 (4 B)", "u128 newtype (16 B, align 16)", "String newtype (24 B, drop glue)"];

/// Number of cases of `index_bounds`: for each element domain and size, every candidate pair, read and write.
pub fn index_bounds_total() -> u64 {
    BOUNDS_DOMAINS.len() as u64 * (2..=4usize).map(|n| (index_candidates(n).len() as u64).pow(2) * 2).sum::<u64>()
}

#[allow(clippy::too_many_arguments)]
fn bounds_go<T, const N: usize, R, C>(cx: &mut Cx, i: usize, j: usize, write: bool, mk: impl Fn(usize) -> T, fr: impl Fn(&[[T; N]; N]) -> R, fc: impl Fn(&[[T; N]; N]) -> C, ra: impl Fn(&R) -> [[T; N]; N], ca: impl Fn(&C) -> [[T; N]; N]) -> CaseResult
where
    T: Clone + PartialEq + Debug,
    R: IndexMut<(usize, usize), Output = T>,
    C: IndexMut<(usize, usize), Output = T>,
{
    let mut m: [[T; N]; N] = std::array::from_fn(|a| std::array::from_fn(|b| mk(1 + a * N + b)));
    let (mut r, mut c) = (fr(&m), fc(&m));
    index_pair_case_with(cx, i, j, write, &mut r, &mut c, &mut m, mk(99), ra, ca)
}

/// Enumerated: element domain x size x candidate i x candidate j x {read, write}.
pub fn index_bounds(idx: u64, cx: &mut Cx) -> CaseResult {
    use crate::owned::OMat;
    let per_dom = index_bounds_total() / BOUNDS_DOMAINS.len() as u64;
    let dom = (idx / per_dom) as usize;
    let mut rest = idx % per_dom;
    for n in 2..=4usize {
        let cand = index_candidates(n);
        let k = cand.len() as u64;
        let block = k * k * 2;
        if rest >= block {
            rest -= block;
            continue;
        }
        let write = rest % 2 == 1;
        let (i, j) = (cand[((rest / 2) / k) as usize], cand[((rest / 2) % k) as usize]);
        cx.label(oob_label(n, i, j));
        cx.label(if write { "IndexMut" } else { "Index" });
        cx.label(BOUNDS_DOMAINS[dom]);
        cx.set_nontrivial(i >= n || j >= n);
        sample!(cx, "{} n={} (i,j)=({},{}) {}", BOUNDS_DOMAINS[dom], n, i, j, if write { "write" } else { "read" });
        macro_rules! sizes {
            ($Tr:ident, $T:ty, $mk:expr) => {
                match n {
                    2 => bounds_go::<$T, 2, rm::Mat2<$T>, cm::Mat2<$T>>(cx, i, j, write, $mk, <rm::Mat2<$T> as $Tr<$T, 2>>::from_arr, <cm::Mat2<$T> as $Tr<$T, 2>>::from_arr, <rm::Mat2<$T> as $Tr<$T, 2>>::to_arr, <cm::Mat2<$T> as $Tr<$T, 2>>::to_arr),
                    3 => bounds_go::<$T, 3, rm::Mat3<$T>, cm::Mat3<$T>>(cx, i, j, write, $mk, <rm::Mat3<$T> as $Tr<$T, 3>>::from_arr, <cm::Mat3<$T> as $Tr<$T, 3>>::from_arr, <rm::Mat3<$T> as $Tr<$T, 3>>::to_arr, <cm::Mat3<$T> as $Tr<$T, 3>>::to_arr),
                    _ => bounds_go::<$T, 4, rm::Mat4<$T>, cm::Mat4<$T>>(cx, i, j, write, $mk, <rm::Mat4<$T> as $Tr<$T, 4>>::from_arr, <cm::Mat4<$T> as $Tr<$T, 4>>::from_arr, <rm::Mat4<$T> as $Tr<$T, 4>>::to_arr, <cm::Mat4<$T> as $Tr<$T, 4>>::to_arr),
                }
            };
        }
        return match dom {
            0 => sizes!(MatN, Sym, |k: usize| Sym::atom(k as u32)),
            1 => sizes!(MatN, u8, |k: usize| k as u8),
            2 => sizes!(MatN, i32, |k: usize| -(k as i32)),
            3 => sizes!(OMat, E16, |k: usize| E16::from_k(k as u64)),
            _ => sizes!(OMat, ES, |k: usize| ES::from_k(k as u64)),
        };
    }
    fail!("index {} outside the enumerated space", idx)
}

// ---------------------------------------------------------------------------------------------------------
// Display under format flags

/// An element whose `Display` writes down every flag of the formatter it is handed, so a dropped or altered
/// flag is visible on every element whatever its value.
#[derive(Clone, Copy, Debug, PartialEq)]
pub struct Spy(pub u8);

impl Display for Spy {
    fn fmt(&self, f: &mut fmt::Formatter) -> fmt::Result {
        let al = match f.align() {
            None => '-',
            Some(fmt::Alignment::Left) => '<',
            Some(fmt::Alignment::Right) => '>',
            Some(fmt::Alignment::Center) => '^',
        };
        let (w, p, fill, plus, minus, alt, zero) = (f.width(), f.precision(), f.fill(), f.sign_plus(), f.sign_minus(), f.alternate(), f.sign_aware_zero_pad());
        f.write_str(&format!(
            "e{}[w{:?},p{:?},f{:?},a{}{}{}{}{}]",
            self.0,
            w,
            p,
            fill,
            al,
            if plus { ",+" } else { "" },
            if minus { ",-" } else { "" },
            if alt { ",#" } else { "" },
            if zero { ",0" } else { "" }
        ))
    }
}

pub const N_SPECS: usize = 30;

macro_rules! lit {
    ($s:literal, $x:expr) => {
        ($s, format!($s, $x))
    };
}

/// Format `x` under format spec number `k` (`w`, `p`: run-time width / precision for the `$` specs).
/// Returns the spec's name and the text.
pub fn spec(k: usize, x: &dyn Display, w: usize, p: usize) -> (&'static str, String) {
    match k {
        0 => lit!("{}", x),
        1 => lit!("{:.0}", x),
        2 => lit!("{:.1}", x),
        3 => lit!("{:.3}", x),
        4 => lit!("{:.17}", x),
        5 => lit!("{:8.2}", x),
        6 => lit!("{:+}", x),
        7 => lit!("{:06}", x),
        8 => lit!("{:<7}", x),
        9 => lit!("{:>7}", x),
        10 => lit!("{:^9}", x),
        11 => lit!("{:*^9}", x),
        12 => lit!("{:_<5}", x),
        13 => lit!("{:+.2}", x),
        14 => lit!("{:+08.3}", x),
        15 => lit!("{:#}", x),
        16 => lit!("{:12}", x),
        17 => lit!("{:1}", x),
        18 => lit!("{:0>4}", x),
        19 => lit!("{:#010.1}", x),
        20 => lit!("{:-}", x),
        21 => lit!("{:>+9.4}", x),
        22 => ("{:w$}", format!("{:1$}", x, w)),
        23 => ("{:.p$}", format!("{:.1$}", x, p)),
        24 => ("{:w$.p$}", format!("{:1$.2$}", x, w, p)),
        25 => ("{:+0w$.p$}", format!("{:+01$.2$}", x, w, p)),
        26 => ("{:~^w$}", format!("{:~^1$}", x, w)),
        27 => ("{:.*}", format!("{:.*}", p, x)),
        28 => ("{:<w$.p$}", format!("{:<1$.2$}", x, w, p)),
        _ => ("{:#>+w$}", format!("{:#>+1$}", x, w)),
    }
}

/// The documented text `( m00 ... m0j\n  ... )` with every element formatted on its own under spec `k`.
pub fn display_model_spec<T: Display, const N: usize>(m: &[[T; N]; N], k: usize, w: usize, p: usize) -> String {
    let mut s = String::from("(");
    for i in 0..N {
        if i > 0 {
            s.push_str("\n ");
        }
        for j in 0..N {
            s.push(' ');
            s.push_str(&spec(k, &m[i][j], w, p).1);
        }
    }
    s.push_str(" )");
    s
}

fn transpose_any<T: Copy, const N: usize>(a: &[[T; N]; N]) -> [[T; N]; N] {
    let mut r = *a;
    for i in 0..N {
        for j in 0..N {
            r[i][j] = a[j][i];
        }
    }
    r
}

fn display_case<S, const N: usize, R, C>(t: &mut Tape, cx: &mut Cx, a: &[[S; N]; N], kind: &'static str) -> CaseResult
where
    S: Copy + Debug + Display,
    R: MatN<S, N> + Display,
    C: MatN<S, N> + Display,
{
    let (r, c) = (R::from_arr(a), C::from_arr(a));
    // 1 case in 16 uses the plain spec; the others a non-default one
    let k = if t.chance(16) { 0 } else { 1 + t.below(N_SPECS - 1) };
    let w = match t.below(8) {
        0 => 0,
        1 => 40,
        _ => t.below(16),
    };
    let p = match t.below(8) {
        0 => 0,
        1 => 30,
        _ => t.below(10),
    };
    let (name, tr) = spec(k, &r, w, p);
    let (_, tc) = spec(k, &c, w, p);
    let want = display_model_spec(a, k, w, p);
    cx.label(name);
    cx.label(kind);
    sample!(cx, "{} n={} spec={} w={} p={} A={:?} text={:?}", kind, N, name, w, p, a, want);
    check!(
        cx,
        tr == tc,
        "Display under {} (w={}, p={}) of the same {}x{} {} matrix depends on the layout: row-major {:?}, col-major {:?}; A={:?}",
        name, w, p, N, N, kind, tr, tc, a
    );
    check_eq!(cx, tr, want, "row-major Display under {} (w={}, p={}) vs each element formatted under it, A={:?}", name, w, p, a);
    check_eq!(cx, tc, want, "col-major Display under {} (w={}, p={}) vs each element formatted under it, A={:?}", name, w, p, a);
    // the flags are visible on some element, and an (i,j)/(j,i) mix-up changes the text
    let plain = display_model_spec(a, 0, 0, 0);
    let flipped = display_model_spec(&transpose_any(a), k, w, p);
    cx.set_nontrivial(k != 0 && want != plain && want != flipped);
    Ok(())
}

fn gen_f64(t: &mut Tape) -> f64 {
    match t.below(8) {
        0 | 1 => <f64 as Special>::specials()[t.below(15)],
        2 => t.int(-1000, 1000) as f64,
        3 => t.int(-20000, 20000) as f64 / 16.0,
        4 => int_edge(t, i64::MIN as i128, i64::MAX as i128) as f64,
        5 => t.range_f64(-1.0, 1.0) * (2.0f64).powi(t.int(-60, 60) as i32),
        _ => t.range_f64(-100.0, 100.0),
    }
}
fn gen_f32(t: &mut Tape) -> f32 {
    match t.below(8) {
        0 | 1 => <f32 as Special>::specials()[t.below(15)],
        2 => t.int(-1000, 1000) as f32,
        3 => t.int(-20000, 20000) as f32 / 16.0,
        4 => int_edge(t, i32::MIN as i128, i32::MAX as i128) as f32,
        5 => (t.range_f64(-1.0, 1.0) * (2.0f64).powi(t.int(-30, 30) as i32)) as f32,
        _ => t.range_f64(-100.0, 100.0) as f32,
    }
}
fn gen_int(t: &mut Tape, min: i128, max: i128) -> i128 {
    match t.below(4) {
        0 => int_edge(t, min, max),
        1 => (t.int(-9, 9) as i128).clamp(min, max),
        2 => (t.int(-30000, 30000) as i128).clamp(min, max),
        _ => (t.u64() as i64 as i128).clamp(min, max),
    }
}

const WORDS: [&str; 16] = ["", "a", "bc", "def", "ghij", "klmno", "-1", "+2.50", "NaN", "pqrstuvwx", "\u{e9}", "\u{65e5}\u{672c}", " ", "0", "yz", "x y"];

/// Display under a generated format spec, both layouts against each other and against the per-element model.
pub fn display_flags(t: &mut Tape, cx: &mut Cx) -> CaseResult {
    macro_rules! sized {
        ($N:expr, $Mat:ident, $kind:expr) => {{
            const N: usize = $N;
            match $kind {
                0 => {
                    let mut a = [[0f64; N]; N];
                    for i in 0..N { for j in 0..N { a[i][j] = gen_f64(t); } }
                    display_case::<f64, N, rm::$Mat<f64>, cm::$Mat<f64>>(t, cx, &a, "f64")
                }
                1 => {
                    let mut a = [[0f32; N]; N];
                    for i in 0..N { for j in 0..N { a[i][j] = gen_f32(t); } }
                    display_case::<f32, N, rm::$Mat<f32>, cm::$Mat<f32>>(t, cx, &a, "f32")
                }
                2 => {
                    let mut a = [[0i32; N]; N];
                    for i in 0..N { for j in 0..N { a[i][j] = gen_int(t, i32::MIN as i128, i32::MAX as i128) as i32; } }
                    display_case::<i32, N, rm::$Mat<i32>, cm::$Mat<i32>>(t, cx, &a, "i32")
                }
                3 => {
                    let mut a = [[0i64; N]; N];
                    for i in 0..N { for j in 0..N { a[i][j] = gen_int(t, i64::MIN as i128, i64::MAX as i128) as i64; } }
                    display_case::<i64, N, rm::$Mat<i64>, cm::$Mat<i64>>(t, cx, &a, "i64")
                }
                4 => {
                    let mut a = [[0u8; N]; N];
                    for i in 0..N { for j in 0..N { a[i][j] = gen_int(t, 0, 255) as u8; } }
                    display_case::<u8, N, rm::$Mat<u8>, cm::$Mat<u8>>(t, cx, &a, "u8")
                }
                5 => {
                    // pairwise distinct words (odd step through a 16-entry table)
                    let (start, step) = (t.below(16), 1 + 2 * t.below(8));
                    let mut a = [[""; N]; N];
                    for i in 0..N { for j in 0..N { a[i][j] = WORDS[(start + (i * N + j) * step) % 16]; } }
                    display_case::<&'static str, N, rm::$Mat<&'static str>, cm::$Mat<&'static str>>(t, cx, &a, "&str")
                }
                _ => {
                    let start = t.u8() as usize;
                    let mut a = [[Spy(0); N]; N];
                    for i in 0..N { for j in 0..N { a[i][j] = Spy(((start + i * N + j) % 256) as u8); } }
                    display_case::<Spy, N, rm::$Mat<Spy>, cm::$Mat<Spy>>(t, cx, &a, "flag-recording element")
                }
            }
        }};
    }
    let n = 2 + t.below(3);
    let kind = t.below(7);
    match n {
        2 => sized!(2, Mat2, kind),
        3 => sized!(3, Mat3, kind),
        _ => sized!(4, Mat4, kind),
    }
}

// ---------------------------------------------------------------------------------------------------------
// as_ / numcast / element moves on IEEE specials and integers next to the limits

fn bits64<const N: usize>(a: &[[f64; N]; N]) -> [[u64; N]; N] {
    let mut r = [[0u64; N]; N];
    for i in 0..N {
        for j in 0..N {
            // all NaNs alike (a move keeps the payload, `as` may quiet it: neither matters here)
            r[i][j] = if a[i][j].is_nan() { u64::MAX } else { a[i][j].to_bits() };
        }
    }
    r
}
fn bits32<const N: usize>(a: &[[f32; N]; N]) -> [[u32; N]; N] {
    let mut r = [[0u32; N]; N];
    for i in 0..N {
        for j in 0..N {
            r[i][j] = if a[i][j].is_nan() { u32::MAX } else { a[i][j].to_bits() };
        }
    }
    r
}
fn map_arr<A: Copy, B: Copy + Default, const N: usize>(a: &[[A; N]; N], f: impl Fn(A) -> B) -> [[B; N]; N] {
    let mut r = [[B::default(); N]; N];
    for i in 0..N {
        for j in 0..N {
            r[i][j] = f(a[i][j]);
        }
    }
    r
}
/// Whole-matrix numcast model: every element converted by the scalar `NumCast`, `None` if one of them fails.
fn numcast_model<A: Copy + NumCast, B: Copy + Default + NumCast, const N: usize>(a: &[[A; N]; N]) -> Option<[[B; N]; N]> {
    let mut r = [[B::default(); N]; N];
    for i in 0..N {
        for j in 0..N {
            r[i][j] = <B as NumCast>::from(a[i][j])?;
        }
    }
    Some(r)
}

pub fn numeric_edges(t: &mut Tape, cx: &mut Cx) -> CaseResult {
    macro_rules! run {
        ($N:expr, $Mat:ident, $av:path) => {{
            const N: usize = $N;
            // --- f64 elements: specials, integers next to the i32/i64/2^24/2^53 bounds (some +0.5), ordinary
            // "tame" cases (one half): every element fits i32 / u64, so numcast succeeds and shows positions
            let tame = t.bool();
            cx.label(if tame { "all elements fit the numcast target" } else { "unrestricted elements" });
            let mut a = [[0f64; N]; N];
            let mut edgy = 0;
            for i in 0..N {
                for j in 0..N {
                    a[i][j] = match (tame, t.below(4)) {
                        (false, 0) => { edgy += 1; <f64 as Special>::specials()[t.below(15)] }
                        (false, 1) => { edgy += 1; int_edge(t, i64::MIN as i128, i64::MAX as i128) as f64 }
                        (false, 2) => { edgy += 1; int_edge(t, i32::MIN as i128 - 1, i32::MAX as i128 + 1) as f64 + if t.bool() { 0.5 } else { 0.0 } }
                        (true, 0) | (true, 1) => { edgy += 1; int_edge(t, i32::MIN as i128, i32::MAX as i128) as f64 }
                        (true, 2) => { edgy += 1; int_edge(t, i32::MIN as i128 + 1, i32::MAX as i128 - 1) as f64 + if t.bool() { 0.5 } else { -0.5 } }
                        _ => t.int(-2000, 2000) as f64 / 8.0,
                    };
                }
            }
            let (r, c) = (rm::$Mat::<f64>::from_arr(&a), cm::$Mat::<f64>::from_arr(&a));
            // as_ is the `as` cast of the element at the same (i,j)
            check_eq!(cx, r.as_::<i32>().to_arr(), map_arr(&a, |x| x as i32), "row-major f64 as_ i32, A={:?}", a);
            check_eq!(cx, c.as_::<i32>().to_arr(), map_arr(&a, |x| x as i32), "col-major f64 as_ i32, A={:?}", a);
            check_eq!(cx, r.as_::<u8>().to_arr(), map_arr(&a, |x| x as u8), "row-major f64 as_ u8, A={:?}", a);
            check_eq!(cx, c.as_::<u8>().to_arr(), map_arr(&a, |x| x as u8), "col-major f64 as_ u8, A={:?}", a);
            check_eq!(cx, r.as_::<i64>().to_arr(), map_arr(&a, |x| x as i64), "row-major f64 as_ i64, A={:?}", a);
            check_eq!(cx, c.as_::<i64>().to_arr(), map_arr(&a, |x| x as i64), "col-major f64 as_ i64, A={:?}", a);
            check_eq!(cx, bits32(&r.as_::<f32>().to_arr()), bits32(&map_arr(&a, |x| x as f32)), "row-major f64 as_ f32, A={:?}", a);
            check_eq!(cx, bits32(&c.as_::<f32>().to_arr()), bits32(&map_arr(&a, |x| x as f32)), "col-major f64 as_ f32, A={:?}", a);
            // numcast: per element at the same (i,j); None as a whole iff one element does not fit
            let w32 = numcast_model::<f64, i32, N>(&a);
            check_eq!(cx, r.numcast::<i32>().map(|m| m.to_arr()), w32, "row-major f64 numcast i32, A={:?}", a);
            check_eq!(cx, c.numcast::<i32>().map(|m| m.to_arr()), w32, "col-major f64 numcast i32, A={:?}", a);
            let w64 = numcast_model::<f64, i64, N>(&a);
            check_eq!(cx, r.numcast::<i64>().map(|m| m.to_arr()), w64, "row-major f64 numcast i64, A={:?}", a);
            check_eq!(cx, c.numcast::<i64>().map(|m| m.to_arr()), w64, "col-major f64 numcast i64, A={:?}", a);
            let wf = numcast_model::<f64, f32, N>(&a).map(|m| bits32(&m));
            check_eq!(cx, r.numcast::<f32>().map(|m| bits32(&m.to_arr())), wf, "row-major f64 numcast f32, A={:?}", a);
            check_eq!(cx, c.numcast::<f32>().map(|m| bits32(&m.to_arr())), wf, "col-major f64 numcast f32, A={:?}", a);
            cx.label(if w32.is_some() { "numcast i32: fits" } else { "numcast i32: None" });
            // moving elements around keeps every one of them bit for bit (signed zeros, infinities, subnormals, NaN)
            let at = transpose_any(&a);
            check_eq!(cx, bits64(&r.transposed().to_arr()), bits64(&at), "row-major transposed() of specials, A={:?}", a);
            check_eq!(cx, bits64(&c.transposed().to_arr()), bits64(&at), "col-major transposed() of specials, A={:?}", a);
            check_eq!(cx, bits64(&cm::$Mat::<f64>::from(r).to_arr()), bits64(&a), "row-major -> col-major of specials, A={:?}", a);
            check_eq!(cx, bits64(&rm::$Mat::<f64>::from(c).to_arr()), bits64(&a), "col-major -> row-major of specials, A={:?}", a);
            check_eq!(cx, bits64(&r.into_col_arrays()), bits64(&at), "row-major into_col_arrays of specials, A={:?}", a);
            check_eq!(cx, bits64(&c.into_row_arrays()), bits64(&a), "col-major into_row_arrays of specials, A={:?}", a);
            let (dr, dc): ([f64; N], [f64; N]) = ($av(&r.diagonal()), $av(&c.diagonal()));
            for i in 0..N {
                check!(cx, <f64 as Special>::same_bits(dr[i], a[i][i]) && <f64 as Special>::same_bits(dc[i], a[i][i]), "diagonal()[{}] of specials: row-major {:?}, col-major {:?}, A={:?}", i, dr, dc, a);
            }
            for i in 0..N {
                for j in 0..N {
                    check!(cx, <f64 as Special>::same_bits(r[(i, j)], a[i][j]) && <f64 as Special>::same_bits(c[(i, j)], a[i][j]), "m[({},{})] of specials, A={:?}", i, j, a);
                }
            }

            // --- i64 elements next to the limits
            let mut b = [[0i64; N]; N];
            for i in 0..N { for j in 0..N { b[i][j] = if tame { gen_int(t, 0, i32::MAX as i128) } else { gen_int(t, i64::MIN as i128, i64::MAX as i128) } as i64; } }
            let (r, c) = (rm::$Mat::<i64>::from_arr(&b), cm::$Mat::<i64>::from_arr(&b));
            check_eq!(cx, r.as_::<i32>().to_arr(), map_arr(&b, |x| x as i32), "row-major i64 as_ i32, B={:?}", b);
            check_eq!(cx, c.as_::<i32>().to_arr(), map_arr(&b, |x| x as i32), "col-major i64 as_ i32, B={:?}", b);
            check_eq!(cx, r.as_::<u64>().to_arr(), map_arr(&b, |x| x as u64), "row-major i64 as_ u64, B={:?}", b);
            check_eq!(cx, c.as_::<u64>().to_arr(), map_arr(&b, |x| x as u64), "col-major i64 as_ u64, B={:?}", b);
            check_eq!(cx, bits32(&r.as_::<f32>().to_arr()), bits32(&map_arr(&b, |x| x as f32)), "row-major i64 as_ f32, B={:?}", b);
            check_eq!(cx, bits32(&c.as_::<f32>().to_arr()), bits32(&map_arr(&b, |x| x as f32)), "col-major i64 as_ f32, B={:?}", b);
            check_eq!(cx, bits64(&r.as_::<f64>().to_arr()), bits64(&map_arr(&b, |x| x as f64)), "row-major i64 as_ f64, B={:?}", b);
            check_eq!(cx, bits64(&c.as_::<f64>().to_arr()), bits64(&map_arr(&b, |x| x as f64)), "col-major i64 as_ f64, B={:?}", b);
            let wi = numcast_model::<i64, i32, N>(&b);
            check_eq!(cx, r.numcast::<i32>().map(|m| m.to_arr()), wi, "row-major i64 numcast i32, B={:?}", b);
            check_eq!(cx, c.numcast::<i32>().map(|m| m.to_arr()), wi, "col-major i64 numcast i32, B={:?}", b);
            let wu = numcast_model::<i64, u64, N>(&b);
            check_eq!(cx, r.numcast::<u64>().map(|m| m.to_arr()), wu, "row-major i64 numcast u64, B={:?}", b);
            check_eq!(cx, c.numcast::<u64>().map(|m| m.to_arr()), wu, "col-major i64 numcast u64, B={:?}", b);
            cx.label(if wu.is_some() { "numcast u64: fits" } else { "numcast u64: None" });

            cx.set_nontrivial(edgy >= 2 && bits64(&a) != bits64(&at) && b != transpose_any(&b));
            sample!(cx, "n={} A={:?} B={:?}", N, a, b);
        }};
    }
    match t.below(3) {
        0 => run!(2, Mat2, vk::a2),
        1 => run!(3, Mat3, vk::a3),
        _ => run!(4, Mat4, vk::a4),
    }
    Ok(())
}
