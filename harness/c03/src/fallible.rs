//! C03 - `Display` through *fallible* formatting machinery.
//!
//! "Display output does not depend on the layout" is otherwise only observed through sinks that cannot fail
//! (`String`). Here the same abstract matrix, held row-major and column-major, is formatted with
//! `write!(sink, "{...}", m)` into sinks `impl fmt::Write` that reject a write - from the k-th `write_str` call
//! on, only the k-th call (later, shorter pieces are accepted again, like a fixed buffer that skips what does
//! not fit), or whatever would exceed a byte capacity c - for every k / every c from 0 to beyond the total, and
//! with elements whose own `Display::fmt` returns `Err` (before, in the middle of, or after their own text).
//!
//! Oracle. The text is the documented `( m00 ... m0j\n  ... )` with every element formatted on its own under
//! the caller's spec (`Expect`, built from the elements alone; it never formats a matrix). The general contract
//! of `fmt` - an error of the sink or of a nested `fmt` is propagated, never swallowed - fixes the rest:
//! the pieces offered to the sink up to and including the first rejected one are a prefix of the text, nothing at
//! all is offered after a rejected piece, the result is `Err` iff a piece was rejected or an element failed,
//! and without a rejection the sink holds exactly the text up to the point where the first failing element gave
//! up. None of this depends on where vek cuts the text into `write_str` pieces. Between the layouts the accepted
//! bytes and the `fmt::Result` must be identical for every sink.

use std::fmt::{self, Debug, Display, Write};

use vek::mat::repr_c::column_major as cm;
use vek::mat::repr_c::row_major as rm;
use vkit::*;

use crate::owned::OMat;

// ---------------------------------------------------------------------------------------------------------
// sinks

#[derive(Clone, Copy, Debug, PartialEq, Eq)]
pub enum SinkKind {
    /// accepts everything
    Never,
    /// rejects the k-th `write_str` call (0-based) and every later one
    FailFrom(usize),
    /// rejects exactly the k-th call and accepts the later ones
    FailOnce(usize),
    /// rejects a piece that would make the content longer than c bytes; accepts later pieces that fit
    Cap(usize),
}

pub struct Sink {
    kind: SinkKind,
    calls: usize,
    /// every accepted byte, in order (those accepted after a rejection included)
    accepted: String,
    /// `accepted.len()` when the first piece was rejected
    before: usize,
    /// the first rejected piece
    rejected: Option<String>,
    /// calls made after the first rejection (accepted or not)
    calls_after: usize,
}

impl Sink {
    pub fn new(kind: SinkKind) -> Sink {
        Sink { kind, calls: 0, accepted: String::new(), before: 0, rejected: None, calls_after: 0 }
    }
}

// `write_char` and `write_fmt` are deliberately the provided ones: every byte arrives through `write_str`.
impl Write for Sink {
    fn write_str(&mut self, s: &str) -> fmt::Result {
        let k = self.calls;
        self.calls += 1;
        if self.rejected.is_some() {
            self.calls_after += 1;
        }
        let ok = match self.kind {
            SinkKind::Never => true,
            SinkKind::FailFrom(n) => k < n,
            SinkKind::FailOnce(n) => k != n,
            SinkKind::Cap(c) => self.accepted.len() + s.len() <= c,
        };
        if ok {
            self.accepted.push_str(s);
            Ok(())
        } else {
            if self.rejected.is_none() {
                self.rejected = Some(s.to_string());
                self.before = self.accepted.len();
            }
            Err(fmt::Error)
        }
    }
}

// ---------------------------------------------------------------------------------------------------------
// format specs (the caller's side of the machinery)

pub const N_SPECS: usize = 9;
pub const SPEC_NAMES: [&str; N_SPECS] =
    ["spec {}", "spec {:.1}", "spec {:6}", "spec {:<4}", "spec {:*^9}", "spec {:+07.2}", "spec {:w$.p$} (5, 3)", "spec <{}> (literal text around)", "spec [{:3}]\\n (literal text around)"];

/// `write!(out, SPEC, x)` for spec number `k`.
fn emit<W: Write, D: Display + ?Sized>(k: usize, out: &mut W, x: &D) -> fmt::Result {
    match k {
        0 => write!(out, "{}", x),
        1 => write!(out, "{:.1}", x),
        2 => write!(out, "{:6}", x),
        3 => write!(out, "{:<4}", x),
        4 => write!(out, "{:*^9}", x),
        5 => write!(out, "{:+07.2}", x),
        6 => write!(out, "{:1$.2$}", x, 5, 3),
        7 => write!(out, "<{}>", x),
        _ => write!(out, "[{:3}]\n", x),
    }
}
/// The flags of spec `k` without its literal text: what every element sees.
fn emit_elem<W: Write, D: Display + ?Sized>(k: usize, out: &mut W, x: &D) -> fmt::Result {
    match k {
        7 => write!(out, "{}", x),
        8 => write!(out, "{:3}", x),
        _ => emit(k, out, x),
    }
}
fn literal(k: usize) -> (&'static str, &'static str) {
    match k {
        7 => ("<", ">"),
        8 => ("[", "]\n"),
        _ => ("", ""),
    }
}

// ---------------------------------------------------------------------------------------------------------
// the reference

/// What an unfailing sink must hold after `write!(sink, SPEC, m)`, and whether an element gave up.
pub struct Expect {
    text: String,
    elem_failed: bool,
    /// (start offset, what starts there), ascending
    regions: Vec<(usize, &'static str)>,
}

impl Expect {
    fn region(&self, off: usize) -> &'static str {
        let mut tag = "failure at: nothing (empty text)";
        for (s, t) in &self.regions {
            if *s <= off {
                tag = t;
            }
        }
        tag
    }
}

/// Reference formatter: `( m00 ... m0j\n  ... )`, every element formatted on its own into an unfailing sink
/// under the element part of spec `k`; stops where the first element (in row order) returns `Err`.
pub fn expect<T: Display, const N: usize>(a: &[[T; N]; N], k: usize) -> Expect {
    let (pre, post) = literal(k);
    let mut e = Expect { text: String::new(), elem_failed: false, regions: Vec::new() };
    macro_rules! put {
        ($tag:expr, $s:expr) => {{
            e.regions.push((e.text.len(), $tag));
            e.text.push_str($s);
        }};
    }
    if !pre.is_empty() {
        put!("failure at: caller's literal text before", pre);
    }
    put!("failure at: opening '('", "(");
    for i in 0..N {
        if i > 0 {
            put!("failure at: row break", "\n ");
        }
        for j in 0..N {
            put!(if i == 0 { "failure at: separator ' ' in row 0" } else { "failure at: separator ' ' in a later row" }, " ");
            let mut alone = Sink::new(SinkKind::Never);
            let res = emit_elem(k, &mut alone, &a[i][j]);
            put!(if i == 0 { "failure at: element of row 0" } else { "failure at: element of a later row" }, &alone.accepted);
            if res.is_err() {
                e.elem_failed = true;
                return e;
            }
        }
    }
    put!("failure at: closing ' )'", " )");
    if !post.is_empty() {
        put!("failure at: caller's literal text after", post);
    }
    e
}

// ---------------------------------------------------------------------------------------------------------
// one (matrix, spec, sink) observation

#[allow(clippy::too_many_arguments)]
fn judge<T: Debug, const N: usize>(cx: &mut Cx, layout: &str, s: &Sink, res: &fmt::Result, ex: &Expect, a: &[[T; N]; N], spec: &str) -> CaseResult {
    check!(
        cx,
        s.calls_after == 0,
        "{} Display went on writing after the sink had rejected a piece (a failed write was swallowed): sink {:?}, {}x{} under {}: {} further write_str call(s); accepted before the rejection {:?}, rejected piece {:?}, accepted afterwards {:?}, result {:?}; A={:?}",
        layout, s.kind, N, N, spec, s.calls_after, &s.accepted[..s.before], s.rejected, &s.accepted[s.before..], res, a
    );
    let mut offered = s.accepted.clone();
    if let Some(p) = &s.rejected {
        offered.push_str(p);
    }
    check!(
        cx,
        ex.text.starts_with(&offered),
        "{} Display into sink {:?}, {}x{} under {}: the pieces offered to the sink {:?} (rejected: {:?}) are not a prefix of the text {:?}; A={:?}",
        layout, s.kind, N, N, spec, offered, s.rejected, ex.text, a
    );
    let want_err = s.rejected.is_some() || ex.elem_failed;
    check!(
        cx,
        res.is_err() == want_err,
        "{} Display into sink {:?}, {}x{} under {}: result {:?}, but the sink rejected {:?} and an element failing = {}; sink holds {:?}, text {:?}; A={:?}",
        layout, s.kind, N, N, spec, res, s.rejected, ex.elem_failed, s.accepted, ex.text, a
    );
    if s.rejected.is_none() {
        check!(
            cx,
            s.accepted == ex.text,
            "{} Display into sink {:?} (nothing rejected), {}x{} under {}: sink holds {:?}, want {:?} (an element failing = {}); A={:?}",
            layout, s.kind, N, N, spec, s.accepted, ex.text, ex.elem_failed, a
        );
    }
    Ok(())
}

pub const FAMILIES: [&str; 4] = [
    "sink: std String and a recording sink that never fails",
    "sink: fails from the k-th write_str on, k = 0 ..= total+1",
    "sink: fails at the k-th write_str only, accepts later ones, k = 0 ..= total+1",
    "sink: byte capacity c (rejects what does not fit, accepts later shorter pieces), c = 0 ..= len+1",
];

/// All observations of one (matrix, spec, sink family): every failure position of the family, both layouts.
pub fn run<T, const N: usize, R, C>(cx: &mut Cx, a: &[[T; N]; N], k: usize, family: usize, dom: &'static str) -> CaseResult
where
    T: Clone + Debug + Display,
    R: OMat<T, N> + Display,
    C: OMat<T, N> + Display,
{
    let (r, c) = (R::from_arr(a), C::from_arr(a));
    let spec = SPEC_NAMES[k];
    let ex = expect(a, k);
    cx.label(FAMILIES[family]);
    cx.label(spec);
    cx.label(dom);
    cx.label(match N {
        2 => "size 2",
        3 => "size 3",
        _ => "size 4",
    });
    cx.label(if ex.elem_failed { "an element's own fmt returns Err" } else { "no element fails" });

    // the real std sink
    let (mut sr, mut sc) = (String::new(), String::new());
    let (rr, rc) = (emit(k, &mut sr, &r), emit(k, &mut sc, &c));
    check!(cx, sr == sc && rr == rc, "Display into a String under {} depends on the layout: row-major {:?} {:?}, col-major {:?} {:?}; A={:?}", spec, rr, sr, rc, sc, a);
    check!(cx, sr == ex.text && rr.is_err() == ex.elem_failed, "Display into a String under {}: got {:?} {:?}, want {:?} and Err = {}; A={:?}", spec, rr, sr, ex.text, ex.elem_failed, a);

    // an unfailing recording sink: gives the number of write_str calls, the bound of the enumeration below
    let (mut nr, mut nc) = (Sink::new(SinkKind::Never), Sink::new(SinkKind::Never));
    let (rr, rc) = (emit(k, &mut nr, &r), emit(k, &mut nc, &c));
    judge(cx, "row-major", &nr, &rr, &ex, a, spec)?;
    judge(cx, "col-major", &nc, &rc, &ex, a, spec)?;
    let total_calls = nr.calls.max(nc.calls);
    let len = ex.text.len();

    let positions = match family {
        0 => 0,
        1 | 2 => total_calls + 2,
        _ => len + 2,
    };
    let mut inside = false;
    for pos in 0..positions {
        let kind = match family {
            1 => SinkKind::FailFrom(pos),
            2 => SinkKind::FailOnce(pos),
            _ => SinkKind::Cap(pos),
        };
        let (mut sr, mut sc) = (Sink::new(kind), Sink::new(kind));
        let (rr, rc) = (emit(k, &mut sr, &r), emit(k, &mut sc, &c));
        check!(
            cx,
            sr.accepted == sc.accepted && rr == rc,
            "Display into sink {:?} of the same {}x{} matrix under {} depends on the layout: row-major {:?} holding {:?} (rejected {:?}), col-major {:?} holding {:?} (rejected {:?}); A={:?}",
            kind, N, N, spec, rr, sr.accepted, sr.rejected, rc, sc.accepted, sc.rejected, a
        );
        judge(cx, "row-major", &sr, &rr, &ex, a, spec)?;
        judge(cx, "col-major", &sc, &rc, &ex, a, spec)?;
        match &sr.rejected {
            Some(_) => {
                cx.label(ex.region(sr.before));
                inside |= sr.before > 0;
            }
            None => cx.label(if ex.elem_failed { "position beyond the total: an element fails first" } else { "position beyond the total: nothing fails" }),
        }
    }
    // non-trivial: the matrix reads differently when transposed, and something failed after the first byte
    let flipped: [[T; N]; N] = std::array::from_fn(|i| std::array::from_fn(|j| a[j][i].clone()));
    let ft = expect(&flipped, k);
    cx.set_nontrivial(ft.text != ex.text && (inside || (ex.elem_failed && len > 1)));
    sample!(cx, "{} n={} {} {} text={:?} elem_failed={} write_str calls={}", dom, N, spec, FAMILIES[family], ex.text, ex.elem_failed, total_calls);
    Ok(())
}

// ---------------------------------------------------------------------------------------------------------
// element domains

const WORDS: [&str; 16] = ["", "a", "bc", "def", "ghij", "klmno", "-1", "+2.50", "NaN", "pqrstuvwxyz0123456789", "\u{e9}", "\u{65e5}\u{672c}", " ", "0", "yz", "x y"];
const INTS: [i32; 16] = [0, i32::MIN, 7, 123456, -1, i32::MAX, 10, -99, 1000, -12345678, 42, 5, -7, 99999, 3, -300];
const BIG: [u64; 16] = [0, u64::MAX, 1, 10, 1 << 32, 999, 18_000_000_000_000_000_000, 77, 1 << 63, 123456789, 2, 65535, 4_294_967_295, 31, 100_000, 9];
const FLOATS: [f64; 16] = [0.5, -1234.5678, 1e10, -0.0, f64::NAN, f64::INFINITY, 3.0, 1e-7, -2.25, 100.0, f64::NEG_INFINITY, 0.1, 65536.0, -1e-3, 7.0, 1e15];

/// How an `Fx` element ends its `fmt`.
#[derive(Clone, Copy, Debug, PartialEq, Eq)]
pub enum Quit {
    /// writes all its pieces, returns Ok
    No,
    /// returns Err without writing
    Before,
    /// writes its first piece, then returns Err
    Mid,
    /// writes all its pieces, then returns Err
    After,
}

/// An element that writes its text in three `write_str` pieces of very different lengths (the last one may be
/// empty), ignores the formatter's flags, propagates a sink error at once, and may give up on its own.
#[derive(Clone, Debug, PartialEq)]
pub struct Fx {
    id: usize,
    tail: String,
    quit: Quit,
}

impl Fx {
    fn new(id: usize, quit: Quit) -> Fx {
        Fx { id, tail: "x".repeat((id * 7) % 12), quit }
    }
}

impl Display for Fx {
    fn fmt(&self, f: &mut fmt::Formatter) -> fmt::Result {
        if self.quit == Quit::Before {
            return Err(fmt::Error);
        }
        f.write_str(&format!("e{}", self.id))?;
        if self.quit == Quit::Mid {
            return Err(fmt::Error);
        }
        f.write_str(":")?;
        f.write_str(&self.tail)?;
        if self.quit == Quit::After {
            return Err(fmt::Error);
        }
        Ok(())
    }
}

macro_rules! by_size {
    ($n:expr, $T:ty, $cx:expr, $mk:expr, $k:expr, $family:expr, $dom:expr) => {
        match $n {
            2 => {
                let a: [[$T; 2]; 2] = std::array::from_fn(|i| std::array::from_fn(|j| ($mk)(i, j, 2)));
                run::<$T, 2, rm::Mat2<$T>, cm::Mat2<$T>>($cx, &a, $k, $family, $dom)
            }
            3 => {
                let a: [[$T; 3]; 3] = std::array::from_fn(|i| std::array::from_fn(|j| ($mk)(i, j, 3)));
                run::<$T, 3, rm::Mat3<$T>, cm::Mat3<$T>>($cx, &a, $k, $family, $dom)
            }
            _ => {
                let a: [[$T; 4]; 4] = std::array::from_fn(|i| std::array::from_fn(|j| ($mk)(i, j, 4)));
                run::<$T, 4, rm::Mat4<$T>, cm::Mat4<$T>>($cx, &a, $k, $family, $dom)
            }
        }
    };
}

pub const SINK_DOMAINS: [&str; 7] = [
    "elements: i32 (1 .. 11 characters)",
    "elements: f64 (NaN, inf, -0, 1e15, 1e-7)",
    "elements: &str (empty .. 21 bytes, multi-byte)",
    "elements: String (non-Copy, 1 .. 14 bytes)",
    "elements: u64 (1 .. 20 digits)",
    "elements: three-piece element (never fails on its own)",
    "elements: char",
];
const VARIANTS: usize = 2;

/// Number of cases of `fallible_sinks`: element domain x size x spec x sink family (the failing ones) x value variant.
pub fn sinks_total() -> u64 {
    (SINK_DOMAINS.len() * 3 * N_SPECS * 3 * VARIANTS) as u64
}

/// Enumerated: element domain x size x format spec x sink family x value variant; inside, every failure position.
pub fn fallible_sinks(idx: u64, cx: &mut Cx) -> CaseResult {
    let mut rest = idx as usize;
    let variant = rest % VARIANTS;
    rest /= VARIANTS;
    let family = 1 + rest % 3;
    rest /= 3;
    let k = rest % N_SPECS;
    rest /= N_SPECS;
    let n = 2 + rest % 3;
    rest /= 3;
    let dom = rest;
    if dom >= SINK_DOMAINS.len() {
        fail!("index {} outside the enumerated space", idx);
    }
    // pairwise distinct picks from a 16-entry table: odd step
    let (start, step) = if variant == 0 { (0, 1) } else { (5, 11) };
    let at = move |i: usize, j: usize, n: usize| (start + (i * n + j) * step) % 16;
    let name = SINK_DOMAINS[dom];
    match dom {
        0 => by_size!(n, i32, cx, |i: usize, j: usize, n: usize| INTS[at(i, j, n)], k, family, name),
        1 => by_size!(n, f64, cx, |i: usize, j: usize, n: usize| FLOATS[at(i, j, n)], k, family, name),
        2 => by_size!(n, &'static str, cx, |i: usize, j: usize, n: usize| WORDS[at(i, j, n)], k, family, name),
        3 => by_size!(n, String, cx, |i: usize, j: usize, n: usize| format!("{}{}", at(i, j, n), "#".repeat((at(i, j, n) * 5) % 13)), k, family, name),
        4 => by_size!(n, u64, cx, |i: usize, j: usize, n: usize| BIG[at(i, j, n)], k, family, name),
        5 => by_size!(n, Fx, cx, |i: usize, j: usize, n: usize| Fx::new(at(i, j, n), Quit::No), k, family, name),
        _ => by_size!(n, char, cx, |i: usize, j: usize, n: usize| ['a', '\u{e9}', '\u{65e5}', ' ', '0', '\u{1F600}', 'z', '(', ')', '\n', 'q', '-', '+', '.', 'X', '\u{0}'][at(i, j, n)], k, family, name),
    }
}

// ---------------------------------------------------------------------------------------------------------
// elements that give up on their own

const QUITS: [Quit; 3] = [Quit::Before, Quit::Mid, Quit::After];
const QUIT_NAMES: [&str; 3] = ["failing element returns Err before writing", "failing element writes its first piece, then returns Err", "failing element writes all its text, then returns Err"];
const OTHERS: [&str; 3] = [
    "only element (i,j) fails",
    "(i,j) and every later element (row order) fail",
    "(i,j) fails, and so does every element that comes after it in row order but before it in column order",
];
/// specs used with failing elements (`Fx` ignores flags; only the literal text around matters)
const ELEM_SPECS: [usize; 2] = [0, 7];

/// Number of cases of `failing_elements`: size x position of the failing element x how it fails x which others
/// fail too x spec x sink family.
pub fn elements_total() -> u64 {
    ((4 + 9 + 16) * QUITS.len() * OTHERS.len() * ELEM_SPECS.len() * FAMILIES.len()) as u64
}

pub fn failing_elements(idx: u64, cx: &mut Cx) -> CaseResult {
    let mut rest = idx as usize;
    let family = rest % FAMILIES.len();
    rest /= FAMILIES.len();
    let k = ELEM_SPECS[rest % ELEM_SPECS.len()];
    rest /= ELEM_SPECS.len();
    let others = rest % OTHERS.len();
    rest /= OTHERS.len();
    let quit = rest % QUITS.len();
    rest /= QUITS.len();
    // rest = position over all three sizes
    let (n, p) = if rest < 4 {
        (2, rest)
    } else if rest < 13 {
        (3, rest - 4)
    } else if rest < 29 {
        (4, rest - 13)
    } else {
        fail!("index {} outside the enumerated space", idx)
    };
    let (pi, pj) = (p / n, p % n);
    cx.label(QUIT_NAMES[quit]);
    cx.label(OTHERS[others]);
    cx.label(if pi == 0 && pj == 0 {
        "failing element is (0,0)"
    } else if pi == n - 1 && pj == n - 1 {
        "failing element is the last one"
    } else if pi == pj {
        "failing element on the diagonal"
    } else if pi < pj {
        "failing element above the diagonal"
    } else {
        "failing element below the diagonal"
    });
    let mk = move |i: usize, j: usize, n: usize| {
        let (row_pos, col_pos) = (i * n + j, j * n + i);
        let (row_p, col_p) = (pi * n + pj, pj * n + pi);
        let q = if (i, j) == (pi, pj) {
            QUITS[quit]
        } else {
            match others {
                1 if row_pos > row_p => Quit::Before,
                2 if row_pos > row_p && col_pos < col_p => Quit::Before,
                _ => Quit::No,
            }
        };
        Fx::new(1 + row_pos * 3, q)
    };
    by_size!(n, Fx, cx, mk, k, family, "elements: three-piece element, some fail on their own")
}
