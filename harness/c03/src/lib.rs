//! C03 — element (i,j) is row i, column j in every matrix API, whatever the layout.
//!
//! Programs (sequences of API calls) are run side by side on a row-major value, a column-major value
//! and a model `[[Sym; N]; N]`; after every step both real values, read through their public fields,
//! must equal the model, and every extracted observable must equal the model's.

pub mod edge;
pub mod fallible;
pub mod owned;

use num_traits::{One, Zero};
use vek::mat::repr_c::column_major as cm;
use vek::mat::repr_c::row_major as rm;
use vek::vec::repr_c::{Vec2, Vec3, Vec4};
use vkit::refmath as rf;
use vkit::vk::{self, MatN};
use vkit::*;

#[derive(Clone, Copy, Debug)]
enum St {
    M2(rm::Mat2<Sym>, cm::Mat2<Sym>, [[Sym; 2]; 2]),
    M3(rm::Mat3<Sym>, cm::Mat3<Sym>, [[Sym; 3]; 3]),
    M4(rm::Mat4<Sym>, cm::Mat4<Sym>, [[Sym; 4]; 4]),
}

struct Fresh(u32);
impl Fresh {
    fn next(&mut self) -> Sym {
        self.0 += 1;
        Sym::atom(self.0)
    }
    fn mat<const N: usize>(&mut self) -> [[Sym; N]; N] {
        let mut m = [[Sym::atom(0); N]; N];
        for i in 0..N {
            for j in 0..N {
                m[i][j] = self.next();
            }
        }
        m
    }
}

fn flat_rows<const N: usize>(m: &[[Sym; N]; N]) -> Vec<Sym> {
    let mut v = Vec::new();
    for i in 0..N {
        for j in 0..N {
            v.push(m[i][j]);
        }
    }
    v
}
fn flat_cols<const N: usize>(m: &[[Sym; N]; N]) -> Vec<Sym> {
    let mut v = Vec::new();
    for j in 0..N {
        for i in 0..N {
            v.push(m[i][j]);
        }
    }
    v
}
fn display_model<T: std::fmt::Display, const N: usize>(m: &[[T; N]; N]) -> String {
    // ( m00 ... m0j
    //   ... ... ...
    //   mi0 ... mij )
    let mut s = String::from("(");
    for i in 0..N {
        if i > 0 {
            s.push_str("\n ");
        }
        for j in 0..N {
            s.push(' ');
            s.push_str(&format!("{}", m[i][j]));
        }
    }
    s.push_str(" )");
    s
}

const N_OPS: usize = 26;
const OP_NAMES: [&str; N_OPS] = [
    "new", "index", "index_mut", "transposed", "transpose", "map", "map2", "apply", "apply2", "layout-swap", "resize", "row_array", "row_arrays",
    "col_array", "col_arrays", "col_array->from_row_array", "row_arrays->from_col_arrays", "diagonal", "with_diagonal", "broadcast_diagonal",
    "map_rows/map_cols", "slices+gl", "mut-slices", "display+counts", "index-out-of-range", "identity/zero/One/Zero",
];

macro_rules! same_size_step {
    ($fname:ident, $N:expr, $Mat:ident, $Vec:ident, $va:path, $av:path, $new:expr) => {
        #[allow(clippy::too_many_arguments)]
        fn $fname(op: usize, t: &mut Tape, cx: &mut Cx, fresh: &mut Fresh, r: &mut rm::$Mat<Sym>, c: &mut cm::$Mat<Sym>, m: &mut [[Sym; $N]; $N]) -> CaseResult {
            const N: usize = $N;
            match op {
                0 => {
                    let a: [[Sym; N]; N] = fresh.mat();
                    let (nr, nc): (rm::$Mat<Sym>, cm::$Mat<Sym>) = $new(&a);
                    *r = nr;
                    *c = nc;
                    *m = a;
                }
                1 => {
                    let (i, j) = (t.below(N), t.below(N));
                    check_eq!(cx, r[(i, j)], m[i][j], "row-major m[({},{})]", i, j);
                    check_eq!(cx, c[(i, j)], m[i][j], "col-major m[({},{})]", i, j);
                }
                2 => {
                    let (i, j) = (t.below(N), t.below(N));
                    let x = fresh.next();
                    r[(i, j)] = x;
                    c[(i, j)] = x;
                    m[i][j] = x;
                }
                3 => {
                    *r = r.transposed();
                    *c = c.transposed();
                    *m = rf::transpose(m);
                }
                4 => {
                    r.transpose();
                    c.transpose();
                    *m = rf::transpose(m);
                }
                5 => {
                    let tag = fresh.next();
                    *r = r.map(|x| Sym::op2("f", tag, x));
                    *c = c.map(|x| Sym::op2("f", tag, x));
                    for i in 0..N { for j in 0..N { m[i][j] = Sym::op2("f", tag, m[i][j]); } }
                }
                6 | 8 => {
                    let b: [[Sym; N]; N] = fresh.mat();
                    let (br, bc) = (rm::$Mat::<Sym>::from_arr(&b), cm::$Mat::<Sym>::from_arr(&b));
                    if op == 6 {
                        *r = r.map2(br, |x, y| Sym::op2("g", x, y));
                        *c = c.map2(bc, |x, y| Sym::op2("g", x, y));
                    } else {
                        r.apply2(br, |x, y| Sym::op2("g", x, y));
                        c.apply2(bc, |x, y| Sym::op2("g", x, y));
                    }
                    for i in 0..N { for j in 0..N { m[i][j] = Sym::op2("g", m[i][j], b[i][j]); } }
                }
                7 => {
                    let tag = fresh.next();
                    r.apply(|x| Sym::op2("h", tag, x));
                    c.apply(|x| Sym::op2("h", tag, x));
                    for i in 0..N { for j in 0..N { m[i][j] = Sym::op2("h", tag, m[i][j]); } }
                }
                9 => {
                    // layout conversion, crossing over: the new row-major value comes from the old column-major one
                    let nr = rm::$Mat::<Sym>::from(*c);
                    let nc = cm::$Mat::<Sym>::from(*r);
                    *r = nr;
                    *c = nc;
                }
                11 => {
                    let (ar, ac) = (r.into_row_array(), c.into_row_array());
                    check_eq!(cx, ar.to_vec(), flat_rows(m), "row-major into_row_array");
                    check_eq!(cx, ac.to_vec(), flat_rows(m), "col-major into_row_array");
                    *r = rm::$Mat::from_row_array(ac);
                    *c = cm::$Mat::from_row_array(ar);
                }
                12 => {
                    let (ar, ac) = (r.into_row_arrays(), c.into_row_arrays());
                    check_eq!(cx, ar, *m, "row-major into_row_arrays");
                    check_eq!(cx, ac, *m, "col-major into_row_arrays");
                    *r = rm::$Mat::from_row_arrays(ac);
                    *c = cm::$Mat::from_row_arrays(ar);
                }
                13 => {
                    let (ar, ac) = (r.into_col_array(), c.into_col_array());
                    check_eq!(cx, ar.to_vec(), flat_cols(m), "row-major into_col_array");
                    check_eq!(cx, ac.to_vec(), flat_cols(m), "col-major into_col_array");
                    *r = rm::$Mat::from_col_array(ac);
                    *c = cm::$Mat::from_col_array(ar);
                }
                14 => {
                    let (ar, ac) = (r.into_col_arrays(), c.into_col_arrays());
                    check_eq!(cx, ar, rf::transpose(m), "row-major into_col_arrays");
                    check_eq!(cx, ac, rf::transpose(m), "col-major into_col_arrays");
                    *r = rm::$Mat::from_col_arrays(ac);
                    *c = cm::$Mat::from_col_arrays(ar);
                }
                15 => {
                    // column array read back as a row array: the transpose
                    let (ar, ac) = (r.into_col_array(), c.into_col_array());
                    *r = rm::$Mat::from_row_array(ar);
                    *c = cm::$Mat::from_row_array(ac);
                    *m = rf::transpose(m);
                }
                16 => {
                    let (ar, ac) = (r.into_row_arrays(), c.into_row_arrays());
                    *r = rm::$Mat::from_col_arrays(ar);
                    *c = cm::$Mat::from_col_arrays(ac);
                    *m = rf::transpose(m);
                }
                17 => {
                    let mut d = [Sym::atom(0); N];
                    for i in 0..N { d[i] = m[i][i]; }
                    check_eq!(cx, $av(&r.diagonal()), d, "row-major diagonal()");
                    check_eq!(cx, $av(&c.diagonal()), d, "col-major diagonal()");
                }
                18 => {
                    let mut d = [Sym::atom(0); N];
                    for i in 0..N { d[i] = fresh.next(); }
                    *r = rm::$Mat::with_diagonal($va(&d));
                    *c = cm::$Mat::with_diagonal($va(&d));
                    for i in 0..N { for j in 0..N { m[i][j] = if i == j { d[i] } else { Sym::zero() }; } }
                }
                19 => {
                    let x = fresh.next();
                    *r = rm::$Mat::broadcast_diagonal(x);
                    *c = cm::$Mat::broadcast_diagonal(x);
                    for i in 0..N { for j in 0..N { m[i][j] = if i == j { x } else { Sym::zero() }; } }
                }
                20 => {
                    let tag = fresh.next();
                    *r = r.map_rows(|row| row.map(|x| Sym::op2("k", tag, x)));
                    *c = c.map_cols(|col| col.map(|x| Sym::op2("k", tag, x)));
                    for i in 0..N { for j in 0..N { m[i][j] = Sym::op2("k", tag, m[i][j]); } }
                }
                21 => {
                    check_eq!(cx, r.as_row_slice().to_vec(), flat_rows(m), "as_row_slice lists m[i][j] at i*n+j");
                    check_eq!(cx, c.as_col_slice().to_vec(), flat_cols(m), "as_col_slice lists m[i][j] at j*n+i");
                    // read the flat slices the way OpenGL would: column-major unless the transpose flag is set
                    let gl = |data: &[Sym], transpose: bool| {
                        let mut out = [[Sym::atom(0); N]; N];
                        for i in 0..N { for j in 0..N { out[i][j] = if transpose { data[i * N + j] } else { data[j * N + i] }; } }
                        out
                    };
                    check_eq!(cx, gl(r.as_row_slice(), r.gl_should_transpose()), *m, "row-major slice read with gl_should_transpose()");
                    check_eq!(cx, gl(c.as_col_slice(), c.gl_should_transpose()), *m, "col-major slice read with gl_should_transpose()");
                    check_eq!(cx, gl(r.as_row_slice(), rm::$Mat::<Sym>::GL_SHOULD_TRANSPOSE), *m, "row-major slice read with GL_SHOULD_TRANSPOSE");
                    check_eq!(cx, gl(c.as_col_slice(), cm::$Mat::<Sym>::GL_SHOULD_TRANSPOSE), *m, "col-major slice read with GL_SHOULD_TRANSPOSE");
                    check_eq!(cx, r.as_row_ptr(), r.as_row_slice().as_ptr(), "as_row_ptr");
                    check_eq!(cx, c.as_col_ptr(), c.as_col_slice().as_ptr(), "as_col_ptr");
                    check_eq!(cx, r.as_row_ptr() as usize, r as *const _ as usize, "row slice aliases the value");
                    check_eq!(cx, c.as_col_ptr() as usize, c as *const _ as usize, "col slice aliases the value");
                }
                22 => {
                    let k = t.below(N * N);
                    let x = fresh.next();
                    check_eq!(cx, r.as_mut_row_slice().to_vec(), flat_rows(m), "as_mut_row_slice lists m[i][j] at i*n+j (and has n*n elements)");
                    check_eq!(cx, c.as_mut_col_slice().to_vec(), flat_cols(m), "as_mut_col_slice lists m[i][j] at j*n+i (and has n*n elements)");
                    r.as_mut_row_slice()[k] = x;
                    m[k / N][k % N] = x;
                    // same abstract element in the column-major value lives at (k%N)*N + k/N
                    c.as_mut_col_slice()[(k % N) * N + k / N] = x;
                    check_eq!(cx, r.as_mut_row_ptr() as usize, r as *mut _ as usize, "mut row ptr aliases the value");
                    check_eq!(cx, c.as_mut_col_ptr() as usize, c as *mut _ as usize, "mut col ptr aliases the value");
                }
                23 => {
                    let want = display_model(m);
                    check_eq!(cx, format!("{}", r), want, "row-major Display");
                    check_eq!(cx, format!("{}", c), want, "col-major Display");
                    check_eq!(cx, (r.row_count(), r.col_count(), rm::$Mat::<Sym>::ROW_COUNT, rm::$Mat::<Sym>::COL_COUNT), (N, N, N, N), "row-major counts");
                    check_eq!(cx, (c.row_count(), c.col_count(), cm::$Mat::<Sym>::ROW_COUNT, cm::$Mat::<Sym>::COL_COUNT), (N, N, N, N), "col-major counts");
                    check!(cx, r.is_packed() && c.is_packed(), "is_packed");
                    let id: [[Sym; N]; N] = {
                        let mut id = [[Sym::zero(); N]; N];
                        for i in 0..N { id[i][i] = Sym::one(); }
                        id
                    };
                    check_eq!(cx, <rm::$Mat<Sym> as Default>::default().to_arr(), id, "row-major Default is identity");
                    check_eq!(cx, <cm::$Mat<Sym> as Default>::default().to_arr(), id, "col-major Default is identity");
                }
                24 => {
                    // an index pair with at least one component outside 0..N: no element is (i,j), and the two
                    // layouts must treat the access alike (read or write)
                    let cand = edge::index_candidates(N);
                    let small_out = |t: &mut Tape| N + t.below(N * N - N + 1); // N ..= N*N
                    let (i, j) = match t.below(8) {
                        0 | 1 | 2 => (t.below(N), small_out(t)),
                        3 | 4 | 5 => (small_out(t), t.below(N)),
                        6 => (small_out(t), small_out(t)),
                        _ => {
                            // one huge component (products with N may wrap), the other anything
                            let h = cand[N * N + 1 + t.below(cand.len() - N * N - 1)];
                            let o = cand[t.below(cand.len())];
                            if t.bool() { (h, o) } else { (o, h) }
                        }
                    };
                    cx.label(edge::oob_label(N, i, j));
                    let write = t.bool();
                    let x = fresh.next();
                    edge::index_pair_case::<N, _, _>(cx, i, j, write, r, c, m, x)?;
                }
                25 => {
                    let id: [[Sym; N]; N] = {
                        let mut id = [[Sym::zero(); N]; N];
                        for i in 0..N { id[i][i] = Sym::one(); }
                        id
                    };
                    let z = [[Sym::zero(); N]; N];
                    check_eq!(cx, rm::$Mat::<Sym>::identity().to_arr(), id, "row-major identity()");
                    check_eq!(cx, cm::$Mat::<Sym>::identity().to_arr(), id, "col-major identity()");
                    check_eq!(cx, <rm::$Mat<Sym> as One>::one().to_arr(), id, "row-major One::one()");
                    check_eq!(cx, <cm::$Mat<Sym> as One>::one().to_arr(), id, "col-major One::one()");
                    check_eq!(cx, rm::$Mat::<Sym>::zero().to_arr(), z, "row-major zero()");
                    check_eq!(cx, cm::$Mat::<Sym>::zero().to_arr(), z, "col-major zero()");
                    check_eq!(cx, <rm::$Mat<Sym> as Zero>::zero().to_arr(), z, "row-major Zero::zero()");
                    check_eq!(cx, <cm::$Mat<Sym> as Zero>::zero().to_arr(), z, "col-major Zero::zero()");
                    check_eq!(cx, (Zero::is_zero(&*r), Zero::is_zero(&*c)), (*m == z, *m == z), "Zero::is_zero, both layouts");
                }
                _ => {}
            }
            Ok(())
        }
    };
}

fn new2(a: &[[Sym; 2]; 2]) -> (rm::Mat2<Sym>, cm::Mat2<Sym>) {
    (rm::Mat2::new(a[0][0], a[0][1], a[1][0], a[1][1]), cm::Mat2::new(a[0][0], a[0][1], a[1][0], a[1][1]))
}
fn new3(a: &[[Sym; 3]; 3]) -> (rm::Mat3<Sym>, cm::Mat3<Sym>) {
    (
        rm::Mat3::new(a[0][0], a[0][1], a[0][2], a[1][0], a[1][1], a[1][2], a[2][0], a[2][1], a[2][2]),
        cm::Mat3::new(a[0][0], a[0][1], a[0][2], a[1][0], a[1][1], a[1][2], a[2][0], a[2][1], a[2][2]),
    )
}
fn new4(a: &[[Sym; 4]; 4]) -> (rm::Mat4<Sym>, cm::Mat4<Sym>) {
    (
        rm::Mat4::new(
            a[0][0], a[0][1], a[0][2], a[0][3], a[1][0], a[1][1], a[1][2], a[1][3], a[2][0], a[2][1], a[2][2], a[2][3], a[3][0], a[3][1], a[3][2], a[3][3],
        ),
        cm::Mat4::new(
            a[0][0], a[0][1], a[0][2], a[0][3], a[1][0], a[1][1], a[1][2], a[1][3], a[2][0], a[2][1], a[2][2], a[2][3], a[3][0], a[3][1], a[3][2], a[3][3],
        ),
    )
}

same_size_step!(step2, 2, Mat2, Vec2, vk::v2, vk::a2, new2);
same_size_step!(step3, 3, Mat3, Vec3, vk::v3, vk::a3, new3);
same_size_step!(step4, 4, Mat4, Vec4, vk::v4, vk::a4, new4);

/// Model of a size conversion: keep the common upper-left block, fill the rest from the identity.
fn resize_model<const A: usize, const B: usize>(m: &[[Sym; A]; A]) -> [[Sym; B]; B] {
    let mut out = [[Sym::zero(); B]; B];
    for i in 0..B {
        for j in 0..B {
            out[i][j] = if i < A && j < A { m[i][j] } else if i == j { Sym::one() } else { Sym::zero() };
        }
    }
    out
}

fn resize(st: St, target: usize) -> St {
    match (st, target) {
        (St::M2(r, c, m), 3) => St::M3(rm::Mat3::from(r), cm::Mat3::from(c), resize_model(&m)),
        (St::M2(r, c, m), 4) => St::M4(rm::Mat4::from(r), cm::Mat4::from(c), resize_model(&m)),
        (St::M3(r, c, m), 2) => St::M2(rm::Mat2::from(r), cm::Mat2::from(c), resize_model(&m)),
        (St::M3(r, c, m), 4) => St::M4(rm::Mat4::from(r), cm::Mat4::from(c), resize_model(&m)),
        (St::M4(r, c, m), 2) => St::M2(rm::Mat2::from(r), cm::Mat2::from(c), resize_model(&m)),
        (St::M4(r, c, m), 3) => St::M3(rm::Mat3::from(r), cm::Mat3::from(c), resize_model(&m)),
        (s, _) => s,
    }
}

fn agree(cx: &mut Cx, st: &St, after: &str, step: usize) -> CaseResult {
    match st {
        St::M2(r, c, m) => {
            check_eq!(cx, r.to_arr(), *m, "row-major value after step {} ({})", step, after);
            check_eq!(cx, c.to_arr(), *m, "col-major value after step {} ({})", step, after);
        }
        St::M3(r, c, m) => {
            check_eq!(cx, r.to_arr(), *m, "row-major value after step {} ({})", step, after);
            check_eq!(cx, c.to_arr(), *m, "col-major value after step {} ({})", step, after);
        }
        St::M4(r, c, m) => {
            check_eq!(cx, r.to_arr(), *m, "row-major value after step {} ({})", step, after);
            check_eq!(cx, c.to_arr(), *m, "col-major value after step {} ({})", step, after);
        }
    }
    Ok(())
}

fn programs(t: &mut Tape, cx: &mut Cx) -> CaseResult {
    let mut fresh = Fresh(0);
    let n0 = 2 + t.below(3);
    let mut st = match n0 {
        2 => {
            let a = fresh.mat::<2>();
            let (r, c) = new2(&a);
            St::M2(r, c, a)
        }
        3 => {
            let a = fresh.mat::<3>();
            let (r, c) = new3(&a);
            St::M3(r, c, a)
        }
        _ => {
            let a = fresh.mat::<4>();
            let (r, c) = new4(&a);
            St::M4(r, c, a)
        }
    };
    agree(cx, &st, "new", 0)?;
    let len = t.below(13);
    let mut trace: Vec<&'static str> = Vec::new();
    for step in 1..=len {
        let op = t.below(N_OPS);
        trace.push(OP_NAMES[op]);
        cx.label(OP_NAMES[op]);
        if op == 10 {
            let target = 2 + t.below(3);
            st = resize(st, target);
        } else {
            match &mut st {
                St::M2(r, c, m) => step2(op, t, cx, &mut fresh, r, c, m)?,
                St::M3(r, c, m) => step3(op, t, cx, &mut fresh, r, c, m)?,
                St::M4(r, c, m) => step4(op, t, cx, &mut fresh, r, c, m)?,
            }
        }
        agree(cx, &st, OP_NAMES[op], step)?;
    }
    cx.set_nontrivial(len >= 2);
    sample!(cx, "start n={} program={:?}", n0, trace);
    Ok(())
}

/// Numeric run: as_, numcast, trace, Display on integers; all six matrix types.
fn numeric(t: &mut Tape, cx: &mut Cx) -> CaseResult {
    macro_rules! run {
        ($N:expr, $Mat:ident) => {{
            const N: usize = $N;
            let mut a = [[0i32; N]; N];
            for i in 0..N { for j in 0..N { a[i][j] = t.int(-100, 100) as i32; } }
            let (r, c) = (rm::$Mat::<i32>::from_arr(&a), cm::$Mat::<i32>::from_arr(&a));
            let mut want_f = [[0f64; N]; N];
            let mut want_l = [[0i64; N]; N];
            let mut tr = 0i32;
            for i in 0..N { for j in 0..N { want_f[i][j] = a[i][j] as f64; want_l[i][j] = a[i][j] as i64; } tr += a[i][i]; }
            check_eq!(cx, r.as_::<f64>().to_arr(), want_f, "row-major as_");
            check_eq!(cx, c.as_::<f64>().to_arr(), want_f, "col-major as_");
            check_eq!(cx, r.numcast::<i64>().map(|m| m.to_arr()), Some(want_l), "row-major numcast");
            check_eq!(cx, c.numcast::<i64>().map(|m| m.to_arr()), Some(want_l), "col-major numcast");
            check_eq!(cx, r.trace(), tr, "row-major trace");
            check_eq!(cx, c.trace(), tr, "col-major trace");
            // as_ from element types of other sizes (1, 2 and 16 bytes)
            {
                let mut a8 = [[0u8; N]; N];
                let mut a16 = [[0i16; N]; N];
                let mut a128 = [[0i128; N]; N];
                for i in 0..N { for j in 0..N { a8[i][j] = a[i][j] as u8; a16[i][j] = (a[i][j] * 300) as i16; a128[i][j] = (a[i][j] as i128) << 70; } }
                let mut w8 = [[0i32; N]; N];
                let mut w16 = [[0i64; N]; N];
                let mut w128 = [[0f64; N]; N];
                for i in 0..N { for j in 0..N { w8[i][j] = a8[i][j] as i32; w16[i][j] = a16[i][j] as i64; w128[i][j] = a128[i][j] as f64; } }
                check_eq!(cx, rm::$Mat::<u8>::from_arr(&a8).as_::<i32>().to_arr(), w8, "row-major u8 as_ i32");
                check_eq!(cx, cm::$Mat::<u8>::from_arr(&a8).as_::<i32>().to_arr(), w8, "col-major u8 as_ i32");
                check_eq!(cx, rm::$Mat::<i16>::from_arr(&a16).as_::<i64>().to_arr(), w16, "row-major i16 as_ i64");
                check_eq!(cx, cm::$Mat::<i16>::from_arr(&a16).as_::<i64>().to_arr(), w16, "col-major i16 as_ i64");
                check_eq!(cx, rm::$Mat::<i128>::from_arr(&a128).as_::<f64>().to_arr(), w128, "row-major i128 as_ f64");
                check_eq!(cx, cm::$Mat::<i128>::from_arr(&a128).as_::<f64>().to_arr(), w128, "col-major i128 as_ f64");
                check_eq!(cx, rm::$Mat::<i16>::from_arr(&a16).numcast::<i64>().map(|m| m.to_arr()), Some(w16), "row-major i16 numcast i64");
                check_eq!(cx, cm::$Mat::<i16>::from_arr(&a16).numcast::<i64>().map(|m| m.to_arr()), Some(w16), "col-major i16 numcast i64");
            }
            let want = display_model(&a);
            check_eq!(cx, format!("{}", r), want, "row-major Display");
            check_eq!(cx, format!("{}", c), want, "col-major Display");
            // numcast fails as a whole when one element does not fit
            let (i, j) = (t.below(N), t.below(N));
            let mut b = a;
            b[i][j] = 300;
            check_eq!(cx, rm::$Mat::<i32>::from_arr(&b).numcast::<u8>().is_none(), true, "row-major numcast None");
            check_eq!(cx, cm::$Mat::<i32>::from_arr(&b).numcast::<u8>().is_none(), true, "col-major numcast None");
            let mut nz = 0;
            for row in a.iter() { for x in row { if *x != 0 { nz += 1; } } }
            cx.set_nontrivial(nz >= 3 && a != rf::transpose(&a));
            sample!(cx, "n={} A={:?}", N, a);
        }};
    }
    match t.below(3) {
        0 => run!(2, Mat2),
        1 => run!(3, Mat3),
        _ => run!(4, Mat4),
    }
    Ok(())
}

pub fn property() -> Property {
    let checks = vec![
        Check {
            name: "programs-sym",
            about: "random programs (0-12 steps over 26 operations: new, index, index_mut, transposed, transpose, map, map2, apply, apply2, layout conversion, size conversion, flat/nested row/col array round trips and cross pairs, diagonal, with_diagonal, broadcast_diagonal, map_rows/map_cols, slices + OpenGL transpose flag, mutable slices (contents and length), Display/counts/Default, index pairs with a component out of range, identity/zero and the One/Zero trait impls) run side by side on a row-major and a column-major matrix of pairwise distinct opaque terms and on an array model",
            kind: Kind::Tape { len: 96, quick: 400_000, thorough: 8_000_000, f: programs },
        },
        Check {
            name: "programs-owned",
            about: "the same side-by-side programs (0-12 steps over 24 operations: new, index, index_mut, transposed, transpose, map / map2 with consuming closures, layout conversion, all six size conversions, flat/nested row/col array round trips and cross pairs, from_{row,col}_array(s) of fresh arrays, diagonal, trace, identity/zero/Default/Zero, map_rows/map_cols, slices + OpenGL flag, mutable slices, Display plain and under flags, Clone/PartialEq, and - Copy domains only - apply, apply2, with_diagonal, broadcast_diagonal) generic over the element type and run in eight further element domains that differ in drop glue, Copy, size and alignment: String, Box<u64>, Rc<u64>, Vec<u64> (non-Copy, mem::needs_drop), a Clone-only u64, u16, u128 (align 16), [u64; 4]; elements are pairwise distinct values of the ring Z/2^64, built and read through the public fields by cloning",
            kind: Kind::Tape { len: 96, quick: 100_000, thorough: 4_000_000, f: owned::programs },
        },
        Check {
            name: "programs-big",
            about: "the programs of programs-owned in seven big element domains - Copy arrays [u64; 9 / 33 / 65 / 130 / 520] (72 B .. 4160 B), a Clone-only 520-byte newtype and a 1048-byte struct with drop glue - so that the matrix itself crosses 64 B, 128 B, 256 B, 512 B, 1 KiB, one page (Mat2 16.6 KiB, Mat3 4.7 KiB, Mat4 4.2 KiB and up) and 64 KiB (Mat4 of 4160-byte elements = 66.5 KiB); every element carries its id in the first and the last word and a function of it in between, a partially copied element reads as a foreign id",
            kind: Kind::Tape { len: 96, quick: 5_000, thorough: 400_000, f: owned::programs_big },
        },
        Check {
            name: "domain-sweep",
            about: "exhaustive: each of the 25 operations x start size {2,3,4} x each of the 15 element domains (8 small, 7 big) x 12 variants (0, 1 or 2 generated steps before the operation x the operation's four-way first choice: which from_* constructor, which Copy-only operation, which out-of-range index regime, which resize target), both layouts side by side against the model - every operation x layout x size x domain combination is executed in every tier, independent of the seed",
            kind: Kind::Index { total: owned::sweep_total(), quick: 1_000_000, thorough: 1_000_000, f: owned::sweep },
        },
        Check {
            name: "element-domains",
            about: "the element domains of programs-owned have the drop glue, sizes and alignments their table claims",
            kind: Kind::Index { total: 1, quick: 1, thorough: 1, f: owned::domain_facts },
        },
        Check {
            name: "index-bounds",
            about: "every (i, j) from {0..=N*N, 2^16, 2^63, MAX/N, MAX/N+1, MAX-1, MAX}^2, read (Index) and write (IndexMut), all three sizes, on matrices of pairwise distinct elements in five element domains (Sym, u8, i32, a 16-byte-aligned u128 newtype, a String newtype with drop glue): in range both layouts resolve to model[i][j]; out of range (no such element) the access must not depend on the layout - both panic and leave the value untouched, or both resolve to the same abstract element",
            kind: Kind::Index { total: edge::index_bounds_total(), quick: 1_000_000, thorough: 1_000_000, f: edge::index_bounds },
        },
        Check {
            name: "display-flags",
            about: "Display under 30 format specs (precision, width, fill/alignment, +, -, #, 0, run-time w$ / p$ / .*) on f64 / f32 (IEEE specials, 2^+-60 magnitudes, integers at the limits), i32 / i64 / u8 (limits, 2^k+-1), distinct strings and a flag-recording element, sizes 2-4: row-major text == col-major text == '( m00 .. )' with each element formatted on its own under the same spec",
            kind: Kind::Tape { len: 160, quick: 60_000, thorough: 3_000_000, f: edge::display_flags },
        },
        Check {
            name: "display-fallible-sink",
            about: "exhaustive: Display written with write!(sink, SPEC, m) into sinks that reject a write - from the k-th write_str call on, only the k-th call (later calls accepted), or beyond a byte capacity c (later shorter pieces accepted) - for EVERY k in 0 ..= total+1 and EVERY c in 0 ..= len+1, x 7 element domains (i32, f64 specials, &str incl. empty and multi-byte, String, u64, a three-piece element, char) x sizes 2-4 x 9 format specs (flags, run-time w$.p$, literal text around) x 2 value choices: row-major and col-major leave the same accepted bytes in the sink and return the same fmt::Result; per layout the pieces offered up to the first rejected one are a prefix of '( m00 .. )' built from the elements alone, nothing is offered after a rejected piece, Err iff something was rejected",
            kind: Kind::Index { total: fallible::sinks_total(), quick: 1_000_000, thorough: 1_000_000, f: fallible::fallible_sinks },
        },
        Check {
            name: "display-failing-element",
            about: "exhaustive: matrices of three-piece elements where the element at (i,j) returns Err from its own Display::fmt (before writing, after its first piece, or after all its text) - every (i,j) of every size x 3 ways of failing x which other elements fail too (none / all later ones in row order / those later in row order but earlier in column order) x plain and literal-wrapped spec x 4 sink families (std String + unfailing recorder, fail-from-k, fail-only-k, byte capacity; every k / c as in display-fallible-sink): both layouts stop exactly where the first failing element in ROW order gave up, return Err, hold the same bytes",
            kind: Kind::Index { total: fallible::elements_total(), quick: 1_000_000, thorough: 1_000_000, f: fallible::failing_elements },
        },
        Check {
            name: "numeric-edges",
            about: "as_ (to i32, u8, i64, u64, f32, f64) and numcast (Some/None as a whole) on f64 matrices of IEEE specials / integers next to the i32, i64, 2^24, 2^53 bounds and on i64 matrices next to the limits, per element at the same (i,j) in both layouts; transposed, layout conversion, nested arrays, diagonal and indexing move specials bit for bit",
            kind: Kind::Tape { len: 400, quick: 40_000, thorough: 1_500_000, f: edge::numeric_edges },
        },
        Check {
            name: "numeric-i32",
            about: "as_, numcast (incl. whole-cast failure), trace and Display on integer matrices (i32; as_ / numcast also from u8, i16, i128 elements), both layouts, against the array model",
            kind: Kind::Tape { len: 40, quick: 100_000, thorough: 2_000_000, f: numeric },
        },
    ];
    Property {
        id: "C03",
        rule: "a case is a generated program: start size in {2,3,4}, 0-12 steps chosen from 26 operations with generated arguments; elements are pairwise distinct opaque terms, so no matrix is ever symmetric and any (i,j)/(j,i) confusion is visible; non-trivial = at least 2 steps (numeric check: >= 3 non-zero entries and A != A^T; index-bounds: at least one of i, j is outside 0..N; display-flags: the spec is not the plain one, the text differs from the plain text - a dropped flag shows - and differs from the text of the transpose; numeric-edges: >= 2 special / near-limit elements and neither matrix is bitwise symmetric; programs-owned: as programs-sym, at least 2 steps, elements are pairwise distinct images of a 64-bit mixer; display-fallible-sink / display-failing-element: the text of the matrix differs from the text of its transpose, and a write was rejected after the first accepted byte or an element gave up on its own); distinct = distinct consumed tape prefix (index-bounds: distinct index)",
        assumptions: &[
            "rustc and the proptest runner/shrinker are trusted",
            "the public rows/cols fields are the ground truth: row-major rows.x is row 0, column-major cols.x is column 0",
            "Display format taken from the doc comment: '( m00 .. m0j\\n  .. )' with single spaces",
            "Display under a non-default format spec: 'this format doesn't depend on the storage layout' is asserted as such (row-major text == col-major text); in addition each mij is taken to be the element formatted under the caller's spec (precision, width, fill, sign, #, 0 apply to every element, the separators are never padded), which is what both layouts do on the pinned tree",
            "an index pair (i, j) with i >= N or j >= N denotes no element: the docs do not say what happens, so a panic is NOT demanded; only that Index / IndexMut behave the same in both layouts (both panic and leave the value untouched, or both resolve to the same abstract element). usize is assumed to be 64 bits wide for the huge index candidates",
            "as_ is the per-element `as` cast and numcast the per-element scalar NumCast (oracles use the scalar operations, never the matrix ones); NaN payloads are not compared, every NaN counts as equal to every other",
            "programs-owned: element values are members of the ring Z/2^64 (u16 domain: Z/2^16) stored in types that differ in drop glue / Copy / size / alignment; + and * are the wrapping ring operations, so Zero / One are lawful and trace() is independent of summation order; distinctness of the generated elements holds up to hash collisions (2^-64 per pair; 2^-16 in the u16 domain), which can only hide a defect, never cause a false alarm, because the model is computed from the same element values; drop counting (leaks, double drops) is property C18's and is not asserted here; One for matrices, apply, apply2, with_diagonal, broadcast_diagonal, as_ and numcast need T: Copy / numeric T in vek and are run in the Copy domains only",
            "programs-big / domain-sweep: a torn (partially copied) big element is recognised by its words not fitting together and then compares unequal to every model element; a case needs < 1 MiB of stack (state boxed, one frame per operation)",
            "Display into a fallible sink: the general contract of fmt (std::fmt::Write::write_str: the error is there to abort the formatting operation and is to be propagated by formatting-trait impls; vek's impls use `?` on every write) is taken to bind Display for matrices: after a rejected write_str nothing more is offered to the sink and the result is Err; an Err returned by an element's own fmt counts the same way (no further write, result Err), also when the sink itself accepted everything. Where vek cuts the text into write_str pieces is NOT asserted against the reference (only: the pieces offered up to the first rejected one concatenate to a prefix of the text); between the two layouts the accepted bytes and the Result must be equal for every sink, which does expose a cut that differs between the layouts under a capacity sink - 'this format doesn't depend on the storage layout' is read as covering everything a fmt::Write sink can observe of the accepted text. Not asserted: anything about Debug; to_string() / format!() with failing elements (std panics there by design)",
            "not asserted: the order in which map / map2 / apply call the closure, the association order of trace() (so no trace on values that can overflow or round), Debug output (derived, shows the storage)",
        ],
        checks,
        max_discard_frac: 0.05,
    }
}
