//! C03 — not implemented yet.
use vkit::*;

pub fn property() -> Property {
    Property { id: "C03", rule: "", assumptions: &[], checks: Vec::new(), max_discard_frac: 0.2 }
}
