fn main() {
    vkit::driver::main(c03::property())
}
