//! C03 in further element domains: the same side-by-side programs as `programs-sym`, generic over the element
//! type, instantiated with types that differ in exactly the traits an implementation can branch on without
//! changing its signature: drop glue (`mem::needs_drop`), `Copy`, size and alignment.
//!
//! | domain | type                 | size | align | Copy | drop glue |
//! |--------|----------------------|------|-------|------|-----------|
//! | `ES`   | `String`             | 24   | 8     | no   | yes       |
//! | `EB`   | `Box<u64>`           | 8    | 8     | no   | yes       |
//! | `ER`   | `Rc<u64>`            | 8    | 8     | no   | yes       |
//! | `EV`   | `Vec<u64>`           | 24   | 8     | no   | yes       |
//! | `E2`   | `u16`                | 2    | 2     | yes  | no        |
//! | `E16`  | `u128`               | 16   | 16    | yes  | no        |
//! | `E32`  | `[u64; 4]`           | 32   | 8     | yes  | no        |
//! | `EN`   | `u64`, Clone only    | 8    | 8     | no   | no        |
//! | `E72` .. `E4160` | `[u64; 9 / 33 / 65 / 130 / 520]` | 72 .. 4160 | 8 | yes | no |
//! | `EN520` | `[u64; 65]`, Clone only | 520 | 8    | no   | no        |
//! | `ED1048` | `([u64; 130], Box<u64>)` | 1048 | 8  | no   | yes       |
//!
//! The big domains make the *matrix* cross 64 B .. 1 KiB .. one page .. 64 KiB for every size (`element-domains`
//! asserts it). Their id is stored in the first and the last word, the words between are a function of it, and an
//! element whose words do not fit together reads as an id no generated element has. The state of a program is
//! boxed and every operation runs in a never-inlined frame, so a case needs < 1 MiB of stack even in the 4160-byte
//! domain (measured: 768 KiB overflow, 1 MiB pass) and fits the main thread of replays and fuzz runs.
//!
//! Every element denotes a value of the ring Z/2^64 (truncated for `E2`): `+` and `*` are the wrapping ring
//! operations, so `Zero` / `One` are lawful and `trace()` does not depend on the order or association of the
//! sum. Elements of a case are images of a 64-bit mixer, hence pairwise distinct (up to hash collisions, which
//! can only hide a defect, never raise a false alarm: the model is computed from the same element values).
//!
//! All values are built and read through the public `rows` / `cols` fields, by cloning.

use std::fmt::{self, Debug, Display};
use std::ops::{Add, Mul};
use std::rc::Rc;

use num_traits::{One, Zero};
use vek::mat::repr_c::column_major as cm;
use vek::mat::repr_c::row_major as rm;
use vek::vec::repr_c::{Vec2, Vec3, Vec4};
use vkit::*;

use crate::edge;

fn mix(mut z: u64) -> u64 {
    z = z.wrapping_add(0x9E37_79B9_7F4A_7C15);
    z = (z ^ (z >> 30)).wrapping_mul(0xBF58_476D_1CE4_E5B9);
    z = (z ^ (z >> 27)).wrapping_mul(0x94D0_49BB_1331_11EB);
    z ^ (z >> 31)
}

pub struct Fresh(u64);
impl Fresh {
    fn raw(&mut self) -> u64 {
        self.0 += 1;
        mix(0xC03_0000_0000 + self.0)
    }
    fn next<E: El>(&mut self) -> E {
        E::from_k(self.raw())
    }
    fn mat<E: El, const N: usize>(&mut self) -> [[E; N]; N] {
        std::array::from_fn(|_| std::array::from_fn(|_| self.next()))
    }
}

/// An element domain.
pub trait El: Clone + PartialEq + Debug + Display + Zero + One + Add<Output = Self> + Mul<Output = Self> + 'static {
    const NAME: &'static str;
    fn from_k(k: u64) -> Self;
    fn k(&self) -> u64;
    /// Unary / binary opaque functions (consume their operands).
    fn f(tag: u64, x: Self) -> Self {
        Self::from_k(mix(tag ^ x.k().rotate_left(17)))
    }
    fn g(x: Self, y: Self) -> Self {
        Self::from_k(mix(mix(x.k()) ^ y.k().rotate_left(41)))
    }
    /// The operations vek only offers for `T: Copy` (apply, apply2, with_diagonal, broadcast_diagonal);
    /// `Ok(false)` = not applicable to this domain.
    fn copy_ops2(_t: &mut Tape, _cx: &mut Cx, _fr: &mut Fresh, _r: &mut rm::Mat2<Self>, _c: &mut cm::Mat2<Self>, _m: &mut [[Self; 2]; 2]) -> Result<bool, Fail> {
        Ok(false)
    }
    fn copy_ops3(_t: &mut Tape, _cx: &mut Cx, _fr: &mut Fresh, _r: &mut rm::Mat3<Self>, _c: &mut cm::Mat3<Self>, _m: &mut [[Self; 3]; 3]) -> Result<bool, Fail> {
        Ok(false)
    }
    fn copy_ops4(_t: &mut Tape, _cx: &mut Cx, _fr: &mut Fresh, _r: &mut rm::Mat4<Self>, _c: &mut cm::Mat4<Self>, _m: &mut [[Self; 4]; 4]) -> Result<bool, Fail> {
        Ok(false)
    }
}

macro_rules! el_common {
    ($T:ident) => {
        impl PartialEq for $T {
            fn eq(&self, o: &$T) -> bool {
                self.k() == o.k()
            }
        }
        impl Debug for $T {
            fn fmt(&self, f: &mut fmt::Formatter) -> fmt::Result {
                write!(f, "{}", self.k())
            }
        }
        impl Display for $T {
            fn fmt(&self, f: &mut fmt::Formatter) -> fmt::Result {
                // honours width, fill, alignment and precision (truncation)
                f.pad(&self.k().to_string())
            }
        }
        impl Add for $T {
            type Output = $T;
            fn add(self, o: $T) -> $T {
                $T::from_k(self.k().wrapping_add(o.k()))
            }
        }
        impl Mul for $T {
            type Output = $T;
            fn mul(self, o: $T) -> $T {
                $T::from_k(self.k().wrapping_mul(o.k()))
            }
        }
        impl Zero for $T {
            fn zero() -> $T {
                $T::from_k(0)
            }
            fn is_zero(&self) -> bool {
                self.k() == 0
            }
        }
        impl One for $T {
            fn one() -> $T {
                $T::from_k(1)
            }
        }
    };
}
macro_rules! el {
    (owned $T:ident, $name:literal, |$k:ident| $mk:expr, |$s:ident| $rd:expr) => {
        el_common!($T);
        impl El for $T {
            const NAME: &'static str = $name;
            fn from_k($k: u64) -> $T {
                $T($mk)
            }
            fn k(&self) -> u64 {
                let $s = &self.0;
                $rd
            }
        }
    };
    (copy $T:ident, $name:literal, |$k:ident| $mk:expr, |$s:ident| $rd:expr) => {
        el_common!($T);
        impl El for $T {
            const NAME: &'static str = $name;
            fn from_k($k: u64) -> $T {
                $T($mk)
            }
            fn k(&self) -> u64 {
                let $s = &self.0;
                $rd
            }
            fn copy_ops2(t: &mut Tape, cx: &mut Cx, fr: &mut Fresh, r: &mut rm::Mat2<Self>, c: &mut cm::Mat2<Self>, m: &mut [[Self; 2]; 2]) -> Result<bool, Fail> {
                copy_impl2(t, cx, fr, r, c, m).map(|_| true)
            }
            fn copy_ops3(t: &mut Tape, cx: &mut Cx, fr: &mut Fresh, r: &mut rm::Mat3<Self>, c: &mut cm::Mat3<Self>, m: &mut [[Self; 3]; 3]) -> Result<bool, Fail> {
                copy_impl3(t, cx, fr, r, c, m).map(|_| true)
            }
            fn copy_ops4(t: &mut Tape, cx: &mut Cx, fr: &mut Fresh, r: &mut rm::Mat4<Self>, c: &mut cm::Mat4<Self>, m: &mut [[Self; 4]; 4]) -> Result<bool, Fail> {
                copy_impl4(t, cx, fr, r, c, m).map(|_| true)
            }
        }
    };
}

#[derive(Clone)]
pub struct ES(String);
#[derive(Clone)]
pub struct EB(Box<u64>);
#[derive(Clone)]
pub struct ER(Rc<u64>);
#[derive(Clone)]
pub struct EV(Vec<u64>);
#[derive(Clone, Copy)]
pub struct E2(u16);
#[derive(Clone, Copy)]
pub struct E16(u128);
#[derive(Clone, Copy)]
pub struct E32([u64; 4]);
/// Clone but not Copy, no drop glue.
#[derive(Clone)]
pub struct EN(u64);

el!(owned ES, "String (24 B, drop glue)", |k| format!("e{:016x}", k), |s| u64::from_str_radix(&s[1..], 16).unwrap());
el!(owned EB, "Box<u64> (8 B, drop glue)", |k| Box::new(k), |s| **s);
el!(owned ER, "Rc<u64> (8 B, drop glue)", |k| Rc::new(k), |s| **s);
el!(owned EV, "Vec<u64> (24 B, drop glue)", |k| vec![k ^ 0x5555, k], |s| s[1]);
el!(copy E2, "u16 (2 B, align 2, Copy)", |k| k as u16, |s| *s as u64);
el!(copy E16, "u128 (16 B, align 16, Copy)", |k| ((!k as u128) << 64) | k as u128, |s| *s as u64);
el!(copy E32, "[u64; 4] (32 B, Copy)", |k| [k, !k, k.rotate_left(7), 42], |s| s[0]);
el!(owned EN, "u64 newtype (8 B, Clone only, no drop glue)", |k| k, |s| *s);

// --- big elements: the MATRIX crosses 1 KiB / one page / 64 KiB. The id sits in the first and in the last word,
// the words in between are a function of it; an element that was copied only in part reads as a poisoned id.
fn canon<const W: usize>(k: u64) -> [u64; W] {
    let mut a = [0u64; W];
    for (i, w) in a.iter_mut().enumerate() {
        *w = k.rotate_left((i % 63) as u32) ^ i as u64;
    }
    a[W - 1] = k;
    a
}
fn id_of<const W: usize>(a: &[u64; W]) -> u64 {
    if *a == canon::<W>(a[0]) {
        a[0]
    } else {
        // torn element: an id no generated element has (the model never contains it)
        mix(a[0] ^ a[W - 1].rotate_left(32) ^ 0xBAD0_BAD0_BAD0_BAD0) | 1 << 63
    }
}
#[derive(Clone, Copy)]
pub struct E72([u64; 9]);
#[derive(Clone, Copy)]
pub struct E264([u64; 33]);
#[derive(Clone, Copy)]
pub struct E520([u64; 65]);
#[derive(Clone, Copy)]
pub struct E1040([u64; 130]);
#[derive(Clone, Copy)]
pub struct E4160([u64; 520]);
/// Clone only, no drop glue, 520 bytes.
#[derive(Clone)]
pub struct EN520([u64; 65]);
/// Drop glue, 1048 bytes.
#[derive(Clone)]
pub struct ED1048(([u64; 130], Box<u64>));

el!(copy E72, "[u64; 9] (72 B, Copy; Mat4 > 1 KiB)", |k| canon(k), |s| id_of(s));
el!(copy E264, "[u64; 33] (264 B, Copy; Mat2 > 1 KiB, Mat4 > 4 KiB)", |k| canon(k), |s| id_of(s));
el!(copy E520, "[u64; 65] (520 B, Copy; Mat3 > 4 KiB)", |k| canon(k), |s| id_of(s));
el!(copy E1040, "[u64; 130] (1040 B, Copy; Mat2 > 4 KiB)", |k| canon(k), |s| id_of(s));
el!(copy E4160, "[u64; 520] (4160 B, Copy; Mat4 > 64 KiB)", |k| canon(k), |s| id_of(s));
el!(owned EN520, "[u64; 65] newtype (520 B, Clone only, no drop glue)", |k| canon(k), |s| id_of(s));
el!(owned ED1048, "([u64; 130], Box<u64>) (1048 B, drop glue)", |k| (canon(k), Box::new(k)), |s| if *s.1 == s.0[0] { id_of(&s.0) } else { mix(*s.1 ^ 0xBAD1) | 1 << 63 });

// ---------------------------------------------------------------------------------------------------------
// building and reading through the public fields, by cloning

fn v2<T>(a: [T; 2]) -> Vec2<T> {
    let [x, y] = a;
    Vec2 { x, y }
}
fn v3<T>(a: [T; 3]) -> Vec3<T> {
    let [x, y, z] = a;
    Vec3 { x, y, z }
}
fn v4<T>(a: [T; 4]) -> Vec4<T> {
    let [x, y, z, w] = a;
    Vec4 { x, y, z, w }
}
fn a2<T>(v: Vec2<T>) -> [T; 2] {
    [v.x, v.y]
}
fn a3<T>(v: Vec3<T>) -> [T; 3] {
    [v.x, v.y, v.z]
}
fn a4<T>(v: Vec4<T>) -> [T; 4] {
    [v.x, v.y, v.z, v.w]
}
fn tr<T: Clone, const N: usize>(a: &[[T; N]; N]) -> [[T; N]; N] {
    std::array::from_fn(|i| std::array::from_fn(|j| a[j][i].clone()))
}
fn flat_rows<T: Clone, const N: usize>(m: &[[T; N]; N]) -> Vec<T> {
    m.iter().flat_map(|row| row.iter().cloned()).collect()
}
fn flat_cols<T: Clone, const N: usize>(m: &[[T; N]; N]) -> Vec<T> {
    flat_rows(&tr(m))
}
pub trait OMat<E: Clone, const N: usize>: Clone {
    fn from_arr(a: &[[E; N]; N]) -> Self;
    fn to_arr(&self) -> [[E; N]; N];
}
macro_rules! omat {
    ($N:expr, $Mat:ident, $v:ident, $a:ident) => {
        impl<E: Clone> OMat<E, $N> for rm::$Mat<E> {
            fn from_arr(a: &[[E; $N]; $N]) -> Self {
                rm::$Mat { rows: $v(a.clone().map($v)) }
            }
            fn to_arr(&self) -> [[E; $N]; $N] {
                $a(self.clone().rows).map($a)
            }
        }
        impl<E: Clone> OMat<E, $N> for cm::$Mat<E> {
            fn from_arr(a: &[[E; $N]; $N]) -> Self {
                cm::$Mat { cols: $v(tr(a).map($v)) }
            }
            fn to_arr(&self) -> [[E; $N]; $N] {
                tr(&$a(self.clone().cols).map($a))
            }
        }
    };
}
omat!(2, Mat2, v2, a2);
omat!(3, Mat3, v3, a3);
omat!(4, Mat4, v4, a4);

fn new2<E: Clone>(a: &[[E; 2]; 2]) -> (rm::Mat2<E>, cm::Mat2<E>) {
    let g = |i: usize, j: usize| a[i][j].clone();
    (rm::Mat2::new(g(0, 0), g(0, 1), g(1, 0), g(1, 1)), cm::Mat2::new(g(0, 0), g(0, 1), g(1, 0), g(1, 1)))
}
fn new3<E: Clone>(a: &[[E; 3]; 3]) -> (rm::Mat3<E>, cm::Mat3<E>) {
    let g = |i: usize, j: usize| a[i][j].clone();
    (
        rm::Mat3::new(g(0, 0), g(0, 1), g(0, 2), g(1, 0), g(1, 1), g(1, 2), g(2, 0), g(2, 1), g(2, 2)),
        cm::Mat3::new(g(0, 0), g(0, 1), g(0, 2), g(1, 0), g(1, 1), g(1, 2), g(2, 0), g(2, 1), g(2, 2)),
    )
}
fn new4<E: Clone>(a: &[[E; 4]; 4]) -> (rm::Mat4<E>, cm::Mat4<E>) {
    let g = |i: usize, j: usize| a[i][j].clone();
    (
        rm::Mat4::new(g(0, 0), g(0, 1), g(0, 2), g(0, 3), g(1, 0), g(1, 1), g(1, 2), g(1, 3), g(2, 0), g(2, 1), g(2, 2), g(2, 3), g(3, 0), g(3, 1), g(3, 2), g(3, 3)),
        cm::Mat4::new(g(0, 0), g(0, 1), g(0, 2), g(0, 3), g(1, 0), g(1, 1), g(1, 2), g(1, 3), g(2, 0), g(2, 1), g(2, 2), g(2, 3), g(3, 0), g(3, 1), g(3, 2), g(3, 3)),
    )
}

fn ident<E: El, const N: usize>() -> [[E; N]; N] {
    std::array::from_fn(|i| std::array::from_fn(|j| if i == j { E::one() } else { E::zero() }))
}

// ---------------------------------------------------------------------------------------------------------
// the programs

/// Every operation of a step runs in a frame of its own (never inlined), so that the stack a case needs is the
/// deepest single operation, not the sum over all match arms: the 66 KiB matrices of the biggest domain must fit
/// the 8 MiB main-thread stack of replays and fuzz runs.
#[inline(never)]
fn arm(f: impl FnOnce() -> CaseResult) -> CaseResult {
    f()
}

const N_OPS: usize = 25;
const OP_NAMES: [&str; N_OPS] = [
    "new", "index", "index_mut", "transposed", "transpose", "map", "map2", "layout-swap", "resize", "row_array", "row_arrays", "col_array", "col_arrays",
    "col_array->from_row_array", "row_arrays->from_col_arrays", "diagonal+trace", "identity/zero/Default/Zero", "map_rows/map_cols", "slices+gl", "mut-slices",
    "display (plain and flags)", "from_{row,col}_array(s) of fresh arrays", "Copy-only ops (apply, apply2, with_diagonal, broadcast_diagonal)", "clone/eq", "index-out-of-range",
];

macro_rules! step {
    ($step:ident, $copy_impl:ident, $copy_ops:ident, $N:expr, $Mat:ident, $v:ident, $a:ident, $new:ident) => {
        fn $step<E: El>(op: usize, t: &mut Tape, cx: &mut Cx, fr: &mut Fresh, r: &mut rm::$Mat<E>, c: &mut cm::$Mat<E>, m: &mut [[E; $N]; $N]) -> CaseResult {
            const N: usize = $N;
            match op {
                0 => arm(|| -> CaseResult {
                    let a: [[E; N]; N] = fr.mat();
                    let (nr, nc) = $new(&a);
                    *r = nr;
                    *c = nc;
                    *m = a;
                    Ok(())
                })?,
                1 => arm(|| -> CaseResult {
                    let (i, j) = (t.below(N), t.below(N));
                    check_eq!(cx, r[(i, j)], m[i][j], "{}: row-major m[({},{})]", E::NAME, i, j);
                    check_eq!(cx, c[(i, j)], m[i][j], "{}: col-major m[({},{})]", E::NAME, i, j);
                    Ok(())
                })?,
                2 => arm(|| -> CaseResult {
                    let (i, j) = (t.below(N), t.below(N));
                    let x: E = fr.next();
                    r[(i, j)] = x.clone();
                    c[(i, j)] = x.clone();
                    m[i][j] = x;
                    Ok(())
                })?,
                3 => arm(|| -> CaseResult {
                    *r = r.clone().transposed();
                    *c = c.clone().transposed();
                    *m = tr(m);
                    Ok(())
                })?,
                4 => arm(|| -> CaseResult {
                    r.transpose();
                    c.transpose();
                    *m = tr(m);
                    Ok(())
                })?,
                5 => arm(|| -> CaseResult {
                    let tag = fr.raw();
                    *r = r.clone().map(|x| E::f(tag, x));
                    *c = c.clone().map(|x| E::f(tag, x));
                    *m = m.clone().map(|row| row.map(|x| E::f(tag, x)));
                    Ok(())
                })?,
                6 => arm(|| -> CaseResult {
                    let b: [[E; N]; N] = fr.mat();
                    let (br, bc) = (<rm::$Mat<E> as OMat<E, N>>::from_arr(&b), <cm::$Mat<E> as OMat<E, N>>::from_arr(&b));
                    *r = r.clone().map2(br, |x, y| E::g(x, y));
                    *c = c.clone().map2(bc, |x, y| E::g(x, y));
                    *m = std::array::from_fn(|i| std::array::from_fn(|j| E::g(m[i][j].clone(), b[i][j].clone())));
                    Ok(())
                })?,
                7 => arm(|| -> CaseResult {
                    let nr = rm::$Mat::<E>::from(c.clone());
                    let nc = cm::$Mat::<E>::from(r.clone());
                    *r = nr;
                    *c = nc;
                    Ok(())
                })?,
                9 => arm(|| -> CaseResult {
                    let (ar, ac) = (r.clone().into_row_array(), c.clone().into_row_array());
                    check_eq!(cx, ar.to_vec(), flat_rows(m), "{}: row-major into_row_array", E::NAME);
                    check_eq!(cx, ac.to_vec(), flat_rows(m), "{}: col-major into_row_array", E::NAME);
                    *r = rm::$Mat::from_row_array(ac);
                    *c = cm::$Mat::from_row_array(ar);
                    Ok(())
                })?,
                10 => arm(|| -> CaseResult {
                    let (ar, ac) = (r.clone().into_row_arrays(), c.clone().into_row_arrays());
                    check_eq!(cx, ar, *m, "{}: row-major into_row_arrays", E::NAME);
                    check_eq!(cx, ac, *m, "{}: col-major into_row_arrays", E::NAME);
                    *r = rm::$Mat::from_row_arrays(ac);
                    *c = cm::$Mat::from_row_arrays(ar);
                    Ok(())
                })?,
                11 => arm(|| -> CaseResult {
                    let (ar, ac) = (r.clone().into_col_array(), c.clone().into_col_array());
                    check_eq!(cx, ar.to_vec(), flat_cols(m), "{}: row-major into_col_array", E::NAME);
                    check_eq!(cx, ac.to_vec(), flat_cols(m), "{}: col-major into_col_array", E::NAME);
                    *r = rm::$Mat::from_col_array(ac);
                    *c = cm::$Mat::from_col_array(ar);
                    Ok(())
                })?,
                12 => arm(|| -> CaseResult {
                    let (ar, ac) = (r.clone().into_col_arrays(), c.clone().into_col_arrays());
                    check_eq!(cx, ar, tr(m), "{}: row-major into_col_arrays", E::NAME);
                    check_eq!(cx, ac, tr(m), "{}: col-major into_col_arrays", E::NAME);
                    *r = rm::$Mat::from_col_arrays(ac);
                    *c = cm::$Mat::from_col_arrays(ar);
                    Ok(())
                })?,
                13 => arm(|| -> CaseResult {
                    let (ar, ac) = (r.clone().into_col_array(), c.clone().into_col_array());
                    *r = rm::$Mat::from_row_array(ar);
                    *c = cm::$Mat::from_row_array(ac);
                    *m = tr(m);
                    Ok(())
                })?,
                14 => arm(|| -> CaseResult {
                    let (ar, ac) = (r.clone().into_row_arrays(), c.clone().into_row_arrays());
                    *r = rm::$Mat::from_col_arrays(ar);
                    *c = cm::$Mat::from_col_arrays(ac);
                    *m = tr(m);
                    Ok(())
                })?,
                15 => arm(|| -> CaseResult {
                    let d: [E; N] = std::array::from_fn(|i| m[i][i].clone());
                    check_eq!(cx, $a(r.clone().diagonal()), d, "{}: row-major diagonal()", E::NAME);
                    check_eq!(cx, $a(c.clone().diagonal()), d, "{}: col-major diagonal()", E::NAME);
                    // ring addition: independent of the order and association of the sum
                    let tr_want = d.iter().fold(E::zero(), |s, x| s + x.clone());
                    check_eq!(cx, r.clone().trace(), tr_want, "{}: row-major trace()", E::NAME);
                    check_eq!(cx, c.clone().trace(), tr_want, "{}: col-major trace()", E::NAME);
                    Ok(())
                })?,
                16 => arm(|| -> CaseResult {
                    let id: [[E; N]; N] = ident();
                    let z: [[E; N]; N] = std::array::from_fn(|_| std::array::from_fn(|_| E::zero()));
                    check_eq!(cx, OMat::<E, N>::to_arr(&rm::$Mat::<E>::identity()), id, "{}: row-major identity()", E::NAME);
                    check_eq!(cx, OMat::<E, N>::to_arr(&cm::$Mat::<E>::identity()), id, "{}: col-major identity()", E::NAME);
                    check_eq!(cx, OMat::<E, N>::to_arr(&<rm::$Mat<E> as Default>::default()), id, "{}: row-major Default", E::NAME);
                    check_eq!(cx, OMat::<E, N>::to_arr(&<cm::$Mat<E> as Default>::default()), id, "{}: col-major Default", E::NAME);
                    check_eq!(cx, OMat::<E, N>::to_arr(&rm::$Mat::<E>::zero()), z, "{}: row-major zero()", E::NAME);
                    check_eq!(cx, OMat::<E, N>::to_arr(&cm::$Mat::<E>::zero()), z, "{}: col-major zero()", E::NAME);
                    check_eq!(cx, OMat::<E, N>::to_arr(&<rm::$Mat<E> as Zero>::zero()), z, "{}: row-major Zero::zero()", E::NAME);
                    check_eq!(cx, OMat::<E, N>::to_arr(&<cm::$Mat<E> as Zero>::zero()), z, "{}: col-major Zero::zero()", E::NAME);
                    check_eq!(cx, (Zero::is_zero(&*r), Zero::is_zero(&*c)), (*m == z, *m == z), "{}: Zero::is_zero, both layouts", E::NAME);
                    Ok(())
                })?,
                17 => arm(|| -> CaseResult {
                    let tag = fr.raw();
                    *r = r.clone().map_rows(|row| row.map(|x| E::f(tag, x)));
                    *c = c.clone().map_cols(|col| col.map(|x| E::f(tag, x)));
                    *m = m.clone().map(|row| row.map(|x| E::f(tag, x)));
                    Ok(())
                })?,
                18 => arm(|| -> CaseResult {
                    check_eq!(cx, r.as_row_slice().to_vec(), flat_rows(m), "{}: as_row_slice lists m[i][j] at i*n+j", E::NAME);
                    check_eq!(cx, c.as_col_slice().to_vec(), flat_cols(m), "{}: as_col_slice lists m[i][j] at j*n+i", E::NAME);
                    let gl = |data: &[E], transpose: bool| -> [[E; N]; N] { std::array::from_fn(|i| std::array::from_fn(|j| if transpose { data[i * N + j].clone() } else { data[j * N + i].clone() })) };
                    check_eq!(cx, gl(r.as_row_slice(), r.gl_should_transpose()), *m, "{}: row-major slice read with gl_should_transpose()", E::NAME);
                    check_eq!(cx, gl(c.as_col_slice(), c.gl_should_transpose()), *m, "{}: col-major slice read with gl_should_transpose()", E::NAME);
                    check_eq!(cx, r.as_row_ptr() as usize, r as *const _ as usize, "{}: row slice aliases the value", E::NAME);
                    check_eq!(cx, c.as_col_ptr() as usize, c as *const _ as usize, "{}: col slice aliases the value", E::NAME);
                    check!(cx, r.is_packed() && c.is_packed(), "{}: is_packed", E::NAME);
                    Ok(())
                })?,
                19 => arm(|| -> CaseResult {
                    let k = t.below(N * N);
                    let x: E = fr.next();
                    check_eq!(cx, r.as_mut_row_slice().to_vec(), flat_rows(m), "{}: as_mut_row_slice contents", E::NAME);
                    check_eq!(cx, c.as_mut_col_slice().to_vec(), flat_cols(m), "{}: as_mut_col_slice contents", E::NAME);
                    r.as_mut_row_slice()[k] = x.clone();
                    c.as_mut_col_slice()[(k % N) * N + k / N] = x.clone();
                    m[k / N][k % N] = x;
                    Ok(())
                })?,
                20 => arm(|| -> CaseResult {
                    let (k, w, p) = (if t.bool() { 0 } else { 1 + t.below(edge::N_SPECS - 1) }, t.below(24), t.below(24));
                    let (name, tr_) = edge::spec(k, &*r, w, p);
                    let (_, tc) = edge::spec(k, &*c, w, p);
                    let want = edge::display_model_spec(m, k, w, p);
                    check!(cx, tr_ == tc, "{}: Display under {} (w={}, p={}) depends on the layout: row-major {:?}, col-major {:?}", E::NAME, name, w, p, tr_, tc);
                    check_eq!(cx, tr_, want, "{}: row-major Display under {} (w={}, p={})", E::NAME, name, w, p);
                    Ok(())
                })?,
                21 => arm(|| -> CaseResult {
                    // both layouts built from the same fresh array by the same constructor
                    let a: [[E; N]; N] = fr.mat();
                    match t.below(4) {
                        0 => {
                            let flat: [E; N * N] = flat_rows(&a).try_into().ok().unwrap();
                            *r = rm::$Mat::from_row_array(flat.clone());
                            *c = cm::$Mat::from_row_array(flat);
                            *m = a;
                        }
                        1 => {
                            *r = rm::$Mat::from_row_arrays(a.clone());
                            *c = cm::$Mat::from_row_arrays(a.clone());
                            *m = a;
                        }
                        2 => {
                            // the flat array lists columns: element k is (k % N, k / N)
                            let flat: [E; N * N] = flat_rows(&a).try_into().ok().unwrap();
                            *r = rm::$Mat::from_col_array(flat.clone());
                            *c = cm::$Mat::from_col_array(flat);
                            *m = tr(&a);
                        }
                        _ => {
                            *r = rm::$Mat::from_col_arrays(a.clone());
                            *c = cm::$Mat::from_col_arrays(a.clone());
                            *m = tr(&a);
                        }
                    }
                    Ok(())
                })?,
                22 => arm(|| -> CaseResult {
                    let applicable = E::$copy_ops(t, cx, fr, r, c, m)?;
                    cx.label(if applicable { "Copy-only ops: run" } else { "Copy-only ops: not applicable (element is not Copy)" });
                    Ok(())
                })?,
                23 => arm(|| -> CaseResult {
                    // Clone and PartialEq of the matrix are per (i,j) too
                    let (r2, c2) = (r.clone(), c.clone());
                    check!(cx, r2 == *r && c2 == *c, "{}: clone() == self", E::NAME);
                    check_eq!(cx, OMat::<E, N>::to_arr(&r2), *m, "{}: row-major clone()", E::NAME);
                    check_eq!(cx, OMat::<E, N>::to_arr(&c2), *m, "{}: col-major clone()", E::NAME);
                    let (i, j) = (t.below(N), t.below(N));
                    let mut b = m.clone();
                    b[i][j] = fr.next();
                    check!(cx, <rm::$Mat<E> as OMat<E, N>>::from_arr(&b) != *r && <cm::$Mat<E> as OMat<E, N>>::from_arr(&b) != *c, "{}: matrices differing at ({},{}) compare equal", E::NAME, i, j);
                    Ok(())
                })?,
                24 => arm(|| -> CaseResult {
                    let cand = edge::index_candidates(N);
                    let small_out = |t: &mut Tape| N + t.below(N * N - N + 1);
                    let (i, j) = match t.below(4) {
                        0 => (t.below(N), small_out(t)),
                        1 => (small_out(t), t.below(N)),
                        2 => (small_out(t), small_out(t)),
                        _ => {
                            let h = cand[N * N + 1 + t.below(cand.len() - N * N - 1)];
                            let o = cand[t.below(cand.len())];
                            if t.bool() { (h, o) } else { (o, h) }
                        }
                    };
                    let write = t.bool();
                    let x: E = fr.next();
                    edge::index_pair_case_with(cx, i, j, write, r, c, m, x, |r: &rm::$Mat<E>| OMat::<E, N>::to_arr(r), |c: &cm::$Mat<E>| OMat::<E, N>::to_arr(c))?;
                    Ok(())
                })?,
                _ => {}
            }
            Ok(())
        }

        fn $copy_impl<E: El + Copy>(t: &mut Tape, cx: &mut Cx, fr: &mut Fresh, r: &mut rm::$Mat<E>, c: &mut cm::$Mat<E>, m: &mut [[E; $N]; $N]) -> CaseResult {
            const N: usize = $N;
            let _ = &cx;
            match t.below(4) {
                0 => {
                    let tag = fr.raw();
                    r.apply(|x| E::f(tag, x));
                    c.apply(|x| E::f(tag, x));
                    *m = m.map(|row| row.map(|x| E::f(tag, x)));
                }
                1 => {
                    let b: [[E; N]; N] = fr.mat();
                    r.apply2(<rm::$Mat<E> as OMat<E, N>>::from_arr(&b), |x, y| E::g(x, y));
                    c.apply2(<cm::$Mat<E> as OMat<E, N>>::from_arr(&b), |x, y| E::g(x, y));
                    *m = std::array::from_fn(|i| std::array::from_fn(|j| E::g(m[i][j], b[i][j])));
                }
                2 => {
                    let d: [E; N] = std::array::from_fn(|_| fr.next());
                    *r = rm::$Mat::with_diagonal($v(d));
                    *c = cm::$Mat::with_diagonal($v(d));
                    *m = std::array::from_fn(|i| std::array::from_fn(|j| if i == j { d[i] } else { E::zero() }));
                }
                _ => {
                    let x: E = fr.next();
                    *r = rm::$Mat::broadcast_diagonal(x);
                    *c = cm::$Mat::broadcast_diagonal(x);
                    *m = std::array::from_fn(|i| std::array::from_fn(|j| if i == j { x } else { E::zero() }));
                }
            }
            Ok(())
        }
    };
}
step!(step2, copy_impl2, copy_ops2, 2, Mat2, v2, a2, new2);
step!(step3, copy_impl3, copy_ops3, 3, Mat3, v3, a3, new3);
step!(step4, copy_impl4, copy_ops4, 4, Mat4, v4, a4, new4);

/// The state lives on the heap: moving it (size changes, steps) moves three pointers, not up to 200 KiB.
enum St<E> {
    M2(Box<rm::Mat2<E>>, Box<cm::Mat2<E>>, Box<[[E; 2]; 2]>),
    M3(Box<rm::Mat3<E>>, Box<cm::Mat3<E>>, Box<[[E; 3]; 3]>),
    M4(Box<rm::Mat4<E>>, Box<cm::Mat4<E>>, Box<[[E; 4]; 4]>),
}

fn resize_model<E: El, const A: usize, const B: usize>(m: &[[E; A]; A]) -> [[E; B]; B] {
    std::array::from_fn(|i| std::array::from_fn(|j| if i < A && j < A { m[i][j].clone() } else if i == j { E::one() } else { E::zero() }))
}

/// Build a value in a frame of its own and move it to the heap.
#[inline(never)]
fn bx<T>(f: impl FnOnce() -> T) -> Box<T> {
    Box::new(f())
}

#[inline(never)]
fn resize<E: El>(st: St<E>, target: usize) -> St<E> {
    match (st, target) {
        (St::M2(r, c, m), 3) => St::M3(bx(|| rm::Mat3::from(*r)), bx(|| cm::Mat3::from(*c)), bx(|| resize_model(&*m))),
        (St::M2(r, c, m), 4) => St::M4(bx(|| rm::Mat4::from(*r)), bx(|| cm::Mat4::from(*c)), bx(|| resize_model(&*m))),
        (St::M3(r, c, m), 2) => St::M2(bx(|| rm::Mat2::from(*r)), bx(|| cm::Mat2::from(*c)), bx(|| resize_model(&*m))),
        (St::M3(r, c, m), 4) => St::M4(bx(|| rm::Mat4::from(*r)), bx(|| cm::Mat4::from(*c)), bx(|| resize_model(&*m))),
        (St::M4(r, c, m), 2) => St::M2(bx(|| rm::Mat2::from(*r)), bx(|| cm::Mat2::from(*c)), bx(|| resize_model(&*m))),
        (St::M4(r, c, m), 3) => St::M3(bx(|| rm::Mat3::from(*r)), bx(|| cm::Mat3::from(*c)), bx(|| resize_model(&*m))),
        (s, _) => s,
    }
}

#[inline(never)]
fn agree<E: El>(cx: &mut Cx, st: &St<E>, after: &str, step: usize) -> CaseResult {
    macro_rules! both {
        ($N:expr, $r:expr, $c:expr, $m:expr) => {{
            check_eq!(cx, OMat::<E, $N>::to_arr($r), *$m, "{}: row-major value after step {} ({})", E::NAME, step, after);
            check_eq!(cx, OMat::<E, $N>::to_arr($c), *$m, "{}: col-major value after step {} ({})", E::NAME, step, after);
        }};
    }
    match st {
        St::M2(r, c, m) => both!(2, &**r, &**c, &**m),
        St::M3(r, c, m) => both!(3, &**r, &**c, &**m),
        St::M4(r, c, m) => both!(4, &**r, &**c, &**m),
    }
    Ok(())
}

fn run<E: El>(t: &mut Tape, cx: &mut Cx) -> CaseResult {
    run_with::<E>(t, cx, None)
}

fn one_step<E: El>(op: usize, four_way: bool, tt: &mut Tape, cx: &mut Cx, fr: &mut Fresh, mut st: St<E>) -> Result<St<E>, Fail> {
    if op == 8 {
        let target = 2 + if four_way { tt.below(4).min(2) } else { tt.below(3) };
        return Ok(resize(st, target));
    }
    match &mut st {
        St::M2(r, c, m) => step2(op, tt, cx, fr, &mut **r, &mut **c, &mut **m)?,
        St::M3(r, c, m) => step3(op, tt, cx, fr, &mut **r, &mut **c, &mut **m)?,
        St::M4(r, c, m) => step4(op, tt, cx, fr, &mut **r, &mut **c, &mut **m)?,
    }
    Ok(st)
}

#[inline(never)]
fn init2<E: El>(fr: &mut Fresh) -> St<E> {
    let a = bx(|| fr.mat::<E, 2>());
    St::M2(bx(|| new2(&a).0), bx(|| new2(&a).1), a)
}
#[inline(never)]
fn init3<E: El>(fr: &mut Fresh) -> St<E> {
    let a = bx(|| fr.mat::<E, 3>());
    St::M3(bx(|| new3(&a).0), bx(|| new3(&a).1), a)
}
#[inline(never)]
fn init4<E: El>(fr: &mut Fresh) -> St<E> {
    let a = bx(|| fr.mat::<E, 4>());
    St::M4(bx(|| new4(&a).0), bx(|| new4(&a).1), a)
}

/// `forced = Some((n0, prefix, op, sub))`: start at size `n0`, run `prefix` generated steps, then `op`, whose
/// first four-way choice (constructor / Copy-only operation / index regime / resize target) is `sub`.
fn run_with<E: El>(t: &mut Tape, cx: &mut Cx, forced: Option<(usize, usize, usize, usize)>) -> CaseResult {
    let mut fbytes = [0u8; 32];
    if let Some((n0, prefix, op, sub)) = forced {
        let mut z = mix((n0 * 1000 + prefix * 100 + op) as u64 ^ 0xF0CE);
        for b in fbytes.iter_mut() {
            z = mix(z);
            *b = (z >> 24) as u8;
        }
        fbytes[0] = (sub * 64 + 1) as u8;
    }
    let mut ftape = Tape::new(&fbytes);
    cx.label(E::NAME);
    let mut fr = Fresh(0);
    let n0 = match forced {
        Some((n0, _, _, _)) => n0,
        None => 2 + t.below(3),
    };
    let mut st: St<E> = match n0 {
        2 => init2(&mut fr),
        3 => init3(&mut fr),
        _ => init4(&mut fr),
    };
    agree(cx, &st, "new", 0)?;
    let len = match forced {
        Some((_, prefix, _, _)) => prefix + 1,
        None => t.below(13),
    };
    let mut trace: Vec<&'static str> = Vec::new();
    for step in 1..=len {
        let op = match forced {
            // the prefix keeps the size (no resize), so the forced op runs at size n0
            Some((_, _, op, _)) if step == len => op,
            Some(_) => {
                let o = t.below(N_OPS);
                if o == 8 { 3 } else { o }
            }
            None => t.below(N_OPS),
        };
        trace.push(OP_NAMES[op]);
        cx.label(OP_NAMES[op]);
        let forced_step = forced.is_some() && step == len;
        st = if forced_step { one_step(op, true, &mut ftape, cx, &mut fr, st)? } else { one_step(op, false, t, cx, &mut fr, st)? };
        agree(cx, &st, OP_NAMES[op], step)?;
    }
    cx.set_nontrivial(len >= 2);
    sample!(cx, "{} start n={} program={:?}", E::NAME, n0, trace);
    Ok(())
}

/// Programs over a generated element domain: the four drop-glue domains get 5/8 of the cases.
pub fn programs(t: &mut Tape, cx: &mut Cx) -> CaseResult {
    match t.below(16) {
        0 | 1 | 2 | 3 => run::<ES>(t, cx),
        4 | 5 => run::<EB>(t, cx),
        6 | 7 => run::<ER>(t, cx),
        8 | 9 => run::<EV>(t, cx),
        10 => run::<EN>(t, cx),
        11 | 12 => run::<E2>(t, cx),
        13 => run::<E16>(t, cx),
        _ => run::<E32>(t, cx),
    }
}

/// Programs over the big element domains (the matrix crosses 1 KiB, one page, 64 KiB).
pub fn programs_big(t: &mut Tape, cx: &mut Cx) -> CaseResult {
    match t.below(8) {
        0 => run::<E72>(t, cx),
        1 => run::<E264>(t, cx),
        2 => run::<E520>(t, cx),
        3 => run::<E1040>(t, cx),
        4 => run::<E4160>(t, cx),
        5 => run::<EN520>(t, cx),
        _ => run::<ED1048>(t, cx),
    }
}

pub const N_DOMAINS: usize = 15;
const SWEEP_VARIANTS: u64 = 12;
/// operation x start size x element domain x variant
pub fn sweep_total() -> u64 {
    N_OPS as u64 * 3 * N_DOMAINS as u64 * SWEEP_VARIANTS
}

/// Exhaustive over element domain x matrix size x operation x 12 variants (a prefix of 0, 1 or 2 generated steps
/// x the four-way first choice of the operation: which of the four from_* constructors, which of the four
/// Copy-only operations, which out-of-range index regime, which resize target), so every combination is executed
/// in every tier, whatever the seed.
pub fn sweep(idx: u64, cx: &mut Cx) -> CaseResult {
    let variant = idx % SWEEP_VARIANTS;
    let op = ((idx / SWEEP_VARIANTS) % N_OPS as u64) as usize;
    let n0 = 2 + ((idx / SWEEP_VARIANTS / N_OPS as u64) % 3) as usize;
    let dom = (idx / SWEEP_VARIANTS / N_OPS as u64 / 3) as usize;
    // the arguments of the steps come from a tape that is a pure function of the index
    let mut bytes = [0u8; 64];
    let mut z = mix(idx ^ 0x5EE9);
    for b in bytes.iter_mut() {
        z = mix(z);
        *b = (z >> 24) as u8;
    }
    let mut tape = Tape::new(&bytes);
    let t = &mut tape;
    let forced = Some((n0, (variant / 4) as usize, op, (variant % 4) as usize));
    cx.label(match n0 {
        2 => "start size 2",
        3 => "start size 3",
        _ => "start size 4",
    });
    let res = match dom {
        0 => run_with::<ES>(t, cx, forced),
        1 => run_with::<EB>(t, cx, forced),
        2 => run_with::<ER>(t, cx, forced),
        3 => run_with::<EV>(t, cx, forced),
        4 => run_with::<EN>(t, cx, forced),
        5 => run_with::<E2>(t, cx, forced),
        6 => run_with::<E16>(t, cx, forced),
        7 => run_with::<E32>(t, cx, forced),
        8 => run_with::<E72>(t, cx, forced),
        9 => run_with::<E264>(t, cx, forced),
        10 => run_with::<E520>(t, cx, forced),
        11 => run_with::<E1040>(t, cx, forced),
        12 => run_with::<E4160>(t, cx, forced),
        13 => run_with::<EN520>(t, cx, forced),
        _ => run_with::<ED1048>(t, cx, forced),
    };
    cx.nontrivial();
    res
}

/// The domain table in the module docs is what the instantiations really look like.
pub fn domain_facts(_idx: u64, cx: &mut Cx) -> CaseResult {
    use std::mem::{align_of, needs_drop, size_of};
    check!(cx, needs_drop::<ES>() && needs_drop::<EB>() && needs_drop::<ER>() && needs_drop::<EV>(), "the owned domains have drop glue");
    check!(cx, !needs_drop::<EN>() && !needs_drop::<E2>() && !needs_drop::<E16>() && !needs_drop::<E32>() && !needs_drop::<Sym>(), "the plain domains have none");
    check_eq!(cx, (size_of::<ES>(), size_of::<EB>(), size_of::<E2>(), size_of::<E16>(), size_of::<E32>(), size_of::<EN>()), (24, 8, 2, 16, 32, 8), "element sizes");
    check_eq!(cx, (align_of::<E2>(), align_of::<E16>(), align_of::<E32>()), (2, 16, 8), "element alignments");
    check_eq!(cx, (size_of::<E72>(), size_of::<E264>(), size_of::<E520>(), size_of::<E1040>(), size_of::<E4160>(), size_of::<EN520>(), size_of::<ED1048>()), (72, 264, 520, 1040, 4160, 520, 1048), "big element sizes");
    check!(cx, needs_drop::<ED1048>() && !needs_drop::<EN520>() && !needs_drop::<E4160>(), "drop glue of the big domains");
    // every threshold is crossed by some matrix of every size
    check!(cx, size_of::<rm::Mat2<E264>>() > 1024 && size_of::<rm::Mat3<E264>>() > 1024 && size_of::<rm::Mat4<E72>>() > 1024, "> 1 KiB");
    check!(cx, size_of::<rm::Mat2<E1040>>() > 4096 && size_of::<rm::Mat3<E520>>() > 4096 && size_of::<rm::Mat4<E264>>() > 4096, "> one page");
    check!(cx, size_of::<cm::Mat2<E4160>>() > 16384 && size_of::<cm::Mat3<E4160>>() > 32768 && size_of::<cm::Mat4<E4160>>() > 65536, "> 16 / 32 / 64 KiB");
    check!(cx, size_of::<cm::Mat2<ED1048>>() > 4096 && size_of::<cm::Mat3<EN520>>() > 4096, "non-Copy domains cross the page too");
    cx.nontrivial();
    Ok(())
}
