//! C04 — rotation builders yield proper right-handed rotations, consistent across types.

use vek::mat::repr_c::column_major as cm;
use vek::mat::repr_c::row_major as rm;
use vek::quaternion::repr_c::Quaternion;
use vek::vec::repr_c::{Vec2, Vec3, Vec4};
use vkit::gens;
use vkit::refmath as rf;
use vkit::vk::{self, MatN};
use vkit::*;

/// A non-zero axis together with its exact unit direction. `Rat`: Pythagorean vector times a rational
/// factor of either sign; floats: additionally arbitrary vectors (unit direction computed in f64).
fn gen_axis<S: Dom>(t: &mut Tape, cx: &mut Cx) -> ([S; 3], [S; 3]) {
    if S::EXACT || t.bool() {
        let (v, len) = gens::pythagorean3(t);
        let ln = t.int(1, 9);
        let ld = t.pick(&[1i64, 1, 2, 3, 5]);
        let neg = t.chance(80);
        if neg {
            cx.label("negative-axis-scale");
        }
        let lam = if neg { S::q(-ln, ld) } else { S::q(ln, ld) };
        let axis = [S::i(v[0]) * lam, S::i(v[1]) * lam, S::i(v[2]) * lam];
        let sg = if neg { -1 } else { 1 };
        let unit = [S::q(sg * v[0], len), S::q(sg * v[1], len), S::q(sg * v[2], len)];
        if ln != ld {
            cx.label("non-unit-axis");
        }
        (axis, unit)
    } else {
        let mag = t.pick(&[1.0f64, 1e-3, 1e3, 0.37, 12.5]);
        let mut v = [t.range_f64(-1.0, 1.0), t.range_f64(-1.0, 1.0), t.range_f64(-1.0, 1.0)];
        if v.iter().map(|x| x * x).sum::<f64>() < 1e-4 {
            v = [0.3, -0.5, 0.8];
        }
        let n = v.iter().map(|x| x * x).sum::<f64>().sqrt();
        let unit = [v[0] / n, v[1] / n, v[2] / n];
        cx.label("non-unit-axis");
        let f = |x: f64| <S as num_traits::NumCast>::from(x).unwrap();
        ([f(v[0] * mag), f(v[1] * mag), f(v[2] * mag)], [f(unit[0]), f(unit[1]), f(unit[2])])
    }
}

fn upper3<S: Dom>(m: &[[S; 4]; 4]) -> [[S; 3]; 3] {
    let mut r = [[S::zero(); 3]; 3];
    for i in 0..3 {
        for j in 0..3 {
            r[i][j] = m[i][j];
        }
    }
    r
}

fn is_embedding<S: Dom>(m: &[[S; 4]; 4]) -> bool {
    let (z, o) = (S::zero(), S::one());
    m[3] == [z, z, z, o] && m[0][3] == z && m[1][3] == z && m[2][3] == z
}

const K: f64 = 256.0;

macro_rules! inplace1 {
    ($cx:expr, $m:expr, $call:ident, $ret:ident, $a:expr, $what:expr) => {{
        let mut x = $m;
        x.$call($a);
        check_eq!($cx, x.to_arr(), $m.$ret($a).to_arr(), $what);
    }};
}
macro_rules! inplace2 {
    ($cx:expr, $m:expr, $call:ident, $ret:ident, $a:expr, $b:expr, $what:expr) => {{
        let mut x = $m;
        x.$call($a, $b);
        check_eq!($cx, x.to_arr(), $m.$ret($a, $b).to_arr(), $what);
    }};
}

macro_rules! rot_case {
    ($fname:ident, $l:ident, $lname:expr) => {
        fn $fname<S: Dom>(t: &mut Tape, cx: &mut Cx) -> CaseResult {
            let theta = S::angle(t);
            let (s, c) = (theta.sin(), theta.cos());
            let (axis, k) = gen_axis::<S>(t, cx);
            let v: [S; 3] = vk::gen_vec(t, 9);
            let nz = k.iter().filter(|x| !x.is_zero()).count();
            cx.set_nontrivial(!s.is_zero() && !c.is_zero() && c != S::one() && c != -S::one() && nz >= 2);
            sample!(cx, "{} {} theta={:?} (sin {:?}, cos {:?}) axis={:?} unit={:?} v={:?}", S::NAME, $lname, theta, s, c, axis, k, v);
            let vmax = vk::vec_max(&v).max(1.0);
            let id3: [[S; 3]; 3] = rf::identity();

            // --- Mat4 / Mat3 rotation_3d
            let r4 = $l::Mat4::<S>::rotation_3d(theta, vk::v3(&axis)).to_arr();
            let r3 = $l::Mat3::<S>::rotation_3d(theta, vk::v3(&axis)).to_arr();
            check!(cx, is_embedding(&r4), "Mat4::rotation_3d last row/column is not e4: {:?}", r4);
            check_mat!(cx, S, upper3(&r4), r3, 1.0, K, "Mat3::rotation_3d is the upper-left block of Mat4::rotation_3d");
            // (1) orthogonal, det +1
            check_mat!(cx, S, rf::matmul(&rf::transpose(&r3), &r3), id3, 1.0, K, "R^T R = I");
            check_close!(cx, S, rf::det(&r3), S::one(), 1.0, K, "det R = +1");
            // (2) fixes its axis
            check_vec!(cx, S, rf::matvec(&r3, &k), k, 1.0, K, "R k = k");
            // (4) axis-angle definition on a random vector
            check_vec!(cx, S, rf::matvec(&r3, &v), rf::rodrigues(&v, &k, s, c), vmax, K, "R v = v cos + (k x v) sin + k (k.v)(1-cos)");
            // vek's own matrix*vector product agrees
            check_vec!(cx, S, vk::a3(&($l::Mat3::<S>::rotation_3d(theta, vk::v3(&axis)) * vk::v3(&v))), rf::rodrigues(&v, &k, s, c), vmax, K, "Mat3 * v");
            // (6) axis scaling: positive multiple same rotation, negative multiple the inverse rotation
            {
                let unit_rot = $l::Mat3::<S>::rotation_3d(theta, vk::v3(&k)).to_arr();
                check_mat!(cx, S, r3, unit_rot, 1.0, K, "rotation_3d(theta, axis) = rotation_3d(theta, axis/|axis|)");
                let neg_axis = [-axis[0], -axis[1], -axis[2]];
                let inv = $l::Mat3::<S>::rotation_3d(-theta, vk::v3(&neg_axis)).to_arr();
                check_mat!(cx, S, inv, r3, 1.0, K, "rotation_3d(-theta, -axis) = rotation_3d(theta, axis)");
                let back = $l::Mat3::<S>::rotation_3d(-theta, vk::v3(&axis)).to_arr();
                check_mat!(cx, S, rf::matmul(&back, &r3), id3, 1.0, K, "rotation_3d(-theta, axis) undoes rotation_3d(theta, axis)");
            }
            // (3) + (7) handedness anchors and axis-aligned constructors
            let (z, o) = (S::zero(), S::one());
            let rx = $l::Mat3::<S>::rotation_x(theta).to_arr();
            let ry = $l::Mat3::<S>::rotation_y(theta).to_arr();
            let rz = $l::Mat3::<S>::rotation_z(theta).to_arr();
            check_vec!(cx, S, rf::matvec(&rz, &[o, z, z]), [c, s, z], 1.0, K, "rotation_z * x = (cos, sin, 0)");
            check_vec!(cx, S, rf::matvec(&rx, &[z, o, z]), [z, c, s], 1.0, K, "rotation_x * y = (0, cos, sin)");
            check_vec!(cx, S, rf::matvec(&ry, &[z, z, o]), [s, z, c], 1.0, K, "rotation_y * z = (sin, 0, cos)");
            check_mat!(cx, S, rx, [[o, z, z], [z, c, -s], [z, s, c]], 1.0, K, "Mat3::rotation_x");
            check_mat!(cx, S, ry, [[c, z, s], [z, o, z], [-s, z, c]], 1.0, K, "Mat3::rotation_y");
            check_mat!(cx, S, rz, [[c, -s, z], [s, c, z], [z, z, o]], 1.0, K, "Mat3::rotation_z");
            check_mat!(cx, S, $l::Mat3::<S>::rotation_3d(theta, Vec3::<S>::unit_x()).to_arr(), rx, 1.0, K, "rotation_3d(theta, unit_x) = rotation_x");
            check_mat!(cx, S, $l::Mat3::<S>::rotation_3d(theta, Vec3::<S>::unit_y()).to_arr(), ry, 1.0, K, "rotation_3d(theta, unit_y) = rotation_y");
            check_mat!(cx, S, $l::Mat3::<S>::rotation_3d(theta, Vec3::<S>::unit_z()).to_arr(), rz, 1.0, K, "rotation_3d(theta, unit_z) = rotation_z");
            // (8) Mat4 variants embed the Mat3 ones; Mat2 is the upper-left block of Mat3::rotation_z
            for (name, m4, m3) in [
                ("x", $l::Mat4::<S>::rotation_x(theta).to_arr(), rx),
                ("y", $l::Mat4::<S>::rotation_y(theta).to_arr(), ry),
                ("z", $l::Mat4::<S>::rotation_z(theta).to_arr(), rz),
            ] {
                check!(cx, is_embedding(&m4), "Mat4::rotation_{} last row/column is not e4: {:?}", name, m4);
                check_mat!(cx, S, upper3(&m4), m3, 1.0, K, "Mat4::rotation_{} upper-left block = Mat3::rotation_{}", name, name);
            }
            let r2 = $l::Mat2::<S>::rotation_z(theta).to_arr();
            check_mat!(cx, S, r2, [[c, -s], [s, c]], 1.0, K, "Mat2::rotation_z");
            // (10) Vec2 rotation
            let v2 = [v[0], v[1]];
            let want2 = [c * v2[0] - s * v2[1], s * v2[0] + c * v2[1]];
            check_vec!(cx, S, vk::a2(&vk::v2(&v2).rotated_z(theta)), want2, vmax, K, "Vec2::rotated_z");
            check_vec!(cx, S, vk::a2(&($l::Mat2::<S>::rotation_z(theta) * vk::v2(&v2))), want2, vmax, K, "Mat2::rotation_z * v");
            let mut vv = vk::v2(&v2);
            vv.rotate_z(theta);
            check_vec!(cx, S, vk::a2(&vv), want2, vmax, K, "Vec2::rotate_z (in place)");
            check_vec!(cx, S, vk::a2(&Vec2::<S>::unit_x().rotated_z(theta)), [c, s], 1.0, K, "unit_x.rotated_z = (cos, sin)");

            // (9) quaternion for (angle, axis) gives the same matrix, and acts on vectors like it
            let q = Quaternion::<S>::rotation_3d(theta, vk::v3(&axis));
            check_mat!(cx, S, $l::Mat3::<S>::from(q).to_arr(), r3, 1.0, K, "Mat3::from(Quaternion::rotation_3d) = Mat3::rotation_3d");
            check_mat!(cx, S, $l::Mat4::<S>::from(q).to_arr(), r4, 1.0, K, "Mat4::from(Quaternion::rotation_3d) = Mat4::rotation_3d");
            check_vec!(cx, S, vk::a3(&(q * vk::v3(&v))), rf::rodrigues(&v, &k, s, c), vmax, K, "quaternion * v");
            check_mat!(cx, S, $l::Mat3::<S>::from(Quaternion::<S>::rotation_x(theta)).to_arr(), rx, 1.0, K, "Mat3::from(Quaternion::rotation_x)");
            check_mat!(cx, S, $l::Mat3::<S>::from(Quaternion::<S>::rotation_y(theta)).to_arr(), ry, 1.0, K, "Mat3::from(Quaternion::rotation_y)");
            check_mat!(cx, S, $l::Mat3::<S>::from(Quaternion::<S>::rotation_z(theta)).to_arr(), rz, 1.0, K, "Mat3::from(Quaternion::rotation_z)");
            let qn = q.x * q.x + q.y * q.y + q.z * q.z + q.w * q.w;
            check_close!(cx, S, qn, S::one(), 1.0, K, "Quaternion::rotation_3d is a unit quaternion");

            // (11) chained / in-place variants pre-multiply
            let m: [[S; 4]; 4] = vk::gen_mat(t, 5);
            let mm = vk::mat_max(&m).max(1.0) * 4.0;
            let m4 = $l::Mat4::<S>::from_arr(&m);
            let m3a = upper3(&m);
            let m3 = $l::Mat3::<S>::from_arr(&m3a);
            let embed = |r: &[[S; 3]; 3]| gens::embed4(r, &[z, z, z]);
            check_mat!(cx, S, m4.rotated_x(theta).to_arr(), rf::matmul(&embed(&rx), &m), mm, K, "Mat4::rotated_x = rotation_x * m");
            check_mat!(cx, S, m4.rotated_y(theta).to_arr(), rf::matmul(&embed(&ry), &m), mm, K, "Mat4::rotated_y = rotation_y * m");
            check_mat!(cx, S, m4.rotated_z(theta).to_arr(), rf::matmul(&embed(&rz), &m), mm, K, "Mat4::rotated_z = rotation_z * m");
            check_mat!(cx, S, m4.rotated_3d(theta, vk::v3(&axis)).to_arr(), rf::matmul(&r4, &m), mm, K, "Mat4::rotated_3d = rotation_3d * m");
            check_mat!(cx, S, m3.rotated_x(theta).to_arr(), rf::matmul(&rx, &m3a), mm, K, "Mat3::rotated_x = rotation_x * m");
            check_mat!(cx, S, m3.rotated_y(theta).to_arr(), rf::matmul(&ry, &m3a), mm, K, "Mat3::rotated_y = rotation_y * m");
            check_mat!(cx, S, m3.rotated_z(theta).to_arr(), rf::matmul(&rz, &m3a), mm, K, "Mat3::rotated_z = rotation_z * m");
            check_mat!(cx, S, m3.rotated_3d(theta, vk::v3(&axis)).to_arr(), rf::matmul(&r3, &m3a), mm, K, "Mat3::rotated_3d = rotation_3d * m");
            let m2a = [[m[0][0], m[0][1]], [m[1][0], m[1][1]]];
            let m2 = $l::Mat2::<S>::from_arr(&m2a);
            check_mat!(cx, S, m2.rotated_z(theta).to_arr(), rf::matmul(&r2, &m2a), mm, K, "Mat2::rotated_z = rotation_z * m");
            inplace1!(cx, m4, rotate_x, rotated_x, theta, "Mat4::rotate_x == rotated_x");
            inplace1!(cx, m4, rotate_y, rotated_y, theta, "Mat4::rotate_y == rotated_y");
            inplace1!(cx, m4, rotate_z, rotated_z, theta, "Mat4::rotate_z == rotated_z");
            inplace2!(cx, m4, rotate_3d, rotated_3d, theta, vk::v3(&axis), "Mat4::rotate_3d == rotated_3d");
            inplace1!(cx, m3, rotate_x, rotated_x, theta, "Mat3::rotate_x == rotated_x");
            inplace1!(cx, m3, rotate_y, rotated_y, theta, "Mat3::rotate_y == rotated_y");
            inplace1!(cx, m3, rotate_z, rotated_z, theta, "Mat3::rotate_z == rotated_z");
            inplace2!(cx, m3, rotate_3d, rotated_3d, theta, vk::v3(&axis), "Mat3::rotate_3d == rotated_3d");
            inplace1!(cx, m2, rotate_z, rotated_z, theta, "Mat2::rotate_z == rotated_z");
            Ok(())
        }
    };
}
rot_case!(rot_rows, rm, "row-major");
rot_case!(rot_cols, cm, "col-major");

/// Additivity for a common axis, and quaternion chained variants.
fn additive<S: Dom>(t: &mut Tape, cx: &mut Cx) -> CaseResult {
    let a = S::angle(t);
    let b = S::angle(t);
    let ab = match S::angle_sum(a, b) {
        Some(x) => x,
        None => discard!("angle-sum"),
    };
    let (axis, k) = gen_axis::<S>(t, cx);
    let (sa, ca) = (a.sin(), a.cos());
    cx.set_nontrivial(!sa.is_zero() && !ca.is_zero() && !b.sin().is_zero() && k.iter().filter(|x| !x.is_zero()).count() >= 2);
    sample!(cx, "{} a={:?} b={:?} axis={:?}", S::NAME, a, b, axis);
    let ax = vk::v3(&axis);
    macro_rules! both {
        ($l:ident, $n:expr) => {{
            let ra = $l::Mat3::<S>::rotation_3d(a, ax).to_arr();
            let rb = $l::Mat3::<S>::rotation_3d(b, ax).to_arr();
            let rab = $l::Mat3::<S>::rotation_3d(ab, ax).to_arr();
            check_mat!(cx, S, rf::matmul(&ra, &rb), rab, 1.0, K, "{} Mat3 R(a,k) R(b,k) = R(a+b,k)", $n);
            check_mat!(cx, S, ($l::Mat4::<S>::rotation_3d(a, ax) * $l::Mat4::<S>::rotation_3d(b, ax)).to_arr(), $l::Mat4::<S>::rotation_3d(ab, ax).to_arr(), 1.0, K, "{} Mat4 R(a,k) R(b,k) = R(a+b,k)", $n);
            check_mat!(cx, S, ($l::Mat4::<S>::rotation_3d(b, ax).rotated_3d(a, ax)).to_arr(), $l::Mat4::<S>::rotation_3d(ab, ax).to_arr(), 1.0, K, "{} Mat4 rotation_3d(b).rotated_3d(a) = R(a+b)", $n);
            for (name, f2) in [
                ("x", $l::Mat3::<S>::rotation_x as fn(S) -> $l::Mat3<S>),
                ("y", $l::Mat3::<S>::rotation_y as fn(S) -> $l::Mat3<S>),
                ("z", $l::Mat3::<S>::rotation_z as fn(S) -> $l::Mat3<S>),
            ] {
                check_mat!(cx, S, rf::matmul(&f2(a).to_arr(), &f2(b).to_arr()), f2(ab).to_arr(), 1.0, K, "{} Mat3 rotation_{}(a) rotation_{}(b) = rotation_{}(a+b)", $n, name, name, name);
            }
            check_mat!(cx, S, rf::matmul(&$l::Mat2::<S>::rotation_z(a).to_arr(), &$l::Mat2::<S>::rotation_z(b).to_arr()), $l::Mat2::<S>::rotation_z(ab).to_arr(), 1.0, K, "{} Mat2 rotation_z additive", $n);
        }};
    }
    both!(rm, "row-major");
    both!(cm, "col-major");
    // quaternions: composition = Hamilton product (reference), chained variants pre-multiply, rotation matrices agree
    let qa = Quaternion::<S>::rotation_3d(a, ax);
    let qb = Quaternion::<S>::rotation_3d(b, ax);
    let arr = |q: Quaternion<S>| [q.w, q.x, q.y, q.z];
    let want = rf::hamilton(&arr(qa), &arr(qb));
    check_vec!(cx, S, arr(qb.rotated_3d(a, ax)), want, 1.0, K, "q.rotated_3d(a, k) = rotation_3d(a, k) * q");
    let qab = Quaternion::<S>::rotation_3d(ab, ax);
    // q(a+b) = +-(qa*qb): same rotation
    check_mat!(cx, S, cm::Mat3::<S>::from(qab).to_arr(), cm::Mat3::<S>::from(qa * qb).to_arr(), 1.0, K, "matrix of rotation_3d(a+b) = matrix of rotation_3d(a)*rotation_3d(b)");
    let mut qi = qb;
    qi.rotate_3d(a, ax);
    check_eq!(cx, arr(qi), arr(qb.rotated_3d(a, ax)), "Quaternion::rotate_3d == rotated_3d");
    for (name, build, chained, inplace) in [
        ("x", Quaternion::<S>::rotation_x as fn(S) -> Quaternion<S>, Quaternion::<S>::rotated_x as fn(Quaternion<S>, S) -> Quaternion<S>, Quaternion::<S>::rotate_x as fn(&mut Quaternion<S>, S)),
        ("y", Quaternion::<S>::rotation_y, Quaternion::<S>::rotated_y, Quaternion::<S>::rotate_y),
        ("z", Quaternion::<S>::rotation_z, Quaternion::<S>::rotated_z, Quaternion::<S>::rotate_z),
    ] {
        let want = rf::hamilton(&arr(build(a)), &arr(qb));
        check_vec!(cx, S, arr(chained(qb, a)), want, 1.0, K, "Quaternion::rotated_{} = rotation_{} * q", name, name);
        let mut qi = qb;
        inplace(&mut qi, a);
        check_eq!(cx, arr(qi), arr(chained(qb, a)), "Quaternion::rotate_{} == rotated_{}", name, name);
    }
    // 4D application keeps w
    let v4 = Vec4 { x: S::i(3), y: S::i(-2), z: S::i(5), w: S::q(7, 3) };
    let r = qa * v4;
    let r3 = qa * Vec3 { x: v4.x, y: v4.y, z: v4.z };
    check_eq!(cx, [r.x, r.y, r.z], [r3.x, r3.y, r3.z], "q * Vec4 rotates xyz like q * Vec3");
    check_eq!(cx, r.w, v4.w, "q * Vec4 keeps w");
    Ok(())
}

pub fn property() -> Property {
    let mut checks = Vec::new();
    macro_rules! tape {
        ($name:expr, $about:expr, $len:expr, $q:expr, $th:expr, $f:expr) => {
            checks.push(Check { name: $name, about: $about, kind: Kind::Tape { len: $len, quick: $q, thorough: $th, f: $f } });
        };
    }
    let a = "rotation_3d / rotation_x/y/z (Mat2, Mat3, Mat4), quaternion and Vec2 rotation for a generated angle and non-unit axis: orthogonal, det +1, fixes the axis, equals the axis-angle definition on a random vector, handedness anchors, axis scaling law, Mat3 = block of Mat4, quaternion-derived matrix equal, chained/in-place variants pre-multiply";
    tape!("rotations-rows-rat", a, 96, 20_000, 500_000, rot_rows::<Rat>);
    tape!("rotations-cols-rat", a, 96, 20_000, 500_000, rot_cols::<Rat>);
    tape!("rotations-rows-f64", a, 192, 20_000, 500_000, rot_rows::<f64>);
    tape!("rotations-cols-f64", a, 192, 20_000, 500_000, rot_cols::<f64>);
    tape!("rotations-rows-f32", a, 192, 10_000, 250_000, rot_rows::<f32>);
    tape!("rotations-cols-f32", a, 192, 10_000, 250_000, rot_cols::<f32>);
    let b = "rotations about a common axis compose additively (Mat2/3/4, both layouts, axis-aligned and arbitrary axis); quaternion chained/in-place variants equal the Hamilton product with the constructor; q*Vec4 keeps w";
    tape!("additive-rat", b, 48, 20_000, 500_000, additive::<Rat>);
    tape!("additive-f64", b, 96, 20_000, 500_000, additive::<f64>);
    Property {
        id: "C04",
        rule: "angles: registered rational-trigonometry angles (tan(theta/4) rational, so sin/cos of theta and theta/2 are exact) for Rat, random and special angles in (-2pi,2pi) for floats; axes: Pythagorean integer vectors times a rational factor of either sign (exact unit direction known), plus arbitrary float axes of length 1e-3..1e3; non-trivial = sin != 0, cos not in {0,+-1}, axis with >= 2 non-zero components; distinct = distinct consumed tape prefix",
        assumptions: &[
            "rustc and the proptest runner/shrinker are trusted",
            "oracle: axis-angle (Rodrigues) definition and Hamilton table in vkit::refmath; sin/cos come from the scalar domain (registered angles for Rat), not from vek",
            "float tolerance 256*eps*max(1,|v|)",
        ],
        checks,
        max_discard_frac: 0.1,
    }
}
