//! C04 — rotation builders yield proper right-handed rotations, consistent across types.

use vek::mat::repr_c::column_major as cm;
use vek::mat::repr_c::row_major as rm;
use vek::quaternion::repr_c::Quaternion;
use vek::vec::repr_c::{Vec2, Vec3, Vec4};
use vkit::gens;
use vkit::regimes;
use vkit::refmath as rf;
use vkit::vk::{self, MatN};
use vkit::*;

// ---------------------------------------------------------------------------------------------------------
// Regimes (floats): exact power-of-two axis lengths / operand lengths, small angles, angles many turns from
// zero. Nothing here is used by the `Rat` instantiations.
// ---------------------------------------------------------------------------------------------------------

fn fcast<S: Dom>(x: f64) -> S {
    <S as num_traits::NumCast>::from(x).unwrap()
}

/// Exactly 2^k in a float domain (k inside the normal range of the domain).
fn p2<S: Dom>(k: i32) -> S {
    fcast((2.0f64).powi(k))
}

/// Exponent limits of a float domain.
/// * `mant`: explicit mantissa bits (eps = 2^-mant);
/// * `axis_k`: axis lengths 2^-axis_k .. 2^axis_k times a direction of length in [0.01, 150] keep the SQUARED
///   length (what any sqrt(x^2+y^2+z^2) normalisation forms) and every non-zero squared component inside the
///   normal range;
/// * `small_exp`: smallest angle 2^-small_exp; `vec_k`: rotated vectors / matrices are scaled by up to
///   2^+-vec_k; sin(angle) * length stays normal (2^-(small_exp+vec_k+2) > MIN_POSITIVE);
/// * `turns_exp`: largest angle ~2^turns_exp rad.
struct FLim {
    mant: i32,
    axis_k: i32,
    vec_k: i32,
    small_exp: i32,
    turns_exp: i32,
}
fn flim<S: Dom>() -> FLim {
    if S::NAME == "f32" {
        FLim { mant: 23, axis_k: 48, vec_k: 60, small_exp: 40, turns_exp: 30 }
    } else {
        FLim { mant: 52, axis_k: 480, vec_k: 400, small_exp: 200, turns_exp: 60 }
    }
}

/// Exponent of the exact power of two an axis direction is multiplied with, and its label. Strata: 1, the
/// historic 2^-10..2^10, length ~ sqrt(eps) (squared length ~ eps), length ~ eps, far below eps, ~ 1/sqrt(eps),
/// ~ 1/eps, far above 1/eps, next to the squared-length range limit.
fn axis_exp<S: Dom>(t: &mut Tape) -> (i32, &'static str) {
    let l = flim::<S>();
    let m = l.mant as i64;
    let neg = t.bool();
    let (k, lab): (i64, (&'static str, &'static str)) = match t.below(8) {
        0 => (0, ("axis x 1", "axis x 1")),
        1 | 2 => (t.int(1, 10), ("axis x 2^-10..2^-1", "axis x 2^1..2^10")),
        3 => (m / 2 + t.int(-3, 3), ("axis length ~ sqrt(eps)", "axis length ~ 1/sqrt(eps)")),
        4 => (m + t.int(-3, 3), ("axis length ~ eps", "axis length ~ 1/eps")),
        5 | 6 => (t.int(m + 4, l.axis_k as i64), ("axis length << eps", "axis length >> 1/eps")),
        _ => (l.axis_k as i64 - t.int(0, 4), ("axis length at the lower limit", "axis length at the upper limit")),
    };
    if neg {
        (-(k as i32), lab.0)
    } else {
        (k as i32, lab.1)
    }
}

/// Exponent of the exact power of two the rotated operand (vector, matrix) is multiplied with.
fn operand_exp<S: Dom>(t: &mut Tape) -> i32 {
    let kmax = flim::<S>().vec_k as i64;
    let k = match t.below(4) {
        0 => 0,
        1 => t.int(1, 12),
        2 => t.int(12, kmax / 2),
        _ => t.int(kmax / 2, kmax),
    } as i32;
    if t.bool() {
        -k
    } else {
        k
    }
}

/// A float angle from {zero, ordinary, small, next to a multiple of pi/2, many turns}, with its label.
fn regime_angle<S: Dom>(t: &mut Tape) -> (S, &'static str) {
    let l = flim::<S>();
    if t.chance(8) {
        return (if t.bool() { -S::zero() } else { S::zero() }, "zero angle (+-0.0)");
    }
    let (x, lab) = regimes::angle_regime(t, l.small_exp, l.turns_exp);
    (fcast(x), lab)
}

/// The angle of the algebraic checks: `Rat` a registered angle; floats the historic (-2pi, 2pi) generator in half
/// of the cases and a regime angle otherwise. sin/cos are always taken of the returned value itself.
fn gen_angle<S: Dom>(t: &mut Tape, cx: &mut Cx) -> S {
    if S::EXACT || !t.bool() {
        return S::angle(t);
    }
    let (a, lab) = regime_angle::<S>(t);
    cx.label(lab);
    a
}

/// Two angles and their sum. Floats: when a regime angle is involved both angles are rounded to a common grid
/// (a power of two) on which the float sum a+b is EXACT, so R(a) R(b) = R(a+b) is an identity between the three
/// float arguments and no rounding of the sum enters the comparison.
fn gen_angle_pair<S: Dom>(t: &mut Tape, cx: &mut Cx) -> Option<(S, S, S)> {
    if S::EXACT || !t.bool() {
        let a = S::angle(t);
        let b = S::angle(t);
        return S::angle_sum(a, b).map(|ab| (a, b, ab));
    }
    let (a, la) = regime_angle::<S>(t);
    let (b, lb) = if t.bool() { regime_angle::<S>(t) } else { (S::angle(t), "ordinary angle") };
    cx.label(la);
    cx.label(lb);
    let (a, b) = if t.bool() { (a, b) } else { (b, a) };
    let (x, y) = (a.f(), b.f());
    let big = x.abs().max(y.abs());
    if big == 0.0 {
        return Some((a, b, a + b));
    }
    // grid = ulp of the binade above the larger angle: multiples n*g with |n| < 2^mant add exactly
    let e = big.log2().floor() as i32 + 2 - flim::<S>().mant;
    let g = (2.0f64).powi(e);
    let (x, y) = ((x / g).round() * g, (y / g).round() * g);
    let (a, b): (S, S) = (fcast(x), fcast(y));
    let ab = a + b;
    // exactness is a property of the generator, not of vek: verify it (f32: in f64; f64: error-free two-sum)
    let bb = ab - a;
    let err = (a - (ab - bb)) + (b - bb);
    if a.f() != x || b.f() != y || !err.is_zero() {
        return None;
    }
    cx.label("exact float angle sum on a common grid");
    Some((a, b, ab))
}

/// A non-zero axis together with its exact unit direction. `Rat`: Pythagorean vector times a rational
/// factor of either sign; floats: additionally arbitrary vectors (unit direction computed in f64).
fn gen_axis<S: Dom>(t: &mut Tape, cx: &mut Cx) -> ([S; 3], [S; 3]) {
    if S::EXACT || t.bool() {
        let (v, len) = gens::pythagorean3(t);
        let ln = t.int(1, 9);
        let ld = t.pick(&[1i64, 1, 2, 3, 5]);
        let neg = t.chance(80);
        if neg {
            cx.label("negative-axis-scale");
        }
        let mut lam = if neg { S::q(-ln, ld) } else { S::q(ln, ld) };
        if !S::EXACT {
            let (ka, l) = axis_exp::<S>(t);
            cx.label(l);
            lam = lam * p2::<S>(ka);
        }
        let axis = [S::i(v[0]) * lam, S::i(v[1]) * lam, S::i(v[2]) * lam];
        let sg = if neg { -1 } else { 1 };
        let unit = [S::q(sg * v[0], len), S::q(sg * v[1], len), S::q(sg * v[2], len)];
        if ln != ld {
            cx.label("non-unit-axis");
        }
        (axis, unit)
    } else {
        let mut v = [t.range_f64(-1.0, 1.0), t.range_f64(-1.0, 1.0), t.range_f64(-1.0, 1.0)];
        if v.iter().map(|x| x * x).sum::<f64>() < 1e-4 {
            v = [0.3, -0.5, 0.8];
        }
        // the direction is the S-rounded vector; its length is then changed by an exact power of two
        let vs: [S; 3] = [fcast(v[0]), fcast(v[1]), fcast(v[2])];
        let v = [vs[0].f(), vs[1].f(), vs[2].f()];
        let n = v.iter().map(|x| x * x).sum::<f64>().sqrt();
        let unit = [v[0] / n, v[1] / n, v[2] / n];
        cx.label("non-unit-axis");
        let (ka, l) = axis_exp::<S>(t);
        cx.label(l);
        let p = p2::<S>(ka);
        ([vs[0] * p, vs[1] * p, vs[2] * p], [fcast(unit[0]), fcast(unit[1]), fcast(unit[2])])
    }
}

fn upper3<S: Dom>(m: &[[S; 4]; 4]) -> [[S; 3]; 3] {
    let mut r = [[S::zero(); 3]; 3];
    for i in 0..3 {
        for j in 0..3 {
            r[i][j] = m[i][j];
        }
    }
    r
}

fn is_embedding<S: Dom>(m: &[[S; 4]; 4]) -> bool {
    let (z, o) = (S::zero(), S::one());
    m[3] == [z, z, z, o] && m[0][3] == z && m[1][3] == z && m[2][3] == z
}

const K: f64 = 256.0;

macro_rules! inplace1 {
    ($cx:expr, $m:expr, $call:ident, $ret:ident, $a:expr, $what:expr) => {{
        let mut x = $m;
        x.$call($a);
        check_eq!($cx, x.to_arr(), $m.$ret($a).to_arr(), $what);
    }};
}
macro_rules! inplace2 {
    ($cx:expr, $m:expr, $call:ident, $ret:ident, $a:expr, $b:expr, $what:expr) => {{
        let mut x = $m;
        x.$call($a, $b);
        check_eq!($cx, x.to_arr(), $m.$ret($a, $b).to_arr(), $what);
    }};
}

macro_rules! rot_case {
    ($fname:ident, $l:ident, $lname:expr) => {
        fn $fname<S: Dom>(t: &mut Tape, cx: &mut Cx) -> CaseResult {
            let theta = gen_angle::<S>(t, cx);
            let (s, c) = (theta.sin(), theta.cos());
            let (axis, k) = gen_axis::<S>(t, cx);
            let v: [S; 3] = vk::gen_vec(t, 9);
            let nz = k.iter().filter(|x| !x.is_zero()).count();
            cx.set_nontrivial(!s.is_zero() && !c.is_zero() && c != S::one() && c != -S::one() && nz >= 2);
            sample!(cx, "{} {} theta={:?} (sin {:?}, cos {:?}) axis={:?} unit={:?} v={:?}", S::NAME, $lname, theta, s, c, axis, k, v);
            let vmax = vk::vec_max(&v).max(1.0);
            let id3: [[S; 3]; 3] = rf::identity();

            // --- Mat4 / Mat3 rotation_3d
            let r4 = $l::Mat4::<S>::rotation_3d(theta, vk::v3(&axis)).to_arr();
            let r3 = $l::Mat3::<S>::rotation_3d(theta, vk::v3(&axis)).to_arr();
            check!(cx, is_embedding(&r4), "Mat4::rotation_3d last row/column is not e4: {:?}", r4);
            check_mat!(cx, S, upper3(&r4), r3, 1.0, K, "Mat3::rotation_3d is the upper-left block of Mat4::rotation_3d");
            // (1) orthogonal, det +1
            check_mat!(cx, S, rf::matmul(&rf::transpose(&r3), &r3), id3, 1.0, K, "R^T R = I");
            check_close!(cx, S, rf::det(&r3), S::one(), 1.0, K, "det R = +1");
            // (2) fixes its axis
            check_vec!(cx, S, rf::matvec(&r3, &k), k, 1.0, K, "R k = k");
            // (4) axis-angle definition on a random vector
            check_vec!(cx, S, rf::matvec(&r3, &v), rf::rodrigues(&v, &k, s, c), vmax, K, "R v = v cos + (k x v) sin + k (k.v)(1-cos)");
            // vek's own matrix*vector product agrees
            check_vec!(cx, S, vk::a3(&($l::Mat3::<S>::rotation_3d(theta, vk::v3(&axis)) * vk::v3(&v))), rf::rodrigues(&v, &k, s, c), vmax, K, "Mat3 * v");
            // (6) axis scaling: positive multiple same rotation, negative multiple the inverse rotation
            {
                let unit_rot = $l::Mat3::<S>::rotation_3d(theta, vk::v3(&k)).to_arr();
                check_mat!(cx, S, r3, unit_rot, 1.0, K, "rotation_3d(theta, axis) = rotation_3d(theta, axis/|axis|)");
                let neg_axis = [-axis[0], -axis[1], -axis[2]];
                let inv = $l::Mat3::<S>::rotation_3d(-theta, vk::v3(&neg_axis)).to_arr();
                check_mat!(cx, S, inv, r3, 1.0, K, "rotation_3d(-theta, -axis) = rotation_3d(theta, axis)");
                let back = $l::Mat3::<S>::rotation_3d(-theta, vk::v3(&axis)).to_arr();
                check_mat!(cx, S, rf::matmul(&back, &r3), id3, 1.0, K, "rotation_3d(-theta, axis) undoes rotation_3d(theta, axis)");
            }
            // (3) + (7) handedness anchors and axis-aligned constructors
            let (z, o) = (S::zero(), S::one());
            let rx = $l::Mat3::<S>::rotation_x(theta).to_arr();
            let ry = $l::Mat3::<S>::rotation_y(theta).to_arr();
            let rz = $l::Mat3::<S>::rotation_z(theta).to_arr();
            check_vec!(cx, S, rf::matvec(&rz, &[o, z, z]), [c, s, z], 1.0, K, "rotation_z * x = (cos, sin, 0)");
            check_vec!(cx, S, rf::matvec(&rx, &[z, o, z]), [z, c, s], 1.0, K, "rotation_x * y = (0, cos, sin)");
            check_vec!(cx, S, rf::matvec(&ry, &[z, z, o]), [s, z, c], 1.0, K, "rotation_y * z = (sin, 0, cos)");
            check_mat!(cx, S, rx, [[o, z, z], [z, c, -s], [z, s, c]], 1.0, K, "Mat3::rotation_x");
            check_mat!(cx, S, ry, [[c, z, s], [z, o, z], [-s, z, c]], 1.0, K, "Mat3::rotation_y");
            check_mat!(cx, S, rz, [[c, -s, z], [s, c, z], [z, z, o]], 1.0, K, "Mat3::rotation_z");
            check_mat!(cx, S, $l::Mat3::<S>::rotation_3d(theta, Vec3::<S>::unit_x()).to_arr(), rx, 1.0, K, "rotation_3d(theta, unit_x) = rotation_x");
            check_mat!(cx, S, $l::Mat3::<S>::rotation_3d(theta, Vec3::<S>::unit_y()).to_arr(), ry, 1.0, K, "rotation_3d(theta, unit_y) = rotation_y");
            check_mat!(cx, S, $l::Mat3::<S>::rotation_3d(theta, Vec3::<S>::unit_z()).to_arr(), rz, 1.0, K, "rotation_3d(theta, unit_z) = rotation_z");
            // (8) Mat4 variants embed the Mat3 ones; Mat2 is the upper-left block of Mat3::rotation_z
            for (name, m4, m3) in [
                ("x", $l::Mat4::<S>::rotation_x(theta).to_arr(), rx),
                ("y", $l::Mat4::<S>::rotation_y(theta).to_arr(), ry),
                ("z", $l::Mat4::<S>::rotation_z(theta).to_arr(), rz),
            ] {
                check!(cx, is_embedding(&m4), "Mat4::rotation_{} last row/column is not e4: {:?}", name, m4);
                check_mat!(cx, S, upper3(&m4), m3, 1.0, K, "Mat4::rotation_{} upper-left block = Mat3::rotation_{}", name, name);
            }
            let r2 = $l::Mat2::<S>::rotation_z(theta).to_arr();
            check_mat!(cx, S, r2, [[c, -s], [s, c]], 1.0, K, "Mat2::rotation_z");
            // (10) Vec2 rotation
            let v2 = [v[0], v[1]];
            let want2 = [c * v2[0] - s * v2[1], s * v2[0] + c * v2[1]];
            check_vec!(cx, S, vk::a2(&vk::v2(&v2).rotated_z(theta)), want2, vmax, K, "Vec2::rotated_z");
            check_vec!(cx, S, vk::a2(&($l::Mat2::<S>::rotation_z(theta) * vk::v2(&v2))), want2, vmax, K, "Mat2::rotation_z * v");
            let mut vv = vk::v2(&v2);
            vv.rotate_z(theta);
            check_vec!(cx, S, vk::a2(&vv), want2, vmax, K, "Vec2::rotate_z (in place)");
            check_vec!(cx, S, vk::a2(&Vec2::<S>::unit_x().rotated_z(theta)), [c, s], 1.0, K, "unit_x.rotated_z = (cos, sin)");

            // (9) quaternion for (angle, axis) gives the same matrix, and acts on vectors like it
            let q = Quaternion::<S>::rotation_3d(theta, vk::v3(&axis));
            check_mat!(cx, S, $l::Mat3::<S>::from(q).to_arr(), r3, 1.0, K, "Mat3::from(Quaternion::rotation_3d) = Mat3::rotation_3d");
            check_mat!(cx, S, $l::Mat4::<S>::from(q).to_arr(), r4, 1.0, K, "Mat4::from(Quaternion::rotation_3d) = Mat4::rotation_3d");
            check_vec!(cx, S, vk::a3(&(q * vk::v3(&v))), rf::rodrigues(&v, &k, s, c), vmax, K, "quaternion * v");
            check_mat!(cx, S, $l::Mat3::<S>::from(Quaternion::<S>::rotation_x(theta)).to_arr(), rx, 1.0, K, "Mat3::from(Quaternion::rotation_x)");
            check_mat!(cx, S, $l::Mat3::<S>::from(Quaternion::<S>::rotation_y(theta)).to_arr(), ry, 1.0, K, "Mat3::from(Quaternion::rotation_y)");
            check_mat!(cx, S, $l::Mat3::<S>::from(Quaternion::<S>::rotation_z(theta)).to_arr(), rz, 1.0, K, "Mat3::from(Quaternion::rotation_z)");
            let qn = q.x * q.x + q.y * q.y + q.z * q.z + q.w * q.w;
            check_close!(cx, S, qn, S::one(), 1.0, K, "Quaternion::rotation_3d is a unit quaternion");

            // (11) chained / in-place variants pre-multiply
            let m: [[S; 4]; 4] = vk::gen_mat(t, 5);
            let mm = vk::mat_max(&m).max(1.0) * 4.0;
            let m4 = $l::Mat4::<S>::from_arr(&m);
            let m3a = upper3(&m);
            let m3 = $l::Mat3::<S>::from_arr(&m3a);
            let embed = |r: &[[S; 3]; 3]| gens::embed4(r, &[z, z, z]);
            check_mat!(cx, S, m4.rotated_x(theta).to_arr(), rf::matmul(&embed(&rx), &m), mm, K, "Mat4::rotated_x = rotation_x * m");
            check_mat!(cx, S, m4.rotated_y(theta).to_arr(), rf::matmul(&embed(&ry), &m), mm, K, "Mat4::rotated_y = rotation_y * m");
            check_mat!(cx, S, m4.rotated_z(theta).to_arr(), rf::matmul(&embed(&rz), &m), mm, K, "Mat4::rotated_z = rotation_z * m");
            check_mat!(cx, S, m4.rotated_3d(theta, vk::v3(&axis)).to_arr(), rf::matmul(&r4, &m), mm, K, "Mat4::rotated_3d = rotation_3d * m");
            check_mat!(cx, S, m3.rotated_x(theta).to_arr(), rf::matmul(&rx, &m3a), mm, K, "Mat3::rotated_x = rotation_x * m");
            check_mat!(cx, S, m3.rotated_y(theta).to_arr(), rf::matmul(&ry, &m3a), mm, K, "Mat3::rotated_y = rotation_y * m");
            check_mat!(cx, S, m3.rotated_z(theta).to_arr(), rf::matmul(&rz, &m3a), mm, K, "Mat3::rotated_z = rotation_z * m");
            check_mat!(cx, S, m3.rotated_3d(theta, vk::v3(&axis)).to_arr(), rf::matmul(&r3, &m3a), mm, K, "Mat3::rotated_3d = rotation_3d * m");
            let m2a = [[m[0][0], m[0][1]], [m[1][0], m[1][1]]];
            let m2 = $l::Mat2::<S>::from_arr(&m2a);
            check_mat!(cx, S, m2.rotated_z(theta).to_arr(), rf::matmul(&r2, &m2a), mm, K, "Mat2::rotated_z = rotation_z * m");
            inplace1!(cx, m4, rotate_x, rotated_x, theta, "Mat4::rotate_x == rotated_x");
            inplace1!(cx, m4, rotate_y, rotated_y, theta, "Mat4::rotate_y == rotated_y");
            inplace1!(cx, m4, rotate_z, rotated_z, theta, "Mat4::rotate_z == rotated_z");
            inplace2!(cx, m4, rotate_3d, rotated_3d, theta, vk::v3(&axis), "Mat4::rotate_3d == rotated_3d");
            inplace1!(cx, m3, rotate_x, rotated_x, theta, "Mat3::rotate_x == rotated_x");
            inplace1!(cx, m3, rotate_y, rotated_y, theta, "Mat3::rotate_y == rotated_y");
            inplace1!(cx, m3, rotate_z, rotated_z, theta, "Mat3::rotate_z == rotated_z");
            inplace2!(cx, m3, rotate_3d, rotated_3d, theta, vk::v3(&axis), "Mat3::rotate_3d == rotated_3d");
            inplace1!(cx, m2, rotate_z, rotated_z, theta, "Mat2::rotate_z == rotated_z");
            Ok(())
        }
    };
}
rot_case!(rot_rows, rm, "row-major");
rot_case!(rot_cols, cm, "col-major");

// ---------------------------------------------------------------------------------------------------------
// Float regime check: every builder against a reference evaluated in f64 from the SAME float arguments.
// ---------------------------------------------------------------------------------------------------------

type M3 = [[f64; 3]; 3];

/// |got - want| <= tol (absolute; the caller derives `tol` from the magnitudes involved).
fn near(cx: &mut Cx, got: f64, want: f64, tol: f64) -> bool {
    cx.count();
    if got == want {
        return true;
    }
    let d = (got - want).abs();
    if !d.is_finite() {
        return false;
    }
    cx.note_err(d / tol);
    d <= tol
}
fn near_mat<const N: usize>(cx: &mut Cx, got: &[[f64; N]; N], want: &[[f64; N]; N], tol: f64) -> Result<(), String> {
    for i in 0..N {
        for j in 0..N {
            if !near(cx, got[i][j], want[i][j], tol) {
                return Err(format!("element ({},{}): got {:e}, want {:e}, tolerance {:e}\n got  {:?}\n want {:?}", i, j, got[i][j], want[i][j], tol, got, want));
            }
        }
    }
    Ok(())
}
fn near_vec<const N: usize>(cx: &mut Cx, got: &[f64; N], want: &[f64; N], tol: f64) -> Result<(), String> {
    for i in 0..N {
        if !near(cx, got[i], want[i], tol) {
            return Err(format!("element {}: got {:e}, want {:e}, tolerance {:e} (got {:?}, want {:?})", i, got[i], want[i], tol, got, want));
        }
    }
    Ok(())
}
macro_rules! want_ok {
    ($r:expr, $($arg:tt)*) => {
        if let Err(e) = $r {
            return Err(Fail::Violation(format!("{}: {}", format!($($arg)*), e)));
        }
    };
}
fn m64<S: Dom, const N: usize>(m: &[[S; N]; N]) -> [[f64; N]; N] {
    let mut r = [[0.0; N]; N];
    for i in 0..N {
        for j in 0..N {
            r[i][j] = m[i][j].f();
        }
    }
    r
}
fn v64<S: Dom, const N: usize>(v: &[S; N]) -> [f64; N] {
    let mut r = [0.0; N];
    for i in 0..N {
        r[i] = v[i].f();
    }
    r
}
/// The rotation vector part of a 3x3 matrix: ((R - R^T)/2)^vee = sin(angle) * unit axis for a rotation. The
/// symmetric part (1-cos) k k^T, which carries an absolute rounding error of ~eps, cancels exactly, so this is
/// known to a tolerance relative to |sin| even when the angle is tiny.
fn skew_part(r: &M3) -> [f64; 3] {
    [(r[2][1] - r[1][2]) / 2.0, (r[0][2] - r[2][0]) / 2.0, (r[1][0] - r[0][1]) / 2.0]
}
/// Axis-angle matrix c I + s [k]x + (1-c) k k^T in f64.
fn rodrigues_mat(k: &[f64; 3], s: f64, c: f64, oc: f64) -> M3 {
    let kx = [[0.0, -k[2], k[1]], [k[2], 0.0, -k[0]], [-k[1], k[0], 0.0]];
    let mut r = [[0.0; 3]; 3];
    for i in 0..3 {
        for j in 0..3 {
            r[i][j] = (if i == j { c } else { 0.0 }) + s * kx[i][j] + oc * k[i] * k[j];
        }
    }
    r
}
/// Rotation matrix of a (not necessarily unit) quaternion (x, y, z, w), in f64.
fn quat_mat(q: &[f64; 4]) -> M3 {
    let (x, y, z, w) = (q[0], q[1], q[2], q[3]);
    let t = 2.0 / (x * x + y * y + z * z + w * w);
    [
        [1.0 - t * (y * y + z * z), t * (x * y - w * z), t * (x * z + w * y)],
        [t * (x * y + w * z), 1.0 - t * (x * x + z * z), t * (y * z - w * x)],
        [t * (x * z - w * y), t * (y * z + w * x), 1.0 - t * (x * x + y * y)],
    ]
}
fn embed64(r: &M3) -> [[f64; 4]; 4] {
    let mut m = [[0.0; 4]; 4];
    for i in 0..3 {
        for j in 0..3 {
            m[i][j] = r[i][j];
        }
    }
    m[3][3] = 1.0;
    m
}

/// Axis direction for the regime check: S-rounded direction of length in [0.01, 2^7.1], and its unit vector in f64.
fn regime_direction<S: Dom>(t: &mut Tape, cx: &mut Cx) -> ([S; 3], [f64; 3]) {
    let m = flim::<S>().mant as i64;
    let d: [f64; 3] = match t.below(6) {
        0 => {
            let (v, _) = gens::pythagorean3(t);
            cx.label("direction: integer vector");
            [v[0] as f64, v[1] as f64, v[2] as f64]
        }
        1 => {
            // coordinate axis of either sign (non-unit once scaled)
            let i = t.below(3);
            let mut v = [0.0; 3];
            v[i] = if t.bool() { -1.0 } else { 1.0 };
            cx.label("direction: +- coordinate axis");
            v
        }
        2 | 3 => {
            // nearly aligned: one dominant component, the others 2^-j of it (j up to mant + 6: some vanish in |k|)
            let i = t.below(3);
            let mut v = [0.0; 3];
            for j in 0..3 {
                v[j] = if j == i {
                    1.0
                } else if t.chance(64) {
                    0.0
                } else {
                    (2.0f64).powi(-(t.int(1, m + 6) as i32)) * (1.0 + t.unit_f64())
                } * if t.bool() { -1.0 } else { 1.0 };
            }
            cx.label("direction: one dominant component");
            v
        }
        _ => {
            let mut v = [t.range_f64(-1.0, 1.0), t.range_f64(-1.0, 1.0), t.range_f64(-1.0, 1.0)];
            if v.iter().map(|x| x * x).sum::<f64>() < 1e-4 {
                v = [0.3, -0.5, 0.8];
            }
            cx.label("direction: random");
            v
        }
    };
    let ds: [S; 3] = [fcast(d[0]), fcast(d[1]), fcast(d[2])];
    let d = v64(&ds);
    let n = (d[0] * d[0] + d[1] * d[1] + d[2] * d[2]).sqrt();
    (ds, [d[0] / n, d[1] / n, d[2] / n])
}

/// Tolerance factors (times eps of the domain). Derivation: an axis-aligned builder stores sin/cos of its argument
/// (one libm call, < 1 ulp; the f32 reference is the f64 value, the f64 reference the same libm) -> 16.
/// `rotation_3d`: normalised components carry <= 2 eps each, 1-c <= 1 eps absolute, three products and one sum
/// -> < 10 eps per element; quaternion route: half-angle sin/cos, products of two components, doubled -> < 12 eps
/// -> 64. Products with an operand add (n+1) eps per n-term dot product -> 4 * 64 relative to the operand's
/// largest element.
const KT: f64 = 16.0;
const KR: f64 = 64.0;

fn regime<S: Dom>(t: &mut Tape, cx: &mut Cx) -> CaseResult {
    let eps = S::eps();
    let (a, alab) = regime_angle::<S>(t);
    cx.label(alab);
    let a64 = a.f();
    let (s, c) = (a64.sin(), a64.cos());
    let sh = (a64 / 2.0).sin();
    let oc = 2.0 * sh * sh;
    let (dir, k) = regime_direction::<S>(t, cx);
    let (ka, klab) = axis_exp::<S>(t);
    cx.label(klab);
    let pa = p2::<S>(ka);
    let axis = [dir[0] * pa, dir[1] * pa, dir[2] * pa];
    let kv = operand_exp::<S>(t);
    let km = operand_exp::<S>(t);
    cx.label(match kv.abs().max(km.abs()) {
        0 => "operands x 1",
        1..=12 => "operand scale up to 2^+-12",
        _ => "operand scale beyond 2^+-12",
    });
    let (pv, pm) = (p2::<S>(kv), p2::<S>(km));
    let v0: [S; 3] = vk::gen_vec(t, 9);
    let v = [v0[0] * pv, v0[1] * pv, v0[2] * pv];
    let m0: [[S; 4]; 4] = vk::gen_mat(t, 5);
    let mut m = m0;
    for r in m.iter_mut() {
        for x in r.iter_mut() {
            *x = *x * pm;
        }
    }
    // a unit quaternion (to rounding) with small integer ratios
    let q0i = gens::int_quat(t, 4);
    let qn = (q0i.iter().map(|x| (x * x) as f64).sum::<f64>()).sqrt();
    let q0 = Quaternion::<S> { x: fcast(q0i[1] as f64 / qn), y: fcast(q0i[2] as f64 / qn), z: fcast(q0i[3] as f64 / qn), w: fcast(q0i[0] as f64 / qn) };
    let in_regime = alab != "ordinary angle" || ka.abs() > 10 || kv.abs() > 12 || km.abs() > 12;
    cx.set_nontrivial(s != 0.0 && c != 0.0 && in_regime);
    sample!(cx, "{} angle={:?} ({}) axis={:?} = dir {:?} * 2^{} (unit {:?}) v={:?} (x 2^{}) m x 2^{} q0={:?}", S::NAME, a, alab, axis, dir, ka, k, v, kv, km, q0);

    let ax = vk::v3(&axis);
    let rref = rodrigues_mat(&k, s, c, oc);
    let sk = [s * k[0], s * k[1], s * k[2]];
    // absolute tolerance for matrix elements (|elements| <= 1); the sine terms (rotation vector) relative to
    // |sin| + (1 - cos): relative to |sin| for small angles and next to whole turns, absolute next to half turns
    let (tol_t, tol_r) = (KT * eps, KR * eps);
    let (tol_st, tol_sr) = (KT * eps * (s.abs() + oc), KR * eps * (s.abs() + oc));
    let (z, o) = (0.0f64, 1.0f64);
    let xref: M3 = [[o, z, z], [z, c, -s], [z, s, c]];
    let yref: M3 = [[c, z, s], [z, o, z], [-s, z, c]];
    let zref: M3 = [[c, -s, z], [s, c, z], [z, z, o]];
    let v3 = v64(&v);
    let vmax = vk::vec_max(&v);
    let mmax = vk::mat_max(&m);
    let m4r = m64(&m);
    let m3a = upper3(&m);
    let m3r = m64(&m3a);
    let m2a = [[m[0][0], m[0][1]], [m[1][0], m[1][1]]];
    let m2r = m64(&m2a);
    let q0r = quat_mat(&[q0.x.f(), q0.y.f(), q0.z.f(), q0.w.f()]);
    let qarr = |q: Quaternion<S>| [q.x, q.y, q.z, q.w];

    // one rotation matrix against its reference: elements absolutely, rotation vector relative to |sin|
    macro_rules! rot3 {
        ($got:expr, $want:expr, $axis:expr, $tol:expr, $tols:expr, $($what:tt)*) => {{
            let g: M3 = $got;
            want_ok!(near_mat(cx, &g, &$want, $tol), $($what)*);
            want_ok!(near_vec(cx, &skew_part(&g), &$axis, $tols), "{} [rotation vector (R - R^T)/2 = sin(angle) * unit axis, relative to |sin| + (1 - cos)]", format!($($what)*));
        }};
    }
    macro_rules! layout {
        ($l:ident, $n:expr) => {{
            // --- arbitrary axis: Mat3, Mat4, and every operand form of the axis
            let r3 = $l::Mat3::<S>::rotation_3d(a, ax);
            rot3!(m64(&r3.to_arr()), rref, sk, tol_r, tol_sr, "{} Mat3::rotation_3d(angle, axis) vs axis-angle definition for axis/|axis|", $n);
            let r4 = $l::Mat4::<S>::rotation_3d(a, ax);
            check!(cx, is_embedding(&r4.to_arr()), "{} Mat4::rotation_3d last row/column is not e4: {:?}", $n, r4);
            rot3!(m64(&upper3(&r4.to_arr())), rref, sk, tol_r, tol_sr, "{} Mat4::rotation_3d(angle, axis) upper-left block vs axis-angle definition", $n);
            let junk = Vec4 { x: axis[0], y: axis[1], z: axis[2], w: (S::i(7) + v0[0]) * pa };
            check_eq!(cx, $l::Mat3::<S>::rotation_3d(a, junk).to_arr(), r3.to_arr(), "{} Mat3::rotation_3d(axis as Vec4 with w != 0) == (axis as Vec3)", $n);
            check_eq!(cx, $l::Mat4::<S>::rotation_3d(a, junk).to_arr(), r4.to_arr(), "{} Mat4::rotation_3d(axis as Vec4 with w != 0) == (axis as Vec3)", $n);
            check_eq!(cx, $l::Mat3::<S>::rotation_3d(a, axis).to_arr(), r3.to_arr(), "{} Mat3::rotation_3d(axis as [T; 3]) == (axis as Vec3)", $n);
            check_eq!(cx, $l::Mat4::<S>::rotation_3d(a, (axis[0], axis[1], axis[2])).to_arr(), r4.to_arr(), "{} Mat4::rotation_3d(axis as tuple) == (axis as Vec3)", $n);
            // --- axis-aligned builders
            for (nm, want, sax, g3, g4) in [
                ("x", &xref, [s, z, z], $l::Mat3::<S>::rotation_x(a).to_arr(), $l::Mat4::<S>::rotation_x(a).to_arr()),
                ("y", &yref, [z, s, z], $l::Mat3::<S>::rotation_y(a).to_arr(), $l::Mat4::<S>::rotation_y(a).to_arr()),
                ("z", &zref, [z, z, s], $l::Mat3::<S>::rotation_z(a).to_arr(), $l::Mat4::<S>::rotation_z(a).to_arr()),
            ] {
                rot3!(m64(&g3), *want, sax, tol_t, tol_st, "{} Mat3::rotation_{}(angle) vs sin/cos of the same float", $n, nm);
                check!(cx, is_embedding(&g4), "{} Mat4::rotation_{} last row/column is not e4: {:?}", $n, nm, g4);
                rot3!(m64(&upper3(&g4)), *want, sax, tol_t, tol_st, "{} Mat4::rotation_{}(angle) vs sin/cos of the same float", $n, nm);
            }
            let r2 = m64(&$l::Mat2::<S>::rotation_z(a).to_arr());
            want_ok!(near_mat(cx, &r2, &[[c, -s], [s, c]], tol_t), "{} Mat2::rotation_z(angle) vs sin/cos of the same float", $n);
            want_ok!(near_vec(cx, &[r2[1][0], -r2[0][1]], &[s, s], tol_st), "{} Mat2::rotation_z(angle) sine elements relative to |sin|", $n);
            // --- matrix from the quaternion
            let q = Quaternion::<S>::rotation_3d(a, ax);
            rot3!(m64(&$l::Mat3::<S>::from(q).to_arr()), rref, sk, tol_r, tol_sr, "{} Mat3::from(Quaternion::rotation_3d(angle, axis)) vs axis-angle definition", $n);
            let q4 = $l::Mat4::<S>::from(q).to_arr();
            check!(cx, is_embedding(&q4), "{} Mat4::from(Quaternion) last row/column is not e4: {:?}", $n, q4);
            rot3!(m64(&upper3(&q4)), rref, sk, tol_r, tol_sr, "{} Mat4::from(Quaternion::rotation_3d(angle, axis)) vs axis-angle definition", $n);
            // --- chained / in-place forms on an operand of length scale 2^km: rotation * m, relative to |m|
            let tol_m = 4.0 * KR * eps * mmax;
            let m4 = $l::Mat4::<S>::from_arr(&m);
            let m3 = $l::Mat3::<S>::from_arr(&m3a);
            let m2 = $l::Mat2::<S>::from_arr(&m2a);
            want_ok!(near_mat(cx, &m64(&m4.rotated_3d(a, ax).to_arr()), &rf::matmul(&embed64(&rref), &m4r), tol_m), "{} Mat4::rotated_3d = rotation_3d * m", $n);
            want_ok!(near_mat(cx, &m64(&m3.rotated_3d(a, ax).to_arr()), &rf::matmul(&rref, &m3r), tol_m), "{} Mat3::rotated_3d = rotation_3d * m", $n);
            want_ok!(near_mat(cx, &m64(&m4.rotated_x(a).to_arr()), &rf::matmul(&embed64(&xref), &m4r), tol_m), "{} Mat4::rotated_x = rotation_x * m", $n);
            want_ok!(near_mat(cx, &m64(&m4.rotated_y(a).to_arr()), &rf::matmul(&embed64(&yref), &m4r), tol_m), "{} Mat4::rotated_y = rotation_y * m", $n);
            want_ok!(near_mat(cx, &m64(&m4.rotated_z(a).to_arr()), &rf::matmul(&embed64(&zref), &m4r), tol_m), "{} Mat4::rotated_z = rotation_z * m", $n);
            want_ok!(near_mat(cx, &m64(&m3.rotated_x(a).to_arr()), &rf::matmul(&xref, &m3r), tol_m), "{} Mat3::rotated_x = rotation_x * m", $n);
            want_ok!(near_mat(cx, &m64(&m3.rotated_y(a).to_arr()), &rf::matmul(&yref, &m3r), tol_m), "{} Mat3::rotated_y = rotation_y * m", $n);
            want_ok!(near_mat(cx, &m64(&m3.rotated_z(a).to_arr()), &rf::matmul(&zref, &m3r), tol_m), "{} Mat3::rotated_z = rotation_z * m", $n);
            want_ok!(near_mat(cx, &m64(&m2.rotated_z(a).to_arr()), &rf::matmul(&[[c, -s], [s, c]], &m2r), tol_m), "{} Mat2::rotated_z = rotation_z * m", $n);
            // rotating the (scaled) identity shows the sine elements themselves
            let i3 = $l::Mat3::<S>::from_arr(&[[pm, S::zero(), S::zero()], [S::zero(), pm, S::zero()], [S::zero(), S::zero(), pm]]);
            let pm64 = pm.f();
            let unscale = |g: [[S; 3]; 3]| {
                let mut r = m64(&g);
                for row in r.iter_mut() {
                    for x in row.iter_mut() {
                        *x /= pm64;
                    }
                }
                r
            };
            rot3!(unscale(i3.rotated_3d(a, ax).to_arr()), rref, sk, tol_r, tol_sr, "{} (2^k I).rotated_3d(angle, axis) / 2^k vs axis-angle definition", $n);
            rot3!(unscale(i3.rotated_x(a).to_arr()), xref, [s, z, z], tol_t, tol_st, "{} (2^k I).rotated_x(angle) / 2^k", $n);
            rot3!(unscale(i3.rotated_y(a).to_arr()), yref, [z, s, z], tol_t, tol_st, "{} (2^k I).rotated_y(angle) / 2^k", $n);
            rot3!(unscale(i3.rotated_z(a).to_arr()), zref, [z, z, s], tol_t, tol_st, "{} (2^k I).rotated_z(angle) / 2^k", $n);
            inplace2!(cx, m4, rotate_3d, rotated_3d, a, ax, "Mat4::rotate_3d == rotated_3d");
            inplace2!(cx, m3, rotate_3d, rotated_3d, a, ax, "Mat3::rotate_3d == rotated_3d");
            inplace1!(cx, m4, rotate_x, rotated_x, a, "Mat4::rotate_x == rotated_x");
            inplace1!(cx, m4, rotate_y, rotated_y, a, "Mat4::rotate_y == rotated_y");
            inplace1!(cx, m4, rotate_z, rotated_z, a, "Mat4::rotate_z == rotated_z");
            inplace1!(cx, m3, rotate_x, rotated_x, a, "Mat3::rotate_x == rotated_x");
            inplace1!(cx, m3, rotate_y, rotated_y, a, "Mat3::rotate_y == rotated_y");
            inplace1!(cx, m3, rotate_z, rotated_z, a, "Mat3::rotate_z == rotated_z");
            inplace1!(cx, m2, rotate_z, rotated_z, a, "Mat2::rotate_z == rotated_z");
            // vek's matrix * vector on a vector of length scale 2^kv, relative to |v|
            want_ok!(near_vec(cx, &v64(&vk::a3(&(r3 * vk::v3(&v)))), &rf::matvec(&rref, &v3), 4.0 * KR * eps * vmax), "{} Mat3::rotation_3d * v", $n);
            want_ok!(near_vec(cx, &v64(&vk::a2(&($l::Mat2::<S>::rotation_z(a) * vk::v2(&[v[0], v[1]])))), &[c * v3[0] - s * v3[1], s * v3[0] + c * v3[1]], 4.0 * KT * eps * vmax), "{} Mat2::rotation_z * v", $n);
        }};
    }
    layout!(rm, "row-major");
    layout!(cm, "col-major");

    // --- quaternion builders (layout independent): unit norm, operand forms, axis-aligned builders
    let q = Quaternion::<S>::rotation_3d(a, ax);
    let qq = v64(&qarr(q));
    check!(cx, near(cx, qq.iter().map(|x| x * x).sum::<f64>(), 1.0, tol_r), "Quaternion::rotation_3d is not a unit quaternion: {:?}", q);
    let junk = Vec4 { x: axis[0], y: axis[1], z: axis[2], w: (S::i(7) + v0[0]) * pa };
    check_eq!(cx, qarr(Quaternion::<S>::rotation_3d(a, junk)), qarr(q), "Quaternion::rotation_3d(axis as Vec4 with w != 0) == (axis as Vec3)");
    check_eq!(cx, qarr(Quaternion::<S>::rotation_3d(a, axis)), qarr(q), "Quaternion::rotation_3d(axis as [T; 3]) == (axis as Vec3)");
    for (nm, want, sax, qa) in [
        ("x", &xref, [s, z, z], Quaternion::<S>::rotation_x(a)),
        ("y", &yref, [z, s, z], Quaternion::<S>::rotation_y(a)),
        ("z", &zref, [z, z, s], Quaternion::<S>::rotation_z(a)),
    ] {
        rot3!(m64(&cm::Mat3::<S>::from(qa).to_arr()), *want, sax, tol_r, tol_sr, "Mat3::from(Quaternion::rotation_{}(angle))", nm);
    }
    // chained / in-place forms: from the identity they show the rotation itself, from q0 the product R * R(q0)
    let id = Quaternion::<S>::identity();
    rot3!(m64(&cm::Mat3::<S>::from(id.rotated_3d(a, ax)).to_arr()), rref, sk, tol_r, tol_sr, "Mat3::from(identity.rotated_3d(angle, axis))");
    rot3!(m64(&cm::Mat3::<S>::from(id.rotated_x(a)).to_arr()), xref, [s, z, z], tol_r, tol_sr, "Mat3::from(identity.rotated_x(angle))");
    rot3!(m64(&cm::Mat3::<S>::from(id.rotated_y(a)).to_arr()), yref, [z, s, z], tol_r, tol_sr, "Mat3::from(identity.rotated_y(angle))");
    rot3!(m64(&cm::Mat3::<S>::from(id.rotated_z(a)).to_arr()), zref, [z, z, s], tol_r, tol_sr, "Mat3::from(identity.rotated_z(angle))");
    let tol_q = 4.0 * KR * eps;
    want_ok!(near_mat(cx, &m64(&cm::Mat3::<S>::from(q0.rotated_3d(a, ax)).to_arr()), &rf::matmul(&rref, &q0r), tol_q), "Mat3::from(q0.rotated_3d(angle, axis)) = R(angle, axis) * R(q0)");
    want_ok!(near_mat(cx, &m64(&cm::Mat3::<S>::from(q0.rotated_x(a)).to_arr()), &rf::matmul(&xref, &q0r), tol_q), "Mat3::from(q0.rotated_x(angle)) = R_x * R(q0)");
    want_ok!(near_mat(cx, &m64(&cm::Mat3::<S>::from(q0.rotated_y(a)).to_arr()), &rf::matmul(&yref, &q0r), tol_q), "Mat3::from(q0.rotated_y(angle)) = R_y * R(q0)");
    want_ok!(near_mat(cx, &m64(&cm::Mat3::<S>::from(q0.rotated_z(a)).to_arr()), &rf::matmul(&zref, &q0r), tol_q), "Mat3::from(q0.rotated_z(angle)) = R_z * R(q0)");
    {
        let mut x = q0;
        x.rotate_3d(a, ax);
        check_eq!(cx, qarr(x), qarr(q0.rotated_3d(a, ax)), "Quaternion::rotate_3d == rotated_3d");
        let mut x = q0;
        x.rotate_x(a);
        check_eq!(cx, qarr(x), qarr(q0.rotated_x(a)), "Quaternion::rotate_x == rotated_x");
        let mut x = q0;
        x.rotate_y(a);
        check_eq!(cx, qarr(x), qarr(q0.rotated_y(a)), "Quaternion::rotate_y == rotated_y");
        let mut x = q0;
        x.rotate_z(a);
        check_eq!(cx, qarr(x), qarr(q0.rotated_z(a)), "Quaternion::rotate_z == rotated_z");
    }
    // the quaternion acting on a vector of length scale 2^kv, relative to |v|
    want_ok!(near_vec(cx, &v64(&vk::a3(&(q * vk::v3(&v)))), &rf::matvec(&rref, &v3), 4.0 * KR * eps * vmax), "Quaternion::rotation_3d(angle, axis) * v");

    // --- Vec2 rotation on vectors of length scale 2^kv
    let v2 = [v[0], v[1]];
    let want2 = [c * v3[0] - s * v3[1], s * v3[0] + c * v3[1]];
    want_ok!(near_vec(cx, &v64(&vk::a2(&vk::v2(&v2).rotated_z(a))), &want2, 4.0 * KT * eps * vmax), "Vec2::rotated_z(angle) vs sin/cos of the same float");
    let mut vv = vk::v2(&v2);
    vv.rotate_z(a);
    check_eq!(cx, vk::a2(&vv), vk::a2(&vk::v2(&v2).rotated_z(a)), "Vec2::rotate_z == rotated_z");
    // images of the scaled basis vectors: (c, s) 2^kv and (-s, c) 2^kv, the sine component relative to |sin|
    let p64 = pv.f();
    let ex = v64(&vk::a2(&Vec2 { x: pv, y: S::zero() }.rotated_z(a)));
    let ey = v64(&vk::a2(&Vec2 { x: S::zero(), y: pv }.rotated_z(a)));
    check!(cx, near(cx, ex[0], c * p64, tol_t * p64) && near(cx, ex[1], s * p64, tol_st * p64), "Vec2(2^k, 0).rotated_z(angle): got {:?}, want (cos, sin) 2^k = {:?}", ex, [c * p64, s * p64]);
    check!(cx, near(cx, ey[0], -s * p64, tol_st * p64) && near(cx, ey[1], c * p64, tol_t * p64), "Vec2(0, 2^k).rotated_z(angle): got {:?}, want (-sin, cos) 2^k = {:?}", ey, [-s * p64, c * p64]);
    Ok(())
}

// ---------------------------------------------------------------------------------------------------------
// Structured receivers of the chaining forms: m.rotated_k(a) = rotation_k(a) * m for receivers whose STRUCTURE
// (diagonal, triangular, permutation, translation, affine last row, zero, the rotation itself, ...) a fast path
// could key on. Oracle: plain triple loop over the builder's output and the receiver's entries.
// ---------------------------------------------------------------------------------------------------------

const NKINDS: usize = 20;
const K_ZERO: usize = 0;
const K_IDENT: usize = 1;
const K_UDIAG: usize = 2;
const K_DIAG: usize = 3;
const K_DIAG0: usize = 4;
const K_TRANSL: usize = 9;
const K_ROT: usize = 15;
const K_ROT_T: usize = 16;
const KIND_LABELS: [&str; NKINDS] = [
    "receiver: zero matrix",
    "receiver: identity",
    "receiver: uniform diagonal",
    "receiver: non-uniform diagonal",
    "receiver: diagonal with a zero entry",
    "receiver: upper triangular",
    "receiver: lower triangular",
    "receiver: strictly triangular",
    "receiver: (signed) permutation",
    "receiver: translation (identity + last column)",
    "receiver: identity + last row",
    "receiver: exactly one off-diagonal entry",
    "receiver: last row e_N",
    "receiver: last column e_N",
    "receiver: last row and column e_N",
    "receiver: the rotation being applied",
    "receiver: transpose of the rotation being applied",
    "receiver: single non-zero row / column",
    "receiver: symmetric / antisymmetric",
    "receiver: dense",
];

fn nzv<S: Dom>(t: &mut Tape) -> S {
    let x = S::any(t, 9);
    if x.is_zero() {
        S::i(2)
    } else {
        x
    }
}

/// An N x N receiver of the given structure kind (K_ROT / K_ROT_T are filled in per chaining form).
fn structured<S: Dom, const N: usize>(t: &mut Tape, kind: usize) -> [[S; N]; N] {
    let (z, o) = (S::zero(), S::one());
    let mut m = [[z; N]; N];
    let primes = [2i64, 3, 5, 7];
    match kind {
        K_ZERO => {}
        K_IDENT | K_ROT | K_ROT_T => {
            for i in 0..N {
                m[i][i] = o;
            }
        }
        K_UDIAG => {
            let d = nzv::<S>(t);
            for i in 0..N {
                m[i][i] = d;
            }
        }
        K_DIAG | K_DIAG0 => {
            // pairwise distinct magnitudes (2,3,5,7 in some rotation, times a common factor), signs from the tape
            let r = t.below(4);
            let f = if t.bool() { o } else { nzv::<S>(t) };
            for i in 0..N {
                let d = S::i(primes[(i + r) % 4]) * f;
                m[i][i] = if t.chance(64) { -d } else { d };
            }
            if kind == K_DIAG0 {
                let i = t.below(N);
                m[i][i] = z;
            }
        }
        5 | 6 | 7 => {
            let upper = if kind == 7 { t.bool() } else { kind == 5 };
            for i in 0..N {
                for j in 0..N {
                    let inside = if upper { i < j } else { i > j } || (kind != 7 && i == j);
                    if inside {
                        m[i][j] = nzv::<S>(t);
                    }
                }
            }
        }
        8 => {
            let mut perm = [0usize; N];
            for (i, p) in perm.iter_mut().enumerate() {
                *p = i;
            }
            for i in (1..N).rev() {
                let j = t.below(i + 1);
                perm.swap(i, j);
            }
            let signed = t.chance(96);
            for i in 0..N {
                m[i][perm[i]] = if signed && t.bool() { -o } else { o };
            }
        }
        K_TRANSL | 10 => {
            for i in 0..N {
                m[i][i] = o;
            }
            for i in 0..N - 1 {
                let x = nzv::<S>(t);
                if kind == K_TRANSL {
                    m[i][N - 1] = x;
                } else {
                    m[N - 1][i] = x;
                }
            }
        }
        11 => {
            match t.below(3) {
                0 => {}
                1 => {
                    for i in 0..N {
                        m[i][i] = o;
                    }
                }
                _ => {
                    for i in 0..N {
                        m[i][i] = S::i(primes[i % 4]);
                    }
                }
            }
            let i = t.below(N);
            let j = (i + 1 + t.below(N - 1)) % N;
            m[i][j] = nzv::<S>(t);
        }
        12 | 13 | 14 => {
            for i in 0..N {
                for j in 0..N {
                    m[i][j] = S::any(t, 5);
                }
            }
            for i in 0..N {
                let e = if i == N - 1 { o } else { z };
                if kind != 13 {
                    m[N - 1][i] = e;
                }
                if kind != 12 {
                    m[i][N - 1] = e;
                }
            }
        }
        17 => {
            let row = t.bool();
            let i = t.below(N);
            for j in 0..N {
                let x = nzv::<S>(t);
                if row {
                    m[i][j] = x;
                } else {
                    m[j][i] = x;
                }
            }
        }
        18 => {
            let anti = t.bool();
            for i in 0..N {
                for j in i..N {
                    let x = S::any(t, 5);
                    if i == j {
                        m[i][j] = if anti { z } else { x };
                    } else {
                        m[i][j] = x;
                        m[j][i] = if anti { -x } else { x };
                    }
                }
            }
        }
        _ => {
            for i in 0..N {
                for j in 0..N {
                    m[i][j] = S::any(t, 5);
                }
            }
        }
    }
    // floats: sometimes the whole receiver in another unit of length (exact power of two)
    if !S::EXACT && t.chance(48) {
        let p = p2::<S>(operand_exp::<S>(t));
        for r in m.iter_mut() {
            for x in r.iter_mut() {
                *x = *x * p;
            }
        }
    }
    m
}

/// Tolerance factor of the chaining checks: vek's product is an n-term (fused) multiply-add chain, the oracle an
/// n-term dot product with separate roundings: each within n eps sum|r_ik||m_kj| of the exact value, n <= 4.
const KC: f64 = 8.0;

/// got == r * m (plain triple loop): exactly in `Rat`, within KC eps sum_k |r_ik||m_kj| entry-wise in floats.
fn chain_ok<S: Dom, const N: usize>(cx: &mut Cx, got: &[[S; N]; N], r: &[[S; N]; N], m: &[[S; N]; N], mags: &mut Vec<f64>) -> Result<(), String> {
    for i in 0..N {
        for j in 0..N {
            let mut want = S::zero();
            let mut mag = 0.0f64;
            for k in 0..N {
                want = want + r[i][k] * m[k][j];
                mag += (r[i][k] * m[k][j]).f().abs();
            }
            mags.push(mag);
            cx.count();
            let ok = if S::EXACT {
                got[i][j] == want
            } else {
                let d = (got[i][j].f() - want.f()).abs();
                let tol = KC * S::eps() * mag;
                if d > 0.0 && tol > 0.0 {
                    cx.note_err(d / tol);
                }
                d <= tol
            };
            if !ok {
                return Err(format!("element ({},{}): got {:?}, want {:?} = sum_k r[{}][k] m[k][{}] (sum of magnitudes {:e})\n rotation {:?}\n receiver {:?}\n got      {:?}", i, j, got[i][j], want, i, j, mag, r, m, got));
            }
        }
    }
    Ok(())
}

fn flat<S: Copy, const N: usize>(m: &[[S; N]; N]) -> Vec<S> {
    m.iter().flat_map(|r| r.iter().copied()).collect()
}

/// Hamilton product p * q of quaternions given as (x, y, z, w), and the sums of the magnitudes of the four terms.
fn ham<S: Dom>(p: &[S; 4], q: &[S; 4]) -> ([S; 4], [f64; 4]) {
    let (px, py, pz, pw) = (p[0], p[1], p[2], p[3]);
    let (qx, qy, qz, qw) = (q[0], q[1], q[2], q[3]);
    let terms = [
        [pw * qx, px * qw, py * qz, -(pz * qy)],
        [pw * qy, -(px * qz), py * qw, pz * qx],
        [pw * qz, px * qy, -(py * qx), pz * qw],
        [pw * qw, -(px * qx), -(py * qy), -(pz * qz)],
    ];
    let mut v = [S::zero(); 4];
    let mut a = [0.0f64; 4];
    for i in 0..4 {
        for x in terms[i] {
            v[i] = v[i] + x;
            a[i] += x.f().abs();
        }
    }
    (v, a)
}

fn receivers<S: Dom>(t: &mut Tape, cx: &mut Cx) -> CaseResult {
    let a = gen_angle::<S>(t, cx);
    let (sn, cs) = (a.sin(), a.cos());
    let (axis, _unit) = gen_axis::<S>(t, cx);
    let ax = vk::v3(&axis);
    let (k4, k3, k2) = (t.below(NKINDS), t.below(NKINDS), t.below(NKINDS));
    cx.label(KIND_LABELS[k4]);
    cx.label(KIND_LABELS[k3]);
    cx.label(KIND_LABELS[k2]);
    let mut b4: [[S; 4]; 4] = structured(t, k4);
    let b3: [[S; 3]; 3] = structured(t, k3);
    let b2: [[S; 2]; 2] = structured(t, k2);
    // build diagonal / translation / identity / zero receivers through vek's own constructors where they exist
    let ctor = t.bool();
    let t_alt = t.bool();
    if k4 == K_DIAG && t_alt {
        // the shape Mat4::scaling_3d produces: diag(x, y, z, 1)
        b4[3][3] = S::one();
    }
    cx.set_nontrivial(!sn.is_zero() && !cs.is_zero() && k4 != K_ZERO);
    sample!(cx, "{} angle={:?} axis={:?} kinds=({}, {}, {}) m4={:?} m3={:?} m2={:?}", S::NAME, a, axis, KIND_LABELS[k4], KIND_LABELS[k3], KIND_LABELS[k2], b4, b3, b2);
    let diag = |m: &dyn Fn(usize) -> S, n: usize| -> [S; 4] {
        let mut d = [S::zero(); 4];
        for i in 0..n {
            d[i] = m(i);
        }
        d
    };
    let d4 = diag(&|i| b4[i][i], 4);
    let d3 = diag(&|i| b3[i][i], 3);
    let d2 = diag(&|i| b2[i][i], 2);

    let mut mags: Vec<f64> = Vec::with_capacity(208);
    // one chaining form on one receiver: product, in-place twin; the result is kept for the layout comparison
    macro_rules! form {
        ($out:ident, $M:ty, $base:expr, $kind:expr, $build:expr, $ret:ident, $inp:ident, ($($arg:expr),*), $($what:tt)*) => {{
            let r = $build.to_arr();
            let recv: $M = match $kind {
                K_ROT => <$M>::from_arr(&r),
                K_ROT_T => <$M>::from_arr(&rf::transpose(&r)),
                _ => $base,
            };
            let m = recv.to_arr();
            let got = recv.$ret($($arg),*).to_arr();
            want_ok!(chain_ok::<S, _>(cx, &got, &r, &m, &mut mags), $($what)*);
            let mut x = recv;
            x.$inp($($arg),*);
            check_eq!(cx, x.to_arr(), got, "{} in place == returning, receiver {:?}", format!($($what)*), m);
            $out.extend(flat(&got));
        }};
    }
    macro_rules! layout {
        ($l:ident, $n:expr, $out:ident) => {{
            // receivers of this layout; a vek constructor is used only if it yields exactly the planned entries
            let mut via = |c: $l::Mat4<S>| if ctor && c.to_arr() == b4 { cx.label("receiver built by a vek constructor (zero / identity / broadcast_diagonal / with_diagonal / scaling_* / translation_* / shearing_x)"); c } else { $l::Mat4::<S>::from_arr(&b4) };
            let m4 = match k4 {
                K_ZERO => via($l::Mat4::<S>::zero()),
                K_IDENT => via($l::Mat4::<S>::identity()),
                K_UDIAG => via($l::Mat4::<S>::broadcast_diagonal(d4[0])),
                K_DIAG | K_DIAG0 => via(if d4[3] == S::one() { $l::Mat4::<S>::scaling_3d(Vec3 { x: d4[0], y: d4[1], z: d4[2] }) } else { $l::Mat4::<S>::with_diagonal(vk::v4(&d4)) }),
                K_TRANSL => via($l::Mat4::<S>::translation_3d(Vec3 { x: b4[0][3], y: b4[1][3], z: b4[2][3] })),
                _ => $l::Mat4::<S>::from_arr(&b4),
            };
            let mut via = |c: $l::Mat3<S>| if ctor && c.to_arr() == b3 { cx.label("receiver built by a vek constructor (zero / identity / broadcast_diagonal / with_diagonal / scaling_* / translation_* / shearing_x)"); c } else { $l::Mat3::<S>::from_arr(&b3) };
            let m3 = match k3 {
                K_ZERO => via($l::Mat3::<S>::zero()),
                K_IDENT => via($l::Mat3::<S>::identity()),
                K_UDIAG => via($l::Mat3::<S>::broadcast_diagonal(d3[0])),
                K_DIAG | K_DIAG0 => via(if t_alt { $l::Mat3::<S>::scaling_3d(Vec3 { x: d3[0], y: d3[1], z: d3[2] }) } else { $l::Mat3::<S>::with_diagonal(Vec3 { x: d3[0], y: d3[1], z: d3[2] }) }),
                K_TRANSL => via($l::Mat3::<S>::translation_2d(Vec2 { x: b3[0][2], y: b3[1][2] })),
                _ => $l::Mat3::<S>::from_arr(&b3),
            };
            let mut via = |c: $l::Mat2<S>| if ctor && c.to_arr() == b2 { cx.label("receiver built by a vek constructor (zero / identity / broadcast_diagonal / with_diagonal / scaling_* / translation_* / shearing_x)"); c } else { $l::Mat2::<S>::from_arr(&b2) };
            let m2 = match k2 {
                K_ZERO => via($l::Mat2::<S>::zero()),
                K_IDENT => via($l::Mat2::<S>::identity()),
                K_UDIAG => via($l::Mat2::<S>::broadcast_diagonal(d2[0])),
                K_DIAG | K_DIAG0 => via(if t_alt { $l::Mat2::<S>::scaling_2d(Vec2 { x: d2[0], y: d2[1] }) } else { $l::Mat2::<S>::with_diagonal(Vec2 { x: d2[0], y: d2[1] }) }),
                K_TRANSL => via($l::Mat2::<S>::shearing_x(b2[0][1])),
                _ => $l::Mat2::<S>::from_arr(&b2),
            };
            form!($out, $l::Mat4<S>, m4, k4, $l::Mat4::<S>::rotation_x(a), rotated_x, rotate_x, (a), "{} Mat4::rotated_x = rotation_x * m [{}]", $n, KIND_LABELS[k4]);
            form!($out, $l::Mat4<S>, m4, k4, $l::Mat4::<S>::rotation_y(a), rotated_y, rotate_y, (a), "{} Mat4::rotated_y = rotation_y * m [{}]", $n, KIND_LABELS[k4]);
            form!($out, $l::Mat4<S>, m4, k4, $l::Mat4::<S>::rotation_z(a), rotated_z, rotate_z, (a), "{} Mat4::rotated_z = rotation_z * m [{}]", $n, KIND_LABELS[k4]);
            form!($out, $l::Mat4<S>, m4, k4, $l::Mat4::<S>::rotation_3d(a, ax), rotated_3d, rotate_3d, (a, ax), "{} Mat4::rotated_3d = rotation_3d * m [{}]", $n, KIND_LABELS[k4]);
            form!($out, $l::Mat3<S>, m3, k3, $l::Mat3::<S>::rotation_x(a), rotated_x, rotate_x, (a), "{} Mat3::rotated_x = rotation_x * m [{}]", $n, KIND_LABELS[k3]);
            form!($out, $l::Mat3<S>, m3, k3, $l::Mat3::<S>::rotation_y(a), rotated_y, rotate_y, (a), "{} Mat3::rotated_y = rotation_y * m [{}]", $n, KIND_LABELS[k3]);
            form!($out, $l::Mat3<S>, m3, k3, $l::Mat3::<S>::rotation_z(a), rotated_z, rotate_z, (a), "{} Mat3::rotated_z = rotation_z * m [{}]", $n, KIND_LABELS[k3]);
            form!($out, $l::Mat3<S>, m3, k3, $l::Mat3::<S>::rotation_3d(a, ax), rotated_3d, rotate_3d, (a, ax), "{} Mat3::rotated_3d = rotation_3d * m [{}]", $n, KIND_LABELS[k3]);
            form!($out, $l::Mat2<S>, m2, k2, $l::Mat2::<S>::rotation_z(a), rotated_z, rotate_z, (a), "{} Mat2::rotated_z = rotation_z * m [{}]", $n, KIND_LABELS[k2]);
        }};
    }
    let mut rows: Vec<S> = Vec::with_capacity(104);
    let mut cols: Vec<S> = Vec::with_capacity(104);
    layout!(rm, "row-major", rows);
    layout!(cm, "col-major", cols);
    // the layouts are two storage orders of the same mathematical matrix: same result, entry for entry (exactly in
    // Rat; floats: both are within KC eps sum|r_ik||m_kj| of the exact product, so within twice that of each other)
    check!(cx, rows.len() == cols.len() && mags.len() == 2 * rows.len(), "internal: result lists differ in length");
    for i in 0..rows.len() {
        cx.count();
        let ok = if S::EXACT { rows[i] == cols[i] } else { (rows[i].f() - cols[i].f()).abs() <= 2.0 * KC * S::eps() * mags[i].max(mags[rows.len() + i]) };
        if !ok {
            fail!("row-major and column-major chaining results differ at flat position {} (order: Mat4 x,y,z,3d; Mat3 x,y,z,3d; Mat2 z; row by row): {:?} vs {:?}\n row-major {:?}\n col-major {:?}", i, rows[i], cols[i], rows, cols);
        }
    }

    // --- quaternion receivers: q.rotated_k(a) = rotation_k(a) * q (Hamilton product)
    let qk = t.below(10);
    let qrot = Quaternion::<S>::rotation_3d(a, ax);
    let (z, o) = (S::zero(), S::one());
    let q0: [S; 4] = match qk {
        0 => [z, z, z, o],
        1 => [z, z, z, z],
        2 => [z, z, z, -o],
        3 => {
            let mut q = [z; 4];
            q[t.below(3)] = if t.bool() { -o } else { o };
            q
        }
        4 => [qrot.x, qrot.y, qrot.z, qrot.w],
        5 => [-qrot.x, -qrot.y, -qrot.z, qrot.w],
        6 => [z, z, z, nzv::<S>(t)],
        7 => {
            let mut q = [z; 4];
            q[t.below(3)] = nzv::<S>(t);
            q
        }
        _ => [S::any(t, 5), S::any(t, 5), S::any(t, 5), S::any(t, 5)],
    };
    cx.label(["quaternion receiver: identity", "quaternion receiver: zero", "quaternion receiver: -identity", "quaternion receiver: +- unit i/j/k", "quaternion receiver: the rotation itself", "quaternion receiver: conjugate of the rotation", "quaternion receiver: real non-unit", "quaternion receiver: pure single component", "quaternion receiver: dense", "quaternion receiver: dense"][qk]);
    let q = Quaternion::<S> { x: q0[0], y: q0[1], z: q0[2], w: q0[3] };
    let qarr = |q: Quaternion<S>| [q.x, q.y, q.z, q.w];
    macro_rules! qform {
        ($build:expr, $ret:ident, $inp:ident, ($($arg:expr),*), $what:expr) => {{
            let p = qarr($build);
            let got = qarr(q.$ret($($arg),*));
            let (want, mag) = ham(&p, &q0);
            for i in 0..4 {
                cx.count();
                let ok = if S::EXACT { got[i] == want[i] } else { (got[i].f() - want[i].f()).abs() <= KC * S::eps() * mag[i] };
                if !ok {
                    fail!("{}: component {}: got {:?}, want {:?} (rotation quaternion {:?}, receiver {:?}; xyzw order)", $what, i, got, want, p, q0);
                }
            }
            let mut x = q;
            x.$inp($($arg),*);
            check_eq!(cx, qarr(x), got, "{} in place == returning (receiver {:?})", $what, q0);
        }};
    }
    qform!(Quaternion::<S>::rotation_x(a), rotated_x, rotate_x, (a), "Quaternion::rotated_x = rotation_x * q");
    qform!(Quaternion::<S>::rotation_y(a), rotated_y, rotate_y, (a), "Quaternion::rotated_y = rotation_y * q");
    qform!(Quaternion::<S>::rotation_z(a), rotated_z, rotate_z, (a), "Quaternion::rotated_z = rotation_z * q");
    qform!(Quaternion::<S>::rotation_3d(a, ax), rotated_3d, rotate_3d, (a, ax), "Quaternion::rotated_3d = rotation_3d * q");
    Ok(())
}

/// Additivity for a common axis, and quaternion chained variants.
fn additive<S: Dom>(t: &mut Tape, cx: &mut Cx) -> CaseResult {
    let (a, b, ab) = match gen_angle_pair::<S>(t, cx) {
        Some(x) => x,
        None => discard!("angle-sum"),
    };
    let (axis, k) = gen_axis::<S>(t, cx);
    let (sa, ca) = (a.sin(), a.cos());
    cx.set_nontrivial(!sa.is_zero() && !ca.is_zero() && !b.sin().is_zero() && k.iter().filter(|x| !x.is_zero()).count() >= 2);
    sample!(cx, "{} a={:?} b={:?} axis={:?}", S::NAME, a, b, axis);
    let ax = vk::v3(&axis);
    macro_rules! both {
        ($l:ident, $n:expr) => {{
            let ra = $l::Mat3::<S>::rotation_3d(a, ax).to_arr();
            let rb = $l::Mat3::<S>::rotation_3d(b, ax).to_arr();
            let rab = $l::Mat3::<S>::rotation_3d(ab, ax).to_arr();
            check_mat!(cx, S, rf::matmul(&ra, &rb), rab, 1.0, K, "{} Mat3 R(a,k) R(b,k) = R(a+b,k)", $n);
            check_mat!(cx, S, ($l::Mat4::<S>::rotation_3d(a, ax) * $l::Mat4::<S>::rotation_3d(b, ax)).to_arr(), $l::Mat4::<S>::rotation_3d(ab, ax).to_arr(), 1.0, K, "{} Mat4 R(a,k) R(b,k) = R(a+b,k)", $n);
            check_mat!(cx, S, ($l::Mat4::<S>::rotation_3d(b, ax).rotated_3d(a, ax)).to_arr(), $l::Mat4::<S>::rotation_3d(ab, ax).to_arr(), 1.0, K, "{} Mat4 rotation_3d(b).rotated_3d(a) = R(a+b)", $n);
            for (name, f2) in [
                ("x", $l::Mat3::<S>::rotation_x as fn(S) -> $l::Mat3<S>),
                ("y", $l::Mat3::<S>::rotation_y as fn(S) -> $l::Mat3<S>),
                ("z", $l::Mat3::<S>::rotation_z as fn(S) -> $l::Mat3<S>),
            ] {
                check_mat!(cx, S, rf::matmul(&f2(a).to_arr(), &f2(b).to_arr()), f2(ab).to_arr(), 1.0, K, "{} Mat3 rotation_{}(a) rotation_{}(b) = rotation_{}(a+b)", $n, name, name, name);
            }
            check_mat!(cx, S, rf::matmul(&$l::Mat2::<S>::rotation_z(a).to_arr(), &$l::Mat2::<S>::rotation_z(b).to_arr()), $l::Mat2::<S>::rotation_z(ab).to_arr(), 1.0, K, "{} Mat2 rotation_z additive", $n);
        }};
    }
    both!(rm, "row-major");
    both!(cm, "col-major");
    // quaternions: composition = Hamilton product (reference), chained variants pre-multiply, rotation matrices agree
    let qa = Quaternion::<S>::rotation_3d(a, ax);
    let qb = Quaternion::<S>::rotation_3d(b, ax);
    let arr = |q: Quaternion<S>| [q.w, q.x, q.y, q.z];
    let want = rf::hamilton(&arr(qa), &arr(qb));
    check_vec!(cx, S, arr(qb.rotated_3d(a, ax)), want, 1.0, K, "q.rotated_3d(a, k) = rotation_3d(a, k) * q");
    let qab = Quaternion::<S>::rotation_3d(ab, ax);
    // q(a+b) = +-(qa*qb): same rotation
    check_mat!(cx, S, cm::Mat3::<S>::from(qab).to_arr(), cm::Mat3::<S>::from(qa * qb).to_arr(), 1.0, K, "matrix of rotation_3d(a+b) = matrix of rotation_3d(a)*rotation_3d(b)");
    let mut qi = qb;
    qi.rotate_3d(a, ax);
    check_eq!(cx, arr(qi), arr(qb.rotated_3d(a, ax)), "Quaternion::rotate_3d == rotated_3d");
    for (name, build, chained, inplace) in [
        ("x", Quaternion::<S>::rotation_x as fn(S) -> Quaternion<S>, Quaternion::<S>::rotated_x as fn(Quaternion<S>, S) -> Quaternion<S>, Quaternion::<S>::rotate_x as fn(&mut Quaternion<S>, S)),
        ("y", Quaternion::<S>::rotation_y, Quaternion::<S>::rotated_y, Quaternion::<S>::rotate_y),
        ("z", Quaternion::<S>::rotation_z, Quaternion::<S>::rotated_z, Quaternion::<S>::rotate_z),
    ] {
        let want = rf::hamilton(&arr(build(a)), &arr(qb));
        check_vec!(cx, S, arr(chained(qb, a)), want, 1.0, K, "Quaternion::rotated_{} = rotation_{} * q", name, name);
        let mut qi = qb;
        inplace(&mut qi, a);
        check_eq!(cx, arr(qi), arr(chained(qb, a)), "Quaternion::rotate_{} == rotated_{}", name, name);
    }
    // 4D application keeps w
    let v4 = Vec4 { x: S::i(3), y: S::i(-2), z: S::i(5), w: S::q(7, 3) };
    let r = qa * v4;
    let r3 = qa * Vec3 { x: v4.x, y: v4.y, z: v4.z };
    check_eq!(cx, [r.x, r.y, r.z], [r3.x, r3.y, r3.z], "q * Vec4 rotates xyz like q * Vec3");
    check_eq!(cx, r.w, v4.w, "q * Vec4 keeps w");
    Ok(())
}

pub fn property() -> Property {
    let mut checks = Vec::new();
    macro_rules! tape {
        ($name:expr, $about:expr, $len:expr, $q:expr, $th:expr, $f:expr) => {
            checks.push(Check { name: $name, about: $about, kind: Kind::Tape { len: $len, quick: $q, thorough: $th, f: $f } });
        };
    }
    let a = "rotation_3d / rotation_x/y/z (Mat2, Mat3, Mat4), quaternion and Vec2 rotation for a generated angle (floats: incl. small / many-turn regimes) and non-unit axis (floats: exact power-of-two lengths from far below eps to far above 1/eps): orthogonal, det +1, fixes the axis, equals the axis-angle definition on a random vector, handedness anchors, axis scaling law, Mat3 = block of Mat4, quaternion-derived matrix equal, chained/in-place variants pre-multiply";
    tape!("rotations-rows-rat", a, 96, 20_000, 500_000, rot_rows::<Rat>);
    tape!("rotations-cols-rat", a, 96, 20_000, 500_000, rot_cols::<Rat>);
    tape!("rotations-rows-f64", a, 256, 20_000, 500_000, rot_rows::<f64>);
    tape!("rotations-cols-f64", a, 256, 20_000, 500_000, rot_cols::<f64>);
    tape!("rotations-rows-f32", a, 256, 10_000, 250_000, rot_rows::<f32>);
    tape!("rotations-cols-f32", a, 256, 10_000, 250_000, rot_cols::<f32>);
    let r = "float regimes, every builder against a reference evaluated in f64 from the same float arguments: axis = direction (integer / coordinate axis / one dominant component / random) times an exact power of two from 2^-48..2^48 (f32), 2^-480..2^480 (f64) incl. lengths around eps and sqrt(eps); angle zero / small (to 2^-40, 2^-200) / next to a multiple of pi/2 / many turns (to 2^30, 2^60 rad); operands (vector, matrix) times an exact power of two. Matrix elements to 16 eps (axis-aligned) / 64 eps (arbitrary axis, quaternion), the rotation vector (R - R^T)/2 relative to |sin angle|, products relative to the operand's magnitude; axis given as Vec3 / Vec4 (w ignored) / array / tuple; Mat2/3/4 both layouts, Quaternion rotation_*/rotated_*/rotate_*, Vec2::rotated_z/rotate_z";
    tape!("regimes-f64", r, 320, 50_000, 1_500_000, regime::<f64>);
    tape!("regimes-f32", r, 320, 50_000, 1_500_000, regime::<f32>);
    let c = "structured receivers of the chaining forms: m.rotated_x/y/z/3d(a) and in-place rotate_* for Mat4, Mat3 (and Mat2 rotated_z/rotate_z) in BOTH layouts on receivers that are zero / identity / uniform, non-uniform and singular diagonal (built by with_diagonal, broadcast_diagonal, scaling_3d/2d) / upper, lower, strictly triangular / (signed) permutation / pure translation (translation_3d/2d, shearing_x) / identity + last row / exactly one off-diagonal entry / last row and/or column e_N / the rotation being applied or its transpose / single row or column / symmetric, antisymmetric / dense; result = plain triple loop over the builder's output and the receiver's entries (exact in Rat, 8 eps sum|r_ik||m_kj| in floats), in-place == returning, row-major result == column-major result entry for entry; quaternion receivers (identity, zero, -identity, +-i/j/k, the rotation, its conjugate, non-unit) against the Hamilton product";
    tape!("receivers-rat", c, 256, 10_000, 250_000, receivers::<Rat>);
    tape!("receivers-f64", c, 512, 30_000, 1_000_000, receivers::<f64>);
    tape!("receivers-f32", c, 512, 30_000, 1_000_000, receivers::<f32>);
    let b = "rotations about a common axis compose additively (Mat2/3/4, both layouts, axis-aligned and arbitrary axis; floats incl. small and many-turn angles with an exact float sum, tiny/huge axes); quaternion chained/in-place variants equal the Hamilton product with the constructor; q*Vec4 keeps w";
    tape!("additive-rat", b, 48, 20_000, 500_000, additive::<Rat>);
    tape!("additive-f64", b, 128, 20_000, 500_000, additive::<f64>);
    tape!("additive-f32", b, 128, 20_000, 500_000, additive::<f32>);
    Property {
        id: "C04",
        rule: "angles: registered rational-trigonometry angles (tan(theta/4) rational, so sin/cos of theta and theta/2 are exact) for Rat; floats: random and special angles in (-2pi,2pi) in half of the cases, otherwise a regime angle {+-0.0, small 2^-e(1+u) down to 2^-40 (f32) / 2^-200 (f64), q*pi/2 +- 2^-e, many turns 2^e(1+u) up to 2^30 (f32) / 2^60 (f64) rad}; sin/cos are always those of the float argument itself; angle pairs of the additive checks lie on a common power-of-two grid so that the float sum is exact; axes: Pythagorean integer vectors times a rational factor of either sign (exact unit direction known), arbitrary float directions, coordinate axes and directions with one dominant component, in float domains times an EXACT power of two 2^k, |k| <= 48 (f32) / 480 (f64), stratified over {1, 2^+-10, length ~ sqrt(eps), ~ eps, << eps, ~ 1/sqrt(eps), ~ 1/eps, >> 1/eps, range limit}; rotated vectors / matrices of the regimes-* checks times 2^k, |k| <= 60 (f32) / 400 (f64); non-trivial = sin != 0, cos not in {0,+-1}, axis with >= 2 non-zero components (rotations-*, additive-*); regimes-*: sin != 0, cos != 0 and at least one of {angle regime not ordinary, axis exponent beyond +-10, operand exponent beyond +-12}; receivers-*: the receiver of every chaining form is drawn, independently per size (4x4, 3x3, 2x2), from 20 structure kinds {zero, identity, uniform / non-uniform / singular diagonal, upper / lower / strictly triangular, (signed) permutation, translation, identity + last row, one off-diagonal entry, last row and/or column e_N, the rotation being applied, its transpose, single row or column, (anti)symmetric, dense}, in half of the cases through vek's own constructors where one yields exactly those entries; floats sometimes times an exact power of two; quaternion receivers from 9 kinds; non-trivial = sin != 0, cos != 0 and the 4x4 receiver is not the zero matrix; distinct = distinct consumed tape prefix",
        assumptions: &[
            "rustc and the proptest runner/shrinker are trusted",
            "oracle: axis-angle (Rodrigues) definition and Hamilton table in vkit::refmath; sin/cos come from the scalar domain (registered angles for Rat), not from vek; regimes-*: the axis-angle matrix, the quaternion matrix and the 2D rotation are evaluated in f64 (std sin/cos of the float argument converted exactly to f64) from the unit direction computed in f64 before the exact power-of-two scaling",
            "float tolerance 256*eps*max(1,|v|) in rotations-* / additive-*; regimes-*: 16 eps per element of an axis-aligned builder (one libm call), 64 eps per element for an arbitrary axis and for matrices from quaternions (<= 12 eps by operation count; largest ratio observed/tolerance 0.1 in 3*10^6 cases), the rotation vector (R - R^T)/2 to the same factors times (|sin| + (1 - cos)), i.e. relative to |sin| for small angles, products with an operand 4x these factors times the operand's largest element (never max(1, .))",
            "receivers-*: oracle = plain triple loop sum_k r[i][k] m[k][j] over the entries of the same layout's builder output r and of the receiver m (read through the public rows / cols fields); exact in Rat; floats 8 eps sum_k |r_ik||m_kj| per entry (n-term fused chain vs n separately rounded terms, n <= 4; largest ratio observed/tolerance 0.23), exact zero demanded where every term is zero; the two layouts are compared entry for entry exactly in Rat and to twice that tolerance in floats (summation order is left free); the builders themselves are judged by the other checks",
            "excluded, because a normalisation by sqrt(x^2+y^2+z^2) (the documented `normalized()`) loses all meaning there: axes whose SQUARED length or squared non-zero components leave the normal range (|axis| outside about 2^-55..2^55 in f32, 2^-487..2^487 in f64), zero axes, non-finite angles or axes; angles below 2^-40 (f32) / 2^-200 (f64) other than +-0.0 and operands beyond 2^+-60 / 2^+-400 (sin(angle) * length could be subnormal)",
            "not asserted: the sign of the quaternion (q and -q are the same rotation), the values of cos elements beyond an absolute eps (1 - cos of a small angle is not representable next to 1), bit-identity between axis lengths (only closeness to the reference), except that Vec3 / Vec4 / array / tuple forms of the SAME axis and in-place vs returning forms must be identical",
        ],
        checks,
        max_discard_frac: 0.1,
    }
}
