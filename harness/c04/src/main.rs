fn main() {
    vkit::driver::main(c04::property())
}
