//! C05 — quaternions form the Hamilton algebra and rotate vectors like their matrix.

use num_traits::{One, Zero};
use vek::mat::repr_c::column_major as cm;
use vek::mat::repr_c::row_major as rm;
use vek::quaternion::repr_c::Quaternion;
use vek::vec::repr_c::{Vec3, Vec4};
use vkit::gens;
use vkit::refmath as rf;
use vkit::vk::{self, MatN};
use vkit::*;

pub(crate) const K: f64 = 512.0;
/// angle-axis round trip: rounding budget in units of eps / max(sin(angle/2), sqrt(eps))
const AA_K: f64 = 64.0;

/// `|got - want| <= tol` with an *absolute* tolerance the caller derived for the regime at hand (so that tiny
/// magnitudes are not compared against `1 + max`); records observed error / tolerance like `vkit::dom::close`.
pub(crate) fn near(cx: &mut Cx, got: f64, want: f64, tol: f64) -> bool {
    cx.count();
    if got == want {
        return true;
    }
    let d = (got - want).abs();
    if !d.is_finite() {
        return false;
    }
    if tol > 0.0 {
        cx.note_err(d / tol);
    }
    d <= tol
}
macro_rules! check_near {
    ($cx:expr, $got:expr, $want:expr, $tol:expr, $($arg:tt)*) => {{
        let (g, w, tl): (f64, f64, f64) = ($got, $want, $tol);
        if !$crate::near($cx, g, w, tl) {
            return Err(vkit::Fail::Violation(format!("{}: got {:e}, want {:e} (|diff| {:.3e} > tolerance {:.3e})", format!($($arg)*), g, w, (g - w).abs(), tl)));
        }
    }};
}
/// `$got`: array of domain scalars, `$want`: array of f64 of the same length.
macro_rules! check_near_vec {
    ($cx:expr, $got:expr, $want:expr, $tol:expr, $($arg:tt)*) => {{
        let g: Vec<f64> = $got.iter().map(|x| vkit::Dom::f(*x)).collect();
        let w = $want;
        let tl: f64 = $tol;
        for i in 0..g.len() {
            if !$crate::near($cx, g[i], w[i], tl) {
                return Err(vkit::Fail::Violation(format!("{}: element {} differs: got {:?}, want {:?} (|diff| {:.3e} > tolerance {:.3e})", format!($($arg)*), i, g, w, (g[i] - w[i]).abs(), tl)));
            }
        }
    }};
}

mod regime;
mod spread;

pub(crate) fn qa<S: Copy>(q: Quaternion<S>) -> [S; 4] {
    [q.w, q.x, q.y, q.z]
}
pub(crate) fn aq<S: Copy>(a: &[S; 4]) -> Quaternion<S> {
    Quaternion { w: a[0], x: a[1], y: a[2], z: a[3] }
}
fn conj<S: Dom>(a: &[S; 4]) -> [S; 4] {
    [a[0], -a[1], -a[2], -a[3]]
}
pub(crate) fn norm2<S: Dom>(a: &[S; 4]) -> S {
    a[0] * a[0] + a[1] * a[1] + a[2] * a[2] + a[3] * a[3]
}
fn gen_q<S: Dom>(t: &mut Tape) -> [S; 4] {
    [S::any(t, 9), S::any(t, 9), S::any(t, 9), S::any(t, 9)]
}
fn qmax<S: Dom>(a: &[S; 4]) -> f64 {
    a.iter().fold(1.0f64, |m, x| m.max(x.f().abs()))
}
/// v rotated by unit quaternion q, from the definition q (0,v) q* with the reference Hamilton product.
fn rotate_ref<S: Dom>(q: &[S; 4], v: &[S; 3]) -> [S; 3] {
    let p = [S::zero(), v[0], v[1], v[2]];
    let r = rf::hamilton(&rf::hamilton(q, &p), &conj(q));
    [r[1], r[2], r[3]]
}
/// Rational point of the unit 3-sphere (w, x, y, z) by inverse stereographic projection.
fn unit_q<S: Dom>(t: &mut Tape, cx: &mut Cx) -> [S; 4] {
    let mut a = S::small(t, 6);
    let mut b = S::small(t, 6);
    let mut c = S::small(t, 6);
    if t.chance(64) {
        // near-identity regime: the stereographic parameters scaled exactly by 2^-k (rotation angle ~ 2^(2-k)); after the
        // component rotation below also "next to a half turn about a coordinate axis"
        let k = t.int(1, if S::EXACT { 8 } else { 40 }) as i32;
        let s = vkit::regimes::pow2::<S>(-k);
        a = a * s;
        b = b * s;
        c = c * s;
        cx.label("unit quaternion next to +-1, +-i, +-j, +-k");
    }
    let n = a * a + b * b + c * c;
    let d = S::one() + n;
    let two = S::i(2);
    let q = [(S::one() - n) / d, two * a / d, two * b / d, two * c / d];
    // vary which component plays the role of w
    let r = t.below(4);
    let mut out = q;
    for i in 0..4 {
        out[i] = q[(i + r) % 4];
    }
    if t.bool() {
        for x in out.iter_mut() {
            *x = -*x;
        }
    }
    out
}

fn algebra<S: Dom>(t: &mut Tape, cx: &mut Cx) -> CaseResult {
    let (p, q, r) = (gen_q::<S>(t), gen_q::<S>(t), gen_q::<S>(t));
    let s = S::any(t, 9);
    cx.set_nontrivial(p.iter().all(|x| !x.is_zero()) && q.iter().all(|x| !x.is_zero()) && rf::hamilton(&p, &q) != rf::hamilton(&q, &p));
    sample!(cx, "{} p={:?} q={:?} r={:?} (w,x,y,z) s={:?}", S::NAME, p, q, r, s);
    let (vp, vq, vr) = (aq(&p), aq(&q), aq(&r));
    let sc = qmax(&p) * qmax(&q) * 4.0;
    check_vec!(cx, S, qa(vp * vq), rf::hamilton(&p, &q), sc, K, "p*q vs Hamilton table");
    check_vec!(cx, S, qa(vq * vp), rf::hamilton(&q, &p), sc, K, "q*p vs Hamilton table");
    let id = Quaternion::<S>::identity();
    check_eq!(cx, qa(id), [S::one(), S::zero(), S::zero(), S::zero()], "identity()");
    check_eq!(cx, qa(<Quaternion<S> as Default>::default()), qa(id), "Default is the identity");
    check_eq!(cx, qa(Quaternion::<S>::zero()), [S::zero(); 4], "zero()");
    check_eq!(cx, qa(vp * id), p, "p * 1 = p");
    check_eq!(cx, qa(id * vp), p, "1 * p = p");
    let sc3 = sc * qmax(&r) * 4.0;
    check_vec!(cx, S, qa((vp * vq) * vr), qa(vp * (vq * vr)), sc3, K, "(pq)r = p(qr)");
    check_vec!(cx, S, qa((vp * vq) * vr), rf::hamilton(&rf::hamilton(&p, &q), &r), sc3, K, "(pq)r vs reference");
    check_close!(cx, S, norm2(&qa(vp * vq)), norm2(&p) * norm2(&q), sc * sc, K, "|pq|^2 = |p|^2 |q|^2");
    check_eq!(cx, qa(vp.conjugate()), conj(&p), "conjugate");
    check_vec!(cx, S, qa((vp * vq).conjugate()), qa(vq.conjugate() * vp.conjugate()), sc, K, "conj(pq) = conj(q) conj(p)");
    check_eq!(cx, qa(vp + vq), [p[0] + q[0], p[1] + q[1], p[2] + q[2], p[3] + q[3]], "p + q");
    check_eq!(cx, qa(vp - vq), [p[0] - q[0], p[1] - q[1], p[2] - q[2], p[3] - q[3]], "p - q");
    check_eq!(cx, qa(-vp), [-p[0], -p[1], -p[2], -p[3]], "-p");
    check_eq!(cx, qa(vp * s), [p[0] * s, p[1] * s, p[2] * s, p[3] * s], "p * s");
    check_close!(cx, S, vp.dot(vq), rf::dot(&p, &q), sc, K, "dot");
    if !s.is_zero() {
        check_eq!(cx, qa(vp / s), [p[0] / s, p[1] / s, p[2] / s, p[3] / s], "p / s");
    }
    if !norm2(&q).is_zero() && (S::EXACT || norm2(&q).f() > 1e-3) {
        let inv = vq.inverse();
        let one = [S::one(), S::zero(), S::zero(), S::zero()];
        let n = norm2(&q);
        let want_inv = { let c = conj(&q); [c[0] / n, c[1] / n, c[2] / n, c[3] / n] };
        let isc = qmax(&q) / n.f();
        check_vec!(cx, S, qa(inv), want_inv, isc, K, "inverse = conjugate / |q|^2");
        check_vec!(cx, S, qa(vq * inv), one, (qmax(&q) * isc).max(1.0) * 4.0, K, "q * q^-1 = 1");
        check_vec!(cx, S, qa(inv * vq), one, (qmax(&q) * isc).max(1.0) * 4.0, K, "q^-1 * q = 1");
        check_close!(cx, S, vq.magnitude_squared(), n, sc, K, "magnitude_squared");
    }
    if !S::EXACT && norm2(&q).f() > 1e-3 {
        let m = norm2(&q).f().sqrt();
        check_close!(cx, S, vq.magnitude(), <S as num_traits::NumCast>::from(m).unwrap(), m, K, "magnitude");
        let nq = qa(vq.normalized());
        check_close!(cx, S, norm2(&nq), S::one(), 1.0, K, "normalized is unit");
        for i in 0..4 {
            check_close!(cx, S, nq[i] * <S as num_traits::NumCast>::from(m).unwrap(), q[i], qmax(&q), K, "normalized is parallel (component {})", i);
        }
    }
    Ok(())
}

fn action<S: Dom>(t: &mut Tape, cx: &mut Cx) -> CaseResult {
    let p = unit_q::<S>(t, cx);
    let q = unit_q::<S>(t, cx);
    let v: [S; 3] = vk::gen_vec(t, 9);
    let w = S::any(t, 9);
    cx.set_nontrivial(p.iter().all(|x| !x.is_zero()) && q.iter().all(|x| !x.is_zero()) && v.iter().all(|x| !x.is_zero()));
    sample!(cx, "{} unit p={:?} q={:?} (w,x,y,z) v={:?} w={:?}", S::NAME, p, q, v, w);
    let (vp, vq) = (aq(&p), aq(&q));
    let vm = vk::vec_max(&v).max(1.0) * 4.0;
    let want = rotate_ref(&q, &v);
    check_vec!(cx, S, vk::a3(&(vq * vk::v3(&v))), want, vm, K, "q * Vec3 = q v q*");
    // same as the matrices converted from it (both layouts, 3x3 and 4x4, as a direction and as a point)
    check_vec!(cx, S, rf::matvec(&cm::Mat3::<S>::from(vq).to_arr(), &v), want, vm, K, "col Mat3::from(q) * v");
    check_vec!(cx, S, rf::matvec(&rm::Mat3::<S>::from(vq).to_arr(), &v), want, vm, K, "row Mat3::from(q) * v");
    let m4 = cm::Mat4::<S>::from(vq).to_arr();
    let m4r = rm::Mat4::<S>::from(vq).to_arr();
    check_eq!(cx, m4, m4r, "Mat4::from(q) is the same abstract matrix in both layouts");
    let v4 = [v[0], v[1], v[2], w];
    let r4 = rf::matvec(&m4, &[v[0], v[1], v[2], S::zero()]);
    check_vec!(cx, S, [r4[0], r4[1], r4[2]], want, vm, K, "Mat4::from(q) on the direction");
    check_eq!(cx, r4[3], S::zero(), "Mat4::from(q) keeps w = 0");
    check_eq!(cx, (m4[3], m4[0][3], m4[1][3], m4[2][3]), ([S::zero(), S::zero(), S::zero(), S::one()], S::zero(), S::zero(), S::zero()), "Mat4::from(q) is an embedding");
    // the matrix is a proper rotation
    let m3 = cm::Mat3::<S>::from(vq).to_arr();
    check_mat!(cx, S, rf::matmul(&rf::transpose(&m3), &m3), rf::identity::<S, 3>(), 1.0, K, "Mat3::from(unit q) orthogonal");
    check_close!(cx, S, rf::det(&m3), S::one(), 1.0, K, "det Mat3::from(unit q) = 1");
    // Vec4: xyz rotated, w untouched (bit-identical)
    let r = vq * vk::v4(&v4);
    check_vec!(cx, S, [r.x, r.y, r.z], want, vm, K, "q * Vec4 rotates xyz");
    check!(cx, r.w == w && r.w.f().to_bits() == w.f().to_bits(), "q * Vec4 must leave w untouched: got {:?}, want {:?}", r.w, w);
    // composition
    check_vec!(cx, S, vk::a3(&((vp * vq) * vk::v3(&v))), vk::a3(&(vp * (vq * vk::v3(&v)))), vm, K, "(p*q)*v = p*(q*v)");
    check_vec!(cx, S, vk::a3(&((vp * vq) * vk::v3(&v))), rotate_ref(&p, &rotate_ref(&q, &v)), vm, K, "(p*q)*v vs reference");
    // inverse rotation undoes
    check_vec!(cx, S, vk::a3(&(vq.conjugate() * (vq * vk::v3(&v)))), v, vm, K, "conj(q)*(q*v) = v");
    Ok(())
}

#[derive(Clone, Copy, PartialEq, Debug)]
enum PairClass {
    Antiparallel,
    Parallel,
    Generic,
    NearlyParallel,
    NearlyAntiparallel,
    /// to = -lambda * from up to rounding (lambda not a power of two), optionally tilted by a tiny angle
    AlmostAntiparallel,
    /// components with independent binary exponents
    Spread,
}

/// A float pair (from, to) enclosing exactly the angle `delta` (to rounding of the cast), or pi - delta when `anti`.
fn near_pair<S: Dom>(t: &mut Tape, delta: f64, anti: bool, mu: S) -> ([S; 3], [S; 3]) {
    let mut f: [S; 3] = vk::gen_vec(t, 9);
    if rf::dot(&f, &f).f() < 1e-2 {
        f = [S::i(1), S::i(2), S::i(-3)];
    }
    let fd = regime::f3(&f);
    let fl = rf::dot(&fd, &fd).sqrt();
    let g = [t.range_f64(-1.0, 1.0), t.range_f64(-1.0, 1.0), t.range_f64(-1.0, 1.0)];
    let mut p = rf::cross(&fd, &g);
    if rf::dot(&p, &p).sqrt() < 1e-2 * fl {
        // g (nearly) parallel to f: take the coordinate axis along the smallest component of f instead
        let i = (0..3).min_by(|&a, &b| fd[a].abs().partial_cmp(&fd[b].abs()).unwrap()).unwrap();
        let mut e = [0.0; 3];
        e[i] = 1.0;
        p = rf::cross(&fd, &e);
    }
    let pl = rf::dot(&p, &p).sqrt();
    let sg = if anti { -1.0 } else { 1.0 };
    let td = delta.tan() * fl / pl;
    let to = [regime::cast::<S>(sg * (fd[0] + td * p[0])) * mu, regime::cast::<S>(sg * (fd[1] + td * p[1])) * mu, regime::cast::<S>(sg * (fd[2] + td * p[2])) * mu];
    (f, to)
}

/// Direction pairs. Returns (from, to, class).
fn gen_pair<S: Dom>(t: &mut Tape, cx: &mut Cx) -> ([S; 3], [S; 3], PairClass) {
    let sel = t.below(12);
    // vectors whose relevant partial sums of squares are all perfect squares, per 180-degree sub-branch
    const ANTI: [[i64; 3]; 12] = [
        [9, 12, 8],  // |x| > |z|, x^2+y^2 = 15^2, total 17^2
        [12, 9, 8],
        [3, 4, 0],   // |x| > |z| = 0
        [5, 0, 0],   // axis-aligned x
        [8, 9, 12],  // |x| <= |z|, y^2+z^2 = 15^2
        [8, 12, 9],  // |x| <= |z|
        [0, 3, 4],   // x = 0
        [0, 5, 0],   // axis-aligned y, |x| = |z| = 0
        [0, 0, 7],   // axis-aligned z
        [-9, 12, -8],
        [-8, -9, 12],
        [4, 3, 0],
    ];
    // exact domains: any positive rational factor; floats: powers of two, so that scaled copies stay *exactly* (anti)parallel
    let lam = |t: &mut Tape| if S::EXACT { S::q(t.int(1, 9), t.pick(&[1i64, 1, 2, 3, 7])) } else { let e = t.int(-6, 6); if e >= 0 { S::i(1 << e) } else { S::q(1, 1 << -e) } };
    let f32ish = S::eps() > 1e-10;
    match sel {
        0 | 1 | 2 => {
            // exactly antiparallel
            cx.label("antiparallel");
            let f = ANTI[t.below(ANTI.len())];
            if f[0].abs() > f[2].abs() { cx.label("antiparallel:|x|>|z|") } else if f[0].abs() < f[2].abs() { cx.label("antiparallel:|x|<|z|") } else { cx.label("antiparallel:|x|=|z|") }
            let (a, b) = (lam(t), lam(t));
            let from = [S::i(f[0]) * a, S::i(f[1]) * a, S::i(f[2]) * a];
            let to = [-S::i(f[0]) * b, -S::i(f[1]) * b, -S::i(f[2]) * b];
            (from, to, PairClass::Antiparallel)
        }
        3 => {
            cx.label("parallel");
            let (f, _) = gens::pythagorean3(t);
            let (a, b) = (lam(t), lam(t));
            ([S::i(f[0]) * a, S::i(f[1]) * a, S::i(f[2]) * a], [S::i(f[0]) * b, S::i(f[1]) * b, S::i(f[2]) * b], PairClass::Parallel)
        }
        4 if !S::EXACT => {
            // enclosed angle log-uniform in [2^-min_exp, 2^-2]: the rotation is (numerically) next to the identity
            cx.label("nearly-parallel");
            let e = t.int(3, if f32ish { 20 } else { 45 }) as i32;
            let delta = (2.0f64).powi(-e) * (1.0 + t.unit_f64());
            let mu = lam(t);
            let (f, g) = near_pair::<S>(t, delta, false, mu);
            (f, g, PairClass::NearlyParallel)
        }
        5 if !S::EXACT => {
            // enclosed angle pi - delta, delta log-uniform down to 8 sqrt(eps) (below that `|f||t| + f.t` is rounding noise, see assumptions)
            cx.label("nearly-antiparallel");
            let e = t.int(3, if f32ish { 8 } else { 22 }) as i32;
            let delta = (2.0f64).powi(-e) * (1.0 + t.unit_f64());
            let mu = lam(t);
            let (f, g) = near_pair::<S>(t, delta, true, mu);
            (f, g, PairClass::NearlyAntiparallel)
        }
        6 if !S::EXACT => {
            // opposite up to rounding: to = -lambda * from with a random factor (the product is rounded, so the pair is
            // opposite to within an ulp or so but not exactly), in two thirds of the cases tilted by delta, log-uniform
            // from 2^-60 / 2^-30 up to ~1e-3 rad. Non-degenerate pairs like any other (finding F14).
            cx.label("almost-antiparallel (to = -lambda*from rounded, tilt 0 .. 1e-3 rad)");
            let lambda = t.range_f64(0.1, 8.0);
            if t.below(3) == 0 {
                let mut f: [S; 3] = if t.bool() { vk::gen_vec(t, 9) } else { let b = ANTI[t.below(ANTI.len())]; [S::i(b[0]), S::i(b[1]), S::i(b[2])] };
                if rf::dot(&f, &f).f() < 1e-2 {
                    f = [S::i(1), S::i(2), S::i(-3)];
                }
                let l: S = regime::cast(lambda);
                (f, [-(f[0] * l), -(f[1] * l), -(f[2] * l)], PairClass::AlmostAntiparallel)
            } else {
                let e = t.int(10, if f32ish { 30 } else { 60 }) as i32;
                let delta = (2.0f64).powi(-e) * (1.0 + t.unit_f64());
                let (f, g) = near_pair::<S>(t, delta, true, regime::cast(lambda));
                (f, g, PairClass::AlmostAntiparallel)
            }
        }
        7 if !S::EXACT => {
            // components with independent binary exponents (dominant one 2^-4..2^4, the others lower by up to the whole
            // range: their squares underflow), every sign pattern, zeros
            cx.label("components with independent exponents");
            let floor = if f32ish { -100 } else { -900 };
            let f: [S; 3] = spread::gen_spread::<S, 3>(t, cx, -4, 4, floor);
            let g: [S; 3] = spread::gen_spread::<S, 3>(t, cx, -4, 4, floor);
            (f, g, PairClass::Spread)
        }
        _ => {
            if S::EXACT || t.bool() {
                // from = L * R e_x, to = mu * R (cos th, sin th, 0): every radical in the computation is rational
                cx.label("generic-constructed");
                let r = gens::rotation3::<S>(t);
                let th = S::angle(t);
                let (s, c) = (th.sin(), th.cos());
                let (l, mu) = (lam(t), lam(t));
                let from = rf::scale(&rf::matvec(&r, &[S::one(), S::zero(), S::zero()]), l);
                let to = rf::scale(&rf::matvec(&r, &[c, s, S::zero()]), mu);
                (from, to, PairClass::Generic)
            } else {
                cx.label("generic-random");
                let mut f: [S; 3] = vk::gen_vec(t, 9);
                let mut g: [S; 3] = vk::gen_vec(t, 9);
                if rf::dot(&f, &f).f() < 1e-2 { f = [S::i(1), S::i(2), S::i(-3)]; }
                if rf::dot(&g, &g).f() < 1e-2 { g = [S::i(2), S::i(-1), S::i(1)]; }
                (f, g, PairClass::Generic)
            }
        }
    }
}

fn from_to<S: Dom>(t: &mut Tape, cx: &mut Cx) -> CaseResult {
    let (from0, to0, class) = gen_pair::<S>(t, cx);
    // unit of length: `from` scaled exactly by 2^a, `to` by 2^b (independently: very different lengths, tiny and huge pairs).
    // |from|^2 |to|^2 and the squares inside `normalized` must stay inside the normal range: f32 16, f64 200, Rat 8 (i128 headroom)
    let kmax = match S::NAME { "f32" => 16, "f64" => 200, _ => 8 };
    let (ea, eb) = (vkit::regimes::scale_exp(t, kmax), vkit::regimes::scale_exp(t, kmax));
    let (sa, sb) = (vkit::regimes::pow2::<S>(ea), vkit::regimes::pow2::<S>(eb));
    let from = [from0[0] * sa, from0[1] * sa, from0[2] * sa];
    let to = [to0[0] * sb, to0[1] * sb, to0[2] * sb];
    if ea != 0 || eb != 0 {
        cx.label("from/to scaled by 2^a, 2^b");
        cx.label(vkit::regimes::scale_label(ea));
        cx.label(vkit::regimes::scale_label(eb));
    }
    let (fl, tl) = (rf::dot(&from, &from).f().sqrt(), rf::dot(&to, &to).f().sqrt());
    sample!(cx, "{} {:?} from={:?} to={:?} (from scaled by 2^{}, to by 2^{})", S::NAME, class, from, to, ea, eb);
    cx.set_nontrivial(from.iter().filter(|x| !x.is_zero()).count() >= 2);
    let q = Quaternion::<S>::rotation_from_to_3d(vk::v3(&from), vk::v3(&to));
    let a = qa(q);
    check_close!(cx, S, norm2(&a), S::one(), 1.0, K, "rotation_from_to_3d returns a unit quaternion [from={:?} to={:?}]", from, to);
    let img = rotate_ref(&a, &from);
    // image of `from` is a positive multiple of `to`: cross = 0 and dot > 0; everything relative to |from||to|
    let sc = fl * tl * 4.0;
    // float conditioning of the documented (GLM) formula: w = |f||t| + f.t and f x t carry an absolute rounding error
    // ~eps |f||t|, so the direction of the image is off by ~eps / |f^ + t^| for nearly antiparallel pairs; that much is
    // granted outside the band below
    let mut cond = 1.0;
    let mut in_band = false;
    let k = if S::EXACT {
        1.0
    } else {
        let u: Vec<f64> = (0..3).map(|i| from[i].f() / fl + to[i].f() / tl).collect();
        let un = (u[0] * u[0] + u[1] * u[1] + u[2] * u[2]).sqrt();
        let exactly_opposite = (0..3).all(|i| from[i].f() * tl == -to[i].f() * fl) || (0..3).all(|i| (from[i].f() / from.iter().map(|x| x.f().abs()).fold(0.0, f64::max)) == -(to[i].f() / to.iter().map(|x| x.f().abs()).fold(0.0, f64::max)));
        // the band where the GLM formula breaks down: opposite to within 8 sqrt(eps). The exactly antiparallel class
        // (power-of-two ratios: every intermediate is exact) is asserted strictly and never counted into the band.
        in_band = class != PairClass::Antiparallel && un * un <= 64.0 * S::eps();
        if in_band {
            cx.label("F14 band: opposite to within 8 sqrt(eps), not an exact power-of-two multiple");
        }
        // outside the band the conditioning 2/delta of the documented (from x to, |f||t| + f.t) construction is granted; inside
        // the band that allowance is continued at its value on the band's edge (see `tol` below and `assumptions`)
        cond = if exactly_opposite || in_band { 1.0 } else { (2.0 / un).max(1.0) };
        (if class == PairClass::NearlyParallel { 8.0 } else if class == PairClass::NearlyAntiparallel { 16.0 } else { K }) * cond
    };
    // alignment of an image with `to`: |image x to| <= k eps |from||to| * 4 and image . to > 0
    // in the band: 8 sqrt(eps) -- what a cross-product construction with a half-turn shortcut can reach there (the shortcut
    // is off by the tilt delta < sqrt(2 eps), the cross product by 2 eps / delta above it); the F14 defect (identity returned,
    // image tens of degrees off or pointing away) is orders of magnitude above it
    let tol = if in_band { 8.0 * S::eps().sqrt() * sc } else { k * S::eps() * sc };
    let misaligned = |cx: &mut Cx, im: &[S; 3], what: &str| -> Option<String> {
        let cr = rf::cross(im, &to);
        let d = rf::dot(im, &to);
        cx.count();
        let worst = cr.iter().fold(0.0f64, |m, x| m.max(x.f().abs()));
        let ok = if S::EXACT { cr.iter().all(|x| x.is_zero()) } else { worst <= tol };
        if ok && d > S::zero() {
            // (inside the F14 band the error of the unfixed formula is anything up to garbage: not a measure of the margin)
            if tol > 0.0 && !in_band {
                cx.note_err(worst / tol);
            }
            None
        } else {
            Some(format!("{} is not a positive multiple of `to`: |image x to| = {:e} (tolerance {:e}, relative to |from||to| = {:e}), image . to = {:?} [from={:?} to={:?} q(w,x,y,z)={:?} image={:?}]", what, worst, tol, fl * tl, d, from, to, a, im))
        }
    };
    let mut f14 = false;
    for (im, what) in [(&img, "q*from"), (&rf::matvec(&cm::Mat3::<S>::from(q).to_arr(), &from), "Mat3::from(q)*from")] {
        if let Some(msg) = misaligned(cx, im, what) {
            if in_band && cx.known("F14-from-to-almost-opposite") {
                f14 = true;
            } else {
                fail!("{}", msg);
            }
        }
    }
    if f14 {
        cx.label("F14 band: image not aligned with `to` (tolerated only while F14 is open)");
    } else if in_band {
        cx.label("F14 band: aligned");
    }
    // vek's own application agrees
    check_vec!(cx, S, vk::a3(&(q * vk::v3(&from))), img, 0.0, K * fl * 4.0, "q * from (vek) = reference [from={:?} q={:?}]", from, a);
    // matrix flavours are the matrix of that quaternion
    let m3 = cm::Mat3::<S>::from(q).to_arr();
    check_mat!(cx, S, cm::Mat3::<S>::rotation_from_to_3d(vk::v3(&from), vk::v3(&to)).to_arr(), m3, 1.0, K, "col Mat3::rotation_from_to_3d");
    check_mat!(cx, S, rm::Mat3::<S>::rotation_from_to_3d(vk::v3(&from), vk::v3(&to)).to_arr(), m3, 1.0, K, "row Mat3::rotation_from_to_3d");
    let m4 = cm::Mat4::<S>::from(q).to_arr();
    check_mat!(cx, S, cm::Mat4::<S>::rotation_from_to_3d(vk::v3(&from), vk::v3(&to)).to_arr(), m4, 1.0, K, "col Mat4::rotation_from_to_3d");
    check_mat!(cx, S, rm::Mat4::<S>::rotation_from_to_3d(vk::v3(&from), vk::v3(&to)).to_arr(), m4, 1.0, K, "row Mat4::rotation_from_to_3d");
    // the result depends on the two *directions* only: every operation commutes exactly with scaling by powers of two
    // (in the F14 band the f32 result is decided by rounding noise, which one underflowed square may flip: f64 only there)
    // The relation needs the scaling itself to be exact (a component of the spread class can underflow when scaled down) and,
    // inside the band, no underflowing square at all (the branch taken there may hinge on one bit).
    let exact_scaling = (0..3).all(|i| from[i] / sa == from0[i] && to[i] / sb == to0[i]);
    if (ea != 0 || eb != 0) && exact_scaling && !(in_band && (S::NAME == "f32" || class == PairClass::Spread)) {
        let a0 = qa(Quaternion::<S>::rotation_from_to_3d(vk::v3(&from0), vk::v3(&to0)));
        for i in 0..4 {
            cx.count();
            // bit-identical unless a square of a tiny component underflowed (f32 only): then one rounding may flip
            if !(a[i] == a0[i] || (!S::EXACT && (a[i].f() - a0[i].f()).abs() <= 4.0 * S::eps() * cond * cond)) {
                fail!("rotation_from_to_3d(2^{} from, 2^{} to) differs from rotation_from_to_3d(from, to) in component {}: {:?} vs {:?} [from={:?} to={:?}]", ea, eb, i, a, a0, from0, to0);
            }
        }
    }
    Ok(())
}

/// Angle-axis extraction (floats): returns an angle and unit axis describing the same rotation.
fn angle_axis<S: Dom>(t: &mut Tape, cx: &mut Cx) -> CaseResult {
    let sel = t.below(12);
    let pi = std::f64::consts::PI;
    let f32ish = S::eps() > 1e-10;
    let sign = if t.bool() { -1.0 } else { 1.0 };
    let tiny = |t: &mut Tape, max_e: i64| (2.0f64).powi(-(t.int(3, max_e) as i32)) * (1.0 + t.unit_f64());
    let angle_f = match sel {
        0 => 0.0,
        1 => t.pick(&[pi / 2.0, -pi / 2.0, pi, -pi, 1.5 * pi, -1.5 * pi, 1.25 * pi, 1e-3, -1e-3]),
        2 | 3 => {
            cx.label("small angle");
            sign * tiny(t, if f32ish { 30 } else { 60 })
        }
        4 => {
            cx.label("next to a full turn");
            sign * (2.0 * pi - tiny(t, if f32ish { 18 } else { 45 }))
        }
        5 => {
            cx.label("next to a half turn");
            sign * (pi + if t.bool() { 1.0 } else { -1.0 } * tiny(t, if f32ish { 18 } else { 45 }))
        }
        _ => t.range_f64(-2.0 * pi + 1e-3, 2.0 * pi - 1e-3),
    };
    let cast = |x: f64| <S as num_traits::NumCast>::from(x).unwrap();
    let angle = cast(angle_f);
    let angle_f = angle.f();
    let mut ax = [t.range_f64(-1.0, 1.0), t.range_f64(-1.0, 1.0), t.range_f64(-1.0, 1.0)];
    if t.chance(40) {
        ax = [[1.0, 0.0, 0.0], [0.0, -1.0, 0.0], [0.0, 0.0, 1.0]][t.below(3)];
    }
    if ax.iter().map(|x| x * x).sum::<f64>() < 1e-3 {
        ax = [0.6, 0.0, -0.8];
    }
    let axis = [cast(ax[0]), cast(ax[1]), cast(ax[2])];
    if angle_f.abs() > pi { cx.label("beyond-half-turn") } else { cx.label("within-half-turn") }
    let sh = (angle_f / 2.0).sin().abs();
    let sh2 = sh * sh;
    // the extraction can resolve the rotation at all once sin(angle/2) is above sqrt(eps)
    cx.set_nontrivial(sh > 8.0 * S::eps().sqrt());
    // the quaternion: vek's constructor, or built without vek (f64 sin/cos, cast)
    let q = if t.bool() {
        Quaternion::<S>::rotation_3d(angle, vk::v3(&axis))
    } else {
        let n = (ax[0] * ax[0] + ax[1] * ax[1] + ax[2] * ax[2]).sqrt();
        let (s, c) = (angle_f / 2.0).sin_cos();
        Quaternion { w: cast(c), x: cast(ax[0] / n * s), y: cast(ax[1] / n * s), z: cast(ax[2] / n * s) }
    };
    sample!(cx, "{} angle={:?} axis={:?} q={:?}", S::NAME, angle, axis, qa(q));
    let (a2, ax2) = q.into_angle_axis();
    let ax2a = vk::a3(&ax2);
    check!(cx, ax2a.iter().all(|x| x.f().is_finite()) && a2.f().is_finite(), "into_angle_axis returned a non-finite value: angle {:?} axis {:?} (q={:?})", a2, ax2a, qa(q));
    // the axis is xyz / sqrt(1 - w^2): cancellation in 1 - w^2 = sin^2(angle/2) amplifies rounding by 1/sin^2(angle/2)
    if sh2 > 1e4 * S::eps() {
        check_close!(cx, S, rf::dot(&ax2a, &ax2a), S::one(), 1.0, 1024.0 / sh2, "extracted axis is unit (q={:?})", qa(q));
    } else if q.w.f().abs() == 1.0 {
        // numerically the identity rotation (w = +-1 exactly): any axis would do, but it must be a unit vector
        cx.label("near-identity:w=+-1");
        check_close!(cx, S, rf::dot(&ax2a, &ax2a), S::one(), 1.0, 8.0, "extracted axis of a (numerically) identity rotation is unit (q={:?})", qa(q));
    } else {
        // 1 - w^2 has lost all but a few bits: the length of the axis is not determined to working precision;
        // only "finite" above and "same rotation" below are asserted there
        cx.label("near-identity");
    }
    let slack = cast(64.0 * S::eps());
    check!(cx, a2 >= -slack && a2 <= cast(2.0 * pi) + slack, "extracted angle {:?} not in [0, 2pi]", a2);
    // same rotation: compare the rotation matrices. angle = 2 acos(w): an error eps in w becomes eps / sin(angle/2) in the
    // angle, and sqrt(eps) at worst (w next to +-1); the axis xyz / sqrt(1 - w^2) times sin(angle'/2) likewise
    let q2 = Quaternion::<S>::rotation_3d(a2, ax2);
    let m1 = cm::Mat3::<S>::from(q).to_arr();
    let m2 = cm::Mat3::<S>::from(q2).to_arr();
    let tol_k = AA_K / sh.max(S::eps().sqrt());
    check_mat!(cx, S, m2, m1, 1.0, tol_k, "rotation_3d(into_angle_axis(q)) is the same rotation as q (q={:?}, extracted angle {:?} axis {:?})", qa(q), a2, ax2a);
    // and q2 = +-q
    let (a, b) = (qa(q), qa(q2));
    let same = (0..4).all(|i| (a[i].f() - b[i].f()).abs() <= tol_k * S::eps());
    let opp = (0..4).all(|i| (a[i].f() + b[i].f()).abs() <= tol_k * S::eps());
    check!(cx, same || opp, "rebuilt quaternion {:?} is neither q nor -q ({:?})", b, a);
    Ok(())
}

/// Field-exact conversions on opaque terms.
fn conversions(t: &mut Tape, cx: &mut Cx) -> CaseResult {
    let b = t.below(100) as u32;
    let (x, y, z, w) = (Sym::atom(b + 1), Sym::atom(b + 2), Sym::atom(b + 3), Sym::atom(b + 4));
    cx.nontrivial();
    sample!(cx, "Sym x={:?} y={:?} z={:?} w={:?}", x, y, z, w);
    let q = Quaternion::from_xyzw(x, y, z, w);
    check_eq!(cx, (q.x, q.y, q.z, q.w), (x, y, z, w), "from_xyzw");
    let q2 = Quaternion::from_scalar_and_vec3((w, Vec3 { x, y, z }));
    check_eq!(cx, (q2.x, q2.y, q2.z, q2.w), (x, y, z, w), "from_scalar_and_vec3");
    let (s, v) = q.into_scalar_and_vec3();
    check_eq!(cx, (s, v.x, v.y, v.z), (w, x, y, z), "into_scalar_and_vec3");
    let v4: Vec4<Sym> = q.into_vec4();
    check_eq!(cx, (v4.x, v4.y, v4.z, v4.w), (x, y, z, w), "into_vec4");
    let v4b: Vec4<Sym> = Vec4::from(q);
    check_eq!(cx, (v4b.x, v4b.y, v4b.z, v4b.w), (x, y, z, w), "Vec4::from(q)");
    let q3 = Quaternion::from_vec4(Vec4 { x, y, z, w });
    check_eq!(cx, (q3.x, q3.y, q3.z, q3.w), (x, y, z, w), "from_vec4");
    let q4 = Quaternion::from(Vec4 { x, y, z, w });
    check_eq!(cx, (q4.x, q4.y, q4.z, q4.w), (x, y, z, w), "Quaternion::from(Vec4)");
    let v3: Vec3<Sym> = q.into_vec3();
    check_eq!(cx, (v3.x, v3.y, v3.z), (x, y, z), "into_vec3");
    let v3b: Vec3<Sym> = Vec3::from(q);
    check_eq!(cx, (v3b.x, v3b.y, v3b.z), (x, y, z), "Vec3::from(q)");
    let c = q.conjugate();
    check_eq!(cx, (c.x, c.y, c.z, c.w), (-x, -y, -z, w), "conjugate on terms");
    let id = Quaternion::<Sym>::identity();
    check_eq!(cx, (id.x, id.y, id.z, id.w), (Sym::zero(), Sym::zero(), Sym::zero(), Sym::one()), "identity on terms");
    Ok(())
}

pub fn property() -> Property {
    let mut checks = Vec::new();
    macro_rules! tape {
        ($name:expr, $about:expr, $len:expr, $q:expr, $th:expr, $f:expr) => {
            checks.push(Check { name: $name, about: $about, kind: Kind::Tape { len: $len, quick: $q, thorough: $th, f: $f } });
        };
    }
    let a = "Hamilton product vs the i,j,k table; identity neutral; associativity; norm multiplicative; conjugation reverses products; two-sided inverse; + - neg, scalar mul/div, dot, magnitude, normalized, Default/zero";
    tape!("algebra-rat", a, 64, 40_000, 1_000_000, algebra::<Rat>);
    tape!("algebra-f64", a, 128, 20_000, 500_000, algebra::<f64>);
    tape!("algebra-f32", a, 128, 10_000, 250_000, algebra::<f32>);
    let b = "unit quaternion (rational point of S^3) applied to Vec3/Vec4 = q v q* (reference) = Mat3/Mat4::from(q) (both layouts); w bit-identical; (pq)v = p(qv); matrix is a proper rotation";
    tape!("action-rat", b, 64, 30_000, 1_000_000, action::<Rat>);
    tape!("action-f64", b, 96, 20_000, 500_000, action::<f64>);
    let c = "rotation_from_to_3d (quaternion, Mat3, Mat4, both layouts): unit, maps `from` onto a positive multiple of `to` (relative to |from||to|) for generic, parallel, exactly antiparallel (every 180-degree sub-branch), nearly parallel (angle down to 2^-45 / 2^-20), nearly antiparallel (pi - delta, delta down to 8 sqrt(eps)) and almost exactly opposite pairs (to = -lambda*from rounded, tilt 0 .. 1e-3 rad; finding F14), `from` and `to` scaled independently and exactly by 2^a, 2^b (result must not change)";
    tape!("from-to-rat", c, 80, 40_000, 1_000_000, from_to::<Rat>);
    tape!("from-to-f64", c, 160, 40_000, 1_000_000, from_to::<f64>);
    tape!("from-to-f32", c, 160, 40_000, 1_000_000, from_to::<f32>);
    let d = "into_angle_axis for angles in (-2pi, 2pi) incl. small (down to 2^-60 / 2^-30), next to a half turn and next to a full turn, q from rotation_3d or built without vek: finite, unit axis (any unit axis when w = +-1), angle in [0, 2pi], rebuilding the rotation from them gives the same rotation (+-q) within 64 eps / max(|sin(angle/2)|, sqrt(eps))";
    tape!("angle-axis-f64", d, 48, 40_000, 1_000_000, angle_axis::<f64>);
    tape!("angle-axis-f32", d, 48, 20_000, 500_000, angle_axis::<f32>);
    let e = "unit quaternions by angle regime (small down to 2^-60 / 2^-30, next to a half / full turn, many turns; built without vek) applied to vectors scaled by 2^k: q*Vec3, q*Vec4, Mat3/Mat4::from(q) (both layouts, action and entries) against q (0,v) q* and the axis-angle definition in cancellation-free f64 form with tolerance 32 eps |v|; q*(2^k v) = 2^k (q*v) exactly; q applied 2..64 times step by step = composed quaternion = rotation by n*angle; (p*q)*v = p*(q*v); rotation_3d(angle, 2^j axis) components and action";
    tape!("near-identity-f64", e, 192, 60_000, 2_000_000, regime::near_identity::<f64>);
    tape!("near-identity-f32", e, 192, 60_000, 2_000_000, regime::near_identity::<f32>);
    let f = "non-unit quaternions of tiny / huge norm (components exactly scaled by 2^a, 2^b): product, dot, inverse, magnitude, normalized commute bit for bit with the scaling; product vs the i,j,k table and inverse = conj/|q|^2 relative to the scaled magnitude; q q^-1 = q^-1 q = 1";
    tape!("algebra-scale-rat", f, 48, 8_000, 500_000, regime::algebra_scale::<Rat>);
    tape!("algebra-scale-f64", f, 48, 20_000, 1_000_000, regime::algebra_scale::<f64>);
    tape!("algebra-scale-f32", f, 48, 20_000, 1_000_000, regime::algebra_scale::<f32>);
    let g = "quaternions / vectors whose components have independent binary exponents (sign * mantissa * 2^k_i, spread up to the whole range in which the sum of squares stays finite, the small squares underflow; every sign pattern incl. negative dominant component; zeros; unit quaternions with tiny components such as -rotation_x(-1e-25)): magnitude, magnitude_squared, dot, normalized and inverse (component by component, relative to the component), q q^-1 = q^-1 q = 1, conjugate / neg / + / - / scalar mul and div exact, Hamilton product and dot against double-double sums over the i,j,k table (relative to the sum of |terms|), |pq| = |p||q|, conj(pq) = conj(q)conj(p), action q*Vec3 / q*Vec4 / Mat3 / Mat4::from(q) of spread unit quaternions on spread vectors";
    tape!("spread-rat", g, 128, 10_000, 500_000, spread::spread_exact::<Rat>);
    tape!("spread-f64", g, 320, 40_000, 2_000_000, spread::spread::<f64>);
    tape!("spread-f32", g, 320, 40_000, 2_000_000, spread::spread::<f32>);
    tape!("conversions-sym", "conversions to/from Vec4, Vec3, (scalar, vector), from_xyzw, conjugate, identity are field-exact on opaque terms", 4, 2_000, 20_000, conversions);
    Property {
        id: "C05",
        rule: "arbitrary quaternions with small rational/float components; unit quaternions from the rational parametrisation of S^3 (a quarter of them with the parameters scaled by 2^-k: next to +-1, +-i, +-j, +-k); direction pairs by class: exactly antiparallel (12 base vectors covering |x|>|z|, |x|<|z|, |x|=|z|, axis-aligned, scaled by independent rationals), parallel, generic constructed so that every square root is rational, random float pairs, nearly parallel and nearly antiparallel float pairs with a log-uniform enclosed angle, almost exactly opposite float pairs (to = -lambda*from rounded with a random lambda, tilted by 0 or by a log-uniform angle up to 1e-3 rad), every pair additionally scaled by independent powers of two in half of the cases; angles in (-2pi,2pi) incl. log-uniform small ones and neighbours of pi and 2pi; regime checks: unit quaternions built without vek from (axis, angle) with angle regimes {small down to 2^-60 (f64) / 2^-30 (f32), next to a half turn, next to a full turn, next to a multiple of pi/2, many turns, ordinary} applied to vectors scaled by 2^k (|k| <= 200 / 24), non-unit quaternions scaled by 2^a (|a| <= 200 / 24 / 10); non-trivial = all four components non-zero and pq != qp (algebra/action), from has >= 2 non-zero components (from-to), |sin(angle/2)| > 8 sqrt(eps) (angle-axis), displacement |q*v - v| > 8 * tolerance and v without zero component (near-identity), all eight components non-zero (algebra-scale), at least three non-zero components (spread); spread checks: every component sign * mantissa * 2^k_i with one dominant exponent (f32 -50..61, f64 -480..509; pairs half of that so that |pq| stays in range) and independent gaps for the others (0..8 / 8..70 / 60..160 / 150..1100 / 0..2200, clamped at the smallest subnormal), sign patterns {dominant negative and the rest non-negative, all non-positive, all non-negative, free}, 15 % zeros, unit quaternions obtained by dividing such a quadruple by its double-double norm; the from-to checks draw 1/12 of the float pairs with independent component exponents, near-identity draws a third of its small angles from 2^-30..2^-120 (f32) / 2^-60..2^-1000 (f64); distinct = distinct consumed tape prefix",
        assumptions: &[
            "rustc and the proptest runner/shrinker are trusted",
            "oracle: Hamilton product expanded over the i,j,k multiplication table (vkit::refmath::hamilton), rotation = q (0,v) q*",
            "near-identity oracle: q (0,v) q* = v + 2w(u x v) + 2u x (u x v) and Rodrigues with 1 - cos = 2 sin^2(angle/2), evaluated in f64 on the exact components handed to vek (for f32 the oracle is far more precise than the result; for f64 its own error is ~2 eps |v|); the comparison tolerance is 32 eps |v| = the rounding of two Hamilton products on a result of size |v| - a displacement below that is not resolvable by ANY implementation returning v + d in working precision, so rotation angles below ~32 eps are only checked through the matrix entries (off-diagonal entries relative to |xyz|), through rotation_3d's components (relative to |sin(angle/2)|) and through the exact scaling relations",
            "exact scaling relations (q*(2^k v), products / inverse / magnitude / normalized of 2^k q, rotation_from_to_3d(2^a from, 2^b to), rotation_3d(angle, 2^j axis)) are compared bit for bit; exponent ranges are chosen so that no square or product leaves the normal range (f32: vectors 2^+-24, from/to 2^+-16; f64: 2^+-200); where a tiny random component can still underflow a few subnormal units (resp. one rounding flip) are tolerated. Overflow / underflow beyond those ranges is excluded (any implementation that squares lengths suffers it)",
            "from-to in floats, outside the band below: w = |f||t| + f.t and f x t carry an absolute rounding error ~eps |f||t| in the documented (GLM) formula, so the direction of the image is allowed eps * K * 2/|f^ + t^| for nearly antiparallel pairs",
            "from-to, band |f^ + t^|^2 <= 64 eps (opposite to within 8 sqrt(eps)) other than the exactly antiparallel class with power-of-two ratios: the image must be a positive multiple of `to` within 8 sqrt(eps) |from||to| * 4. That is the continuation of the 2/delta allowance granted to nearly antiparallel pairs outside the band, i.e. the accuracy the documented (from x to, |f||t| + f.t) construction with its half-turn shortcut can reach; a uniformly eps-accurate from-to would need a different construction (half turn composed with the residual small rotation) and is not demanded. The defect F14-from-to-almost-opposite (|f||t| + f.t computed with cancellation, so rounding noise decided the 180-degree guard: identity returned, image tens of degrees off) is orders of magnitude above this tolerance; it is tolerated only while listed as open in KNOWN_FINDINGS.json. Pairs of that band are CONSTRUCTED (to = -lambda*from rounded, tilt 0 or log-uniform up to 1e-3 rad), ~9 % of the float cases",
            "angle-axis: angle = 2 acos(w) turns an error eps in w into eps / sin(angle/2) in the angle and into sqrt(eps) at worst (w next to +-1), so the rebuilt rotation is compared at 64 eps / max(|sin(angle/2)|, sqrt(eps)); in particular for rotation angles below ~2 sqrt(eps) (w rounds to 1) the extracted angle is 0 and only 'identity to within sqrt(eps)' is asserted - the relative accuracy of a tiny extracted angle is NOT asserted (acos(w) cannot provide it; the vector part could)",
            "spread oracle: sums of squares and signed sums of products over the i,j,k table in double-double arithmetic (fma error-free products, compensated sums, one Newton step for the square root) on the exact f64 values of the components; tolerances are relative to the RESULT: 8 eps |q| (magnitude), 8 eps |q|^2, 8 eps |component| + 2 subnormal units for every component of normalized and inverse, 8 eps * sum|terms| + 4 subnormal units per component of a product / dot (the backward-stable bound of any summation order), 32 eps |p||q| for |pq|; domain: 4 max^2 finite and max^2 >= min_positive / eps (so underflowing small squares stay below eps relative) - outside it the plain sum of squares overflows / underflows in every implementation that does not rescale, which the docs do not promise",
            "non-unit quaternions applied to vectors are outside the property (docs: 'assuming the quaternion is normalized'); only unit quaternions (to rounding) are applied",
        ],
        checks,
        max_discard_frac: 0.2,
    }
}
