//! C05 — quaternions form the Hamilton algebra and rotate vectors like their matrix.

use num_traits::{One, Zero};
use vek::mat::repr_c::column_major as cm;
use vek::mat::repr_c::row_major as rm;
use vek::quaternion::repr_c::Quaternion;
use vek::vec::repr_c::{Vec3, Vec4};
use vkit::gens;
use vkit::refmath as rf;
use vkit::vk::{self, MatN};
use vkit::*;

const K: f64 = 512.0;

fn qa<S: Copy>(q: Quaternion<S>) -> [S; 4] {
    [q.w, q.x, q.y, q.z]
}
fn aq<S: Copy>(a: &[S; 4]) -> Quaternion<S> {
    Quaternion { w: a[0], x: a[1], y: a[2], z: a[3] }
}
fn conj<S: Dom>(a: &[S; 4]) -> [S; 4] {
    [a[0], -a[1], -a[2], -a[3]]
}
fn norm2<S: Dom>(a: &[S; 4]) -> S {
    a[0] * a[0] + a[1] * a[1] + a[2] * a[2] + a[3] * a[3]
}
fn gen_q<S: Dom>(t: &mut Tape) -> [S; 4] {
    [S::any(t, 9), S::any(t, 9), S::any(t, 9), S::any(t, 9)]
}
fn qmax<S: Dom>(a: &[S; 4]) -> f64 {
    a.iter().fold(1.0f64, |m, x| m.max(x.f().abs()))
}
/// v rotated by unit quaternion q, from the definition q (0,v) q* with the reference Hamilton product.
fn rotate_ref<S: Dom>(q: &[S; 4], v: &[S; 3]) -> [S; 3] {
    let p = [S::zero(), v[0], v[1], v[2]];
    let r = rf::hamilton(&rf::hamilton(q, &p), &conj(q));
    [r[1], r[2], r[3]]
}
/// Rational point of the unit 3-sphere (w, x, y, z) by inverse stereographic projection.
fn unit_q<S: Dom>(t: &mut Tape) -> [S; 4] {
    let a = S::small(t, 6);
    let b = S::small(t, 6);
    let c = S::small(t, 6);
    let n = a * a + b * b + c * c;
    let d = S::one() + n;
    let two = S::i(2);
    let q = [(S::one() - n) / d, two * a / d, two * b / d, two * c / d];
    // vary which component plays the role of w
    let r = t.below(4);
    let mut out = q;
    for i in 0..4 {
        out[i] = q[(i + r) % 4];
    }
    if t.bool() {
        for x in out.iter_mut() {
            *x = -*x;
        }
    }
    out
}

fn algebra<S: Dom>(t: &mut Tape, cx: &mut Cx) -> CaseResult {
    let (p, q, r) = (gen_q::<S>(t), gen_q::<S>(t), gen_q::<S>(t));
    let s = S::any(t, 9);
    cx.set_nontrivial(p.iter().all(|x| !x.is_zero()) && q.iter().all(|x| !x.is_zero()) && rf::hamilton(&p, &q) != rf::hamilton(&q, &p));
    sample!(cx, "{} p={:?} q={:?} r={:?} (w,x,y,z) s={:?}", S::NAME, p, q, r, s);
    let (vp, vq, vr) = (aq(&p), aq(&q), aq(&r));
    let sc = qmax(&p) * qmax(&q) * 4.0;
    check_vec!(cx, S, qa(vp * vq), rf::hamilton(&p, &q), sc, K, "p*q vs Hamilton table");
    check_vec!(cx, S, qa(vq * vp), rf::hamilton(&q, &p), sc, K, "q*p vs Hamilton table");
    let id = Quaternion::<S>::identity();
    check_eq!(cx, qa(id), [S::one(), S::zero(), S::zero(), S::zero()], "identity()");
    check_eq!(cx, qa(<Quaternion<S> as Default>::default()), qa(id), "Default is the identity");
    check_eq!(cx, qa(Quaternion::<S>::zero()), [S::zero(); 4], "zero()");
    check_eq!(cx, qa(vp * id), p, "p * 1 = p");
    check_eq!(cx, qa(id * vp), p, "1 * p = p");
    let sc3 = sc * qmax(&r) * 4.0;
    check_vec!(cx, S, qa((vp * vq) * vr), qa(vp * (vq * vr)), sc3, K, "(pq)r = p(qr)");
    check_vec!(cx, S, qa((vp * vq) * vr), rf::hamilton(&rf::hamilton(&p, &q), &r), sc3, K, "(pq)r vs reference");
    check_close!(cx, S, norm2(&qa(vp * vq)), norm2(&p) * norm2(&q), sc * sc, K, "|pq|^2 = |p|^2 |q|^2");
    check_eq!(cx, qa(vp.conjugate()), conj(&p), "conjugate");
    check_vec!(cx, S, qa((vp * vq).conjugate()), qa(vq.conjugate() * vp.conjugate()), sc, K, "conj(pq) = conj(q) conj(p)");
    check_eq!(cx, qa(vp + vq), [p[0] + q[0], p[1] + q[1], p[2] + q[2], p[3] + q[3]], "p + q");
    check_eq!(cx, qa(vp - vq), [p[0] - q[0], p[1] - q[1], p[2] - q[2], p[3] - q[3]], "p - q");
    check_eq!(cx, qa(-vp), [-p[0], -p[1], -p[2], -p[3]], "-p");
    check_eq!(cx, qa(vp * s), [p[0] * s, p[1] * s, p[2] * s, p[3] * s], "p * s");
    check_close!(cx, S, vp.dot(vq), rf::dot(&p, &q), sc, K, "dot");
    if !s.is_zero() {
        check_eq!(cx, qa(vp / s), [p[0] / s, p[1] / s, p[2] / s, p[3] / s], "p / s");
    }
    if !norm2(&q).is_zero() && (S::EXACT || norm2(&q).f() > 1e-3) {
        let inv = vq.inverse();
        let one = [S::one(), S::zero(), S::zero(), S::zero()];
        let n = norm2(&q);
        let want_inv = { let c = conj(&q); [c[0] / n, c[1] / n, c[2] / n, c[3] / n] };
        let isc = qmax(&q) / n.f();
        check_vec!(cx, S, qa(inv), want_inv, isc, K, "inverse = conjugate / |q|^2");
        check_vec!(cx, S, qa(vq * inv), one, (qmax(&q) * isc).max(1.0) * 4.0, K, "q * q^-1 = 1");
        check_vec!(cx, S, qa(inv * vq), one, (qmax(&q) * isc).max(1.0) * 4.0, K, "q^-1 * q = 1");
        check_close!(cx, S, vq.magnitude_squared(), n, sc, K, "magnitude_squared");
    }
    if !S::EXACT && norm2(&q).f() > 1e-3 {
        let m = norm2(&q).f().sqrt();
        check_close!(cx, S, vq.magnitude(), <S as num_traits::NumCast>::from(m).unwrap(), m, K, "magnitude");
        let nq = qa(vq.normalized());
        check_close!(cx, S, norm2(&nq), S::one(), 1.0, K, "normalized is unit");
        for i in 0..4 {
            check_close!(cx, S, nq[i] * <S as num_traits::NumCast>::from(m).unwrap(), q[i], qmax(&q), K, "normalized is parallel (component {})", i);
        }
    }
    Ok(())
}

fn action<S: Dom>(t: &mut Tape, cx: &mut Cx) -> CaseResult {
    let p = unit_q::<S>(t);
    let q = unit_q::<S>(t);
    let v: [S; 3] = vk::gen_vec(t, 9);
    let w = S::any(t, 9);
    cx.set_nontrivial(p.iter().all(|x| !x.is_zero()) && q.iter().all(|x| !x.is_zero()) && v.iter().all(|x| !x.is_zero()));
    sample!(cx, "{} unit p={:?} q={:?} (w,x,y,z) v={:?} w={:?}", S::NAME, p, q, v, w);
    let (vp, vq) = (aq(&p), aq(&q));
    let vm = vk::vec_max(&v).max(1.0) * 4.0;
    let want = rotate_ref(&q, &v);
    check_vec!(cx, S, vk::a3(&(vq * vk::v3(&v))), want, vm, K, "q * Vec3 = q v q*");
    // same as the matrices converted from it (both layouts, 3x3 and 4x4, as a direction and as a point)
    check_vec!(cx, S, rf::matvec(&cm::Mat3::<S>::from(vq).to_arr(), &v), want, vm, K, "col Mat3::from(q) * v");
    check_vec!(cx, S, rf::matvec(&rm::Mat3::<S>::from(vq).to_arr(), &v), want, vm, K, "row Mat3::from(q) * v");
    let m4 = cm::Mat4::<S>::from(vq).to_arr();
    let m4r = rm::Mat4::<S>::from(vq).to_arr();
    check_eq!(cx, m4, m4r, "Mat4::from(q) is the same abstract matrix in both layouts");
    let v4 = [v[0], v[1], v[2], w];
    let r4 = rf::matvec(&m4, &[v[0], v[1], v[2], S::zero()]);
    check_vec!(cx, S, [r4[0], r4[1], r4[2]], want, vm, K, "Mat4::from(q) on the direction");
    check_eq!(cx, r4[3], S::zero(), "Mat4::from(q) keeps w = 0");
    check_eq!(cx, (m4[3], m4[0][3], m4[1][3], m4[2][3]), ([S::zero(), S::zero(), S::zero(), S::one()], S::zero(), S::zero(), S::zero()), "Mat4::from(q) is an embedding");
    // the matrix is a proper rotation
    let m3 = cm::Mat3::<S>::from(vq).to_arr();
    check_mat!(cx, S, rf::matmul(&rf::transpose(&m3), &m3), rf::identity::<S, 3>(), 1.0, K, "Mat3::from(unit q) orthogonal");
    check_close!(cx, S, rf::det(&m3), S::one(), 1.0, K, "det Mat3::from(unit q) = 1");
    // Vec4: xyz rotated, w untouched (bit-identical)
    let r = vq * vk::v4(&v4);
    check_vec!(cx, S, [r.x, r.y, r.z], want, vm, K, "q * Vec4 rotates xyz");
    check!(cx, r.w == w && r.w.f().to_bits() == w.f().to_bits(), "q * Vec4 must leave w untouched: got {:?}, want {:?}", r.w, w);
    // composition
    check_vec!(cx, S, vk::a3(&((vp * vq) * vk::v3(&v))), vk::a3(&(vp * (vq * vk::v3(&v)))), vm, K, "(p*q)*v = p*(q*v)");
    check_vec!(cx, S, vk::a3(&((vp * vq) * vk::v3(&v))), rotate_ref(&p, &rotate_ref(&q, &v)), vm, K, "(p*q)*v vs reference");
    // inverse rotation undoes
    check_vec!(cx, S, vk::a3(&(vq.conjugate() * (vq * vk::v3(&v)))), v, vm, K, "conj(q)*(q*v) = v");
    Ok(())
}

/// Direction pairs. Returns (from, to, class).
fn gen_pair<S: Dom>(t: &mut Tape, cx: &mut Cx) -> ([S; 3], [S; 3]) {
    let sel = t.below(8);
    // vectors whose relevant partial sums of squares are all perfect squares, per 180-degree sub-branch
    const ANTI: [[i64; 3]; 12] = [
        [9, 12, 8],  // |x| > |z|, x^2+y^2 = 15^2, total 17^2
        [12, 9, 8],
        [3, 4, 0],   // |x| > |z| = 0
        [5, 0, 0],   // axis-aligned x
        [8, 9, 12],  // |x| <= |z|, y^2+z^2 = 15^2
        [8, 12, 9],  // |x| <= |z|
        [0, 3, 4],   // x = 0
        [0, 5, 0],   // axis-aligned y, |x| = |z| = 0
        [0, 0, 7],   // axis-aligned z
        [-9, 12, -8],
        [-8, -9, 12],
        [4, 3, 0],
    ];
    // exact domains: any positive rational factor; floats: powers of two, so that scaled copies stay *exactly* (anti)parallel
    let lam = |t: &mut Tape| if S::EXACT { S::q(t.int(1, 9), t.pick(&[1i64, 1, 2, 3, 7])) } else { let e = t.int(-6, 6); if e >= 0 { S::i(1 << e) } else { S::q(1, 1 << -e) } };
    match sel {
        0 | 1 | 2 => {
            // exactly antiparallel
            cx.label("antiparallel");
            let f = ANTI[t.below(ANTI.len())];
            if f[0].abs() > f[2].abs() { cx.label("antiparallel:|x|>|z|") } else if f[0].abs() < f[2].abs() { cx.label("antiparallel:|x|<|z|") } else { cx.label("antiparallel:|x|=|z|") }
            let (a, b) = (lam(t), lam(t));
            let from = [S::i(f[0]) * a, S::i(f[1]) * a, S::i(f[2]) * a];
            let to = [-S::i(f[0]) * b, -S::i(f[1]) * b, -S::i(f[2]) * b];
            (from, to)
        }
        3 => {
            cx.label("parallel");
            let (f, _) = gens::pythagorean3(t);
            let (a, b) = (lam(t), lam(t));
            ([S::i(f[0]) * a, S::i(f[1]) * a, S::i(f[2]) * a], [S::i(f[0]) * b, S::i(f[1]) * b, S::i(f[2]) * b])
        }
        _ => {
            if S::EXACT || t.bool() {
                // from = L * R e_x, to = mu * R (cos th, sin th, 0): every radical in the computation is rational
                cx.label("generic-constructed");
                let r = gens::rotation3::<S>(t);
                let th = S::angle(t);
                let (s, c) = (th.sin(), th.cos());
                let (l, mu) = (lam(t), lam(t));
                let from = rf::scale(&rf::matvec(&r, &[S::one(), S::zero(), S::zero()]), l);
                let to = rf::scale(&rf::matvec(&r, &[c, s, S::zero()]), mu);
                (from, to)
            } else {
                cx.label("generic-random");
                let mut f: [S; 3] = vk::gen_vec(t, 9);
                let mut g: [S; 3] = vk::gen_vec(t, 9);
                if rf::dot(&f, &f).f() < 1e-2 { f = [S::i(1), S::i(2), S::i(-3)]; }
                if rf::dot(&g, &g).f() < 1e-2 { g = [S::i(2), S::i(-1), S::i(1)]; }
                if t.chance(32) {
                    // nearly antiparallel
                    cx.label("nearly-antiparallel");
                    let e = <S as num_traits::NumCast>::from(1e-3).unwrap();
                    g = [-f[0] + e, -f[1], -f[2] + e];
                }
                (f, g)
            }
        }
    }
}

fn from_to<S: Dom>(t: &mut Tape, cx: &mut Cx) -> CaseResult {
    let (from, to) = gen_pair::<S>(t, cx);
    let (fl, tl) = (rf::dot(&from, &from).f().sqrt(), rf::dot(&to, &to).f().sqrt());
    sample!(cx, "{} from={:?} to={:?}", S::NAME, from, to);
    cx.set_nontrivial(from.iter().filter(|x| !x.is_zero()).count() >= 2);
    let q = Quaternion::<S>::rotation_from_to_3d(vk::v3(&from), vk::v3(&to));
    let a = qa(q);
    check_close!(cx, S, norm2(&a), S::one(), 1.0, K, "rotation_from_to_3d returns a unit quaternion");
    let img = rotate_ref(&a, &from);
    // image of `from` is a positive multiple of `to`: cross = 0 and dot > 0
    let cr = rf::cross(&img, &to);
    let sc = (fl * tl).max(1.0) * 4.0;
    // float conditioning: the nearly antiparallel class amplifies rounding by 1/|from+to|; widen there
    let k = if S::EXACT {
        1.0
    } else {
        let u: Vec<f64> = (0..3).map(|i| from[i].f() / fl + to[i].f() / tl).collect();
        let un = (u[0] * u[0] + u[1] * u[1] + u[2] * u[2]).sqrt();
        let exactly_opposite = (0..3).all(|i| from[i].f() * tl == -to[i].f() * fl) || (0..3).all(|i| (from[i].f() / from.iter().map(|x| x.f().abs()).fold(0.0, f64::max)) == -(to[i].f() / to.iter().map(|x| x.f().abs()).fold(0.0, f64::max)));
        if !exactly_opposite && un < 1e-3 {
            discard!("precondition:opposite-within-1e-3-but-not-exactly (ill-conditioned in floats)");
        }
        let cond = if exactly_opposite { 1.0 } else { (2.0 / un).max(1.0) };
        (K * cond * cond).min(1e12)
    };
    check_vec!(cx, S, cr, [S::zero(); 3], sc, k, "q*from is parallel to `to` (cross product)");
    check!(cx, rf::dot(&img, &to) > S::zero(), "q*from points the same way as `to`: dot = {:?} (q={:?}, q*from={:?})", rf::dot(&img, &to), a, img);
    // vek's own application agrees
    check_vec!(cx, S, vk::a3(&(q * vk::v3(&from))), img, fl.max(1.0) * 4.0, K, "q * from (vek) = reference");
    // matrix flavours are the matrix of that quaternion
    let m3 = cm::Mat3::<S>::from(q).to_arr();
    check_mat!(cx, S, cm::Mat3::<S>::rotation_from_to_3d(vk::v3(&from), vk::v3(&to)).to_arr(), m3, 1.0, K, "col Mat3::rotation_from_to_3d");
    check_mat!(cx, S, rm::Mat3::<S>::rotation_from_to_3d(vk::v3(&from), vk::v3(&to)).to_arr(), m3, 1.0, K, "row Mat3::rotation_from_to_3d");
    let m4 = cm::Mat4::<S>::from(q).to_arr();
    check_mat!(cx, S, cm::Mat4::<S>::rotation_from_to_3d(vk::v3(&from), vk::v3(&to)).to_arr(), m4, 1.0, K, "col Mat4::rotation_from_to_3d");
    check_mat!(cx, S, rm::Mat4::<S>::rotation_from_to_3d(vk::v3(&from), vk::v3(&to)).to_arr(), m4, 1.0, K, "row Mat4::rotation_from_to_3d");
    // the matrix maps from onto to as well
    let mi = rf::matvec(&m3, &from);
    check_vec!(cx, S, rf::cross(&mi, &to), [S::zero(); 3], sc, k, "matrix * from parallel to `to`");
    check!(cx, rf::dot(&mi, &to) > S::zero(), "matrix * from points the same way as `to`");
    Ok(())
}

/// Angle-axis extraction (floats): returns an angle and unit axis describing the same rotation.
fn angle_axis<S: Dom>(t: &mut Tape, cx: &mut Cx) -> CaseResult {
    let sel = t.below(10);
    let pi = std::f64::consts::PI;
    let angle_f = match sel {
        0 => 0.0,
        1 => t.pick(&[pi / 2.0, -pi / 2.0, pi, -pi, 1.5 * pi, -1.5 * pi, 1.25 * pi, 1e-3, -1e-3]),
        _ => t.range_f64(-2.0 * pi + 1e-3, 2.0 * pi - 1e-3),
    };
    let cast = |x: f64| <S as num_traits::NumCast>::from(x).unwrap();
    let angle = cast(angle_f);
    let mut ax = [t.range_f64(-1.0, 1.0), t.range_f64(-1.0, 1.0), t.range_f64(-1.0, 1.0)];
    if t.chance(40) {
        ax = [[1.0, 0.0, 0.0], [0.0, -1.0, 0.0], [0.0, 0.0, 1.0]][t.below(3)];
    }
    if ax.iter().map(|x| x * x).sum::<f64>() < 1e-3 {
        ax = [0.6, 0.0, -0.8];
    }
    let axis = [cast(ax[0]), cast(ax[1]), cast(ax[2])];
    if angle_f.abs() > pi { cx.label("beyond-half-turn") } else { cx.label("within-half-turn") }
    cx.set_nontrivial(angle_f.abs() > 1e-2);
    sample!(cx, "{} angle={:?} axis={:?}", S::NAME, angle, axis);
    let q = Quaternion::<S>::rotation_3d(angle, vk::v3(&axis));
    let (a2, ax2) = q.into_angle_axis();
    let ax2a = vk::a3(&ax2);
    // the axis is xyz / sqrt(1 - w^2): cancellation in 1 - w^2 = sin^2(angle/2) amplifies rounding by 1/sin^2(angle/2)
    let sh2 = (angle_f / 2.0).sin().powi(2);
    if sh2 > 1e4 * S::eps() {
        check_close!(cx, S, rf::dot(&ax2a, &ax2a), S::one(), 1.0, 1024.0 / sh2, "extracted axis is unit");
    } else {
        // (numerically) the identity rotation: the axis is not determined by the quaternion to working precision;
        // only "same rotation" below is asserted there
        cx.label("near-identity");
    }
    let slack = cast(64.0 * S::eps());
    check!(cx, a2 >= -slack && a2 <= cast(2.0 * pi) + slack, "extracted angle {:?} not in [0, 2pi]", a2);
    // same rotation: compare the rotation matrices. acos near +-1 loses half the digits: tolerance sqrt(eps)-scaled
    let q2 = Quaternion::<S>::rotation_3d(a2, ax2);
    let m1 = cm::Mat3::<S>::from(q).to_arr();
    let m2 = cm::Mat3::<S>::from(q2).to_arr();
    let tol_k = 64.0 / S::eps().sqrt();
    check_mat!(cx, S, m2, m1, 1.0, tol_k, "rotation_3d(into_angle_axis(q)) is the same rotation as q");
    // and q2 = +-q
    let (a, b) = (qa(q), qa(q2));
    let same = (0..4).all(|i| (a[i].f() - b[i].f()).abs() <= tol_k * S::eps());
    let opp = (0..4).all(|i| (a[i].f() + b[i].f()).abs() <= tol_k * S::eps());
    check!(cx, same || opp, "rebuilt quaternion {:?} is neither q nor -q ({:?})", b, a);
    Ok(())
}

/// Field-exact conversions on opaque terms.
fn conversions(t: &mut Tape, cx: &mut Cx) -> CaseResult {
    let b = t.below(100) as u32;
    let (x, y, z, w) = (Sym::atom(b + 1), Sym::atom(b + 2), Sym::atom(b + 3), Sym::atom(b + 4));
    cx.nontrivial();
    sample!(cx, "Sym x={:?} y={:?} z={:?} w={:?}", x, y, z, w);
    let q = Quaternion::from_xyzw(x, y, z, w);
    check_eq!(cx, (q.x, q.y, q.z, q.w), (x, y, z, w), "from_xyzw");
    let q2 = Quaternion::from_scalar_and_vec3((w, Vec3 { x, y, z }));
    check_eq!(cx, (q2.x, q2.y, q2.z, q2.w), (x, y, z, w), "from_scalar_and_vec3");
    let (s, v) = q.into_scalar_and_vec3();
    check_eq!(cx, (s, v.x, v.y, v.z), (w, x, y, z), "into_scalar_and_vec3");
    let v4: Vec4<Sym> = q.into_vec4();
    check_eq!(cx, (v4.x, v4.y, v4.z, v4.w), (x, y, z, w), "into_vec4");
    let v4b: Vec4<Sym> = Vec4::from(q);
    check_eq!(cx, (v4b.x, v4b.y, v4b.z, v4b.w), (x, y, z, w), "Vec4::from(q)");
    let q3 = Quaternion::from_vec4(Vec4 { x, y, z, w });
    check_eq!(cx, (q3.x, q3.y, q3.z, q3.w), (x, y, z, w), "from_vec4");
    let q4 = Quaternion::from(Vec4 { x, y, z, w });
    check_eq!(cx, (q4.x, q4.y, q4.z, q4.w), (x, y, z, w), "Quaternion::from(Vec4)");
    let v3: Vec3<Sym> = q.into_vec3();
    check_eq!(cx, (v3.x, v3.y, v3.z), (x, y, z), "into_vec3");
    let v3b: Vec3<Sym> = Vec3::from(q);
    check_eq!(cx, (v3b.x, v3b.y, v3b.z), (x, y, z), "Vec3::from(q)");
    let c = q.conjugate();
    check_eq!(cx, (c.x, c.y, c.z, c.w), (-x, -y, -z, w), "conjugate on terms");
    let id = Quaternion::<Sym>::identity();
    check_eq!(cx, (id.x, id.y, id.z, id.w), (Sym::zero(), Sym::zero(), Sym::zero(), Sym::one()), "identity on terms");
    Ok(())
}

pub fn property() -> Property {
    let mut checks = Vec::new();
    macro_rules! tape {
        ($name:expr, $about:expr, $len:expr, $q:expr, $th:expr, $f:expr) => {
            checks.push(Check { name: $name, about: $about, kind: Kind::Tape { len: $len, quick: $q, thorough: $th, f: $f } });
        };
    }
    let a = "Hamilton product vs the i,j,k table; identity neutral; associativity; norm multiplicative; conjugation reverses products; two-sided inverse; + - neg, scalar mul/div, dot, magnitude, normalized, Default/zero";
    tape!("algebra-rat", a, 64, 40_000, 1_000_000, algebra::<Rat>);
    tape!("algebra-f64", a, 128, 20_000, 500_000, algebra::<f64>);
    tape!("algebra-f32", a, 128, 10_000, 250_000, algebra::<f32>);
    let b = "unit quaternion (rational point of S^3) applied to Vec3/Vec4 = q v q* (reference) = Mat3/Mat4::from(q) (both layouts); w bit-identical; (pq)v = p(qv); matrix is a proper rotation";
    tape!("action-rat", b, 64, 30_000, 1_000_000, action::<Rat>);
    tape!("action-f64", b, 96, 20_000, 500_000, action::<f64>);
    let c = "rotation_from_to_3d (quaternion, Mat3, Mat4, both layouts): unit, maps `from` onto a positive multiple of `to` for generic, parallel and exactly antiparallel pairs (every 180-degree sub-branch)";
    tape!("from-to-rat", c, 64, 40_000, 1_000_000, from_to::<Rat>);
    tape!("from-to-f64", c, 96, 40_000, 1_000_000, from_to::<f64>);
    tape!("from-to-f32", c, 96, 10_000, 250_000, from_to::<f32>);
    let d = "into_angle_axis for angles in (-2pi, 2pi): unit axis, angle in [0, 2pi], rebuilding the rotation from them gives the same rotation (+-q)";
    tape!("angle-axis-f64", d, 48, 40_000, 1_000_000, angle_axis::<f64>);
    tape!("angle-axis-f32", d, 48, 20_000, 500_000, angle_axis::<f32>);
    tape!("conversions-sym", "conversions to/from Vec4, Vec3, (scalar, vector), from_xyzw, conjugate, identity are field-exact on opaque terms", 4, 2_000, 20_000, conversions);
    Property {
        id: "C05",
        rule: "arbitrary quaternions with small rational/float components; unit quaternions from the rational parametrisation of S^3; direction pairs by class: exactly antiparallel (12 base vectors covering |x|>|z|, |x|<|z|, |x|=|z|, axis-aligned, scaled by independent rationals), parallel, generic constructed so that every square root is rational, random float pairs incl. nearly antiparallel; angles in (-2pi,2pi); non-trivial = all four components non-zero and pq != qp (algebra/action), from has >= 2 non-zero components (from-to), |angle| > 0.01 (angle-axis); distinct = distinct consumed tape prefix",
        assumptions: &[
            "rustc and the proptest runner/shrinker are trusted",
            "oracle: Hamilton product expanded over the i,j,k multiplication table (vkit::refmath::hamilton), rotation = q (0,v) q*",
            "from-to in floats: tolerance widened by the conditioning factor |from||to| / |from/|from| + to/|to|| for nearly antiparallel pairs",
            "angle-axis: acos near +-1 loses half the digits, so the rebuilt rotation is compared at 64*sqrt(eps)",
        ],
        checks,
        max_discard_frac: 0.2,
    }
}
