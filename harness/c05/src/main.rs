fn main() {
    vkit::driver::main(c05::property())
}
