//! C05 regime checks: unit quaternions next to the identity (rotation angle far below sqrt(eps), `w` rounding to
//! exactly +-1), next to a half turn (`w` ~ 0), many turns, vectors / axes / whole quaternions scaled exactly by 2^k.
//!
//! Oracles are computed in f64 from the *actual* components handed to vek, in a cancellation-free form
//! (`v + 2w(u x v) + 2u x (u x v)`, Rodrigues with `1 - cos = 2 sin^2(angle/2)`), so that the displacement of a
//! tiny rotation is known to full relative precision; the tolerance of every comparison is `c * eps * |v|` (the
//! rounding of the result itself - never `1 + max`), exact power-of-two scaling relations are compared bit for bit.

use crate::{aq, qa};
use std::f64::consts::PI;
use vek::mat::repr_c::column_major as cm;
use vek::mat::repr_c::row_major as rm;
use vek::quaternion::repr_c::Quaternion;
use vkit::gens;
use vkit::refmath as rf;
use vkit::regimes::{self, pow2, safe_exp, scale_exp, scale_label};
use vkit::vk::{self, MatN};
use vkit::*;

/// Rounding budget (in units of eps * |v|) of one application `q * v`: two Hamilton products of four terms each
/// (<= ~16 eps |v| worst case), the cast of the oracle, the non-unit-ness of a rounded unit quaternion (2 eps).
pub const C_ACT: f64 = 32.0;

pub fn cast<S: Dom>(x: f64) -> S {
    <S as num_traits::NumCast>::from(x).unwrap()
}
/// Smallest positive subnormal of the domain (0 for exact domains).
pub fn denorm<S: Dom>() -> f64 {
    if S::EXACT {
        0.0
    } else {
        S::min_positive_value().f() * S::eps()
    }
}
fn norm3(v: &[f64; 3]) -> f64 {
    (v[0] * v[0] + v[1] * v[1] + v[2] * v[2]).sqrt()
}
pub fn f3<S: Dom>(v: &[S; 3]) -> [f64; 3] {
    [v[0].f(), v[1].f(), v[2].f()]
}
/// v rotated by the (unit) quaternion (w, x, y, z), f64, no cancellation against v: v + 2w(u x v) + 2u x (u x v).
pub fn rot64(q: &[f64; 4], v: &[f64; 3]) -> [f64; 3] {
    let u = [q[1], q[2], q[3]];
    let uv = rf::cross(&u, v);
    let uuv = rf::cross(&u, &uv);
    [v[0] + 2.0 * (q[0] * uv[0] + uuv[0]), v[1] + 2.0 * (q[0] * uv[1] + uuv[1]), v[2] + 2.0 * (q[0] * uv[2] + uuv[2])]
}
/// Axis-angle definition (Rodrigues) in f64, `1 - cos` taken as `2 sin^2(angle/2)`: v + sin(a) k x v + (1 - cos a) k x (k x v).
pub fn rod64(k: &[f64; 3], angle: f64, v: &[f64; 3]) -> [f64; 3] {
    let kv = rf::cross(k, v);
    let kkv = rf::cross(k, &kv);
    let s = angle.sin();
    let sh = (angle / 2.0).sin();
    let c1 = 2.0 * sh * sh;
    [v[0] + s * kv[0] + c1 * kkv[0], v[1] + s * kv[1] + c1 * kkv[1], v[2] + s * kv[2] + c1 * kkv[2]]
}
/// Rotation matrix of the (unit) quaternion (w, x, y, z) in f64: I + 2w [u]x + 2 (u u^T - |u|^2 I).
fn mat64(q: &[f64; 4]) -> [[f64; 3]; 3] {
    let (w, x, y, z) = (q[0], q[1], q[2], q[3]);
    [
        [1.0 - 2.0 * (y * y + z * z), 2.0 * (x * y - z * w), 2.0 * (x * z + y * w)],
        [2.0 * (x * y + z * w), 1.0 - 2.0 * (x * x + z * z), 2.0 * (y * z - x * w)],
        [2.0 * (x * z - y * w), 2.0 * (y * z + x * w), 1.0 - 2.0 * (x * x + y * y)],
    ]
}

/// A unit rotation axis (f64) and, when it is an integer vector of integer length, that integer vector.
fn gen_axis(t: &mut Tape) -> ([f64; 3], Option<[i64; 3]>) {
    if t.bool() {
        let (v, len) = gens::pythagorean3(t);
        ([v[0] as f64 / len as f64, v[1] as f64 / len as f64, v[2] as f64 / len as f64], Some(v))
    } else {
        let mut a = [t.range_f64(-1.0, 1.0), t.range_f64(-1.0, 1.0), t.range_f64(-1.0, 1.0)];
        if a.iter().map(|x| x * x).sum::<f64>() < 1e-2 {
            a = [0.6, 0.0, -0.8];
        }
        let n = norm3(&a);
        ([a[0] / n, a[1] / n, a[2] / n], None)
    }
}

/// Rotation angle by regime (f64 value that is exactly representable in S after the cast), with its label.
fn gen_angle<S: Dom>(t: &mut Tape) -> (f64, &'static str) {
    let f32ish = S::eps() > 1e-10;
    let min_exp: i64 = if f32ish { 30 } else { 60 };
    // resolution of an angle next to pi or 2 pi: eps * 8
    let turn_exp: i64 = if f32ish { 18 } else { 45 };
    let sign = if t.bool() { -1.0 } else { 1.0 };
    let (a, lab) = match t.below(8) {
        0 | 1 | 2 => {
            // two thirds down to 2^-min_exp (where the displacement is still visible against |v|), one third further down
            // to the bottom of the normal range (rotations by 1e-25 and less: vector part far below eps^2)
            let e = if t.below(3) < 2 { t.int(3, min_exp) } else { t.int(min_exp, if f32ish { 120 } else { 1000 }) } as i32;
            (sign * crate::spread::p2f(-e) * (1.0 + t.unit_f64()), "small angle")
        }
        3 => {
            let m = t.int(1, 2) as f64;
            let d = (2.0f64).powi(-(t.int(3, turn_exp) as i32)) * (1.0 + t.unit_f64());
            (sign * (2.0 * PI * m + if t.bool() { d } else { -d }), "next to a full turn")
        }
        4 => {
            let d = (2.0f64).powi(-(t.int(3, turn_exp) as i32)) * (1.0 + t.unit_f64());
            (sign * (PI + if t.bool() { d } else { -d }), "next to a half turn")
        }
        _ => regimes::angle_regime(t, min_exp as i32, 10),
    };
    (cast::<S>(a).f(), lab)
}

/// Unit quaternion (w,x,y,z) of the rotation by `angle` about the unit axis `k`, built without vek in f64, and its cast to S.
fn quat_of<S: Dom>(k: &[f64; 3], angle: f64) -> ([f64; 4], [S; 4]) {
    let (sh, ch) = (angle / 2.0).sin_cos();
    let q64 = [ch, k[0] * sh, k[1] * sh, k[2] * sh];
    (q64, [cast(q64[0]), cast(q64[1]), cast(q64[2]), cast(q64[3])])
}

/// Unit quaternions by angle regime applied to vectors of every magnitude (floats).
pub fn near_identity<S: Dom>(t: &mut Tape, cx: &mut Cx) -> CaseResult {
    let eps = S::eps();
    let (theta, lab) = gen_angle::<S>(t);
    let theta_s: S = cast(theta);
    let (kf, kint) = gen_axis(t);
    let (q64, q) = quat_of::<S>(&kf, theta);
    let vq = aq(&q);
    let qd = [q[0].f(), q[1].f(), q[2].f(), q[3].f()];
    let sh = (theta / 2.0).sin();
    cx.label(lab);
    if qd[0] == 1.0 && sh != 0.0 {
        cx.label("q.w rounds to exactly 1, vector part non-zero");
    }
    if qd[0] == -1.0 && sh != 0.0 {
        cx.label("q.w rounds to exactly -1, vector part non-zero");
    }
    // the vector: moderate components, all lengths scaled exactly by 2^k
    let mut base: [S; 3] = vk::gen_vec(t, 9);
    if base.iter().all(|x| x.is_zero()) {
        base = [S::i(1), S::i(2), S::i(-3)];
    }
    let kexp = scale_exp(t, safe_exp::<S>());
    let sc = pow2::<S>(kexp);
    cx.label(scale_label(kexp));
    let v = [base[0] * sc, base[1] * sc, base[2] * sc];
    let w4 = S::any(t, 9) * sc;
    let vd = f3(&v);
    let vn = norm3(&vd);
    let tol = C_ACT * eps * vn;
    let want = rot64(&qd, &vd);
    let disp = norm3(&[want[0] - vd[0], want[1] - vd[1], want[2] - vd[2]]);
    cx.set_nontrivial(disp > 8.0 * tol && base.iter().all(|x| !x.is_zero()));
    sample!(cx, "{} angle={:e} ({}) axis={:?} q(w,x,y,z)={:?} v={:?} (2^{}) displacement/|v|={:.3e}", S::NAME, theta, lab, kf, q, v, kexp, disp / vn);

    // 1. q * Vec3 and q * Vec4 against the definition q (0,v) q*
    let got3 = vk::a3(&(vq * vk::v3(&v)));
    check_near_vec!(cx, got3, want, tol, "q * Vec3 vs q (0,v) q* [{} q={:?} v={:?}]", lab, q, v);
    let r4 = vq * vk::v4(&[v[0], v[1], v[2], w4]);
    check_near_vec!(cx, [r4.x, r4.y, r4.z], want, tol, "q * Vec4 (xyz) vs q (0,v) q* [{} q={:?} v={:?}]", lab, q, v);
    check!(cx, r4.w == w4 && r4.w.f().to_bits() == w4.f().to_bits(), "q * Vec4 must leave w untouched: got {:?}, want {:?}", r4.w, w4);
    check_eq!(cx, [r4.x, r4.y, r4.z], got3, "q * Vec4 rotates xyz exactly like q * Vec3");
    // 2. the axis-angle definition (independent of the quaternion formulas)
    let wr = rod64(&kf, theta, &vd);
    check_near_vec!(cx, got3, wr, tol, "q * Vec3 vs Rodrigues(axis, angle) [{} angle={:e} axis={:?} q={:?} v={:?}]", lab, theta, kf, q, v);
    // 3. the matrices converted from q (both layouts, 3x3 and 4x4) act the same way
    let m3c = cm::Mat3::<S>::from(vq).to_arr();
    let m3r = rm::Mat3::<S>::from(vq).to_arr();
    let m4c = cm::Mat4::<S>::from(vq).to_arr();
    let m4r = rm::Mat4::<S>::from(vq).to_arr();
    check_near_vec!(cx, rf::matvec(&m3c, &v), want, tol, "col Mat3::from(q) * v [{} q={:?} v={:?}]", lab, q, v);
    check_near_vec!(cx, rf::matvec(&m3r, &v), want, tol, "row Mat3::from(q) * v [{} q={:?} v={:?}]", lab, q, v);
    for (name, m4) in [("col", &m4c), ("row", &m4r)] {
        let r = rf::matvec(m4, &[v[0], v[1], v[2], S::zero()]);
        check_near_vec!(cx, [r[0], r[1], r[2]], want, tol, "{} Mat4::from(q) on the direction [{} q={:?} v={:?}]", name, lab, q, v);
        check_eq!(cx, r[3], S::zero(), "{} Mat4::from(q) keeps w = 0", name);
    }
    // the matrix entries themselves: I + 2w[u]x + 2(uu^T - |u|^2 I); diagonal to eps, off-diagonal relative to |u| (the
    // entries that carry a small rotation must not be rounded against 1)
    let m64 = mat64(&qd);
    let umax = qd[1].abs().max(qd[2].abs()).max(qd[3].abs());
    let tol_off = 32.0 * eps * umax * (umax + qd[0].abs()) + 4.0 * denorm::<S>();
    for (name, m) in [("col Mat3", &m3c), ("row Mat3", &m3r)] {
        for i in 0..3 {
            for j in 0..3 {
                let tl = if i == j { 16.0 * eps } else { tol_off };
                check_near!(cx, m[i][j].f(), m64[i][j], tl, "{}::from(q) element ({},{}) [{} q={:?}]", name, i, j, lab, q);
            }
        }
    }
    for i in 0..3 {
        for j in 0..3 {
            let tl = if i == j { 16.0 * eps } else { tol_off };
            check_near!(cx, m4c[i][j].f(), m64[i][j], tl, "col Mat4::from(q) element ({},{}) [{} q={:?}]", i, j, lab, q);
        }
    }
    check_eq!(cx, m4c, m4r, "Mat4::from(q) is the same abstract matrix in both layouts");
    // 4. the inverse rotation undoes
    let back = vk::a3(&(vq.conjugate() * (vq * vk::v3(&v))));
    check_near_vec!(cx, back, vd, 2.0 * tol, "conj(q) * (q * v) = v [{} q={:?} v={:?}]", lab, q, v);
    // 5. exact scaling: every operation of q * v is linear in v, so q * (2^k v) = 2^k (q * v) bit for bit unless an
    // intermediate underflows (then within a few subnormal units, times 2^k when the unscaled run underflowed and k > 0)
    if kexp != 0 {
        let r0 = vk::a3(&(vq * vk::v3(&base)));
        let r0s = [r0[0] * sc, r0[1] * sc, r0[2] * sc];
        for i in 0..3 {
            cx.count();
            if !(got3[i] == r0s[i] || (got3[i].f() - r0s[i].f()).abs() <= 64.0 * denorm::<S>() * sc.f().max(1.0)) {
                fail!("q * (2^{} v) != 2^{} (q * v) in component {}: got {:?}, want {:?} [{} q={:?} v={:?}]", kexp, kexp, i, got3[i], r0s[i], lab, q, base);
            }
        }
    }
    // 6. step by step against the composed quaternion and against the axis-angle definition of n * angle
    let m = t.int(1, 6) as u32;
    let n = 1u32 << m;
    let mut r = vk::v3(&v);
    let mut r4s = vk::v4(&[v[0], v[1], v[2], w4]);
    for _ in 0..n {
        r = vq * r;
        r4s = vq * r4s;
    }
    let mut qn = vq;
    for _ in 0..m {
        qn = qn * qn;
    }
    let wn = rod64(&kf, n as f64 * theta, &vd);
    let tol_n = (n as f64 + 2.0) * tol;
    check_near_vec!(cx, vk::a3(&r), wn, tol_n, "q applied {} times step by step (Vec3) vs rotation by {} * angle [{} angle={:e} axis={:?} q={:?} v={:?}]", n, n, lab, theta, kf, q, v);
    check_near_vec!(cx, [r4s.x, r4s.y, r4s.z], wn, tol_n, "q applied {} times step by step (Vec4) vs rotation by {} * angle [{} angle={:e} axis={:?} q={:?} v={:?}]", n, n, lab, theta, kf, q, v);
    check!(cx, r4s.w.f().to_bits() == w4.f().to_bits(), "q * Vec4 repeated must leave w untouched");
    check_near_vec!(cx, vk::a3(&(qn * vk::v3(&v))), wn, tol_n, "q^{} (composed) * v vs rotation by {} * angle [{} angle={:e} axis={:?} q={:?} q^n={:?} v={:?}]", n, n, lab, theta, kf, q, qa(qn), v);
    // 7. composition with a second rotation (ordinary or small): (p*q)*v = p*(q*v) = reference
    let (pk, _) = gen_axis(t);
    let pang = if t.bool() { t.range_f64(-PI, PI) } else { gen_angle::<S>(t).0 };
    let (_, p) = quat_of::<S>(&pk, cast::<S>(pang).f());
    let vp = aq(&p);
    let pd = [p[0].f(), p[1].f(), p[2].f(), p[3].f()];
    let wpq = rot64(&pd, &want);
    check_near_vec!(cx, vk::a3(&((vp * vq) * vk::v3(&v))), wpq, 3.0 * tol, "(p*q)*v vs reference [{} p={:?} q={:?} v={:?}]", lab, p, q, v);
    check_near_vec!(cx, vk::a3(&(vp * (vq * vk::v3(&v)))), wpq, 3.0 * tol, "p*(q*v) vs reference [{} p={:?} q={:?} v={:?}]", lab, p, q, v);
    let wqp = rot64(&qd, &rot64(&pd, &vd));
    check_near_vec!(cx, vk::a3(&((vq * vp) * vk::v3(&v))), wqp, 3.0 * tol, "(q*p)*v vs reference [{} p={:?} q={:?} v={:?}]", lab, p, q, v);
    // 8. vek's own angle-axis constructor (axis of any length: integer axis or cast unit axis, scaled exactly by 2^j)
    let jexp = scale_exp(t, safe_exp::<S>());
    let axis0: [S; 3] = match kint {
        Some(iv) => [S::i(iv[0]), S::i(iv[1]), S::i(iv[2])],
        None => [cast(kf[0]), cast(kf[1]), cast(kf[2])],
    };
    let js = pow2::<S>(jexp);
    let axis = [axis0[0] * js, axis0[1] * js, axis0[2] * js];
    let qr = Quaternion::<S>::rotation_3d(theta_s, vk::v3(&axis));
    let qra = qa(qr);
    let tol_u = 16.0 * eps * sh.abs() + 4.0 * denorm::<S>();
    check_near!(cx, qra[0].f(), q64[0], 4.0 * eps, "rotation_3d(angle, axis).w vs cos(angle/2) [{} angle={:e} axis={:?}]", lab, theta, axis);
    for i in 1..4 {
        check_near!(cx, qra[i].f(), q64[i], tol_u, "rotation_3d(angle, axis) component {} vs axis * sin(angle/2), relative to |sin(angle/2)| [{} angle={:e} axis={:?}]", i, lab, theta, axis);
    }
    check_near_vec!(cx, vk::a3(&(qr * vk::v3(&v))), wr, 1.5 * tol, "rotation_3d(angle, axis) * v vs Rodrigues [{} angle={:e} axis={:?} v={:?}]", lab, theta, axis, v);
    if jexp != 0 {
        let qr0 = qa(Quaternion::<S>::rotation_3d(theta_s, vk::v3(&axis0)));
        for i in 0..4 {
            cx.count();
            if !(qra[i] == qr0[i] || (qra[i].f() - qr0[i].f()).abs() <= 2.0 * eps * sh.abs() + 4.0 * denorm::<S>()) {
                fail!("rotation_3d(angle, 2^{} axis) != rotation_3d(angle, axis) in component {}: {:?} vs {:?} [{} angle={:e} axis={:?}]", jexp, i, qra[i], qr0[i], lab, theta, axis0);
            }
        }
    }
    Ok(())
}

/// Non-unit quaternions of tiny / huge norm: every algebraic operation commutes exactly with scaling by 2^k.
pub fn algebra_scale<S: Dom>(t: &mut Tape, cx: &mut Cx) -> CaseResult {
    let gen = |t: &mut Tape| -> [S; 4] {
        // small fractions: non-zero components have magnitude in [1/8, 9], so no intermediate of a scaled copy leaves
        // the normal range and scaling by 2^k must commute bit for bit
        let mut q = [S::small(t, 9), S::small(t, 9), S::small(t, 9), S::small(t, 9)];
        if q.iter().all(|x| x.is_zero()) {
            q[0] = S::one();
        }
        q
    };
    let (p0, q0) = (gen(t), gen(t));
    let kmax = match S::NAME {
        "f32" => 24,
        "f64" => 200,
        _ => 10,
    };
    let (mut a, b) = (scale_exp(t, kmax), scale_exp(t, kmax));
    if a == 0 && b == 0 {
        a = if t.bool() { kmax } else { -kmax };
    }
    let (sa, sb) = (pow2::<S>(a), pow2::<S>(b));
    let sab = sa * sb;
    let scl = |q: &[S; 4], s: S| [q[0] * s, q[1] * s, q[2] * s, q[3] * s];
    let (p, q) = (scl(&p0, sa), scl(&q0, sb));
    cx.label(scale_label(a));
    cx.label(scale_label(b));
    cx.set_nontrivial(p0.iter().all(|x| !x.is_zero()) && q0.iter().all(|x| !x.is_zero()));
    sample!(cx, "{} p={:?} * 2^{} q={:?} * 2^{} (w,x,y,z)", S::NAME, p0, a, q0, b);
    let (vp, vq, vp0, vq0) = (aq(&p), aq(&q), aq(&p0), aq(&q0));
    let kk = crate::K;
    let pm = p.iter().fold(0.0f64, |m, x| m.max(x.f().abs()));
    let qm = q.iter().fold(0.0f64, |m, x| m.max(x.f().abs()));
    // Hamilton product: exact scaling and the table, tolerance relative to |p||q|
    check_eq!(cx, qa(vp * vq), scl(&qa(vp0 * vq0), sab), "(2^{} p) * (2^{} q) = 2^{} (p * q) exactly", a, b, a + b);
    check_eq!(cx, qa(vq * vp), scl(&qa(vq0 * vp0), sab), "(2^{} q) * (2^{} p) = 2^{} (q * p) exactly", b, a, a + b);
    check_vec!(cx, S, qa(vp * vq), rf::hamilton(&p, &q), 0.0, kk * 4.0 * pm * qm, "p*q vs Hamilton table (relative to |p||q|)");
    let id = Quaternion::<S>::identity();
    check_eq!(cx, qa(vp * id), p, "p * 1 = p");
    check_eq!(cx, qa(id * vp), p, "1 * p = p");
    check_eq!(cx, qa(vp.conjugate()), [p[0], -p[1], -p[2], -p[3]], "conjugate");
    check_eq!(cx, vp.dot(vq), vp0.dot(vq0) * sab, "dot scales exactly");
    check_close!(cx, S, crate::norm2(&qa(vp * vq)), crate::norm2(&p) * crate::norm2(&q), 0.0, kk * (4.0 * pm * qm) * (4.0 * pm * qm), "|pq|^2 = |p|^2 |q|^2 (relative)");
    // inverse: two-sided inverse of any non-zero quaternion, whatever its norm
    let n = crate::norm2(&q);
    let inv = vq.inverse();
    let inv0 = vq0.inverse();
    check_eq!(cx, qa(inv), scl(&qa(inv0), S::one() / sb), "inverse(2^{} q) = 2^{} inverse(q) exactly [q={:?}]", b, -b, q0);
    let want_inv = [q[0] / n, -q[1] / n, -q[2] / n, -q[3] / n];
    check_vec!(cx, S, qa(inv), want_inv, 0.0, kk * qm / n.f(), "inverse = conjugate / |q|^2 (relative) [q={:?} * 2^{}]", q0, b);
    let one = [S::one(), S::zero(), S::zero(), S::zero()];
    check_vec!(cx, S, qa(vq * inv), one, 1.0, kk, "q * q^-1 = 1 [q={:?} * 2^{}]", q0, b);
    check_vec!(cx, S, qa(inv * vq), one, 1.0, kk, "q^-1 * q = 1 [q={:?} * 2^{}]", q0, b);
    check_eq!(cx, vq.magnitude_squared(), vq0.magnitude_squared() * sb * sb, "magnitude_squared scales exactly");
    if !S::EXACT {
        check_eq!(cx, vq.magnitude(), vq0.magnitude() * sb, "magnitude(2^{} q) = 2^{} magnitude(q) exactly [q={:?}]", b, b, q0);
        let nq = qa(vq.normalized());
        check_eq!(cx, nq, qa(vq0.normalized()), "normalized(2^{} q) = normalized(q) exactly [q={:?}]", b, q0);
        check_close!(cx, S, crate::norm2(&nq), S::one(), 1.0, 16.0, "normalized is unit [q={:?} * 2^{}]", q0, b);
        let mq = n.f().sqrt();
        for i in 0..4 {
            check_near!(cx, nq[i].f() * mq, q[i].f(), 16.0 * S::eps() * qm, "normalized is parallel (component {}) [q={:?} * 2^{}]", i, q0, b);
        }
    }
    Ok(())
}
