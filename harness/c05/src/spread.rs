//! C05 regime checks, part 2: quaternions (and vectors) whose components have INDEPENDENT binary exponents -
//! each component is sign * mantissa * 2^(k_i), the k_i spread over the whole range in which the sum of squares stays
//! finite (the smallest squares underflow), every sign pattern, zeros, unit quaternions with one tiny component.
//!
//! Oracles: sum of squares / signed sums of products over the i,j,k table evaluated in double-double arithmetic
//! (error-free products by fma, compensated sums) on the exact f64 values of the components handed to vek, so the
//! reference is correct to ~1e-30 relative; comparisons are relative to the result (magnitude, normalized, inverse:
//! component by component) resp. to the sum of the absolute values of the terms of a component (products, dot) -
//! the backward-stable bound of any evaluation of that sum. Nothing is compared against `1 + max`.

use crate::regime::{cast, denorm, f3, rot64};
use crate::{aq, qa};
use vek::mat::repr_c::column_major as cm;
use vek::mat::repr_c::row_major as rm;
use vek::quaternion::repr_c::Quaternion;
use vkit::refmath as rf;
use vkit::regimes::pow2;
use vkit::vk::{self, MatN};
use vkit::*;

/// Exactly 2^k as f64 (normal or subnormal), k in [-1074, 1023].
pub fn p2f(k: i32) -> f64 {
    if k >= -1022 {
        f64::from_bits(((k + 1023) as u64) << 52)
    } else {
        f64::from_bits(1u64 << (k + 1074))
    }
}
fn p2<S: Dom>(k: i32) -> S {
    if S::EXACT {
        pow2::<S>(k)
    } else {
        cast(p2f(k))
    }
}
fn two_prod(a: f64, b: f64) -> (f64, f64) {
    let p = a * b;
    (p, a.mul_add(b, -p))
}
fn two_sum(a: f64, b: f64) -> (f64, f64) {
    let s = a + b;
    let bb = s - a;
    (s, (a - (s - bb)) + (b - bb))
}
/// sum a_i b_i in double-double: (hi, lo, sum |a_i b_i|).
fn dot_dd(a: &[f64], b: &[f64]) -> (f64, f64, f64) {
    let (mut hi, mut lo, mut abs) = (0.0f64, 0.0f64, 0.0f64);
    for i in 0..a.len() {
        let (p, e) = two_prod(a[i], b[i]);
        let (s, e2) = two_sum(hi, p);
        hi = s;
        lo += e + e2;
        abs += p.abs();
    }
    let (h, l) = two_sum(hi, lo);
    (h, l, abs)
}
/// sqrt of the double-double (hi, lo), rounded to f64 (one Newton correction of the f64 root).
fn sqrt_dd(hi: f64, lo: f64) -> f64 {
    if hi <= 0.0 {
        return 0.0;
    }
    let r = hi.sqrt();
    let (p, e) = two_prod(r, r);
    let d = ((hi - p) - e) + lo;
    r + d / (2.0 * r)
}
/// (|q|, |q|^2) of the exact components, correct to well below an ulp of f64.
fn norm_ref(q: &[f64; 4]) -> (f64, f64) {
    let (h, l, _) = dot_dd(q, q);
    (sqrt_dd(h, l), h)
}
/// Hamilton product over the i,j,k table in double-double: per component (value, sum of |terms|). (w,x,y,z) order.
fn hamilton_ref(p: &[f64; 4], q: &[f64; 4]) -> [(f64, f64); 4] {
    // component c = sum over (a, b, sign)
    const T: [[(usize, usize, f64); 4]; 4] = [
        [(0, 0, 1.0), (1, 1, -1.0), (2, 2, -1.0), (3, 3, -1.0)],
        [(0, 1, 1.0), (1, 0, 1.0), (2, 3, 1.0), (3, 2, -1.0)],
        [(0, 2, 1.0), (2, 0, 1.0), (3, 1, 1.0), (1, 3, -1.0)],
        [(0, 3, 1.0), (3, 0, 1.0), (1, 2, 1.0), (2, 1, -1.0)],
    ];
    let mut out = [(0.0, 0.0); 4];
    for c in 0..4 {
        let a: Vec<f64> = T[c].iter().map(|&(i, _, s)| s * p[i]).collect();
        let b: Vec<f64> = T[c].iter().map(|&(_, j, _)| q[j]).collect();
        let (h, _, abs) = dot_dd(&a, &b);
        out[c] = (h, abs);
    }
    out
}

/// N components sign * mantissa * 2^(k_i): one dominant component with exponent in [klo, khi], the others lower by
/// independent gaps (comparable / 2^8..2^70 / 2^60..2^160 / up to the bottom of the range), clamped at `floor`.
pub fn gen_spread<S: Dom, const N: usize>(t: &mut Tape, cx: &mut Cx, klo: i32, khi: i32, floor: i32) -> [S; N] {
    let d = t.below(N);
    let kd = t.int(klo as i64, khi as i64) as i32;
    // sign pattern: free / dominant negative and the rest non-negative / all non-positive / all non-negative
    let pat = t.below(6);
    let mut out = [S::zero(); N];
    let mut maxgap = 0;
    let mut zeros = false;
    for i in 0..N {
        let gap = if i == d {
            0
        } else {
            (match t.below(5) {
                0 => t.int(0, 8),
                1 => t.int(8, 70),
                2 => t.int(60, 160),
                3 => t.int(150, 1100),
                _ => t.int(0, 2200),
            }) as i32
        };
        let k = (kd - gap).max(floor);
        let mant = match t.below(4) {
            0 => 1.0,
            1 => 1.5,
            _ if S::EXACT => t.pick(&[1.25, 1.75]),
            _ => 1.0 + t.unit_f64(),
        };
        let neg = match pat {
            0 => i == d,
            1 => true,
            2 => false,
            _ => t.bool(),
        };
        if i != d && t.chance(40) {
            zeros = true;
            continue;
        }
        maxgap = maxgap.max(kd - k);
        let m: S = cast(if neg { -mant } else { mant });
        out[i] = m * p2::<S>(k);
    }
    cx.label(match pat {
        0 => "signs: dominant component negative, the others non-negative",
        1 => "signs: all non-positive",
        2 => "signs: all non-negative",
        _ => "signs: free",
    });
    cx.label(if maxgap <= 8 {
        "exponent spread <= 8"
    } else if maxgap <= 64 {
        "exponent spread 9..64"
    } else if maxgap <= 160 {
        "exponent spread 65..160"
    } else {
        "exponent spread > 160"
    });
    if zeros {
        cx.label("zero component(s)");
    }
    out
}
fn f4<S: Dom>(q: &[S; 4]) -> [f64; 4] {
    [q[0].f(), q[1].f(), q[2].f(), q[3].f()]
}

/// Float domains.
pub fn spread<S: Dom>(t: &mut Tape, cx: &mut Cx) -> CaseResult {
    let eps = S::eps();
    let dn = denorm::<S>();
    let f32ish = eps > 1e-10;
    // dominant exponent range such that 4 * max^2 is finite and max^2 is far inside the normal range
    let (klo, khi, floor) = if f32ish { (-50, 61, -149) } else { (-480, 509, -1074) };
    // ---- one quaternion over the full range: magnitude, magnitude_squared, normalized, inverse, conjugate
    let r: [S; 4] = gen_spread::<S, 4>(t, cx, klo, khi, floor);
    let rd = f4(&r);
    let vr = aq(&r);
    let (m, n) = norm_ref(&rd);
    cx.set_nontrivial(r.iter().filter(|x| !x.is_zero()).count() >= 3);
    sample!(cx, "{} r(w,x,y,z)={:?} |r|={:e}", S::NAME, r, m);
    check_near!(cx, vr.magnitude().f(), m, 8.0 * eps * m, "magnitude [q(w,x,y,z)={:?}]", r);
    check_near!(cx, vr.magnitude_squared().f(), n, 8.0 * eps * n, "magnitude_squared [q(w,x,y,z)={:?}]", r);
    check_near!(cx, vr.dot(vr).f(), n, 8.0 * eps * n, "dot(q, q) [q(w,x,y,z)={:?}]", r);
    let nq = qa(vr.normalized());
    for i in 0..4 {
        let want = rd[i] / m;
        check_near!(cx, nq[i].f(), want, 8.0 * eps * want.abs() + 2.0 * dn, "normalized component {} (relative to itself) [q(w,x,y,z)={:?}]", i, r);
    }
    check_near!(cx, aq(&nq).magnitude().f(), 1.0, 8.0 * eps, "magnitude(normalized(q)) [q(w,x,y,z)={:?}]", r);
    let cj = qa(vr.conjugate());
    check_eq!(cx, cj, [r[0], -r[1], -r[2], -r[3]], "conjugate");
    check_eq!(cx, qa(-vr), [-r[0], -r[1], -r[2], -r[3]], "neg");
    let inv = vr.inverse();
    let ia = qa(inv);
    for i in 0..4 {
        let want = (if i == 0 { rd[i] } else { -rd[i] }) / n;
        check_near!(cx, ia[i].f(), want, 8.0 * eps * want.abs() + 2.0 * dn, "inverse component {} = conj / |q|^2 (relative to itself) [q(w,x,y,z)={:?}]", i, r);
    }
    let one = [1.0, 0.0, 0.0, 0.0];
    check_near_vec!(cx, qa(vr * inv), one, 16.0 * eps, "q * q^-1 = 1 [q(w,x,y,z)={:?}]", r);
    check_near_vec!(cx, qa(inv * vr), one, 16.0 * eps, "q^-1 * q = 1 [q(w,x,y,z)={:?}]", r);
    let id = Quaternion::<S>::identity();
    check_eq!(cx, qa(vr * id), r, "q * 1 = q");
    check_eq!(cx, qa(id * vr), r, "1 * q = q");

    // ---- two quaternions over half the range (so that |pq| stays inside it): product, dot, norm multiplicative
    let (hlo, hhi) = if f32ish { (-25, 28) } else { (-240, 250) };
    let p: [S; 4] = gen_spread::<S, 4>(t, cx, hlo, hhi, floor);
    let q: [S; 4] = gen_spread::<S, 4>(t, cx, hlo, hhi, floor);
    let (pd, qd) = (f4(&p), f4(&q));
    let (vp, vq) = (aq(&p), aq(&q));
    sample!(cx, "{} p={:?} q={:?}", S::NAME, p, q);
    for (name, got, want) in [("p*q", qa(vp * vq), hamilton_ref(&pd, &qd)), ("q*p", qa(vq * vp), hamilton_ref(&qd, &pd))] {
        for c in 0..4 {
            check_near!(cx, got[c].f(), want[c].0, 8.0 * eps * want[c].1 + 4.0 * dn, "{} component {} vs the i,j,k table (relative to the sum of |terms|) [p={:?} q={:?}]", name, c, p, q);
        }
    }
    let (dh, _, dabs) = dot_dd(&pd, &qd);
    check_near!(cx, vp.dot(vq).f(), dh, 8.0 * eps * dabs + 4.0 * dn, "dot(p, q) (relative to the sum of |terms|) [p={:?} q={:?}]", p, q);
    let (mp, _) = norm_ref(&pd);
    let (mq, _) = norm_ref(&qd);
    check_near!(cx, (vp * vq).magnitude().f(), mp * mq, 32.0 * eps * mp * mq, "|p*q| = |p| |q| [p={:?} q={:?}]", p, q);
    let (l, rr) = (qa((vp * vq).conjugate()), qa(vq.conjugate() * vp.conjugate()));
    let hr = hamilton_ref(&pd, &qd);
    for c in 0..4 {
        check_near!(cx, l[c].f(), rr[c].f(), 16.0 * eps * hr[c].1 + 8.0 * dn, "conj(pq) = conj(q) conj(p), component {} [p={:?} q={:?}]", c, p, q);
    }
    check_eq!(cx, qa(vp + vq), [p[0] + q[0], p[1] + q[1], p[2] + q[2], p[3] + q[3]], "p + q");
    check_eq!(cx, qa(vp - vq), [p[0] - q[0], p[1] - q[1], p[2] - q[2], p[3] - q[3]], "p - q");
    let s = gen_spread::<S, 1>(t, cx, hlo, hhi, floor)[0];
    check_eq!(cx, qa(vp * s), [p[0] * s, p[1] * s, p[2] * s, p[3] * s], "p * s");
    check_eq!(cx, qa(vp / s), [p[0] / s, p[1] / s, p[2] / s, p[3] / s], "p / s");

    // ---- a UNIT quaternion with spread components (e.g. (5e-26, 0, 0, -1) = -rotation_x(-1e-25)) and its action
    let c0: [S; 4] = gen_spread::<S, 4>(t, cx, -2, 2, floor);
    let cd = f4(&c0);
    let (mc, _) = norm_ref(&cd);
    let u: [S; 4] = [cast(cd[0] / mc), cast(cd[1] / mc), cast(cd[2] / mc), cast(cd[3] / mc)];
    let ud = f4(&u);
    let vu = aq(&u);
    let (mu, nu) = norm_ref(&ud);
    check_near!(cx, vu.magnitude().f(), mu, 8.0 * eps, "magnitude of a unit quaternion [q(w,x,y,z)={:?}]", u);
    check_near!(cx, vu.magnitude_squared().f(), nu, 8.0 * eps, "magnitude_squared of a unit quaternion [q(w,x,y,z)={:?}]", u);
    let (nu_, iu) = (qa(vu.normalized()), qa(vu.inverse()));
    for i in 0..4 {
        check_near!(cx, nu_[i].f(), ud[i] / mu, 8.0 * eps * ud[i].abs() + 2.0 * dn, "normalized(unit q) component {} (relative to itself) [q(w,x,y,z)={:?}]", i, u);
        let want = (if i == 0 { ud[i] } else { -ud[i] }) / nu;
        check_near!(cx, iu[i].f(), want, 8.0 * eps * ud[i].abs() + 2.0 * dn, "inverse(unit q) component {} = conjugate (relative to itself) [q(w,x,y,z)={:?}]", i, u);
    }
    let (jlo, jhi) = if f32ish { (-24, 24) } else { (-200, 200) };
    let mut v: [S; 3] = gen_spread::<S, 3>(t, cx, jlo, jhi, floor);
    if v.iter().all(|x| x.is_zero()) {
        v = [S::one(), S::zero(), S::zero()];
    }
    let w4 = gen_spread::<S, 1>(t, cx, jlo, jhi, floor)[0];
    let vd = f3(&v);
    let vn = (vd[0] * vd[0] + vd[1] * vd[1] + vd[2] * vd[2]).sqrt();
    let tol = crate::regime::C_ACT * eps * vn;
    let want = rot64(&ud, &vd);
    sample!(cx, "{} unit q(w,x,y,z)={:?} v={:?}", S::NAME, u, v);
    let got3 = vk::a3(&(vu * vk::v3(&v)));
    check_near_vec!(cx, got3, want, tol, "q * Vec3 vs q (0,v) q* [unit q(w,x,y,z)={:?} v={:?}]", u, v);
    let r4 = vu * vk::v4(&[v[0], v[1], v[2], w4]);
    check_near_vec!(cx, [r4.x, r4.y, r4.z], want, tol, "q * Vec4 (xyz) vs q (0,v) q* [unit q(w,x,y,z)={:?} v={:?}]", u, v);
    check!(cx, r4.w == w4 && r4.w.f().to_bits() == w4.f().to_bits(), "q * Vec4 must leave w untouched: got {:?}, want {:?}", r4.w, w4);
    check_near_vec!(cx, rf::matvec(&cm::Mat3::<S>::from(vu).to_arr(), &v), want, tol, "col Mat3::from(q) * v [unit q(w,x,y,z)={:?} v={:?}]", u, v);
    check_near_vec!(cx, rf::matvec(&rm::Mat3::<S>::from(vu).to_arr(), &v), want, tol, "row Mat3::from(q) * v [unit q(w,x,y,z)={:?} v={:?}]", u, v);
    let m4 = rf::matvec(&cm::Mat4::<S>::from(vu).to_arr(), &[v[0], v[1], v[2], S::zero()]);
    check_near_vec!(cx, [m4[0], m4[1], m4[2]], want, tol, "col Mat4::from(q) on the direction [unit q(w,x,y,z)={:?} v={:?}]", u, v);
    let back = vk::a3(&(vu.conjugate() * (vu * vk::v3(&v))));
    check_near_vec!(cx, back, vd, 2.0 * tol, "conj(q) * (q * v) = v [unit q(w,x,y,z)={:?} v={:?}]", u, v);
    Ok(())
}

/// Exact domain: moderate independent exponents (i128 headroom), everything rational is compared exactly.
pub fn spread_exact<S: Dom>(t: &mut Tape, cx: &mut Cx) -> CaseResult {
    let p: [S; 4] = gen_spread::<S, 4>(t, cx, -6, 6, -16);
    let q: [S; 4] = gen_spread::<S, 4>(t, cx, -6, 6, -16);
    let (vp, vq) = (aq(&p), aq(&q));
    cx.set_nontrivial(p.iter().filter(|x| !x.is_zero()).count() >= 3 && q.iter().filter(|x| !x.is_zero()).count() >= 3);
    sample!(cx, "{} p={:?} q={:?} (w,x,y,z)", S::NAME, p, q);
    let n = crate::norm2(&q);
    check_eq!(cx, vq.magnitude_squared(), n, "magnitude_squared");
    check_eq!(cx, vp.dot(vq), rf::dot(&p, &q), "dot");
    check_eq!(cx, qa(vp * vq), rf::hamilton(&p, &q), "p*q vs the i,j,k table");
    check_eq!(cx, qa(vq * vp), rf::hamilton(&q, &p), "q*p vs the i,j,k table");
    check_eq!(cx, crate::norm2(&qa(vp * vq)), crate::norm2(&p) * n, "|pq|^2 = |p|^2 |q|^2");
    check_eq!(cx, qa(vq.conjugate()), [q[0], -q[1], -q[2], -q[3]], "conjugate");
    let inv = vq.inverse();
    check_eq!(cx, qa(inv), [q[0] / n, -q[1] / n, -q[2] / n, -q[3] / n], "inverse = conjugate / |q|^2");
    let one = [S::one(), S::zero(), S::zero(), S::zero()];
    check_eq!(cx, qa(vq * inv), one, "q * q^-1 = 1");
    check_eq!(cx, qa(inv * vq), one, "q^-1 * q = 1");
    check_eq!(cx, qa((vp * vq).conjugate()), qa(vq.conjugate() * vp.conjugate()), "conj(pq) = conj(q) conj(p)");
    Ok(())
}
