//! C06 exact-arithmetic regime (float domains): small dyadic matrices whose determinant nearly cancels although every
//! intermediate value of its evaluation is exactly representable in the float type.
//!
//! Construction: M = P1 * L * diag(s_1..s_p, d x_{p+1}..d x_N) * U * P2 with unit-triangular L, U with entries in
//! {-1,0,1}, small integers s, x, signed permutations P and d = 2^-e: a rank-p integer matrix plus a tiny update
//! (p = 1: rank one plus tiny; p = N-1: one nearly dependent row/column; p = 2, N = 4: the block form
//! [[A, B], [C, C A^-1 B + d X]], e.g. rows (1,0,1,0), (0,1,0,1), (1,0,1+d,0), (0,1,0,1+d)). det = +- d^(N-p) prod s prod x.
//! e is the LARGEST exponent for which the case is "exactly evaluable" in the float type: (1) every product of 1..N
//! entries from distinct rows and columns is representable, and (2) for every square minor, every sub-sum of its signed
//! Leibniz monomials is: all of them are multiples of 2^z (z = the smallest exponent of a monomial) and bounded by
//! max(sum of the positive, sum of the negative monomials), and that bound / 2^z has at most `mantissa` bits. A Leibniz
//! sum in any order, a cofactor expansion and vek's 2x2-block formulas only ever form such sub-products and sub-sums
//! (the block formulas are the same 24 / 6 monomials regrouped), with or without fused multiply-add. Hence the float
//! determinant and adjugate are EXACT, whatever |det| / sum|terms| is, and the inverse is the exact adjugate divided by
//! the exact determinant: two roundings at most (reciprocal, product), none when det is a power of two.

use crate::wide::{family, fit_scaling, kexp, kmax4, log_matrix, log_range, p2, partial_products_in_range, perm_abs, Scaling, M4};
use num_traits::NumCast;
use vek::mat::repr_c::column_major as cm;
use vek::mat::repr_c::row_major as rm;
use vkit::vk::MatN;
use vkit::*;

/// Dyadic rational m * 2^z with m odd (or m = 0, z = 0).
#[derive(Clone, Copy, Debug, PartialEq)]
pub struct Dy {
    m: i128,
    z: i32,
}

impl Dy {
    const ZERO: Dy = Dy { m: 0, z: 0 };
    fn new(m: i128, z: i32) -> Dy {
        if m == 0 {
            return Dy::ZERO;
        }
        let t = m.trailing_zeros();
        Dy { m: m >> t, z: z + t as i32 }
    }
    fn is_zero(&self) -> bool {
        self.m == 0
    }
    fn bits(&self) -> u32 {
        128 - self.m.unsigned_abs().leading_zeros()
    }
    fn to_f64(&self) -> f64 {
        // exact whenever bits() <= 53 and the exponent is in range
        (self.m as f64) * (2.0f64).powi(self.z)
    }
    fn mul(self, o: Dy) -> Option<Dy> {
        Some(Dy { m: self.m.checked_mul(o.m)?, z: self.z + o.z })
    }
    fn of_f64(x: f64) -> Dy {
        if x == 0.0 {
            return Dy::ZERO;
        }
        let b = x.to_bits();
        let sign = if b >> 63 == 1 { -1i128 } else { 1 };
        let e = ((b >> 52) & 0x7ff) as i32;
        let f = (b & ((1u64 << 52) - 1)) as i128;
        let (m, z) = if e == 0 { (f, -1074) } else { (f | (1i128 << 52), e - 1075) };
        Dy::new(sign * m, z)
    }
}

fn mantissa<S: Dom>() -> u32 {
    if S::NAME == "f32" {
        24
    } else {
        53
    }
}

/// What the float type can hold exactly: at most `mant` significant bits, no bit below 2^zmin (the subnormal grid; a
/// subnormal value has fewer than `mant` bits automatically), magnitude below 2^emax.
#[derive(Clone, Copy, Debug)]
struct Win {
    mant: u32,
    zmin: i32,
    emax: i32,
}

impl Win {
    /// Only the mantissa length (the caller keeps the magnitudes inside the normal range by other means).
    fn open(mant: u32) -> Win {
        Win { mant, zmin: i32::MIN / 2, emax: i32::MAX / 2 }
    }
    /// The whole finite range of the type, subnormals included.
    fn full<S: Dom>() -> Win {
        if S::NAME == "f32" {
            Win { mant: 24, zmin: -149, emax: 128 }
        } else {
            Win { mant: 53, zmin: -1074, emax: 1024 }
        }
    }
    fn holds_int(&self, v: i128, z: i32) -> bool {
        if v == 0 {
            return true;
        }
        let bits = (128 - v.unsigned_abs().leading_zeros()) as i32;
        bits as u32 <= self.mant && z >= self.zmin && bits + z <= self.emax
    }
    fn holds(&self, d: Dy) -> bool {
        self.holds_int(d.m, d.z)
    }
}

/// (1) every product of 1..N non-zero entries from distinct rows and columns is representable.
fn partial_products_exact<const N: usize>(a: &[[Dy; N]; N], w: &Win) -> bool {
    fn rec<const N: usize>(a: &[[Dy; N]; N], row: usize, used: u32, prod: Dy, cnt: usize, w: &Win) -> bool {
        if cnt > 0 && !w.holds(prod) {
            return false;
        }
        if row == N {
            return true;
        }
        if !rec(a, row + 1, used, prod, cnt, w) {
            return false;
        }
        for j in 0..N {
            if used >> j & 1 == 0 && !a[row][j].is_zero() {
                let p = if cnt == 0 { Some(a[row][j]) } else { prod.mul(a[row][j]) };
                match p {
                    Some(p) if rec(a, row + 1, used | 1 << j, p, cnt + 1, w) => {}
                    _ => return false,
                }
            }
        }
        true
    }
    rec(a, 0, 0, Dy::ZERO, 0, w)
}

/// The signed Leibniz monomials of the minor on the rows / columns given as bit masks: (sum of the positive ones, sum of
/// the |negative| ones) as integers in units of 2^z, z = smallest exponent of a non-zero monomial. None when something
/// leaves i128 (then a sub-sum certainly needs more than 53 bits).
fn minor_sums<const N: usize>(a: &[[Dy; N]; N], rmask: u32, cmask: u32) -> Option<(i128, i128, i32)> {
    let rows: Vec<usize> = (0..N).filter(|i| rmask >> i & 1 == 1).collect();
    let cols: Vec<usize> = (0..N).filter(|j| cmask >> j & 1 == 1).collect();
    let mut mono: Vec<(Dy, bool)> = Vec::new();
    fn rec<const N: usize>(a: &[[Dy; N]; N], rows: &[usize], cols: &[usize], k: usize, used: u32, prod: Option<Dy>, odd: bool, out: &mut Vec<(Dy, bool)>) -> bool {
        if k == rows.len() {
            out.push((prod.unwrap(), odd));
            return true;
        }
        for (ci, &c) in cols.iter().enumerate() {
            if used >> ci & 1 == 1 {
                continue;
            }
            let e = a[rows[k]][c];
            if e.is_zero() {
                continue;
            }
            // inversions: previously chosen columns with a larger index
            let inv = (used >> (ci + 1)).count_ones() as usize;
            let p = match prod {
                None => Some(e),
                Some(q) => q.mul(e),
            };
            if p.is_none() {
                return false;
            }
            if !rec(a, rows, cols, k + 1, used | 1 << ci, p, odd ^ (inv % 2 == 1), out) {
                return false;
            }
        }
        true
    }
    if !rec(a, &rows, &cols, 0, 0, None, false, &mut mono) {
        return None;
    }
    if mono.is_empty() {
        return Some((0, 0, 0));
    }
    let z = mono.iter().map(|(d, _)| d.z).min().unwrap();
    let (mut pos, mut neg) = (0i128, 0i128);
    for (d, odd) in mono {
        let sh = (d.z - z) as u32;
        if sh >= 120 || d.m.unsigned_abs().leading_zeros() <= sh + 1 {
            return None;
        }
        let v = d.m << sh;
        let neg_term = (v < 0) ^ odd;
        if neg_term {
            neg = neg.checked_add(v.abs())?;
        } else {
            pos = pos.checked_add(v.abs())?;
        }
    }
    Some((pos, neg, z))
}

fn minor_value<const N: usize>(a: &[[Dy; N]; N], rmask: u32, cmask: u32) -> Option<Dy> {
    let (p, n, z) = minor_sums(a, rmask, cmask)?;
    Some(Dy::new(p - n, z))
}

/// (1) and (2) of the module comment, inside the window `w`.
fn exactly_evaluable_in<const N: usize>(a: &[[Dy; N]; N], w: &Win) -> bool {
    if !partial_products_exact(a, w) {
        return false;
    }
    for rmask in 1u32..(1 << N) {
        for cmask in 1u32..(1 << N) {
            if rmask.count_ones() != cmask.count_ones() || rmask.count_ones() < 2 {
                continue;
            }
            match minor_sums(a, rmask, cmask) {
                // every sub-sum is a multiple of 2^z and at most max(p, n) * 2^z in magnitude
                Some((p, n, z)) => {
                    if !w.holds_int(p.max(n), z) {
                        return false;
                    }
                }
                None => return false,
            }
        }
    }
    true
}

fn exactly_evaluable<const N: usize>(a: &[[Dy; N]; N], mant: u32) -> bool {
    exactly_evaluable_in(a, &Win::open(mant))
}

/// Entries a + x * d as pairs (a, x).
type Pair = (i64, i64);

fn near_singular_pairs<const N: usize>(t: &mut Tape, full_rank: bool) -> ([[Pair; N]; N], &'static str, bool) {
    let p = if full_rank || t.chance(16) { N } else { 1 + t.below(N - 1) };
    let dense = t.chance(96);
    let tri = |t: &mut Tape| if t.chance(if dense { 170 } else { 90 }) { if t.bool() { 1i64 } else { -1 } } else { 0 };
    let mut l = [[0i64; N]; N];
    let mut u = [[0i64; N]; N];
    for i in 0..N {
        l[i][i] = 1;
        u[i][i] = 1;
        for j in 0..i {
            l[i][j] = tri(t);
            u[j][i] = tri(t);
        }
    }
    let mut singular = false;
    let mut delta = [(0i64, 0i64); N];
    for k in 0..N {
        if k < p {
            delta[k] = (t.pick(&[1i64, 1, -1, 1, -1, 2, 3, -1]), 0);
        } else {
            let x = t.pick(&[1i64, -1, 1, -1, 2, 3, -3, 5]);
            delta[k] = (0, x);
        }
    }
    if p < N && t.chance(12) {
        delta[p + t.below(N - p)] = (0, 0);
        singular = true;
    }
    let mut m = [[(0i64, 0i64); N]; N];
    for i in 0..N {
        for j in 0..N {
            for k in 0..N {
                let w = l[i][k] * u[k][j];
                m[i][j].0 += w * delta[k].0;
                m[i][j].1 += w * delta[k].1;
            }
        }
    }
    // signed row and column permutations, transposition
    let perm = |t: &mut Tape| {
        let mut q = [0usize; N];
        for i in 0..N {
            q[i] = i;
        }
        for i in (1..N).rev() {
            let j = t.below(i + 1);
            q.swap(i, j);
        }
        q
    };
    let (pr, pc) = (perm(t), perm(t));
    let (sr, sc) = (t.below(1 << N), t.below(1 << N));
    let mut o = m;
    for i in 0..N {
        for j in 0..N {
            let s = if (sr >> i & 1) ^ (sc >> j & 1) == 1 { -1 } else { 1 };
            let v = m[pr[i]][pc[j]];
            o[i][j] = (s * v.0, s * v.1);
        }
    }
    if t.bool() {
        let c = o;
        for i in 0..N {
            for j in 0..N {
                o[i][j] = c[j][i];
            }
        }
    }
    let label = if p == N {
        "integer matrix of full rank (no cancellation)"
    } else if p == 1 {
        "rank one plus a tiny update"
    } else if p == N - 1 {
        "one nearly dependent line (rank N-1 plus tiny)"
    } else {
        "rank two plus a tiny 2x2 update (block form [[A,B],[C,C A^-1 B + dX]])"
    };
    (o, label, singular)
}

fn dyadic_matrix<const N: usize>(pairs: &[[Pair; N]; N], e: i32) -> [[Dy; N]; N] {
    let mut a = [[Dy::ZERO; N]; N];
    for i in 0..N {
        for j in 0..N {
            a[i][j] = Dy::new(((pairs[i][j].0 as i128) << e) + pairs[i][j].1 as i128, -e);
        }
    }
    a
}

/// Largest e in 1..=emax for which the matrix is exactly evaluable (the predicate is monotone in e).
fn deepest_exact_scale<S: Dom, const N: usize>(pairs: &[[Pair; N]; N]) -> Option<i32> {
    let mant = mantissa::<S>();
    let emax = mant as i32 - 2;
    if !exactly_evaluable(&dyadic_matrix(pairs, 1), mant) {
        return None;
    }
    let (mut lo, mut hi) = (1, emax); // lo passes
    while lo < hi {
        let mid = (lo + hi + 1) / 2;
        if exactly_evaluable(&dyadic_matrix(pairs, mid), mant) {
            lo = mid;
        } else {
            hi = mid - 1;
        }
    }
    Some(lo)
}

fn cancellation_label(det_abs: f64, terms: f64, eps: f64) -> &'static str {
    if det_abs == 0.0 {
        "det = 0 exactly"
    } else if det_abs <= eps * terms {
        "|det| <= eps * sum|terms|"
    } else if det_abs <= 256.0 * eps * terms {
        "|det| in (1, 256] eps * sum|terms|"
    } else if det_abs <= 65536.0 * eps * terms {
        "|det| in (2^8, 2^16] eps * sum|terms|"
    } else {
        "|det| > 2^16 eps * sum|terms|"
    }
}

fn to_s<S: Dom>(x: f64) -> S {
    <S as NumCast>::from(x).expect("finite")
}

fn scale2<S: Dom>(x: S, k: i32) -> S {
    if k == 0 || x.is_zero() {
        x
    } else {
        x * p2::<S>(k / 2) * p2::<S>(k - k / 2)
    }
}

/// got ?= num / den: exactly when den is a power of two, within 2 eps (two roundings: reciprocal and product, or one
/// division) otherwise. All in integers.
fn quotient_matches(got: f64, num: Dy, den: Dy, mant: u32) -> bool {
    if !got.is_finite() {
        return false;
    }
    if num.is_zero() {
        return got == 0.0;
    }
    if got == 0.0 {
        return false;
    }
    let g = Dy::of_f64(got);
    let (l, lz) = match g.m.checked_mul(den.m) {
        Some(l) => (l, g.z + den.z),
        None => return false,
    };
    let (r, rz) = (num.m, num.z);
    let shl = |v: i128, s: i32| -> Option<i128> {
        if s < 0 || s >= 120 || v.unsigned_abs().leading_zeros() as i32 <= s + 1 {
            None
        } else {
            Some(v << s)
        }
    };
    let (l2, r2) = if lz >= rz { (shl(l, lz - rz), Some(r)) } else { (Some(l), shl(r, rz - lz)) };
    let (l2, r2) = match (l2, r2) {
        (Some(a), Some(b)) => (a, b),
        _ => return false,
    };
    let diff = (l2 - r2).abs();
    if den.m.abs() == 1 {
        diff == 0
    } else {
        match shl(diff, mant as i32 - 2) {
            Some(d) => d <= r2.abs(),
            None => diff == 0,
        }
    }
}

fn line_exponents<S: Dom, const N: usize>(t: &mut Tape, cx: &mut Cx) -> ([i32; N], [i32; N]) {
    let (mut r, mut c) = ([0i32; N], [0i32; N]);
    let kmax = kmax4::<S>();
    match t.below(6) {
        0..=2 => cx.label("unit scale"),
        3 => {
            c = [kexp(t, kmax); N];
            cx.label("all entries * 2^k");
        }
        4 => {
            let k = kexp(t, 3 * kmax);
            if t.bool() {
                r[t.below(N)] = k;
            } else {
                c[t.below(N)] = k;
            }
            cx.label("one row or column * 2^k");
        }
        _ => {
            for i in 0..N {
                r[i] = t.int(-(kmax as i64), kmax as i64) as i32;
                c[i] = t.int(-(kmax as i64), kmax as i64) as i32;
            }
            cx.label("independent row and column exponents");
        }
    }
    (r, c)
}

macro_rules! det_exact_case {
    ($fname:ident, $N:expr, $Mat:ident) => {
        /// Determinant of an exactly evaluable, nearly singular dyadic matrix: bit-for-bit the exact value.
        pub fn $fname<S: Dom>(t: &mut Tape, cx: &mut Cx) -> CaseResult {
            const N: usize = $N;
            let (pairs, label, singular) = near_singular_pairs::<N>(t, false);
            let e = match deepest_exact_scale::<S, N>(&pairs) {
                Some(e) => e,
                None => discard!("precondition:not exactly evaluable at any scale d = 2^-e"),
            };
            // mostly the deepest cancellation the float type can hold exactly, sometimes a shallower one
            let e = if t.chance(64) { 1 + t.below(e as usize) as i32 } else { e };
            let a = dyadic_matrix(&pairs, e);
            let full = (1u32 << N) - 1;
            let det = minor_value(&a, full, full).expect("exactly evaluable");
            cx.label(label);
            let mut abs = [[0.0f64; N]; N];
            for i in 0..N {
                for j in 0..N {
                    abs[i][j] = a[i][j].to_f64().abs();
                }
            }
            let terms = perm_abs(&abs);
            cx.label(cancellation_label(det.to_f64().abs(), terms, S::eps()));
            if singular != det.is_zero() {
                fail!("harness: constructed determinant disagrees with the exact one ({:?})", pairs);
            }
            let (mut r, mut c) = line_exponents::<S, N>(t, cx);
            let (lo, hi) = log_range::<S>();
            for _ in 0..48 {
                let es: i32 = r.iter().sum::<i32>() + c.iter().sum::<i32>();
                let ld = if det.is_zero() { 0.0 } else { det.to_f64().abs().log2() + es as f64 };
                if partial_products_in_range(&log_matrix(&abs, &r, &c), lo, hi) && ld >= lo && ld <= hi {
                    break;
                }
                for i in 0..N {
                    r[i] = r[i] * 3 / 4;
                    c[i] = c[i] * 3 / 4;
                }
            }
            let es: i32 = r.iter().sum::<i32>() + c.iter().sum::<i32>();
            let mut m = [[S::zero(); N]; N];
            for i in 0..N {
                for j in 0..N {
                    m[i][j] = scale2(to_s::<S>(a[i][j].to_f64()), r[i] + c[j]);
                }
            }
            let want = scale2(to_s::<S>(det.to_f64()), es);
            cx.set_nontrivial(!det.is_zero() && det.to_f64().abs() <= 65536.0 * S::eps() * terms);
            sample!(cx, "{} n={} {} d=2^-{} pairs(a,x)={:?} row exps={:?} col exps={:?} M={:?} exact det={:?}", S::NAME, N, label, e, pairs, r, c, m, want);
            let (ra, ca) = (rm::$Mat::<S>::from_arr(&m), cm::$Mat::<S>::from_arr(&m));
            check_eq!(cx, ra.determinant(), want, "row-major determinant of an exactly evaluable matrix ({}, d = 2^-{}) must be exact", label, e);
            check_eq!(cx, ca.determinant(), want, "col-major determinant of an exactly evaluable matrix ({}, d = 2^-{}) must be exact", label, e);
            check_eq!(cx, ra.transposed().determinant(), want, "row-major det(A^T), exactly evaluable ({})", label);
            check_eq!(cx, ca.transposed().determinant(), want, "col-major det(A^T), exactly evaluable ({})", label);
            check_eq!(cx, rm::$Mat::<S>::from(ca).determinant(), want, "det after layout change (col->row), exactly evaluable ({})", label);
            check_eq!(cx, cm::$Mat::<S>::from(ra).determinant(), want, "det after layout change (row->col), exactly evaluable ({})", label);
            Ok(())
        }
    };
}
det_exact_case!(det2_exact, 2, Mat2);
det_exact_case!(det3_exact, 3, Mat3);
det_exact_case!(det4_exact, 4, Mat4);

/// T * P * D with a signed permutation P, scales +-2^k and a dyadic translation: every inverse is exact.
fn axis_trs(t: &mut Tape) -> ([[Dy; 4]; 4], bool, &'static str) {
    let mut q = [0usize, 1, 2];
    for i in (1..3).rev() {
        let j = t.below(i + 1);
        q.swap(i, j);
    }
    let unit = t.chance(96);
    let mut a = [[Dy::ZERO; 4]; 4];
    let mut neg = 0;
    for j in 0..3 {
        let s = if t.bool() { -1i128 } else { 1 };
        if s < 0 {
            neg += 1;
        }
        let k = if unit { 0 } else { t.int(-4, 4) as i32 };
        a[q[j]][j] = Dy::new(s, k);
    }
    for i in 0..3 {
        a[i][3] = Dy::new(t.int(-160, 160) as i128, -3);
    }
    a[3][3] = Dy::new(1, 0);
    // parity of the permutation
    let inv = (0..3).map(|i| (0..i).filter(|&j| q[j] > q[i]).count()).sum::<usize>();
    let proper = (inv + neg) % 2 == 0;
    (a, unit && proper, if unit { "axis permutation with signs, plus translation" } else { "axis permutation * scales +-2^k, plus translation" })
}

/// The inverses of exactly evaluable matrices.
pub fn inverse_exact<S: Dom>(t: &mut Tape, cx: &mut Cx) -> CaseResult {
    let mant = mantissa::<S>();
    let axis = t.chance(48);
    let (a, label, e, rigid_ok, pairs) = if axis {
        let (a, rigid, label) = axis_trs(t);
        (a, label, 0, rigid, None)
    } else {
        let (pairs, label, _) = near_singular_pairs::<4>(t, false);
        let e = match deepest_exact_scale::<S, 4>(&pairs) {
            Some(e) => e,
            None => discard!("precondition:not exactly evaluable at any scale d = 2^-e"),
        };
        let e = if t.chance(64) { 1 + t.below(e as usize) as i32 } else { e };
        (dyadic_matrix(&pairs, e), label, e, false, Some(pairs))
    };
    if axis && !exactly_evaluable(&a, mant) {
        fail!("harness: an axis-aligned T*R*S matrix must be exactly evaluable");
    }
    let det = minor_value(&a, 15, 15).expect("exactly evaluable");
    if det.is_zero() {
        discard!("precondition:det=0");
    }
    // adjugate: adj[i][j] = (-1)^(i+j) * minor with row j and column i deleted
    let mut adj = [[Dy::ZERO; 4]; 4];
    for i in 0..4 {
        for j in 0..4 {
            let v = minor_value(&a, 15 & !(1 << j), 15 & !(1 << i)).expect("exactly evaluable");
            adj[i][j] = if (i + j) % 2 == 1 { Dy { m: -v.m, z: v.z } } else { v };
        }
    }
    let b_abs: M4<f64> = {
        let mut m = [[0.0; 4]; 4];
        for i in 0..4 {
            for j in 0..4 {
                m[i][j] = a[i][j].to_f64().abs();
            }
        }
        m
    };
    let det_abs = det.to_f64().abs();
    let mut w_abs = [[0.0f64; 4]; 4];
    for i in 0..4 {
        for j in 0..4 {
            w_abs[i][j] = adj[i][j].to_f64().abs() / det_abs;
        }
    }
    let terms = perm_abs(&b_abs);
    cx.label(label);
    cx.label(cancellation_label(det_abs, terms, S::eps()));
    if det.m.abs() == 1 {
        cx.label("det is a power of two: the inverse must be exact");
    }
    let wanted = {
        let kmax = kmax4::<S>();
        let mut s = Scaling::NONE;
        match t.below(6) {
            0..=2 => {}
            3 => {
                let k = kexp(t, kmax);
                // (an affine matrix keeps its last row (0,0,0,1): only the linear part is scaled)
                // and inside the documented domain of the affine inverse (|column|^2 > epsilon: total exponent >= -10)
                s.c = if axis { let k = k.clamp(-6, 6); [k, k, k, 0] } else { [k; 4] };
            }
            4 => {
                let k = kexp(t, 3 * kmax);
                if axis {
                    // the translation alone
                    s.c[3] = k;
                    s.r[3] = -k;
                } else if t.bool() {
                    s.r[t.below(4)] = k;
                } else {
                    s.c[t.below(4)] = k;
                }
            }
            _ => {
                if !axis {
                    for i in 0..4 {
                        s.r[i] = t.int(-(kmax as i64), kmax as i64) as i32;
                        s.c[i] = t.int(-(kmax as i64), kmax as i64) as i32;
                    }
                } else {
                    // per-axis scale exponents and the translation, independently
                    let kt = kexp(t, kmax);
                    s.c = [t.int(-6, 6) as i32, t.int(-6, 6) as i32, t.int(-6, 6) as i32, kt];
                    s.r[3] = -kt;
                }
            }
        }
        s
    };
    let sc = fit_scaling::<S>(&b_abs, &w_abs, det_abs, wanted);
    cx.label(if sc == Scaling::NONE { "unit scale" } else { "scaled by powers of two" });
    let bs: M4<S> = {
        let mut m = [[S::zero(); 4]; 4];
        for i in 0..4 {
            for j in 0..4 {
                m[i][j] = to_s::<S>(a[i][j].to_f64());
            }
        }
        m
    };
    let ms = sc.apply(&bs);
    cx.set_nontrivial(axis || det_abs <= 65536.0 * S::eps() * terms);
    sample!(cx, "{} {} d=2^-{} pairs(a,x)={:?} scaling={:?} M={:?} exact det={:?}", S::NAME, label, e, pairs, sc, ms, det);
    let (r, c) = (rm::Mat4::<S>::from_arr(&ms), cm::Mat4::<S>::from_arr(&ms));
    let compare = |cx: &mut Cx, what: &str, g: &M4<S>| -> CaseResult {
        let g0 = sc.unscale_inverse(g);
        for i in 0..4 {
            for j in 0..4 {
                cx.count();
                if !quotient_matches(g0[i][j].f(), adj[i][j], det, mant) {
                    fail!(
                        "{} of an exactly evaluable matrix ({}, d = 2^-{}): element ({},{}) (scaled back by powers of two) is {:?}, want adj/det = {:?} / {:?} = {:e} ({})\n M = {:?}\n got (as returned) = {:?}",
                        what,
                        label,
                        e,
                        i,
                        j,
                        g0[i][j],
                        adj[i][j],
                        det,
                        adj[i][j].to_f64() / det.to_f64(),
                        if det.m.abs() == 1 { "exactly: det is a power of two" } else { "within 2 eps: one reciprocal and one product rounding" },
                        ms,
                        g
                    );
                }
            }
        }
        Ok(())
    };
    let (gr, gc) = (r.inverted(), c.inverted());
    compare(cx, "row-major inverted()", &gr.to_arr())?;
    compare(cx, "col-major inverted()", &gc.to_arr())?;
    let mut r2 = r;
    r2.invert();
    check_eq!(cx, r2.to_arr(), gr.to_arr(), "row-major invert() == inverted() ({})", label);
    let mut c2 = c;
    c2.invert();
    check_eq!(cx, c2.to_arr(), gc.to_arr(), "col-major invert() == inverted() ({})", label);
    if axis {
        compare(cx, "row-major inverted_affine_transform()", &r.inverted_affine_transform().to_arr())?;
        compare(cx, "col-major inverted_affine_transform()", &c.inverted_affine_transform().to_arr())?;
        let mut r2 = r;
        r2.invert_affine_transform();
        check_eq!(cx, r2.to_arr(), r.inverted_affine_transform().to_arr(), "row-major invert_affine_transform() == returning form ({})", label);
        if rigid_ok && sc.c[0] == 0 && sc.c[1] == 0 && sc.c[2] == 0 {
            cx.label("proper axis rotation: rigid inverse checked");
            compare(cx, "row-major inverted_affine_transform_no_scale()", &r.inverted_affine_transform_no_scale().to_arr())?;
            compare(cx, "col-major inverted_affine_transform_no_scale()", &c.inverted_affine_transform_no_scale().to_arr())?;
            let mut c2 = c;
            c2.invert_affine_transform_no_scale();
            check_eq!(cx, c2.to_arr(), c.inverted_affine_transform_no_scale().to_arr(), "col-major invert_affine_transform_no_scale() == returning form ({})", label);
        }
    }
    Ok(())
}

// ---------------------------------------------------------------------------------------------------------------
// the determinant at the edge of the float range: in-place twins and exactness
// ---------------------------------------------------------------------------------------------------------------

fn rat_to_dy(r: Rat) -> Option<Dy> {
    let d = r.denom();
    if d.count_ones() != 1 {
        return None;
    }
    Some(Dy::new(r.numer(), -(d.trailing_zeros() as i32)))
}

/// floor(log2 |d|), d != 0
fn ilog2(d: Dy) -> i32 {
    d.bits() as i32 + d.z - 1
}

/// Same value, NaN matching NaN (the two forms may not differ in anything a caller can observe).
fn same_mat<S: Dom>(a: &M4<S>, b: &M4<S>) -> bool {
    (0..4).all(|i| (0..4).all(|j| a[i][j] == b[i][j] || (a[i][j] != a[i][j] && b[i][j] != b[i][j])))
}

/// m * 2^z in the domain: exact whenever the value is representable (subnormals included), correctly rounded /
/// flushed / overflowing otherwise. Computed in f64 with the power of two applied in steps that keep every intermediate
/// value normal, then narrowed (an f32 value is an f64 value).
fn value_of<S: Dom>(d: Dy) -> S {
    let mut x = d.m as f64; // bits <= 53 for everything built here
    let mut k = d.z;
    while k != 0 && x != 0.0 && x.is_finite() {
        let step = k.clamp(-1000, 1000);
        x *= f64::from_bits(((1023 + step) as u64) << 52);
        k -= step;
    }
    to_s::<S>(x)
}

/// `invert()` vs `inverted()` (and exactness of `inverted()`) on matrices whose DETERMINANT sits at the edge of the float
/// range while the entries of the matrix and of its inverse are ordinary: a small dyadic base matrix times row / column
/// powers of two whose exponents sum to the target.
pub fn inverse_det_edge<S: Dom>(t: &mut Tape, cx: &mut Cx) -> CaseResult {
    let w = Win::full::<S>();
    let emin = if S::NAME == "f32" { -126 } else { -1022 }; // MIN_POSITIVE = 2^emin
    let exact_mode = !t.chance(72);
    let (base, label): ([[Dy; 4]; 4], &'static str) = if exact_mode {
        let integer = t.chance(140);
        let (pairs, label, _) = near_singular_pairs::<4>(t, integer);
        let e = match deepest_exact_scale::<S, 4>(&pairs) {
            Some(e) => e,
            None => discard!("precondition:not exactly evaluable at any scale d = 2^-e"),
        };
        let e = if t.bool() { 1 + t.below(e as usize) as i32 } else { e };
        (dyadic_matrix(&pairs, e), label)
    } else {
        let (m, label, _) = family(t);
        let mut a = [[Dy::ZERO; 4]; 4];
        for i in 0..4 {
            for j in 0..4 {
                a[i][j] = match rat_to_dy(m[i][j]) {
                    Some(d) => d,
                    None => discard!("precondition:non-dyadic family entry"),
                };
            }
        }
        (a, label)
    };
    let det0 = match minor_value(&base, 15, 15) {
        Some(d) if !d.is_zero() => d,
        _ => discard!("precondition:det=0"),
    };
    // target: floor(log2 |det|) of the scaled matrix
    let (target, t_label) = match t.below(8) {
        0 | 1 => (emin - 1, "target: subnormal det just below MIN_POSITIVE (reciprocal finite)"),
        2 => (emin - 2, "target: subnormal det around 2^(emin-2) (reciprocal finite only above 2^-emax)"),
        3 => (emin + t.below(4) as i32, "target: det in [MIN_POSITIVE, 16 MIN_POSITIVE)"),
        4 => (w.zmin + 4 + t.below((emin - 3 - (w.zmin + 4)) as usize) as i32, "target: deep subnormal det (reciprocal overflows)"),
        5 | 6 => (w.emax - 2 - t.below(8) as i32, "target: det within 2^9 of MAX"),
        _ => (w.emax - 1 - t.below(3) as i32, "target: det within 2^3 of MAX (reciprocal subnormal)"),
    };
    let total = target - ilog2(det0);
    let (mut r, mut c) = ([0i32; 4], [0i32; 4]);
    let spread = |t: &mut Tape, sum: i32, out: &mut [i32; 4]| {
        let q = sum.div_euclid(4);
        *out = [q; 4];
        out[t.below(4)] += sum - 4 * q;
    };
    let p_label = match t.below(4) {
        0 => {
            spread(t, total, &mut r);
            "exponent spread evenly over the rows"
        }
        1 => {
            spread(t, total, &mut c);
            "exponent spread evenly over the columns"
        }
        2 => {
            let half = total / 2;
            spread(t, half, &mut r);
            spread(t, total - half, &mut c);
            "exponent spread over rows and columns"
        }
        _ => {
            let lim = (total.abs() / 2).max(1) as i64;
            for i in 0..3 {
                r[i] = t.int(-lim.min(30000), lim.min(30000)) as i32;
            }
            r[3] = total - r[0] - r[1] - r[2];
            "independent row exponents with the prescribed sum"
        }
    };
    let scaled = |r: &[i32; 4], c: &[i32; 4]| {
        let mut a = base;
        for i in 0..4 {
            for j in 0..4 {
                if !a[i][j].is_zero() {
                    a[i][j].z += r[i] + c[j];
                }
            }
        }
        a
    };
    let mut a = scaled(&r, &c);
    if exact_mode {
        // move the target towards 1 until every intermediate of the evaluation is representable (subnormals included)
        let mut tries = 0;
        while !exactly_evaluable_in(&a, &w) {
            tries += 1;
            if tries > 200 {
                discard!("precondition:no exactly evaluable scaling near the target");
            }
            let cur: i32 = r.iter().sum::<i32>() + c.iter().sum::<i32>() + ilog2(det0);
            let step = (cur.abs() / 64).max(1);
            let k = t.below(4);
            if cur > 0 {
                r[k] -= step;
            } else {
                r[k] += step;
            }
            a = scaled(&r, &c);
        }
    }
    let det = match minor_value(&a, 15, 15) {
        Some(d) => d,
        None => discard!("precondition:determinant outside the i128 bookkeeping"),
    };
    let tau = ilog2(det);
    cx.label(label);
    cx.label(t_label);
    cx.label(p_label);
    cx.label(if exact_mode { "exactly evaluable base (exactness of inverted() asserted where the reciprocal is usable)" } else { "structured family base (in-place vs returning form only)" });
    let pow2 = det.m.abs() == 1;
    cx.label(if tau < w.zmin {
        "reached: |det| below the smallest subnormal"
    } else if tau <= -w.emax {
        "reached: |det| subnormal, reciprocal overflows"
    } else if tau < emin {
        "reached: |det| subnormal, reciprocal finite"
    } else if tau < emin + 4 {
        "reached: |det| in [MIN_POSITIVE, 16 MIN_POSITIVE)"
    } else if tau >= -emin {
        "reached: |det| >= 2^-emin (reciprocal subnormal)"
    } else if tau >= w.emax - 12 {
        "reached: |det| within 2^12 of MAX"
    } else {
        "reached: |det| in the interior of the range"
    });
    // adjugate and the usability of adj / det
    let mut adj = [[Dy::ZERO; 4]; 4];
    let mut assertable = exact_mode;
    if exact_mode {
        // reciprocal: exact for a power of two inside the grid, else it has to be a normal number
        assertable &= if pow2 { -det.z >= w.zmin && -det.z < w.emax } else { tau >= -w.emax + 1 && -tau - 1 >= emin };
        for i in 0..4 {
            for j in 0..4 {
                let v = minor_value(&a, 15 & !(1 << j), 15 & !(1 << i)).expect("exactly evaluable");
                adj[i][j] = if (i + j) % 2 == 1 { Dy { m: -v.m, z: v.z } } else { v };
                if !v.is_zero() {
                    assertable &= if pow2 { w.holds(Dy { m: v.m, z: v.z - det.z }) } else { ilog2(v) - tau - 1 >= emin && ilog2(v) - tau + 1 < w.emax };
                }
            }
        }
        cx.label(if assertable { "inverted() must be the exact adj/det" } else { "inverse not representable through a reciprocal: only the twins are compared" });
        if pow2 {
            cx.label("det is a power of two");
        }
    }
    let mut ms = [[S::zero(); 4]; 4];
    for i in 0..4 {
        for j in 0..4 {
            ms[i][j] = value_of::<S>(a[i][j]);
        }
    }
    cx.set_nontrivial(tau < emin + 4 || tau >= w.emax - 12);
    sample!(cx, "{} {} row exps={:?} col exps={:?} det={:?} (2^{}) M={:?}", S::NAME, label, r, c, det, tau, ms);
    let (rr, cc) = (rm::Mat4::<S>::from_arr(&ms), cm::Mat4::<S>::from_arr(&ms));
    let (gr, gc) = (rr.inverted(), cc.inverted());
    let mut r2 = rr;
    r2.invert();
    cx.count();
    if !same_mat(&r2.to_arr(), &gr.to_arr()) {
        fail!("row-major invert() differs from inverted() (|det| ~ 2^{}, {}):\n M = {:?}\n invert()   = {:?}\n inverted() = {:?}", tau, label, ms, r2.to_arr(), gr.to_arr());
    }
    let mut c2 = cc;
    c2.invert();
    cx.count();
    if !same_mat(&c2.to_arr(), &gc.to_arr()) {
        fail!("col-major invert() differs from inverted() (|det| ~ 2^{}, {}):\n M = {:?}\n invert()   = {:?}\n inverted() = {:?}", tau, label, ms, c2.to_arr(), gc.to_arr());
    }
    if assertable {
        for (what, g) in [("row-major inverted()", gr.to_arr()), ("col-major inverted()", gc.to_arr())] {
            for i in 0..4 {
                for j in 0..4 {
                    cx.count();
                    if !quotient_matches(g[i][j].f(), adj[i][j], det, w.mant) {
                        fail!(
                            "{} of an exactly evaluable matrix with |det| ~ 2^{} ({}): element ({},{}) is {:?}, want adj/det = {:?} / {:?} = {:e} ({})\n M = {:?}\n got = {:?}",
                            what,
                            tau,
                            label,
                            i,
                            j,
                            g[i][j],
                            adj[i][j],
                            det,
                            adj[i][j].to_f64() / det.to_f64(),
                            if pow2 { "exactly: det is a power of two" } else { "within 2 eps" },
                            ms,
                            g
                        );
                    }
                }
            }
        }
        // (the receiver of invert() therefore holds the inverse too: a guard that leaves it untouched for a non-zero finite
        // determinant fails the comparison above)
    }
    Ok(())
}
