//! C06 — determinants are correct and the inverse functions really invert.
//!
//! `lib.rs`: moderate inputs (dense random matrices, rigid, T*R*S with scales in [2^-10, 2^10]).
//! `wide.rs`: the regimes moderate sampling never reaches — structured families (affine non-TRS, triangular, block,
//! sparse, permutation, ...), exact power-of-two scaling of all entries / of the affine blocks / per row and column, and
//! per-axis scales over the whole documented domain of the affine fast inverse, in Rat, f64 and f32.
//! `exact.rs`: nearly singular dyadic matrices all of whose intermediates are exactly representable in f32 / f64:
//! determinant and inverse must be exact however deep the cancellation.

use vek::mat::repr_c::column_major as cm;
use vek::mat::repr_c::row_major as rm;
use vkit::gens;
use vkit::refmath as rf;
use vkit::vk::{self, MatN};
use vkit::*;

pub mod exact;
pub mod wide;

fn no_zero_and_asym<S: Dom, const N: usize>(a: &[[S; N]; N], upto: usize) -> bool {
    let mut ok = true;
    for i in 0..upto {
        for j in 0..upto {
            if a[i][j].is_zero() {
                ok = false;
            }
        }
    }
    ok && *a != rf::transpose(a)
}

macro_rules! det_case {
    ($fname:ident, $N:expr, $Mat:ident) => {
        fn $fname<S: Dom>(t: &mut Tape, cx: &mut Cx) -> CaseResult {
            const N: usize = $N;
            let a: [[S; N]; N] = vk::gen_mat(t, 9);
            let b: [[S; N]; N] = vk::gen_mat(t, 9);
            cx.set_nontrivial(no_zero_and_asym(&a, N));
            sample!(cx, "{} n={} A={:?} B={:?}", S::NAME, N, a, b);
            let (ra, ca) = (rm::$Mat::<S>::from_arr(&a), cm::$Mat::<S>::from_arr(&a));
            let (rb, cb) = (rm::$Mat::<S>::from_arr(&b), cm::$Mat::<S>::from_arr(&b));
            let da = rf::det(&a);
            let db = rf::det(&b);
            let ma = vk::mat_max(&a).max(1.0);
            let mb = vk::mat_max(&b).max(1.0);
            let sc = 24.0 * ma.powi(N as i32);
            check_close!(cx, S, ra.determinant(), da, sc, 16, "row-major determinant vs Leibniz");
            check_close!(cx, S, ca.determinant(), da, sc, 16, "col-major determinant vs Leibniz");
            check_close!(cx, S, ra.transposed().determinant(), da, sc, 16, "row-major det(A^T)");
            check_close!(cx, S, ca.transposed().determinant(), da, sc, 16, "col-major det(A^T)");
            check_close!(cx, S, rm::$Mat::<S>::from(ca).determinant(), da, sc, 16, "det after layout change (col->row)");
            check_close!(cx, S, cm::$Mat::<S>::from(ra).determinant(), da, sc, 16, "det after layout change (row->col)");
            let sc2 = 24.0 * 24.0 * (N as f64 * ma * mb).powi(N as i32);
            check_close!(cx, S, (ra * rb).determinant(), da * db, sc2, 64, "row-major det(AB) = det A det B");
            check_close!(cx, S, (ca * cb).determinant(), da * db, sc2, 64, "col-major det(AB) = det A det B");
            Ok(())
        }
    };
}
det_case!(det2, 2, Mat2);
det_case!(det3, 3, Mat3);
det_case!(det4, 4, Mat4);

fn check_two_sided<S: Dom>(cx: &mut Cx, what: &str, m: &[[S; 4]; 4], inv: &[[S; 4]; 4], reference: &[[S; 4]; 4], k: f64) -> CaseResult {
    let id: [[S; 4]; 4] = rf::identity();
    let sc_inv = vk::mat_max(reference).max(1.0);
    let sc = 4.0 * vk::mat_max(m).max(1.0) * sc_inv;
    check_mat!(cx, S, *inv, *reference, sc_inv * sc, k, "{} equals the adjugate/determinant inverse", what);
    check_mat!(cx, S, rf::matmul(m, inv), id, sc * sc, k, "{}: M * inv(M) = I", what);
    check_mat!(cx, S, rf::matmul(inv, m), id, sc * sc, k, "{}: inv(M) * M = I", what);
    Ok(())
}

/// General inverse on arbitrary invertible matrices.
fn inverse_general<S: Dom>(t: &mut Tape, cx: &mut Cx) -> CaseResult {
    let mut a: [[S; 4]; 4] = if S::EXACT || t.bool() {
        vk::gen_mat(t, 9)
    } else {
        // integer matrices: |det| >= 1 when non-singular, keeps float conditioning under control
        let mut m = [[S::zero(); 4]; 4];
        for i in 0..4 {
            for j in 0..4 {
                m[i][j] = S::i(t.int(-5, 5));
            }
        }
        m
    };
    if t.chance(40) {
        // an affine last row, a common special case
        a[3] = [S::zero(), S::zero(), S::zero(), S::one()];
    }
    let d = rf::det(&a);
    if S::EXACT {
        if d.is_zero() {
            discard!("precondition:det=0");
        }
    } else if d.f().abs() < 0.5 {
        discard!("precondition:|det|<0.5 (float conditioning)");
    }
    let reference = rf::inverse(&a).unwrap();
    cx.set_nontrivial(no_zero_and_asym(&a, 3));
    sample!(cx, "{} M={:?} det={:?}", S::NAME, a, d);
    let (r, c) = (rm::Mat4::<S>::from_arr(&a), cm::Mat4::<S>::from_arr(&a));
    let k = 4096.0;
    check_two_sided(cx, "row-major inverted()", &a, &r.inverted().to_arr(), &reference, k)?;
    check_two_sided(cx, "col-major inverted()", &a, &c.inverted().to_arr(), &reference, k)?;
    let mut r2 = r;
    r2.invert();
    check_eq!(cx, r2.to_arr(), r.inverted().to_arr(), "row-major invert() == inverted()");
    let mut c2 = c;
    c2.invert();
    check_eq!(cx, c2.to_arr(), c.inverted().to_arr(), "col-major invert() == inverted()");
    // products computed by vek itself, both orders, both layouts
    let id: [[S; 4]; 4] = rf::identity();
    let sc = 16.0 * vk::mat_max(&a).max(1.0).powi(2) * vk::mat_max(&reference).max(1.0).powi(2);
    check_mat!(cx, S, (r * r.inverted()).to_arr(), id, sc, k, "row-major M * M.inverted()");
    check_mat!(cx, S, (c.inverted() * c).to_arr(), id, sc, k, "col-major M.inverted() * M");
    Ok(())
}

/// Rigid fast inverse on rotation+translation matrices.
fn inverse_rigid<S: Dom>(t: &mut Tape, cx: &mut Cx) -> CaseResult {
    let a = gens::rigid4::<S>(t);
    let reference = rf::inverse(&a).unwrap();
    cx.set_nontrivial(no_zero_and_asym(&a, 3));
    sample!(cx, "{} rigid M={:?}", S::NAME, a);
    let (r, c) = (rm::Mat4::<S>::from_arr(&a), cm::Mat4::<S>::from_arr(&a));
    let k = 4096.0;
    check_two_sided(cx, "row-major inverted_affine_transform_no_scale()", &a, &r.inverted_affine_transform_no_scale().to_arr(), &reference, k)?;
    check_two_sided(cx, "col-major inverted_affine_transform_no_scale()", &a, &c.inverted_affine_transform_no_scale().to_arr(), &reference, k)?;
    // agreement with the general inverse and the scale-aware affine inverse
    let sc = vk::mat_max(&reference).max(1.0) * vk::mat_max(&a).max(1.0) * 8.0;
    check_mat!(cx, S, r.inverted_affine_transform_no_scale().to_arr(), r.inverted().to_arr(), sc, k, "row-major rigid inverse agrees with inverted()");
    check_mat!(cx, S, c.inverted_affine_transform_no_scale().to_arr(), c.inverted().to_arr(), sc, k, "col-major rigid inverse agrees with inverted()");
    check_mat!(cx, S, r.inverted_affine_transform().to_arr(), reference, sc, k, "row-major affine inverse on a rigid matrix");
    check_mat!(cx, S, c.inverted_affine_transform().to_arr(), reference, sc, k, "col-major affine inverse on a rigid matrix");
    let mut r2 = r;
    r2.invert_affine_transform_no_scale();
    check_eq!(cx, r2.to_arr(), r.inverted_affine_transform_no_scale().to_arr(), "row-major invert_affine_transform_no_scale() == returning form");
    let mut c2 = c;
    c2.invert_affine_transform_no_scale();
    check_eq!(cx, c2.to_arr(), c.inverted_affine_transform_no_scale().to_arr(), "col-major invert_affine_transform_no_scale() == returning form");
    Ok(())
}

/// Affine fast inverse on translation*rotation*scale matrices (scales of either sign, 2^-10..2^10).
fn inverse_trs<S: Dom>(t: &mut Tape, cx: &mut Cx) -> CaseResult {
    let (a, s) = gens::trs4::<S>(t);
    let reference = rf::inverse(&a).unwrap();
    let nonuniform = s[0] != s[1] || s[1] != s[2];
    cx.set_nontrivial(no_zero_and_asym(&a, 3) && nonuniform);
    if s.iter().any(|x| *x < S::zero()) {
        cx.label("negative-scale");
    }
    if s.iter().any(|x| x.f().abs() < 0.01) {
        cx.label("small-scale");
    }
    sample!(cx, "{} TRS M={:?} scale={:?}", S::NAME, a, s);
    let (r, c) = (rm::Mat4::<S>::from_arr(&a), cm::Mat4::<S>::from_arr(&a));
    let k = 16384.0;
    check_two_sided(cx, "row-major inverted_affine_transform()", &a, &r.inverted_affine_transform().to_arr(), &reference, k)?;
    check_two_sided(cx, "col-major inverted_affine_transform()", &a, &c.inverted_affine_transform().to_arr(), &reference, k)?;
    let sc = vk::mat_max(&reference).max(1.0).powi(2) * vk::mat_max(&a).max(1.0).powi(2) * 8.0;
    check_mat!(cx, S, r.inverted_affine_transform().to_arr(), r.inverted().to_arr(), sc, k, "row-major affine inverse agrees with inverted()");
    check_mat!(cx, S, c.inverted_affine_transform().to_arr(), c.inverted().to_arr(), sc, k, "col-major affine inverse agrees with inverted()");
    let mut r2 = r;
    r2.invert_affine_transform();
    check_eq!(cx, r2.to_arr(), r.inverted_affine_transform().to_arr(), "row-major invert_affine_transform() == returning form");
    let mut c2 = c;
    c2.invert_affine_transform();
    check_eq!(cx, c2.to_arr(), c.inverted_affine_transform().to_arr(), "col-major invert_affine_transform() == returning form");
    Ok(())
}

pub fn property() -> Property {
    let mut checks = Vec::new();
    macro_rules! tape {
        ($name:expr, $about:expr, $len:expr, $q:expr, $th:expr, $f:expr) => {
            checks.push(Check { name: $name, about: $about, kind: Kind::Tape { len: $len, quick: $q, thorough: $th, f: $f } });
        };
    }
    let d = "determinant (both layouts) vs Leibniz permutation expansion; det(A^T) = det A; det unchanged by layout conversion; det(AB) = det A det B";
    tape!("det2-rat", d, 32, 40_000, 800_000, det2::<Rat>);
    tape!("det3-rat", d, 64, 40_000, 800_000, det3::<Rat>);
    tape!("det4-rat", d, 96, 24_000, 800_000, det4::<Rat>);
    tape!("det2-f64", d, 64, 20_000, 400_000, det2::<f64>);
    tape!("det3-f64", d, 128, 20_000, 400_000, det3::<f64>);
    tape!("det4-f64", d, 224, 20_000, 400_000, det4::<f64>);
    tape!("det4-f32", d, 224, 20_000, 400_000, det4::<f32>);
    let g = "Mat4::inverted/invert on matrices with det != 0: equals adjugate/det, M*inv = inv*M = I (reference product and vek's own product), both layouts";
    tape!("inverse-general-rat", g, 64, 30_000, 1_500_000, inverse_general::<Rat>);
    tape!("inverse-general-f64", g, 160, 30_000, 600_000, inverse_general::<f64>);
    let r = "inverted_affine_transform_no_scale (+ in-place) on rotation+translation matrices: two-sided inverse, equal to inverted() and to the scale-aware affine inverse";
    tape!("inverse-rigid-rat", r, 32, 36_000, 1_500_000, inverse_rigid::<Rat>);
    tape!("inverse-rigid-f64", r, 48, 30_000, 600_000, inverse_rigid::<f64>);
    let s = "inverted_affine_transform (+ in-place) on T*R*S matrices with scales of either sign in [2^-10, 2^10]: two-sided inverse, equal to inverted()";
    tape!("inverse-trs-rat", s, 48, 36_000, 1_500_000, inverse_trs::<Rat>);
    tape!("inverse-trs-f64", s, 64, 30_000, 600_000, inverse_trs::<f64>);
    // regime checks (src/wide.rs): exact base matrix, exact power-of-two scaling, exact rational oracle
    let ws = "Mat4::inverted/invert on structured families (affine non-TRS: shear, S*R, S*R*S, triangular, perturbed TRS; affine TRS; transposed affine; triangular, block, sparse, permutation, scaled-orthogonal, perspective-like, rank-one update, dense), all entries / the affine blocks / (Rat) rows and columns scaled by exact powers of two: equals the exact inverse, two-sided, both layouts, in-place form";
    tape!("inverse-structured-rat", ws, 96, 10_000, 400_000, wide::inverse_structured::<Rat>);
    tape!("inverse-structured-f64", ws, 96, 10_000, 400_000, wide::inverse_structured::<f64>);
    tape!("inverse-structured-f32", ws, 96, 10_000, 400_000, wide::inverse_structured::<f32>);
    let wr = "rigid fast inverse (+ in-place), affine fast inverse and general inverse on T*R over rotation regimes (generic, axis turns, identity, small angle, near half-turn) and translation regimes (zero, moderate, 2^-k, 2^k): exact inverse R^T [I | -t], two-sided";
    tape!("inverse-rigid-wide-rat", wr, 48, 6_000, 250_000, wide::inverse_rigid_wide::<Rat>);
    tape!("inverse-rigid-wide-f64", wr, 48, 6_000, 250_000, wide::inverse_rigid_wide::<f64>);
    tape!("inverse-rigid-wide-f32", wr, 48, 6_000, 250_000, wide::inverse_rigid_wide::<f32>);
    let wt = "affine fast inverse (+ in-place) and general inverse on T*R*S with per-axis scales 2^e * mantissa over the whole documented domain (|column|^2 > epsilon): large axis ratios, uniform, two equal axes, next to 1, smallest documented scale, either sign; translation regimes: exact inverse S^-1 R^T [I | -t], two-sided";
    tape!("inverse-trs-wide-rat", wt, 48, 10_000, 400_000, wide::inverse_trs_wide::<Rat>);
    tape!("inverse-trs-wide-f64", wt, 48, 10_000, 400_000, wide::inverse_trs_wide::<f64>);
    tape!("inverse-trs-wide-f32", wt, 48, 10_000, 400_000, wide::inverse_trs_wide::<f32>);
    let wo = "rigid / T*R*S matrices whose rotation block is a float-ROUNDED rotation (sin/cos about x, y, z, Rodrigues about a rational axis, or through a unit quaternion, computed in f64 and rounded to the domain; small angles down to 2^-30 (f32) / 2^-60 (f64), angles next to multiples of pi/2, ordinary angles, many turns) so that entries round to exactly 0 / 1 / -1 while their neighbours do not: all three inverses (+ in-place), both layouts, two-sided residual in doubled precision on the matrix as stored, relative to sum |a||g| per entry; same scale and translation regimes as *-wide";
    tape!("inverse-rigid-rounded-f64", wo, 48, 10_000, 400_000, wide::inverse_rigid_rounded::<f64>);
    tape!("inverse-rigid-rounded-f32", wo, 48, 10_000, 400_000, wide::inverse_rigid_rounded::<f32>);
    tape!("inverse-trs-rounded-f64", wo, 64, 10_000, 400_000, wide::inverse_trs_rounded::<f64>);
    tape!("inverse-trs-rounded-f32", wo, 64, 10_000, 400_000, wide::inverse_trs_rounded::<f32>);
    let wd = "determinant (both layouts, transposed, layout-converted, of a product) on structured families (triangular, diagonal, permutation, singular, sparse, affine row/column, (anti)symmetric, block, rank-one update, dense) with rows and columns scaled by exact powers of two: equals the exact determinant * 2^(sum of exponents)";
    tape!("det2-wide-rat", wd, 80, 4_000, 150_000, wide::det2_wide::<Rat>);
    tape!("det3-wide-rat", wd, 80, 4_000, 150_000, wide::det3_wide::<Rat>);
    tape!("det4-wide-rat", wd, 80, 4_000, 150_000, wide::det4_wide::<Rat>);
    tape!("det2-wide-f64", wd, 80, 4_000, 150_000, wide::det2_wide::<f64>);
    tape!("det3-wide-f64", wd, 80, 4_000, 150_000, wide::det3_wide::<f64>);
    tape!("det4-wide-f64", wd, 80, 4_000, 150_000, wide::det4_wide::<f64>);
    tape!("det2-wide-f32", wd, 80, 4_000, 150_000, wide::det2_wide::<f32>);
    tape!("det3-wide-f32", wd, 80, 4_000, 150_000, wide::det3_wide::<f32>);
    tape!("det4-wide-f32", wd, 80, 4_000, 150_000, wide::det4_wide::<f32>);
    // exact-arithmetic regime (src/exact.rs): float domains only
    let xe = "EXACT-ARITHMETIC regime: small dyadic matrices P1 L diag(s, 2^-e x) U P2 (rank p plus a tiny update: rank one plus tiny, one nearly dependent line, block form [[A,B],[C,CA^-1B+dX]]) at the largest e for which every product of entries from distinct rows/columns and every sub-sum of the signed monomials of every minor is exactly representable; the determinant nearly cancels (down to one unit of the last place of its terms) but every evaluation is exact: determinant() must equal the exact value bit for bit, also transposed / layout-converted / with rows and columns scaled by powers of two";
    tape!("det2-exact-f32", xe, 64, 1_500, 100_000, exact::det2_exact::<f32>);
    tape!("det3-exact-f32", xe, 64, 1_500, 100_000, exact::det3_exact::<f32>);
    tape!("det4-exact-f32", xe, 96, 2_500, 150_000, exact::det4_exact::<f32>);
    tape!("det2-exact-f64", xe, 64, 1_500, 100_000, exact::det2_exact::<f64>);
    tape!("det3-exact-f64", xe, 64, 1_500, 100_000, exact::det3_exact::<f64>);
    tape!("det4-exact-f64", xe, 96, 2_500, 150_000, exact::det4_exact::<f64>);
    let xi = "EXACT-ARITHMETIC regime, inverses: on the same nearly singular but exactly evaluable 4x4 matrices inverted()/invert() must return the exact adjugate over the exact determinant (exactly when det is a power of two, within 2 eps = reciprocal + product rounding otherwise), both layouts, scaled by powers of two; on axis permutation * scales +-2^k + dyadic translation all three inverses (+ in-place) must be exact";
    tape!("inverse-exact-f32", xi, 96, 4_000, 200_000, exact::inverse_exact::<f32>);
    tape!("inverse-exact-f64", xi, 96, 4_000, 200_000, exact::inverse_exact::<f64>);
    let xd = "determinant at the edge of the float range with ordinary entries (a small dyadic matrix times row/column powers of two whose exponents sum to the target): |det| subnormal with finite or overflowing reciprocal, around MIN_POSITIVE, within 2^12 of MAX, reciprocal subnormal: invert() == inverted() in everything observable (both layouts), and where the base is exactly evaluable inside the full float range (subnormal grid included) and adj/det is reachable through a representable reciprocal, inverted() is the exact inverse";
    tape!("inverse-det-edge-f32", xd, 128, 3_000, 200_000, exact::inverse_det_edge::<f32>);
    tape!("inverse-det-edge-f64", xd, 128, 3_000, 200_000, exact::inverse_det_edge::<f64>);
    Property {
        id: "C06",
        rule: "generated matrices with small rational / float entries (general), rational rotations from integer quaternions times translation (rigid), times per-axis scale of either sign (TRS); singular matrices are discarded and counted; non-trivial = no zero entry in the upper-left 3x3 (whole matrix for determinants), A != A^T, and non-uniform scale for TRS; distinct = distinct consumed tape prefix. Regime checks (*-structured, *-wide): an exact rational base matrix of moderate magnitude from a labelled structured family, times an exact power-of-two row/column scaling M' = diag(2^r) M diag(2^c) (all entries; linear part and translation of an affine matrix independently; per-axis scale exponents over the whole documented domain of the affine inverse; per row and column for determinants); vek's result is scaled back exactly and compared with the exact rational inverse / determinant at the base level. Non-trivial there = at most 5 zeros in the upper-left 3x3, A != A^T and (floats) tolerance <= |inverse|/64 (structured); rotation without zero entry and non-uniform scale resp. non-zero translation (TRS / rigid wide); |det| <= 2^16 eps * sum|terms| (exact regime); fewer than N*N-N zero entries and A != A^T (determinants)",
        assumptions: &[
            "rustc and the proptest runner/shrinker are trusted",
            "vkit::refmath: Leibniz determinant and adjugate inverse on plain arrays are the oracles; in the regime checks they are evaluated in exact rational arithmetic on the unscaled base matrix also for the float domains (the float input equals the rational base exactly where its entries are dyadic, and within 2 roundings per entry for rotation entries a/n)",
            "float domains: matrices with |det| >= 0.5 only, tolerance k*eps*scale with scale derived from the magnitudes of M and inv(M)",
            "regime checks, floats: multiplying by a power of two is exact, so the comparison is made after scaling the result back to the base level; fast inverses: 512 eps relative to 1/|scale_i| per row (times |t| for the translation column); determinants: 128 eps * sum over permutations of prod |a_i,p(i)| evaluated on the scaled matrix. The entry-wise scaled tolerance assumes an inverse algorithm that commutes with power-of-two row/column scaling (any division-free cofactor/block evaluation, and elimination with pivots chosen inside a column); uniform scaling of all entries needs no such assumption",
            "exponent ranges are bounded so that every product of four scaled entries, the 24-term sums and the reciprocal of the determinant stay inside the normal range (uniform and block scalings: f32 |k| <= 20, f64 <= 200, Rat <= 16 so that i128 does not overflow; translations alone down to 2^-56 in Rat); beyond that every correct implementation over/underflows and nothing is asserted. In Rat the general inverse is not called on T*R*S matrices whose exponents sum to more than 56 (i128 range); the fast inverse still is",
            "mixed magnitudes inside one matrix (one row / one column / the translation / one element scaled by 2^k, one line 2^k and another 2^-l): the exponent is drawn up to 2^124 (f32) / 2^1000 (f64) / 2^40 (Rat, and for a single element, whose oracle is the rational inverse of the modified base) and then reduced (x -> 3x/4) until every product of 1..4 non-zero entries from distinct rows and columns, the determinant, its reciprocal and every entry of the result lie within 2^+-118 (f32) / 2^+-1010 (f64) / 2^+-100 (Rat): exactly the products a Leibniz, cofactor or 2x2-block evaluation forms (partial products of terms ending in a structural zero included), so nothing is asserted where such an evaluation over/underflows. vek's own M * inv(M) and det(AB) are only formed where their terms stay in that window. Float matrices whose determinant is below 256 eps * (sum of the absolute Leibniz terms) are discarded: there any evaluation may return det = 0",
            "general inverse on structured families, entry-wise: |d inv_ij| <= 64 eps ((perm|minor_ji| + |inv_ij| perm|M|)/|det| + |inv_ij|) at the base level (a-priori bound of a signed-monomial evaluation with constant ~10; structural zeros drop out, so the linear part of an affine matrix never sees the size of its translation)",
            "float-rounded rotations (*-rounded): the rotation is computed in f64 (sin/cos, Rodrigues, via a unit quaternion) and rounded to the domain; the reference S^-1 R^T [I | -t] comes from the f64 rotation, the two-sided residual is evaluated in doubled precision (Dot2) on the matrix exactly as stored and must be <= 16 eps (64 eps in the f64 domain, whose rotations are themselves only orthogonal to ~12 eps) * {3 | 3 m_j/m_i | 6|t| | 4|t|/m_i}, the size of the terms of that entry; a rotation block off by less than ~50 eps (angle below 2^-17 in f32) is therefore not distinguished from rounding",
            "exact-arithmetic regime (*-exact, f32 and f64): a case is accepted only if (1) every product of 1..N non-zero entries from distinct rows and columns has at most 24 / 53 significant bits and (2) for every square minor the larger of (sum of its positive, sum of its negative signed Leibniz monomials), divided by 2^(smallest monomial exponent), has at most 24 / 53 bits (verified per case in i128; the power-of-two scaling is kept inside the range window). Then every sub-product and every sub-sum of signed monomials of one minor is representable, so a Leibniz sum in any order, a cofactor expansion and vek's 2x2-block formulas (the same monomials regrouped) are exact with or without fma. Asserted: determinant() == exact determinant bit for bit (including exactly 0 for exactly singular cases); inverted()[i][j] == adj_ij / det exactly when det is +-2^k, and within 2 eps (one reciprocal + one product rounding, or one division) otherwise, decided in integer arithmetic; on axis permutation * (+-2^k) scales + dyadic translation all three inverses are exact. An evaluation that forms other intermediates (e.g. pivoted elimination) is not covered by this exactness argument. The float-conditioning discard of the structured families (|det| < 256 eps sum|terms|) does not apply here: no rounding occurs",
            "determinant at the edge of the range (inverse-det-edge): entries m * 2^z are placed exactly (also on the subnormal grid). invert() must equal inverted() in every entry (NaN matching NaN) on EVERY generated matrix, whatever the determinant does (subnormal, reciprocal overflowing to inf, near MAX) - no oracle is involved. inverted() itself is asserted to be the exact adj/det only when the base is exactly evaluable inside the full finite range of the type (no intermediate bit below 2^-149 / 2^-1074, none above MAX) AND the reciprocal of the determinant is representable (a power of two inside the grid) or a normal number with normal quotients; where 1/det overflows (|det| <= 2^-128 in f32, 2^-1024 in f64) vek returns inf/NaN although the inverse itself may be representable - that is the over/underflow of a reciprocal-based evaluation and is not asserted",
            "affine fast inverse: the documented domain is |column|^2 > T::epsilon() (the epsilon substitution branch); per-axis scales are kept at s^2 >= 1.75 epsilon (|s| >= 2^-11 in f32, 2^-25 in f64 and Rat, whose epsilon is 2^-52) and <= 2^21 (f32) / 2^41 (f64) / 2^31 (Rat); the substitution branch itself (negligibly small scales) is outside the property and is not exercised",
        ],
        checks,
        max_discard_frac: 0.25,
    }
}
