fn main() {
    vkit::driver::main(c06::property())
}
