//! C06 regime checks: structured matrix families, exact power-of-two scaling, wide scale ratios.
//!
//! Every case is built from an exact rational *base* matrix of moderate magnitude (dyadic entries wherever a
//! float domain needs the input to be exact) and an exact power-of-two row/column scaling
//! `M' = diag(2^r) * M * diag(2^c)`. vek sees `M'`; its result is scaled back exactly
//! (`inv(M) = diag(2^c) * inv(M') * diag(2^r)`, `det M = det M' / 2^(sum r + sum c)`) and compared with the exact
//! rational oracle at the base level, so every float tolerance is relative to the magnitude the result has in that
//! regime (a power of two never adds a rounding error).

use num_traits::{NumCast, Zero};
use std::any::Any;
use vek::mat::repr_c::column_major as cm;
use vek::mat::repr_c::row_major as rm;
use vkit::gens;
use vkit::refmath as rf;
use vkit::vk::MatN;
use vkit::*;

pub type M4<T> = [[T; 4]; 4];

// ---------------------------------------------------------------------------------------------------------------
// exact helpers
// ---------------------------------------------------------------------------------------------------------------

/// Exact rational -> domain value (identity for `Rat`, nearest float otherwise).
pub fn rat_to<S: Dom>(r: Rat) -> S {
    if S::EXACT {
        *(&r as &dyn Any).downcast_ref::<S>().expect("the exact domain is Rat")
    } else {
        <S as NumCast>::from(r.to_f64_lossy()).expect("finite float")
    }
}

/// Exactly 2^e in the domain, O(1).
pub fn p2<S: Dom>(e: i32) -> S {
    if e == 0 {
        return S::one();
    }
    if S::EXACT {
        assert!(e.abs() <= 118, "2^{} outside the Rat range", e);
        rat_to::<S>(if e > 0 { Rat::new(1i128 << e, 1) } else { Rat::new(1, 1i128 << (-e)) })
    } else {
        let lim = if S::NAME == "f32" { 126 } else { 1022 };
        assert!(e.abs() <= lim, "2^{} outside the normal range of {}", e, S::NAME);
        let x = f64::from_bits(((1023 + e) as u64) << 52);
        <S as NumCast>::from(x).expect("power of two in range")
    }
}

fn map4<A: Copy, B: Copy + Default>(a: &M4<A>, f: impl Fn(A) -> B) -> M4<B> {
    let mut r = [[B::default(); 4]; 4];
    for i in 0..4 {
        for j in 0..4 {
            r[i][j] = f(a[i][j]);
        }
    }
    r
}

fn rat_max<const N: usize>(a: &[[Rat; N]; N]) -> f64 {
    let mut m = 0.0f64;
    for r in a {
        for x in r {
            m = m.max(x.to_f64_lossy().abs());
        }
    }
    m
}

/// `M' = diag(2^r) * M * diag(2^c)`.
#[derive(Clone, Copy, Debug, PartialEq)]
pub struct Scaling {
    pub r: [i32; 4],
    pub c: [i32; 4],
}

impl Scaling {
    pub const NONE: Scaling = Scaling { r: [0; 4], c: [0; 4] };
    pub fn weight(&self) -> i32 {
        self.r.iter().chain(self.c.iter()).map(|x| x.abs()).sum()
    }
    fn mul<S: Dom>(m: &M4<S>, e: impl Fn(usize, usize) -> i32) -> M4<S> {
        let mut o = *m;
        for i in 0..4 {
            for j in 0..4 {
                let k = e(i, j);
                if k != 0 && !m[i][j].is_zero() {
                    o[i][j] = m[i][j] * p2::<S>(k);
                }
            }
        }
        o
    }
    pub fn apply<S: Dom>(&self, m: &M4<S>) -> M4<S> {
        Self::mul(m, |i, j| self.r[i] + self.c[j])
    }
    /// inv(M) from inv(M').
    pub fn unscale_inverse<S: Dom>(&self, g: &M4<S>) -> M4<S> {
        Self::mul(g, |i, j| self.c[i] + self.r[j])
    }
    /// M * inv(M) from M' * inv(M') (= D_r P D_r^-1).
    pub fn unscale_left_product<S: Dom>(&self, p: &M4<S>) -> M4<S> {
        Self::mul(p, |i, j| self.r[j] - self.r[i])
    }
    /// inv(M) * M from inv(M') * M' (= D_c^-1 Q D_c).
    pub fn unscale_right_product<S: Dom>(&self, q: &M4<S>) -> M4<S> {
        Self::mul(q, |i, j| self.c[i] - self.c[j])
    }
}

/// A non-zero exponent stratified over [1, kmax] (small / middle / extreme), either sign.
fn kexp(t: &mut Tape, kmax: i32) -> i32 {
    let kmax = kmax.max(4) as i64;
    let k = match t.below(4) {
        0 => t.int(1, kmax / 4),
        1 => t.int(kmax / 4, kmax / 2),
        _ => t.int(kmax / 2, kmax),
    } as i32;
    if t.bool() {
        -k
    } else {
        k
    }
}

/// Largest exponent of a uniform / block scaling of a 4x4 matrix with entries <= 48 such that every product of four
/// entries, their 24-term sums and the reciprocal of the determinant stay normal (f32: 2^(4*20) * 48^4 * 24 < 2^108).
fn kmax4<S: Dom>() -> i32 {
    match S::NAME {
        "f32" => 20,
        "f64" => 200,
        _ => 16,
    }
}

fn ri(n: i64) -> Rat {
    Rat::int(n)
}

/// Dyadic entry, |x| <= 6 (exact in f32).
fn ent(t: &mut Tape) -> Rat {
    let n = t.int(-6, 6);
    match t.below(8) {
        0 => Rat::frac(n, 2),
        1 => Rat::frac(n, 4),
        _ => ri(n),
    }
}

/// Non-zero dyadic entry, |x| <= 6.
fn nz(t: &mut Tape) -> Rat {
    let n = t.int(1, 6);
    let n = if t.bool() { -n } else { n };
    match t.below(8) {
        0 => Rat::frac(n, 2),
        1 => Rat::frac(n, 4),
        _ => ri(n),
    }
}

/// A small non-zero scale (dyadic) for products with integer rotations: |x| in {1/2, 1, 2, 3}.
fn dsmall(t: &mut Tape) -> Rat {
    let v = t.pick(&[ri(1), ri(2), ri(3), Rat::frac(1, 2), ri(1), ri(2)]);
    if t.chance(64) {
        -v
    } else {
        v
    }
}

/// n * R(q) as an integer matrix (columns and rows pairwise orthogonal, all of length n), and n = |q|^2.
fn int_rot(q: &[i64; 4]) -> ([[i64; 3]; 3], i64) {
    let (w, x, y, z) = (q[0], q[1], q[2], q[3]);
    let n = w * w + x * x + y * y + z * z;
    (
        [
            [w * w + x * x - y * y - z * z, 2 * (x * y - w * z), 2 * (x * z + w * y)],
            [2 * (x * y + w * z), w * w - x * x + y * y - z * z, 2 * (y * z - w * x)],
            [2 * (x * z - w * y), 2 * (y * z + w * x), w * w - x * x - y * y + z * z],
        ],
        n,
    )
}

fn ident3() -> [[Rat; 3]; 3] {
    let mut l = [[Rat::ZERO; 3]; 3];
    for i in 0..3 {
        l[i][i] = Rat::ONE;
    }
    l
}

/// Integer scaled rotation with entries <= 16.
fn krot(t: &mut Tape) -> [[Rat; 3]; 3] {
    let q = gens::int_quat(t, 2);
    let (k, _) = int_rot(&q);
    let mut l = [[Rat::ZERO; 3]; 3];
    for i in 0..3 {
        for j in 0..3 {
            l[i][j] = ri(k[i][j]);
        }
    }
    l
}

fn signed_perm<const N: usize>(t: &mut Tape) -> [[Rat; N]; N] {
    // Fisher-Yates from the tape
    let mut p = [0usize; N];
    for i in 0..N {
        p[i] = i;
    }
    for i in (1..N).rev() {
        let j = t.below(i + 1);
        p.swap(i, j);
    }
    let mut m = [[Rat::ZERO; N]; N];
    for i in 0..N {
        m[i][p[i]] = nz(t);
    }
    m
}

// ---------------------------------------------------------------------------------------------------------------
// structured families for the general inverse
// ---------------------------------------------------------------------------------------------------------------

/// The linear 3x3 part of an affine matrix.
fn lin3(t: &mut Tape) -> ([[Rat; 3]; 3], &'static str) {
    match t.below(11) {
        0 => {
            let mut l = ident3();
            let cnt = 1 + t.below(3);
            for _ in 0..cnt {
                let i = t.below(3);
                let j = (i + 1 + t.below(2)) % 3;
                l[i][j] = nz(t);
            }
            if t.bool() {
                for i in 0..3 {
                    l[i][i] = dsmall(t);
                }
            }
            (l, "affine: shear")
        }
        1 => {
            let k = krot(t);
            let d = [dsmall(t), dsmall(t), dsmall(t)];
            let mut l = k;
            for i in 0..3 {
                for j in 0..3 {
                    l[i][j] = d[i] * k[i][j];
                }
            }
            (l, "affine: scale applied after a rotation (S*R)")
        }
        2 => {
            let k = krot(t);
            let d = [dsmall(t), dsmall(t), dsmall(t)];
            let mut l = k;
            for i in 0..3 {
                for j in 0..3 {
                    l[i][j] = k[i][j] * d[j];
                }
            }
            (l, "affine: T*R*S")
        }
        3 => {
            let k = krot(t);
            let d = [dsmall(t), dsmall(t), dsmall(t)];
            let e = [dsmall(t), dsmall(t), dsmall(t)];
            let mut l = k;
            for i in 0..3 {
                for j in 0..3 {
                    l[i][j] = d[i] * k[i][j] * e[j];
                }
            }
            (l, "affine: S*R*S")
        }
        4 => {
            let upper = t.bool();
            let mut l = [[Rat::ZERO; 3]; 3];
            for i in 0..3 {
                for j in 0..3 {
                    if i == j {
                        l[i][j] = nz(t);
                    } else if (i < j) == upper {
                        l[i][j] = ent(t);
                    }
                }
            }
            (l, "affine: triangular 3x3")
        }
        5 => {
            let mut l = [[Rat::ZERO; 3]; 3];
            for i in 0..3 {
                for j in i..3 {
                    l[i][j] = ent(t);
                    l[j][i] = l[i][j];
                }
            }
            (l, "affine: symmetric 3x3")
        }
        6 => {
            let k = krot(t);
            let d = [dsmall(t), dsmall(t), dsmall(t)];
            let mut l = k;
            for i in 0..3 {
                for j in 0..3 {
                    l[i][j] = k[i][j] * d[j];
                }
            }
            let (i, j) = (t.below(3), t.below(3));
            let p = t.pick(&[ri(1), ri(-1), Rat::frac(1, 4), Rat::frac(-1, 4), Rat::frac(1, 64), Rat::frac(-1, 1024)]);
            l[i][j] = l[i][j] + p;
            (l, "affine: T*R*S with one perturbed entry")
        }
        7 => {
            let k = krot(t);
            let mut l = k;
            let c = t.below(3);
            for i in 0..3 {
                l[i][c] = ent(t);
            }
            (l, "affine: two orthogonal columns, third arbitrary")
        }
        8 => (signed_perm::<3>(t), "affine: axis permutation * scale"),
        9 => {
            let mut l = [[Rat::ZERO; 3]; 3];
            for i in 0..3 {
                l[i][i] = nz(t);
            }
            (l, "affine: diagonal")
        }
        _ => {
            let mut l = [[Rat::ZERO; 3]; 3];
            for i in 0..3 {
                for j in 0..3 {
                    l[i][j] = ent(t);
                }
            }
            (l, "affine: dense 3x3")
        }
    }
}

#[derive(Clone, Copy, Debug, PartialEq)]
pub enum Affine {
    No,
    LastRow,
    LastCol,
}

fn dense4(t: &mut Tape) -> M4<Rat> {
    let mut m = [[Rat::ZERO; 4]; 4];
    for i in 0..4 {
        for j in 0..4 {
            m[i][j] = ent(t);
        }
    }
    m
}

fn block2(t: &mut Tape, singular: bool) -> [[Rat; 2]; 2] {
    if singular {
        match t.below(3) {
            0 => [[Rat::ZERO; 2]; 2],
            _ => {
                let (u, v) = ([nz(t), ent(t)], [nz(t), ent(t)]);
                [[u[0] * v[0], u[0] * v[1]], [u[1] * v[0], u[1] * v[1]]]
            }
        }
    } else {
        [[ent(t), ent(t)], [ent(t), ent(t)]]
    }
}

fn put2(m: &mut M4<Rat>, bi: usize, bj: usize, b: &[[Rat; 2]; 2]) {
    for i in 0..2 {
        for j in 0..2 {
            m[2 * bi + i][2 * bj + j] = b[i][j];
        }
    }
}

/// A structured 4x4 matrix with dyadic entries of magnitude <= 48, its label, and whether (and where) it carries the
/// exact affine row / column (0,0,0,1).
pub fn family(t: &mut Tape) -> (M4<Rat>, &'static str, Affine) {
    let sel = t.below(20);
    let (m, label, mut aff) = match sel {
        0..=8 => {
            let (l, label) = lin3(t);
            let tr = if t.chance(48) { [Rat::ZERO; 3] } else { [ent(t), ent(t), ent(t)] };
            (gens::embed4(&l, &tr), label, Affine::LastRow)
        }
        9 => {
            let upper = t.bool();
            let mut m = [[Rat::ZERO; 4]; 4];
            for i in 0..4 {
                for j in 0..4 {
                    if i == j {
                        m[i][j] = nz(t);
                    } else if (i < j) == upper {
                        m[i][j] = ent(t);
                    }
                }
            }
            (m, "triangular 4x4", Affine::No)
        }
        10 => {
            let mut m = [[Rat::ZERO; 4]; 4];
            put2(&mut m, 0, 0, &block2(t, false));
            put2(&mut m, 1, 1, &block2(t, false));
            (m, "block diagonal (2x2 blocks)", Affine::No)
        }
        11 => {
            let mut m = [[Rat::ZERO; 4]; 4];
            put2(&mut m, 0, 0, &block2(t, false));
            put2(&mut m, 1, 1, &block2(t, false));
            if t.bool() {
                put2(&mut m, 0, 1, &block2(t, false));
            } else {
                put2(&mut m, 1, 0, &block2(t, false));
            }
            (m, "block triangular (one off-diagonal 2x2 block zero)", Affine::No)
        }
        12 => {
            let mut m = dense4(t);
            match t.below(4) {
                0 => {
                    // anti-block: both diagonal blocks zero
                    put2(&mut m, 0, 0, &[[Rat::ZERO; 2]; 2]);
                    put2(&mut m, 1, 1, &[[Rat::ZERO; 2]; 2]);
                }
                1 => put2(&mut m, 0, 0, &block2(t, true)),
                2 => put2(&mut m, 1, 1, &block2(t, true)),
                _ => {
                    put2(&mut m, 0, 0, &block2(t, true));
                    put2(&mut m, 1, 1, &block2(t, true));
                }
            }
            (m, "singular or zero diagonal 2x2 blocks", Affine::No)
        }
        13 => (signed_perm::<4>(t), "generalised permutation 4x4", Affine::No),
        14 => {
            let mut m = [[Rat::ZERO; 4]; 4];
            for i in 0..4 {
                m[i][i] = if t.bool() { Rat::ONE } else { nz(t) };
            }
            let cnt = 1 + t.below(4);
            for _ in 0..cnt {
                let i = t.below(4);
                let j = (i + 1 + t.below(3)) % 4;
                m[i][j] = nz(t);
            }
            (m, "sparse: diagonal plus a few entries", Affine::No)
        }
        15 => {
            // left-multiplication matrix of an integer quaternion: orthogonal columns of equal length
            let q = gens::int_quat(t, 3);
            let (w, x, y, z) = (ri(q[0]), ri(q[1]), ri(q[2]), ri(q[3]));
            let mut m = [[w, -x, -y, -z], [x, w, -z, y], [y, z, w, -x], [z, -y, x, w]];
            let label = match t.below(3) {
                0 => "4x4 scaled orthogonal (quaternion matrix)",
                1 => {
                    for i in 0..4 {
                        let d = dsmall(t);
                        for j in 0..4 {
                            m[i][j] = d * m[i][j];
                        }
                    }
                    "4x4 row-scaled orthogonal"
                }
                _ => {
                    for j in 0..4 {
                        let d = dsmall(t);
                        for i in 0..4 {
                            m[i][j] = m[i][j] * d;
                        }
                    }
                    "4x4 column-scaled orthogonal"
                }
            };
            (m, label, Affine::No)
        }
        16 => {
            let z = Rat::ZERO;
            let e = if t.bool() { ri(-1) } else { ri(1) };
            let m = [[nz(t), z, ent(t), z], [z, nz(t), ent(t), z], [z, z, ent(t), nz(t)], [z, z, e, if t.chance(64) { ent(t) } else { z }]];
            (m, "perspective-like (last row (0,0,+-1,w))", Affine::No)
        }
        17 => {
            let (l, _) = lin3(t);
            let tr = [ent(t), ent(t), ent(t)];
            let mut m = gens::embed4(&l, &tr);
            m[3][3] = t.pick(&[ri(2), ri(-1), Rat::frac(1, 2), ri(4), ri(-3), Rat::frac(1, 4)]);
            (m, "last row (0,0,0,w), w != 1", Affine::No)
        }
        18 => {
            // rank-one update of a diagonal matrix
            let (u, v) = ([ent(t), ent(t), ent(t), ent(t)], [ent(t), ent(t), ent(t), ent(t)]);
            let mut m = [[Rat::ZERO; 4]; 4];
            for i in 0..4 {
                for j in 0..4 {
                    m[i][j] = u[i] * v[j];
                }
                m[i][i] = m[i][i] + Rat::ONE;
            }
            (m, "identity plus rank one", Affine::No)
        }
        _ => {
            let mut m = dense4(t);
            if t.bool() {
                for i in 0..4 {
                    for j in 0..i {
                        m[i][j] = m[j][i];
                    }
                }
                (m, "symmetric 4x4", Affine::No)
            } else {
                (m, "dense 4x4", Affine::No)
            }
        }
    };
    let mut m = m;
    if t.chance(56) {
        m = rf::transpose(&m);
        if aff == Affine::LastRow {
            aff = Affine::LastCol;
        }
    }
    (m, label, aff)
}

fn pick_scaling<S: Dom>(t: &mut Tape, aff: Affine) -> (Scaling, &'static str) {
    let kmax = kmax4::<S>();
    let sel = t.below(8);
    let uniform = |t: &mut Tape| {
        let k = kexp(t, kmax);
        (Scaling { r: [0; 4], c: [k; 4] }, if k < 0 { "all entries * 2^k, k < 0" } else { "all entries * 2^k, k > 0" })
    };
    match sel {
        0..=2 => (Scaling::NONE, "unit scale"),
        3 | 4 => uniform(t),
        5 | 6 if aff != Affine::No => {
            let (kl, kt) = match t.below(3) {
                0 => (kexp(t, kmax), kexp(t, kmax)),
                1 => (0, kexp(t, kmax)),
                _ => (kexp(t, kmax), 0),
            };
            let (a, b) = ([kl, kl, kl, kt], [0, 0, 0, -kt]);
            let label = if kl == 0 {
                "affine: translation * 2^k only"
            } else if kt == 0 {
                "affine: linear part * 2^k only"
            } else {
                "affine: linear part and translation scaled independently"
            };
            (if aff == Affine::LastRow { Scaling { r: b, c: a } } else { Scaling { r: a, c: b } }, label)
        }
        7 if S::EXACT => {
            let mut s = Scaling::NONE;
            for i in 0..4 {
                s.r[i] = t.int(-6, 6) as i32;
                s.c[i] = t.int(-6, 6) as i32;
            }
            (s, "independent row and column exponents (Rat only)")
        }
        _ => uniform(t),
    }
}

/// `Mat4::inverted()` / `invert()` on structured matrices, scaled exactly.
pub fn inverse_structured<S: Dom>(t: &mut Tape, cx: &mut Cx) -> CaseResult {
    let (b, label, aff) = family(t);
    let d = rf::det(&b);
    if d.is_zero() {
        discard!("precondition:det=0");
    }
    let (sc, sc_label) = pick_scaling::<S>(t, aff);
    cx.label(label);
    cx.label(sc_label);
    match aff {
        Affine::LastRow => cx.label("exact last row (0,0,0,1)"),
        Affine::LastCol => cx.label("exact last column (0,0,0,1)"),
        Affine::No => {}
    }
    if sc.weight() >= 2 * kmax4::<S>() {
        cx.label("extreme exponent (>= kmax/2)");
    }
    let binv = rf::inverse(&b).expect("non-singular");
    let (m, w) = (rat_max(&b), rat_max(&binv));
    // a-priori bound of any adjugate/cofactor evaluation: |d adj| <= c eps m^3, |d det| <= c eps m^4
    // (worst case constant ~ 650 for a dense matrix with all |entries| = m; 256 is still 500 times the largest error
    // observed on the unchanged tree)
    let amp = m.powi(3) / d.to_f64_lossy().abs() * (1.0 + m * w);
    let k = 256.0;
    let mut zeros = 0;
    for i in 0..3 {
        for j in 0..3 {
            if b[i][j].is_zero() {
                zeros += 1;
            }
        }
    }
    // non-trivial: the 3x3 part is not diagonal-like, the matrix is not symmetric, and (floats) the tolerance is far
    // below the size of the inverse
    cx.set_nontrivial(zeros <= 5 && b != rf::transpose(&b) && (S::EXACT || k * S::eps() * amp <= w / 64.0));
    let bs: M4<S> = map4(&b, rat_to::<S>);
    let w0: M4<S> = map4(&binv, rat_to::<S>);
    let ms = sc.apply(&bs);
    sample!(cx, "{} {} base={:?} det={:?} scaling={:?} M={:?}", S::NAME, label, b, d, sc, ms);
    let id: M4<S> = rf::identity();
    let (r, c) = (rm::Mat4::<S>::from_arr(&ms), cm::Mat4::<S>::from_arr(&ms));
    let (ri_, ci_) = (r.inverted(), c.inverted());
    let prod_scale = 4.0 * m * amp + 16.0 * m * w;
    for (what, g) in [("row-major", ri_.to_arr()), ("col-major", ci_.to_arr())] {
        let g0 = sc.unscale_inverse(&g);
        check_mat!(cx, S, g0, w0, amp, k, "{} inverted() of a structured matrix ({}) vs the exact inverse (scaled back by powers of two)", what, label);
        check_mat!(cx, S, rf::matmul(&bs, &g0), id, prod_scale, k, "{} M * inverted() = I ({})", what, label);
        check_mat!(cx, S, rf::matmul(&g0, &bs), id, prod_scale, k, "{} inverted() * M = I ({})", what, label);
    }
    let mut r2 = r;
    r2.invert();
    check_eq!(cx, r2.to_arr(), ri_.to_arr(), "row-major invert() == inverted() ({})", label);
    let mut c2 = c;
    c2.invert();
    check_eq!(cx, c2.to_arr(), ci_.to_arr(), "col-major invert() == inverted() ({})", label);
    // vek's own products, both orders, one per layout
    check_mat!(cx, S, sc.unscale_left_product(&(r * ri_).to_arr()), id, prod_scale, k, "row-major M * M.inverted() ({})", label);
    check_mat!(cx, S, sc.unscale_right_product(&(ci_ * c).to_arr()), id, prod_scale, k, "col-major M.inverted() * M ({})", label);
    Ok(())
}

// ---------------------------------------------------------------------------------------------------------------
// fast inverses on rigid / T*R*S matrices over wide magnitude regimes
// ---------------------------------------------------------------------------------------------------------------

fn rot_regime(t: &mut Tape) -> ([[Rat; 3]; 3], &'static str) {
    let (q, label) = match t.below(8) {
        0..=3 => (gens::int_quat(t, 4), "generic rotation"),
        4 => (gens::int_quat(t, 1), "quaternion with components in {-1,0,1} (axis turns, 120 degrees)"),
        5 => ([1, 0, 0, 0], "identity rotation"),
        6 => {
            let w = 1i64 << t.int(3, 10);
            let mut v = [t.int(-3, 3), t.int(-3, 3), t.int(-3, 3)];
            if v == [0, 0, 0] {
                v[t.below(3)] = 1;
            }
            ([w, v[0], v[1], v[2]], "small-angle rotation")
        }
        _ => {
            let mut v = [t.int(-8, 8), t.int(-8, 8), t.int(-8, 8)];
            if v == [0, 0, 0] {
                v[t.below(3)] = 1;
            }
            ([t.int(0, 1), v[0], v[1], v[2]], "near half-turn")
        }
    };
    let (k, n) = int_rot(&q);
    let mut r = [[Rat::ZERO; 3]; 3];
    for i in 0..3 {
        for j in 0..3 {
            r[i][j] = Rat::frac(k[i][j], n);
        }
    }
    (r, label)
}

/// Exponent range of a scale factor 2^e * mant (15/16 <= mant < 2): the affine inverse documents (by its epsilon
/// branch) the domain |column|^2 > T::epsilon(); emin keeps s^2 >= 1.75 * epsilon. emax keeps s^2 and every product of
/// four entries finite.
fn scale_exp_range<S: Dom>() -> (i64, i64) {
    match S::NAME {
        "f32" => (-11, 20),
        "f64" => (-25, 40),
        _ => (-25, 30),
    }
}

fn scales_regime<S: Dom>(t: &mut Tape) -> ([Rat; 3], [i32; 3], &'static str) {
    let (emin, emax) = scale_exp_range::<S>();
    let mants = [ri(1), ri(1), ri(1), ri(1), Rat::frac(3, 2), Rat::frac(5, 4), Rat::frac(7, 4), Rat::frac(5, 3), Rat::frac(7, 5), Rat::frac(9, 8)];
    let mut mant = [t.pick(&mants), t.pick(&mants), t.pick(&mants)];
    let mut e = [0i32; 3];
    let label = match t.below(8) {
        0 | 1 => {
            for i in 0..3 {
                e[i] = t.int(emin, emax) as i32;
            }
            "independent scale exponents"
        }
        2 => {
            let hi = t.int(emax / 2, emax) as i32;
            let lo = t.int(emin, emin / 2) as i32;
            let mid = t.int(-2, 2) as i32;
            let p = t.pick(&[[0usize, 1, 2], [0, 2, 1], [1, 0, 2], [1, 2, 0], [2, 0, 1], [2, 1, 0]]);
            e[p[0]] = hi;
            e[p[1]] = mid;
            e[p[2]] = lo;
            "one large, one moderate, one small axis"
        }
        3 => {
            let k = t.int(emin, emax) as i32;
            e = [k; 3];
            mant = [mant[0]; 3];
            "uniform scale"
        }
        4 => {
            let (k, l) = (t.int(emin, emax) as i32, t.int(emin, emax) as i32);
            let o = t.below(3);
            e = [k; 3];
            e[o] = l;
            mant = [mant[0]; 3];
            "two equal axes"
        }
        5 => {
            let jmax = match S::NAME {
                "f32" => 20,
                "f64" => 40,
                _ => 12,
            };
            for i in 0..3 {
                let j = t.int(4, jmax);
                let d = Rat::new(1, 1i128 << j);
                mant[i] = if t.bool() { Rat::ONE + d } else { Rat::ONE - d };
            }
            "scales next to 1 (1 +- 2^-j)"
        }
        6 => {
            for i in 0..3 {
                e[i] = t.int(-3, 3) as i32;
            }
            "moderate scales"
        }
        _ => {
            for i in 0..3 {
                e[i] = if t.bool() { emin as i32 } else { t.int(emin, 0) as i32 };
            }
            e[t.below(3)] = emin as i32;
            "smallest documented scale on some axis"
        }
    };
    for i in 0..3 {
        if t.chance(48) {
            mant[i] = -mant[i];
        }
    }
    (mant, e, label)
}

fn transl_regime<S: Dom>(t: &mut Tape) -> ([Rat; 3], i32, &'static str) {
    let ktmax = match S::NAME {
        "f32" => 24,
        "f64" => 100,
        _ => 56,
    };
    if t.chance(32) {
        return ([Rat::ZERO; 3], 0, "zero translation");
    }
    let tr = [Rat::frac(t.int(-160, 160), 8), Rat::frac(t.int(-160, 160), 8), Rat::frac(t.int(-160, 160), 8)];
    if tr == [Rat::ZERO; 3] {
        return (tr, 0, "zero translation");
    }
    if t.bool() {
        (tr, 0, "moderate translation")
    } else {
        let k = kexp(t, ktmax);
        (tr, k, if k < 0 { "tiny translation (2^k, k < 0)" } else { "huge translation (2^k, k > 0)" })
    }
}

fn ratio_label(e: &[i32; 3]) -> &'static str {
    let span = e.iter().max().unwrap() - e.iter().min().unwrap();
    match span {
        0..=5 => "axis ratio < 2^6",
        6..=11 => "axis ratio 2^6..2^11",
        12..=25 => "axis ratio 2^12..2^25",
        _ => "axis ratio >= 2^26",
    }
}

fn check_affine_like<S: Dom>(cx: &mut Cx, what: &str, g0: &M4<S>, w0: &M4<S>, lin_scale: f64, tr_scale: f64, k: f64) -> CaseResult {
    // linear part and last row: relative to 1/|scale|; translation column: relative to |t|/|scale|
    let mut gl = *g0;
    let mut wl = *w0;
    for i in 0..3 {
        gl[i][3] = S::zero();
        wl[i][3] = S::zero();
    }
    check_mat!(cx, S, gl, wl, lin_scale, k, "{}: linear part and last row vs the exact S^-1 R^T", what);
    let gt = [g0[0][3], g0[1][3], g0[2][3]];
    let wt = [w0[0][3], w0[1][3], w0[2][3]];
    check_vec!(cx, S, gt, wt, tr_scale, k, "{}: translation column vs the exact -S^-1 R^T t", what);
    Ok(())
}

/// Shared body: `rigid` -> T*R with the no-scale inverse (and the other two), else T*R*S with the affine inverse.
fn fast_inverse_wide<S: Dom>(t: &mut Tape, cx: &mut Cx, rigid: bool) -> CaseResult {
    let (rot, rot_label) = rot_regime(t);
    let (mant, e, s_label) = if rigid { ([Rat::ONE; 3], [0; 3], "no scale") } else { scales_regime::<S>(t) };
    let (tr, kt, t_label) = transl_regime::<S>(t);
    cx.label(rot_label);
    cx.label(t_label);
    if !rigid {
        cx.label(s_label);
        cx.label(ratio_label(&e));
        if mant.iter().any(|x| *x < Rat::ZERO) {
            cx.label("negative scale");
        }
    }
    // exact base matrix (moderate) and its exact inverse  S^-1 R^T [I | -t]
    let mut l = rot;
    for i in 0..3 {
        for j in 0..3 {
            l[i][j] = rot[i][j] * mant[j];
        }
    }
    let b = gens::embed4(&l, &tr);
    let mut binv = [[Rat::ZERO; 4]; 4];
    binv[3][3] = Rat::ONE;
    for i in 0..3 {
        let mut acc = Rat::ZERO;
        for j in 0..3 {
            binv[i][j] = rot[j][i] / mant[i];
            acc = acc + rot[j][i] * tr[j];
        }
        binv[i][3] = -(acc / mant[i]);
    }
    let sc = Scaling { r: [0, 0, 0, -kt], c: [e[0], e[1], e[2], kt] };
    let bs: M4<S> = map4(&b, rat_to::<S>);
    let w0: M4<S> = map4(&binv, rat_to::<S>);
    let ms = sc.apply(&bs);
    let rot_dense = rot.iter().all(|r| r.iter().all(|x| !x.is_zero()));
    let nonuniform = !(e[0] == e[1] && e[1] == e[2] && mant[0] == mant[1] && mant[1] == mant[2]);
    cx.set_nontrivial(rot_dense && if rigid { tr != [Rat::ZERO; 3] } else { nonuniform });
    sample!(cx, "{} rot={:?} scale mantissas={:?} exponents={:?} t={:?}*2^{} M={:?}", S::NAME, rot, mant, e, tr, kt, ms);

    let mf: Vec<f64> = mant.iter().map(|x| x.to_f64_lossy().abs()).collect();
    let (mmin, mmax) = (mf.iter().cloned().fold(f64::MAX, f64::min), mf.iter().cloned().fold(0.0, f64::max));
    let tmax = tr.iter().map(|x| x.to_f64_lossy().abs()).fold(0.0, f64::max);
    let lin_scale = 1.0 / mmin;
    let tr_scale = tmax / mmin;
    let prod_scale = (mmax / mmin) * tmax.max(1.0);
    // column_i / |column_i|^2 and -(row . t): <= ~10 roundings per entry on top of the two roundings of each base entry;
    // 512 keeps two orders of magnitude above the largest error observed (3 eps) and three or more below an O(1) defect
    let k = 512.0;
    let id: M4<S> = rf::identity();
    let (r, c) = (rm::Mat4::<S>::from_arr(&ms), cm::Mat4::<S>::from_arr(&ms));

    // the general inverse: tolerance of an adjugate evaluation at the base level
    let m = rat_max(&b).max(1.0);
    let w = rat_max(&binv);
    let det = (mf[0] * mf[1] * mf[2]).abs();
    let amp = m.powi(3) / det * (1.0 + m * w);
    let general_ok = !S::EXACT || sc.weight() <= 56;
    if !general_ok {
        cx.label("general inverse not called (Rat: four-fold products would leave the i128 range)");
    }

    macro_rules! one {
        ($what:expr, $g:expr) => {{
            let g0 = sc.unscale_inverse(&$g.to_arr());
            check_affine_like(cx, $what, &g0, &w0, lin_scale, tr_scale, k)?;
            check_mat!(cx, S, rf::matmul(&bs, &g0), id, prod_scale, k, "{}: M * inv(M) = I (scaled back by powers of two)", $what);
            check_mat!(cx, S, rf::matmul(&g0, &bs), id, prod_scale, k, "{}: inv(M) * M = I (scaled back by powers of two)", $what);
        }};
    }
    if rigid {
        one!("row-major inverted_affine_transform_no_scale()", r.inverted_affine_transform_no_scale());
        one!("col-major inverted_affine_transform_no_scale()", c.inverted_affine_transform_no_scale());
        let mut r2 = r;
        r2.invert_affine_transform_no_scale();
        check_eq!(cx, r2.to_arr(), r.inverted_affine_transform_no_scale().to_arr(), "row-major invert_affine_transform_no_scale() == returning form");
        let mut c2 = c;
        c2.invert_affine_transform_no_scale();
        check_eq!(cx, c2.to_arr(), c.inverted_affine_transform_no_scale().to_arr(), "col-major invert_affine_transform_no_scale() == returning form");
    }
    one!("row-major inverted_affine_transform()", r.inverted_affine_transform());
    one!("col-major inverted_affine_transform()", c.inverted_affine_transform());
    let mut r2 = r;
    r2.invert_affine_transform();
    check_eq!(cx, r2.to_arr(), r.inverted_affine_transform().to_arr(), "row-major invert_affine_transform() == returning form");
    let mut c2 = c;
    c2.invert_affine_transform();
    check_eq!(cx, c2.to_arr(), c.inverted_affine_transform().to_arr(), "col-major invert_affine_transform() == returning form");
    if general_ok {
        let kg = 256.0;
        check_mat!(cx, S, sc.unscale_inverse(&r.inverted().to_arr()), w0, amp, kg, "row-major inverted() on a {} matrix agrees with the exact / fast inverse", if rigid { "rigid" } else { "T*R*S" });
        check_mat!(cx, S, sc.unscale_inverse(&c.inverted().to_arr()), w0, amp, kg, "col-major inverted() on a {} matrix agrees with the exact / fast inverse", if rigid { "rigid" } else { "T*R*S" });
    }
    Ok(())
}

pub fn inverse_rigid_wide<S: Dom>(t: &mut Tape, cx: &mut Cx) -> CaseResult {
    fast_inverse_wide::<S>(t, cx, true)
}
pub fn inverse_trs_wide<S: Dom>(t: &mut Tape, cx: &mut Cx) -> CaseResult {
    fast_inverse_wide::<S>(t, cx, false)
}

// ---------------------------------------------------------------------------------------------------------------
// determinants on structured families, scaled exactly per row and column
// ---------------------------------------------------------------------------------------------------------------

/// Sum over permutations of prod |a[i][p(i)]|: the magnitude every evaluation of the Leibniz expansion works at.
fn perm_abs<const N: usize>(a: &[[f64; N]; N]) -> f64 {
    let mut abs = [[0.0f64; N]; N];
    for i in 0..N {
        for j in 0..N {
            abs[i][j] = a[i][j].abs();
        }
    }
    // Ryser is overkill: expand along the first row recursively on index masks
    fn rec<const N: usize>(a: &[[f64; N]; N], row: usize, used: u32) -> f64 {
        if row == N {
            return 1.0;
        }
        let mut s = 0.0;
        for j in 0..N {
            if used >> j & 1 == 0 && a[row][j] != 0.0 {
                s += a[row][j] * rec(a, row + 1, used | 1 << j);
            }
        }
        s
    }
    rec(&abs, 0, 0)
}

fn det_family<const N: usize>(t: &mut Tape) -> ([[Rat; N]; N], &'static str) {
    let mut m = [[Rat::ZERO; N]; N];
    let dense = |t: &mut Tape, m: &mut [[Rat; N]; N]| {
        for i in 0..N {
            for j in 0..N {
                m[i][j] = ent(t);
            }
        }
    };
    let label = match t.below(14) {
        0 => {
            let upper = t.bool();
            for i in 0..N {
                for j in 0..N {
                    if i == j {
                        m[i][j] = nz(t);
                    } else if (i < j) == upper {
                        m[i][j] = ent(t);
                    }
                }
            }
            "triangular"
        }
        1 => {
            for i in 0..N {
                m[i][i] = nz(t);
            }
            "diagonal"
        }
        2 => {
            m = signed_perm::<N>(t);
            "generalised permutation"
        }
        3 => {
            let mut u = [Rat::ZERO; N];
            let mut v = [Rat::ZERO; N];
            for i in 0..N {
                u[i] = nz(t);
                v[i] = nz(t);
            }
            for i in 0..N {
                for j in 0..N {
                    m[i][j] = u[i] * v[j];
                }
            }
            "rank one (det = 0)"
        }
        4 => {
            dense(t, &mut m);
            let (i, j) = (t.below(N), t.below(N));
            if i != j {
                let f = nz(t);
                for c in 0..N {
                    m[i][c] = m[j][c] * f;
                }
            } else {
                for r in 0..N {
                    m[r][i] = Rat::ZERO;
                }
            }
            "proportional rows or a zero column (det = 0)"
        }
        5 => {
            for i in 0..N {
                m[i][i] = if t.bool() { Rat::ONE } else { nz(t) };
            }
            let cnt = 1 + t.below(N);
            for _ in 0..cnt {
                let i = t.below(N);
                let j = (i + 1 + t.below(N - 1)) % N;
                m[i][j] = nz(t);
            }
            "sparse: diagonal plus a few entries"
        }
        6 => {
            dense(t, &mut m);
            let w = if t.bool() { Rat::ONE } else { nz(t) };
            for j in 0..N {
                m[N - 1][j] = if j == N - 1 { w } else { Rat::ZERO };
            }
            "last row (0,..,0,w), w = 1 in half of the cases"
        }
        7 => {
            dense(t, &mut m);
            let w = if t.bool() { Rat::ONE } else { nz(t) };
            for i in 0..N {
                m[i][N - 1] = if i == N - 1 { w } else { Rat::ZERO };
            }
            "last column (0,..,0,w), w = 1 in half of the cases"
        }
        8 => {
            dense(t, &mut m);
            for i in 0..N {
                for j in 0..i {
                    m[i][j] = m[j][i];
                }
            }
            "symmetric"
        }
        9 => {
            dense(t, &mut m);
            for i in 0..N {
                m[i][i] = Rat::ZERO;
                for j in 0..i {
                    m[i][j] = -m[j][i];
                }
            }
            "antisymmetric"
        }
        10 if N == 4 => {
            dense(t, &mut m);
            let which = t.below(3);
            for i in 0..2 {
                for j in 0..2 {
                    if which != 1 {
                        m[2 + i][j] = Rat::ZERO;
                    }
                    if which != 0 {
                        m[i][2 + j] = Rat::ZERO;
                    }
                }
            }
            "2x2 block diagonal / triangular"
        }
        11 => {
            // one row (or column) far from the others in direction only: identity plus rank one
            let mut u = [Rat::ZERO; N];
            let mut v = [Rat::ZERO; N];
            for i in 0..N {
                u[i] = ent(t);
                v[i] = ent(t);
            }
            for i in 0..N {
                for j in 0..N {
                    m[i][j] = u[i] * v[j];
                }
                m[i][i] = m[i][i] + Rat::ONE;
            }
            "identity plus rank one"
        }
        _ => {
            dense(t, &mut m);
            "dense"
        }
    };
    if t.chance(64) {
        m = rf::transpose(&m);
    }
    (m, label)
}

/// Budget for sum |r_i| + sum |c_j| of a determinant case: every partial product of up to N scaled entries
/// (|entry| <= 36 before scaling), the N!-term sums and the same for a product with a second small matrix stay normal.
fn det_budget<S: Dom>() -> i32 {
    match S::NAME {
        "f32" => 72,
        "f64" => 800,
        _ => 64,
    }
}

/// Closeness with an absolute tolerance (exact equality in `Rat`).
fn near<S: Dom>(cx: &mut Cx, got: S, want: S, tol: f64, what: &str, label: &str) -> CaseResult {
    cx.count();
    let ok = if S::EXACT {
        got == want
    } else {
        let d = (got.f() - want.f()).abs();
        if got.f() != want.f() && tol > 0.0 && d.is_finite() {
            cx.note_err(d / tol);
        }
        got.f() == want.f() || d <= tol
    };
    if !ok {
        fail!("{} ({}): got {:?}, want {:?} (absolute tolerance {:e})", what, label, got, want, tol);
    }
    Ok(())
}

macro_rules! det_wide_case {
    ($fname:ident, $N:expr, $Mat:ident) => {
        pub fn $fname<S: Dom>(t: &mut Tape, cx: &mut Cx) -> CaseResult {
            const N: usize = $N;
            let (b, label) = det_family::<N>(t);
            cx.label(label);
            let budget = det_budget::<S>();
            let (mut r, mut c) = ([0i32; N], [0i32; N]);
            match t.below(8) {
                0..=2 => cx.label("unit scale"),
                3 | 4 => {
                    let k = kexp(t, budget / N as i32);
                    c = [k; N];
                    cx.label(if k < 0 { "all entries * 2^k, k < 0" } else { "all entries * 2^k, k > 0" });
                }
                5 => {
                    let k = kexp(t, budget / N as i32);
                    if t.bool() {
                        r[t.below(N)] = k;
                        cx.label("one row * 2^k");
                    } else {
                        c[t.below(N)] = k;
                        cx.label("one column * 2^k");
                    }
                }
                _ => {
                    let lim = (budget / (2 * N as i32)) as i64;
                    for i in 0..N {
                        r[i] = t.int(-lim, lim) as i32;
                        c[i] = t.int(-lim, lim) as i32;
                    }
                    cx.label("independent row and column exponents");
                }
            }
            let e: i32 = r.iter().sum::<i32>() + c.iter().sum::<i32>();
            let db = rf::det(&b);
            let mut a = [[S::zero(); N]; N];
            let mut af = [[0.0f64; N]; N];
            let mut zeros = 0;
            for i in 0..N {
                for j in 0..N {
                    a[i][j] = rat_to::<S>(b[i][j]) * p2::<S>(r[i] + c[j]);
                    af[i][j] = a[i][j].f();
                    if b[i][j].is_zero() {
                        zeros += 1;
                    }
                }
            }
            cx.set_nontrivial(zeros < N * N - N && b != rf::transpose(&b));
            let want = rat_to::<S>(db) * p2::<S>(e);
            sample!(cx, "{} n={} {} base={:?} row exps={:?} col exps={:?} det(base)={:?} A={:?}", S::NAME, N, label, b, r, c, db, a);
            // every evaluation of the Leibniz expansion has an error <= (N + N! - 1) eps * sum_perm prod |a| (<= 27 eps * ..);
            // 128 is two orders of magnitude above the largest error observed (0.8 eps * ..)
            let tol = 128.0 * S::eps() * perm_abs(&af);
            let (ra, ca) = (rm::$Mat::<S>::from_arr(&a), cm::$Mat::<S>::from_arr(&a));
            near::<S>(cx, ra.determinant(), want, tol, "row-major determinant vs the exact determinant scaled by 2^(sum of exponents)", label)?;
            near::<S>(cx, ca.determinant(), want, tol, "col-major determinant vs the exact determinant scaled by 2^(sum of exponents)", label)?;
            near::<S>(cx, ra.transposed().determinant(), want, tol, "row-major det(A^T)", label)?;
            near::<S>(cx, ca.transposed().determinant(), want, tol, "col-major det(A^T)", label)?;
            near::<S>(cx, rm::$Mat::<S>::from(ca).determinant(), want, tol, "det after layout change (col->row)", label)?;
            near::<S>(cx, cm::$Mat::<S>::from(ra).determinant(), want, tol, "det after layout change (row->col)", label)?;
            // multiplicative with a second (small, dense) factor on either side
            let b2: [[Rat; N]; N] = {
                let mut m = [[Rat::ZERO; N]; N];
                for i in 0..N {
                    for j in 0..N {
                        m[i][j] = ri(t.int(-4, 4));
                    }
                }
                m
            };
            let d2 = rf::det(&b2);
            let mut s2 = [[S::zero(); N]; N];
            let mut f2 = [[0.0f64; N]; N];
            for i in 0..N {
                for j in 0..N {
                    s2[i][j] = rat_to::<S>(b2[i][j]);
                    f2[i][j] = s2[i][j].f().abs();
                }
            }
            let mut abs_a = af;
            for i in 0..N {
                for j in 0..N {
                    abs_a[i][j] = af[i][j].abs();
                }
            }
            let want2 = rat_to::<S>(db * d2) * p2::<S>(e);
            let tol_ab = 128.0 * S::eps() * perm_abs(&rf::matmul(&abs_a, &f2));
            let tol_ba = 128.0 * S::eps() * perm_abs(&rf::matmul(&f2, &abs_a));
            let (rb, cb) = (rm::$Mat::<S>::from_arr(&s2), cm::$Mat::<S>::from_arr(&s2));
            near::<S>(cx, (ra * rb).determinant(), want2, tol_ab, "row-major det(A B) = det A det B", label)?;
            near::<S>(cx, (cb * ca).determinant(), want2, tol_ba, "col-major det(B A) = det B det A", label)?;
            Ok(())
        }
    };
}
det_wide_case!(det2_wide, 2, Mat2);
det_wide_case!(det3_wide, 3, Mat3);
det_wide_case!(det4_wide, 4, Mat4);
