//! C06 regime checks: structured matrix families, exact power-of-two scaling, wide scale ratios.
//!
//! Every case is built from an exact rational *base* matrix of moderate magnitude (dyadic entries wherever a
//! float domain needs the input to be exact) and an exact power-of-two row/column scaling
//! `M' = diag(2^r) * M * diag(2^c)`. vek sees `M'`; its result is scaled back exactly
//! (`inv(M) = diag(2^c) * inv(M') * diag(2^r)`, `det M = det M' / 2^(sum r + sum c)`) and compared with the exact
//! rational oracle at the base level, so every float tolerance is relative to the magnitude the result has in that
//! regime (a power of two never adds a rounding error).

use num_traits::{NumCast, Zero};
use std::any::Any;
use vek::mat::repr_c::column_major as cm;
use vek::mat::repr_c::row_major as rm;
use vkit::gens;
use vkit::refmath as rf;
use vkit::vk::MatN;
use vkit::*;

pub type M4<T> = [[T; 4]; 4];

// ---------------------------------------------------------------------------------------------------------------
// exact helpers
// ---------------------------------------------------------------------------------------------------------------

/// Exact rational -> domain value (identity for `Rat`, nearest float otherwise).
pub fn rat_to<S: Dom>(r: Rat) -> S {
    if S::EXACT {
        *(&r as &dyn Any).downcast_ref::<S>().expect("the exact domain is Rat")
    } else {
        <S as NumCast>::from(r.to_f64_lossy()).expect("finite float")
    }
}

/// Exactly 2^e in the domain, O(1).
pub fn p2<S: Dom>(e: i32) -> S {
    if e == 0 {
        return S::one();
    }
    if S::EXACT {
        assert!(e.abs() <= 118, "2^{} outside the Rat range", e);
        rat_to::<S>(if e > 0 { Rat::new(1i128 << e, 1) } else { Rat::new(1, 1i128 << (-e)) })
    } else {
        let lim = if S::NAME == "f32" { 126 } else { 1022 };
        assert!(e.abs() <= lim, "2^{} outside the normal range of {}", e, S::NAME);
        let x = f64::from_bits(((1023 + e) as u64) << 52);
        <S as NumCast>::from(x).expect("power of two in range")
    }
}

fn map4<A: Copy, B: Copy + Default>(a: &M4<A>, f: impl Fn(A) -> B) -> M4<B> {
    let mut r = [[B::default(); 4]; 4];
    for i in 0..4 {
        for j in 0..4 {
            r[i][j] = f(a[i][j]);
        }
    }
    r
}

/// `M' = diag(2^r) * M * diag(2^c)`.
#[derive(Clone, Copy, Debug, PartialEq)]
pub struct Scaling {
    pub r: [i32; 4],
    pub c: [i32; 4],
}

impl Scaling {
    pub const NONE: Scaling = Scaling { r: [0; 4], c: [0; 4] };
    pub fn weight(&self) -> i32 {
        self.r.iter().chain(self.c.iter()).map(|x| x.abs()).sum()
    }
    fn mul<S: Dom>(m: &M4<S>, e: impl Fn(usize, usize) -> i32) -> M4<S> {
        let mut o = *m;
        for i in 0..4 {
            for j in 0..4 {
                let k = e(i, j);
                if k != 0 && !m[i][j].is_zero() {
                    // in two steps: the factor 2^k alone may lie outside the normal range although entry * 2^k does not
                    // (the intermediate value lies between the entry and the result)
                    o[i][j] = m[i][j] * p2::<S>(k / 2) * p2::<S>(k - k / 2);
                }
            }
        }
        o
    }
    pub fn apply<S: Dom>(&self, m: &M4<S>) -> M4<S> {
        Self::mul(m, |i, j| self.r[i] + self.c[j])
    }
    /// inv(M) from inv(M').
    pub fn unscale_inverse<S: Dom>(&self, g: &M4<S>) -> M4<S> {
        Self::mul(g, |i, j| self.c[i] + self.r[j])
    }
    /// M * inv(M) from M' * inv(M') (= D_r P D_r^-1).
    pub fn unscale_left_product<S: Dom>(&self, p: &M4<S>) -> M4<S> {
        Self::mul(p, |i, j| self.r[j] - self.r[i])
    }
    /// inv(M) * M from inv(M') * M' (= D_c^-1 Q D_c).
    pub fn unscale_right_product<S: Dom>(&self, q: &M4<S>) -> M4<S> {
        Self::mul(q, |i, j| self.c[i] - self.c[j])
    }
}

/// A non-zero exponent stratified over [1, kmax] (small / middle / extreme), either sign.
pub(crate) fn kexp(t: &mut Tape, kmax: i32) -> i32 {
    let kmax = kmax.max(4) as i64;
    let k = match t.below(4) {
        0 => t.int(1, kmax / 4),
        1 => t.int(kmax / 4, kmax / 2),
        _ => t.int(kmax / 2, kmax),
    } as i32;
    if t.bool() {
        -k
    } else {
        k
    }
}

/// Largest exponent of a uniform / block scaling of a 4x4 matrix with entries <= 48 such that every product of four
/// entries, their 24-term sums and the reciprocal of the determinant stay normal (f32: 2^(4*20) * 48^4 * 24 < 2^108).
pub(crate) fn kmax4<S: Dom>() -> i32 {
    match S::NAME {
        "f32" => 20,
        "f64" => 200,
        _ => 16,
    }
}

/// Largest exponent tried when only one row / one column / the translation of a matrix is scaled; the candidate is
/// then reduced until `scaling_in_range` holds, i.e. up to what the arithmetic of a cofactor evaluation tolerates for
/// that zero pattern (f32: 2^124 * entry is still finite; Rat: i128).
fn kwide<S: Dom>() -> i32 {
    match S::NAME {
        "f32" => 124,
        "f64" => 1000,
        _ => 40,
    }
}

/// log2 window every intermediate quantity has to stay in: 8 binades inside the normal range of the float type
/// (sums of 24 terms add < 5), 2^+-100 for Rat (i128 numerators and denominators below 2^120).
pub(crate) fn log_range<S: Dom>() -> (f64, f64) {
    match S::NAME {
        "f32" => (-118.0, 118.0),
        "f64" => (-1010.0, 1010.0),
        _ => (-100.0, 100.0),
    }
}

/// Do all products of 1..N non-zero entries taken from distinct rows and distinct columns (the only products a
/// Leibniz / cofactor / 2x2-block evaluation of det and adj ever forms, including the partial products of terms that
/// end in a structural zero) stay inside [2^lo, 2^hi]?  `lg[i][j]` = log2 |entry| or -inf.
pub(crate) fn partial_products_in_range<const N: usize>(lg: &[[f64; N]; N], lo: f64, hi: f64) -> bool {
    fn rec<const N: usize>(lg: &[[f64; N]; N], row: usize, used: u32, sum: f64, cnt: usize, lo: f64, hi: f64) -> bool {
        if cnt > 0 && (sum < lo || sum > hi) {
            return false;
        }
        if row == N {
            return true;
        }
        if !rec(lg, row + 1, used, sum, cnt, lo, hi) {
            return false;
        }
        for j in 0..N {
            if used >> j & 1 == 0 && lg[row][j] != f64::NEG_INFINITY && !rec(lg, row + 1, used | 1 << j, sum + lg[row][j], cnt + 1, lo, hi) {
                return false;
            }
        }
        true
    }
    rec(lg, 0, 0, 0.0, 0, lo, hi)
}

pub(crate) fn log_matrix<const N: usize>(abs: &[[f64; N]; N], r: &[i32; N], c: &[i32; N]) -> [[f64; N]; N] {
    let mut lg = [[f64::NEG_INFINITY; N]; N];
    for i in 0..N {
        for j in 0..N {
            if abs[i][j] != 0.0 {
                lg[i][j] = abs[i][j].log2() + (r[i] + c[j]) as f64;
            }
        }
    }
    lg
}

/// Can a cofactor-type inverse of `diag(2^r) B diag(2^c)` be evaluated without leaving the range: all partial
/// products, the determinant and its reciprocal, and every non-zero entry of the result.
pub(crate) fn scaling_in_range<S: Dom>(b_abs: &M4<f64>, w_abs: &M4<f64>, det_abs: f64, sc: &Scaling) -> bool {
    let (lo, hi) = log_range::<S>();
    if !partial_products_in_range(&log_matrix(b_abs, &sc.r, &sc.c), lo, hi) {
        return false;
    }
    let e: i32 = sc.r.iter().sum::<i32>() + sc.c.iter().sum::<i32>();
    let ld = det_abs.log2() + e as f64;
    if ld < lo || ld > hi {
        return false;
    }
    for i in 0..4 {
        for j in 0..4 {
            if w_abs[i][j] != 0.0 {
                let l = w_abs[i][j].log2() - (sc.c[i] + sc.r[j]) as f64;
                if l < lo || l > hi {
                    return false;
                }
            }
        }
    }
    true
}

/// Reduce the exponents (x -> 3x/4, keeping equal exponents equal and opposite ones opposite) until the case is in range.
pub(crate) fn fit_scaling<S: Dom>(b_abs: &M4<f64>, w_abs: &M4<f64>, det_abs: f64, mut sc: Scaling) -> Scaling {
    for _ in 0..48 {
        if scaling_in_range::<S>(b_abs, w_abs, det_abs, &sc) {
            return sc;
        }
        for i in 0..4 {
            sc.r[i] = sc.r[i] * 3 / 4;
            sc.c[i] = sc.c[i] * 3 / 4;
        }
    }
    Scaling::NONE
}

/// vek's own products M' * inv(M') and inv(M') * M' have entries 2^(r_i - r_j) (M inv M)_ij resp. 2^(c_j - c_i) (..):
/// are all their terms in range?
fn own_products_in_range<S: Dom>(b_abs: &M4<f64>, w_abs: &M4<f64>, sc: &Scaling) -> bool {
    let (lo, hi) = log_range::<S>();
    for i in 0..4 {
        for j in 0..4 {
            for k in 0..4 {
                let l = b_abs[i][k] * w_abs[k][j];
                if l != 0.0 {
                    let x = l.log2() + (sc.r[i] - sc.r[j]) as f64;
                    if x < lo || x > hi {
                        return false;
                    }
                }
                let l = w_abs[i][k] * b_abs[k][j];
                if l != 0.0 {
                    let x = l.log2() + (sc.c[j] - sc.c[i]) as f64;
                    if x < lo || x > hi {
                        return false;
                    }
                }
            }
        }
    }
    true
}

fn abs4(a: &M4<Rat>) -> M4<f64> {
    map4(a, |x: Rat| x.to_f64_lossy().abs())
}

/// Permanent of the |.| of the 3x3 minor obtained by deleting row `dr` and column `dc`.
fn minor_perm_abs(b_abs: &M4<f64>, dr: usize, dc: usize) -> f64 {
    let mut m = [[0.0f64; 3]; 3];
    let mut ii = 0;
    for i in 0..4 {
        if i == dr {
            continue;
        }
        let mut jj = 0;
        for j in 0..4 {
            if j == dc {
                continue;
            }
            m[ii][jj] = b_abs[i][j];
            jj += 1;
        }
        ii += 1;
    }
    perm_abs(&m)
}

/// Entry-wise a-priori error bound (in units of eps) of inv = adj / det when adj and det are evaluated as sums of
/// signed products of entries (Leibniz, cofactor expansion, vek's 2x2-block formulas: the same monomials in another
/// order): |d adj_ij| <= c eps perm|minor_ji|, |d det| <= c eps perm|B|, hence
/// |d inv_ij| <= c eps (perm|minor_ji| + |inv_ij| perm|B|) / |det| + eps |inv_ij|.  Structural zeros drop out, so for an
/// affine matrix the linear part never sees the magnitude of the translation.
fn inverse_tolerances(b_abs: &M4<f64>, w_abs: &M4<f64>, det_abs: f64) -> M4<f64> {
    let p4 = perm_abs(b_abs);
    let mut t = [[0.0f64; 4]; 4];
    for i in 0..4 {
        for j in 0..4 {
            t[i][j] = (minor_perm_abs(b_abs, j, i) + w_abs[i][j] * p4) / det_abs + w_abs[i][j];
        }
    }
    t
}

/// Entry-wise comparison: exact in Rat, |got - want| <= k eps tol[i][j] in floats (non-finite results fail).
fn check_entries<S: Dom>(cx: &mut Cx, got: &M4<S>, want: &M4<S>, tol: &M4<f64>, k: f64, what: &dyn Fn() -> String) -> CaseResult {
    for i in 0..4 {
        for j in 0..4 {
            cx.count();
            let (g, w) = (got[i][j], want[i][j]);
            let ok = if S::EXACT {
                g == w
            } else {
                let (x, y) = (g.f(), w.f());
                let d = (x - y).abs();
                let tl = k * S::eps() * tol[i][j];
                if x != y && d.is_finite() && tl > 0.0 {
                    cx.note_err(d / tl);
                }
                x == y || d <= tl
            };
            if !ok {
                fail!("{}: element ({},{}) differs: got {:?}, want {:?} (tolerance {:e})\n got  {:?}\n want {:?}", what(), i, j, g, w, k * S::eps() * tol[i][j], got, want);
            }
        }
    }
    Ok(())
}

fn two_sum(a: f64, b: f64) -> (f64, f64) {
    let s = a + b;
    let bb = s - a;
    (s, (a - (s - bb)) + (b - bb))
}

/// Dot product of four terms evaluated as if in twice the working precision (Ogita-Rump-Oishi Dot2), and sum |x y|.
fn dot2(x: &[f64; 4], y: &[f64; 4]) -> (f64, f64) {
    let mut p = x[0] * y[0];
    let mut s = x[0].mul_add(y[0], -p);
    let mut abs = p.abs();
    for i in 1..4 {
        let h = x[i] * y[i];
        let r = x[i].mul_add(y[i], -h);
        let (q, e) = two_sum(p, h);
        p = q;
        s += e + r;
        abs += h.abs();
    }
    (p + s, abs)
}

/// Two-sided residual of a claimed inverse `g` of `a`, with the products evaluated exactly (Rat) or in doubled
/// precision on the values as stored (floats): |(A G - I)_ij| <= k eps tol_left[i][j], |(G A - I)_ij| <= k eps tol_right[i][j].
fn residual_check<S: Dom>(cx: &mut Cx, what: &str, a: &M4<S>, g: &M4<S>, tol_left: &M4<f64>, tol_right: &M4<f64>, k: f64) -> CaseResult {
    if S::EXACT {
        let id: M4<S> = rf::identity();
        check_eq!(cx, rf::matmul(a, g), id, "{}: M * inv(M) = I exactly", what);
        check_eq!(cx, rf::matmul(g, a), id, "{}: inv(M) * M = I exactly", what);
        return Ok(());
    }
    let (af, gf) = (map4(a, |x: S| x.f()), map4(g, |x: S| x.f()));
    for (x, y, tol, name) in [(&af, &gf, tol_left, "M * inv(M)"), (&gf, &af, tol_right, "inv(M) * M")] {
        for i in 0..4 {
            for j in 0..4 {
                let col = [y[0][j], y[1][j], y[2][j], y[3][j]];
                let (p, _) = dot2(&x[i], &col);
                let want = if i == j { 1.0 } else { 0.0 };
                let d = (p - want).abs();
                let tl = k * S::eps() * tol[i][j];
                cx.count();
                if d.is_finite() && tl > 0.0 && d != 0.0 {
                    cx.note_err(d / tl);
                }
                if !(d <= tl) {
                    fail!("{}: ({})[{}][{}] = {:e}, want {} (residual {:e} > {:e} = {} eps * {:e})\n M      = {:?}\n inv(M) = {:?}", what, name, i, j, p, want, d, tl, k, tol[i][j], a, g);
                }
            }
        }
    }
    Ok(())
}

fn ri(n: i64) -> Rat {
    Rat::int(n)
}

/// Dyadic entry, |x| <= 6 (exact in f32).
fn ent(t: &mut Tape) -> Rat {
    let n = t.int(-6, 6);
    match t.below(8) {
        0 => Rat::frac(n, 2),
        1 => Rat::frac(n, 4),
        _ => ri(n),
    }
}

/// Non-zero dyadic entry, |x| <= 6.
fn nz(t: &mut Tape) -> Rat {
    let n = t.int(1, 6);
    let n = if t.bool() { -n } else { n };
    match t.below(8) {
        0 => Rat::frac(n, 2),
        1 => Rat::frac(n, 4),
        _ => ri(n),
    }
}

/// A small non-zero scale (dyadic) for products with integer rotations: |x| in {1/2, 1, 2, 3}.
fn dsmall(t: &mut Tape) -> Rat {
    let v = t.pick(&[ri(1), ri(2), ri(3), Rat::frac(1, 2), ri(1), ri(2)]);
    if t.chance(64) {
        -v
    } else {
        v
    }
}

/// n * R(q) as an integer matrix (columns and rows pairwise orthogonal, all of length n), and n = |q|^2.
fn int_rot(q: &[i64; 4]) -> ([[i64; 3]; 3], i64) {
    let (w, x, y, z) = (q[0], q[1], q[2], q[3]);
    let n = w * w + x * x + y * y + z * z;
    (
        [
            [w * w + x * x - y * y - z * z, 2 * (x * y - w * z), 2 * (x * z + w * y)],
            [2 * (x * y + w * z), w * w - x * x + y * y - z * z, 2 * (y * z - w * x)],
            [2 * (x * z - w * y), 2 * (y * z + w * x), w * w - x * x - y * y + z * z],
        ],
        n,
    )
}

fn ident3() -> [[Rat; 3]; 3] {
    let mut l = [[Rat::ZERO; 3]; 3];
    for i in 0..3 {
        l[i][i] = Rat::ONE;
    }
    l
}

/// Integer scaled rotation with entries <= 16.
fn krot(t: &mut Tape) -> [[Rat; 3]; 3] {
    let q = gens::int_quat(t, 2);
    let (k, _) = int_rot(&q);
    let mut l = [[Rat::ZERO; 3]; 3];
    for i in 0..3 {
        for j in 0..3 {
            l[i][j] = ri(k[i][j]);
        }
    }
    l
}

fn signed_perm<const N: usize>(t: &mut Tape) -> [[Rat; N]; N] {
    // Fisher-Yates from the tape
    let mut p = [0usize; N];
    for i in 0..N {
        p[i] = i;
    }
    for i in (1..N).rev() {
        let j = t.below(i + 1);
        p.swap(i, j);
    }
    let mut m = [[Rat::ZERO; N]; N];
    for i in 0..N {
        m[i][p[i]] = nz(t);
    }
    m
}

// ---------------------------------------------------------------------------------------------------------------
// structured families for the general inverse
// ---------------------------------------------------------------------------------------------------------------

/// The linear 3x3 part of an affine matrix.
fn lin3(t: &mut Tape) -> ([[Rat; 3]; 3], &'static str) {
    match t.below(11) {
        0 => {
            let mut l = ident3();
            let cnt = 1 + t.below(3);
            for _ in 0..cnt {
                let i = t.below(3);
                let j = (i + 1 + t.below(2)) % 3;
                l[i][j] = nz(t);
            }
            if t.bool() {
                for i in 0..3 {
                    l[i][i] = dsmall(t);
                }
            }
            (l, "affine: shear")
        }
        1 => {
            let k = krot(t);
            let d = [dsmall(t), dsmall(t), dsmall(t)];
            let mut l = k;
            for i in 0..3 {
                for j in 0..3 {
                    l[i][j] = d[i] * k[i][j];
                }
            }
            (l, "affine: scale applied after a rotation (S*R)")
        }
        2 => {
            let k = krot(t);
            let d = [dsmall(t), dsmall(t), dsmall(t)];
            let mut l = k;
            for i in 0..3 {
                for j in 0..3 {
                    l[i][j] = k[i][j] * d[j];
                }
            }
            (l, "affine: T*R*S")
        }
        3 => {
            let k = krot(t);
            let d = [dsmall(t), dsmall(t), dsmall(t)];
            let e = [dsmall(t), dsmall(t), dsmall(t)];
            let mut l = k;
            for i in 0..3 {
                for j in 0..3 {
                    l[i][j] = d[i] * k[i][j] * e[j];
                }
            }
            (l, "affine: S*R*S")
        }
        4 => {
            let upper = t.bool();
            let mut l = [[Rat::ZERO; 3]; 3];
            for i in 0..3 {
                for j in 0..3 {
                    if i == j {
                        l[i][j] = nz(t);
                    } else if (i < j) == upper {
                        l[i][j] = ent(t);
                    }
                }
            }
            (l, "affine: triangular 3x3")
        }
        5 => {
            let mut l = [[Rat::ZERO; 3]; 3];
            for i in 0..3 {
                for j in i..3 {
                    l[i][j] = ent(t);
                    l[j][i] = l[i][j];
                }
            }
            (l, "affine: symmetric 3x3")
        }
        6 => {
            let k = krot(t);
            let d = [dsmall(t), dsmall(t), dsmall(t)];
            let mut l = k;
            for i in 0..3 {
                for j in 0..3 {
                    l[i][j] = k[i][j] * d[j];
                }
            }
            let (i, j) = (t.below(3), t.below(3));
            let p = t.pick(&[ri(1), ri(-1), Rat::frac(1, 4), Rat::frac(-1, 4), Rat::frac(1, 64), Rat::frac(-1, 1024)]);
            l[i][j] = l[i][j] + p;
            (l, "affine: T*R*S with one perturbed entry")
        }
        7 => {
            let k = krot(t);
            let mut l = k;
            let c = t.below(3);
            for i in 0..3 {
                l[i][c] = ent(t);
            }
            (l, "affine: two orthogonal columns, third arbitrary")
        }
        8 => (signed_perm::<3>(t), "affine: axis permutation * scale"),
        9 => {
            let mut l = [[Rat::ZERO; 3]; 3];
            for i in 0..3 {
                l[i][i] = nz(t);
            }
            (l, "affine: diagonal")
        }
        _ => {
            let mut l = [[Rat::ZERO; 3]; 3];
            for i in 0..3 {
                for j in 0..3 {
                    l[i][j] = ent(t);
                }
            }
            (l, "affine: dense 3x3")
        }
    }
}

#[derive(Clone, Copy, Debug, PartialEq)]
pub enum Affine {
    No,
    LastRow,
    LastCol,
}

fn dense4(t: &mut Tape) -> M4<Rat> {
    let mut m = [[Rat::ZERO; 4]; 4];
    for i in 0..4 {
        for j in 0..4 {
            m[i][j] = ent(t);
        }
    }
    m
}

fn block2(t: &mut Tape, singular: bool) -> [[Rat; 2]; 2] {
    if singular {
        match t.below(3) {
            0 => [[Rat::ZERO; 2]; 2],
            _ => {
                let (u, v) = ([nz(t), ent(t)], [nz(t), ent(t)]);
                [[u[0] * v[0], u[0] * v[1]], [u[1] * v[0], u[1] * v[1]]]
            }
        }
    } else {
        [[ent(t), ent(t)], [ent(t), ent(t)]]
    }
}

fn put2(m: &mut M4<Rat>, bi: usize, bj: usize, b: &[[Rat; 2]; 2]) {
    for i in 0..2 {
        for j in 0..2 {
            m[2 * bi + i][2 * bj + j] = b[i][j];
        }
    }
}

/// A structured 4x4 matrix with dyadic entries of magnitude <= 48, its label, and whether (and where) it carries the
/// exact affine row / column (0,0,0,1).
pub fn family(t: &mut Tape) -> (M4<Rat>, &'static str, Affine) {
    let sel = t.below(20);
    let (m, label, mut aff) = match sel {
        0..=8 => {
            let (l, label) = lin3(t);
            let tr = if t.chance(48) { [Rat::ZERO; 3] } else { [ent(t), ent(t), ent(t)] };
            (gens::embed4(&l, &tr), label, Affine::LastRow)
        }
        9 => {
            let upper = t.bool();
            let mut m = [[Rat::ZERO; 4]; 4];
            for i in 0..4 {
                for j in 0..4 {
                    if i == j {
                        m[i][j] = nz(t);
                    } else if (i < j) == upper {
                        m[i][j] = ent(t);
                    }
                }
            }
            (m, "triangular 4x4", Affine::No)
        }
        10 => {
            let mut m = [[Rat::ZERO; 4]; 4];
            put2(&mut m, 0, 0, &block2(t, false));
            put2(&mut m, 1, 1, &block2(t, false));
            (m, "block diagonal (2x2 blocks)", Affine::No)
        }
        11 => {
            let mut m = [[Rat::ZERO; 4]; 4];
            put2(&mut m, 0, 0, &block2(t, false));
            put2(&mut m, 1, 1, &block2(t, false));
            if t.bool() {
                put2(&mut m, 0, 1, &block2(t, false));
            } else {
                put2(&mut m, 1, 0, &block2(t, false));
            }
            (m, "block triangular (one off-diagonal 2x2 block zero)", Affine::No)
        }
        12 => {
            let mut m = dense4(t);
            match t.below(4) {
                0 => {
                    // anti-block: both diagonal blocks zero
                    put2(&mut m, 0, 0, &[[Rat::ZERO; 2]; 2]);
                    put2(&mut m, 1, 1, &[[Rat::ZERO; 2]; 2]);
                }
                1 => put2(&mut m, 0, 0, &block2(t, true)),
                2 => put2(&mut m, 1, 1, &block2(t, true)),
                _ => {
                    put2(&mut m, 0, 0, &block2(t, true));
                    put2(&mut m, 1, 1, &block2(t, true));
                }
            }
            (m, "singular or zero diagonal 2x2 blocks", Affine::No)
        }
        13 => (signed_perm::<4>(t), "generalised permutation 4x4", Affine::No),
        14 => {
            let mut m = [[Rat::ZERO; 4]; 4];
            for i in 0..4 {
                m[i][i] = if t.bool() { Rat::ONE } else { nz(t) };
            }
            let cnt = 1 + t.below(4);
            for _ in 0..cnt {
                let i = t.below(4);
                let j = (i + 1 + t.below(3)) % 4;
                m[i][j] = nz(t);
            }
            (m, "sparse: diagonal plus a few entries", Affine::No)
        }
        15 => {
            // left-multiplication matrix of an integer quaternion: orthogonal columns of equal length
            let q = gens::int_quat(t, 3);
            let (w, x, y, z) = (ri(q[0]), ri(q[1]), ri(q[2]), ri(q[3]));
            let mut m = [[w, -x, -y, -z], [x, w, -z, y], [y, z, w, -x], [z, -y, x, w]];
            let label = match t.below(3) {
                0 => "4x4 scaled orthogonal (quaternion matrix)",
                1 => {
                    for i in 0..4 {
                        let d = dsmall(t);
                        for j in 0..4 {
                            m[i][j] = d * m[i][j];
                        }
                    }
                    "4x4 row-scaled orthogonal"
                }
                _ => {
                    for j in 0..4 {
                        let d = dsmall(t);
                        for i in 0..4 {
                            m[i][j] = m[i][j] * d;
                        }
                    }
                    "4x4 column-scaled orthogonal"
                }
            };
            (m, label, Affine::No)
        }
        16 => {
            let z = Rat::ZERO;
            let e = if t.bool() { ri(-1) } else { ri(1) };
            let m = [[nz(t), z, ent(t), z], [z, nz(t), ent(t), z], [z, z, ent(t), nz(t)], [z, z, e, if t.chance(64) { ent(t) } else { z }]];
            (m, "perspective-like (last row (0,0,+-1,w))", Affine::No)
        }
        17 => {
            let (l, _) = lin3(t);
            let tr = [ent(t), ent(t), ent(t)];
            let mut m = gens::embed4(&l, &tr);
            m[3][3] = t.pick(&[ri(2), ri(-1), Rat::frac(1, 2), ri(4), ri(-3), Rat::frac(1, 4)]);
            (m, "last row (0,0,0,w), w != 1", Affine::No)
        }
        18 => {
            // rank-one update of a diagonal matrix
            let (u, v) = ([ent(t), ent(t), ent(t), ent(t)], [ent(t), ent(t), ent(t), ent(t)]);
            let mut m = [[Rat::ZERO; 4]; 4];
            for i in 0..4 {
                for j in 0..4 {
                    m[i][j] = u[i] * v[j];
                }
                m[i][i] = m[i][i] + Rat::ONE;
            }
            (m, "identity plus rank one", Affine::No)
        }
        _ => {
            let mut m = dense4(t);
            if t.bool() {
                for i in 0..4 {
                    for j in 0..i {
                        m[i][j] = m[j][i];
                    }
                }
                (m, "symmetric 4x4", Affine::No)
            } else {
                (m, "dense 4x4", Affine::No)
            }
        }
    };
    let mut m = m;
    if t.chance(56) {
        m = rf::transpose(&m);
        if aff == Affine::LastRow {
            aff = Affine::LastCol;
        }
    }
    (m, label, aff)
}

/// What is scaled. `OneElement` is not a row/column scaling: the caller multiplies one entry of the base itself.
#[derive(Clone, Copy, Debug, PartialEq)]
enum Pattern {
    Lines(Scaling),
    OneElement,
}

fn pick_scaling<S: Dom>(t: &mut Tape, aff: Affine) -> (Pattern, &'static str) {
    let kmax = kmax4::<S>();
    let wide = kwide::<S>();
    let sel = t.below(12);
    let uniform = |t: &mut Tape| {
        let k = kexp(t, kmax);
        (Pattern::Lines(Scaling { r: [0; 4], c: [k; 4] }), if k < 0 { "all entries * 2^k, k < 0" } else { "all entries * 2^k, k > 0" })
    };
    let one_line = |t: &mut Tape, row: bool| {
        let mut s = Scaling::NONE;
        let k = kexp(t, wide);
        if row {
            s.r[t.below(4)] = k;
        } else {
            s.c[t.below(4)] = k;
        }
        (Pattern::Lines(s), if k < 0 { "one row or column * 2^k, k < 0 (up to the range limit)" } else { "one row or column * 2^k, k > 0 (up to the range limit)" })
    };
    match sel {
        0..=2 => (Pattern::Lines(Scaling::NONE), "unit scale"),
        3 | 4 => uniform(t),
        5 if aff != Affine::No => {
            let (kl, kt) = match t.below(3) {
                0 => (kexp(t, kmax), kexp(t, kmax)),
                1 => (0, kexp(t, kmax)),
                _ => (kexp(t, kmax), 0),
            };
            let (a, b) = ([kl, kl, kl, kt], [0, 0, 0, -kt]);
            let label = if kl == 0 {
                "affine: translation * 2^k only"
            } else if kt == 0 {
                "affine: linear part * 2^k only"
            } else {
                "affine: linear part and translation scaled independently"
            };
            (Pattern::Lines(if aff == Affine::LastRow { Scaling { r: b, c: a } } else { Scaling { r: a, c: b } }), label)
        }
        6 if aff != Affine::No => {
            // the translation alone, as far as the arithmetic goes: a cofactor contains at most one translation factor
            let kt = kexp(t, wide);
            let (a, b) = ([0, 0, 0, kt], [0, 0, 0, -kt]);
            (
                Pattern::Lines(if aff == Affine::LastRow { Scaling { r: b, c: a } } else { Scaling { r: a, c: b } }),
                if kt < 0 { "affine: translation * 2^k, k < 0 (up to the range limit)" } else { "affine: translation * 2^k, k > 0 (up to the range limit)" },
            )
        }
        7 => one_line(t, true),
        8 => one_line(t, false),
        9 => {
            let mut s = Scaling::NONE;
            let lim = if S::EXACT { 6 } else { kmax as i64 };
            for i in 0..4 {
                s.r[i] = t.int(-lim, lim) as i32;
                s.c[i] = t.int(-lim, lim) as i32;
            }
            (Pattern::Lines(s), "independent row and column exponents")
        }
        10 => (Pattern::OneElement, "one element * 2^k (|k| <= 40)"),
        11 => {
            // one line huge, another tiny
            let mut s = Scaling::NONE;
            let (k, l) = (kexp(t, wide).abs(), kexp(t, wide).abs());
            let (i, j) = (t.below(4), t.below(4));
            match t.below(3) {
                0 => {
                    s.r[i] = k;
                    s.r[(i + 1 + j % 3) % 4] = -l;
                }
                1 => {
                    s.c[i] = k;
                    s.c[(i + 1 + j % 3) % 4] = -l;
                }
                _ => {
                    s.r[i] = k;
                    s.c[j] = -l;
                }
            }
            (Pattern::Lines(s), "one line * 2^k and another * 2^-l (up to the range limit)")
        }
        _ => {
            let row = t.bool();
            one_line(t, row)
        }
    }
}

fn affine_kind(b: &M4<Rat>) -> Affine {
    let (z, o) = (Rat::ZERO, Rat::ONE);
    if b[3] == [z, z, z, o] {
        Affine::LastRow
    } else if [b[0][3], b[1][3], b[2][3], b[3][3]] == [z, z, z, o] {
        Affine::LastCol
    } else {
        Affine::No
    }
}

/// `Mat4::inverted()` / `invert()` on structured matrices, scaled exactly.
pub fn inverse_structured<S: Dom>(t: &mut Tape, cx: &mut Cx) -> CaseResult {
    let (mut b, label, aff) = family(t);
    let (pattern, sc_label) = pick_scaling::<S>(t, aff);
    if pattern == Pattern::OneElement {
        let (i, j) = (t.below(4), t.below(4));
        let k = kexp(t, 40);
        let v = if b[i][j].is_zero() { nz(t) } else { b[i][j] };
        b[i][j] = v * if k > 0 { Rat::new(1i128 << k, 1) } else { Rat::new(1, 1i128 << (-k)) };
    }
    let aff = if pattern == Pattern::OneElement { affine_kind(&b) } else { aff };
    let d = rf::det(&b);
    if d.is_zero() {
        discard!("precondition:det=0");
    }
    let binv = rf::inverse(&b).expect("non-singular");
    let (b_abs, w_abs, det_abs) = (abs4(&b), abs4(&binv), d.to_f64_lossy().abs());
    let wanted = match pattern {
        Pattern::Lines(s) => s,
        Pattern::OneElement => Scaling::NONE,
    };
    if !scaling_in_range::<S>(&b_abs, &w_abs, det_abs, &Scaling::NONE) {
        discard!("precondition:the unscaled base is outside the range (one huge element)");
    }
    let sc = fit_scaling::<S>(&b_abs, &w_abs, det_abs, wanted);
    cx.label(label);
    cx.label(sc_label);
    if sc != wanted {
        cx.label("exponents reduced to the range limit of this zero pattern");
    }
    match aff {
        Affine::LastRow => cx.label("exact last row (0,0,0,1)"),
        Affine::LastCol => cx.label("exact last column (0,0,0,1)"),
        Affine::No => {}
    }
    // magnitudes inside the matrix vs the fourth root of the largest / smallest normal number
    {
        let (lo, hi) = log_range::<S>();
        let lg = log_matrix(&b_abs, &sc.r, &sc.c);
        let (mut mx, mut mn) = (f64::NEG_INFINITY, f64::INFINITY);
        for r in &lg {
            for x in r {
                if *x != f64::NEG_INFINITY {
                    mx = mx.max(*x);
                    mn = mn.min(*x);
                }
            }
        }
        if mx > hi / 4.0 + 2.0 && mn < hi / 8.0 {
            cx.label("largest element above MAX^(1/4) next to ordinary ones");
        }
        if mn < lo / 4.0 - 2.0 && mx > lo / 8.0 {
            cx.label("smallest element below MIN_POSITIVE^(1/4) next to ordinary ones");
        }
        if mx > hi / 4.0 + 2.0 && mn >= hi / 8.0 {
            cx.label("all elements huge");
        }
    }
    let k = 64.0;
    // the first-order bound needs |d det| << |det|: where the rounding error of the 24-term sum can reach the
    // determinant itself, every float evaluation may return det = 0 (inf/NaN inverse); that is conditioning, not a defect
    if !S::EXACT && 4.0 * k * S::eps() * perm_abs(&b_abs) > det_abs {
        discard!("precondition:|det| below 256 eps * sum of |terms| (float conditioning)");
    }
    let tol = inverse_tolerances(&b_abs, &w_abs, det_abs);
    let tol_left = {
        let (a, b2) = (rf::matmul(&b_abs, &tol), rf::matmul(&b_abs, &w_abs));
        let mut m = a;
        for i in 0..4 {
            for j in 0..4 {
                m[i][j] = a[i][j] + b2[i][j];
            }
        }
        m
    };
    let tol_right = {
        let (a, b2) = (rf::matmul(&tol, &b_abs), rf::matmul(&w_abs, &b_abs));
        let mut m = a;
        for i in 0..4 {
            for j in 0..4 {
                m[i][j] = a[i][j] + b2[i][j];
            }
        }
        m
    };
    let mut zeros = 0;
    for i in 0..3 {
        for j in 0..3 {
            if b[i][j].is_zero() {
                zeros += 1;
            }
        }
    }
    // non-trivial: the 3x3 part is not diagonal-like, the matrix is not symmetric, and (floats) the tolerance of every
    // non-zero entry of the inverse is far below that entry's own size or the size of the largest entry of its row
    let discriminating = S::EXACT || {
        let mut ok = true;
        for i in 0..4 {
            let rowmax = w_abs[i].iter().cloned().fold(0.0, f64::max);
            for j in 0..4 {
                if k * S::eps() * tol[i][j] > rowmax / 64.0 {
                    ok = false;
                }
            }
        }
        ok
    };
    cx.set_nontrivial(zeros <= 5 && b != rf::transpose(&b) && discriminating);
    let bs: M4<S> = map4(&b, rat_to::<S>);
    let w0: M4<S> = map4(&binv, rat_to::<S>);
    let ms = sc.apply(&bs);
    sample!(cx, "{} {} base={:?} det={:?} scaling={:?} M={:?}", S::NAME, label, b, d, sc, ms);
    let id: M4<S> = rf::identity();
    let (r, c) = (rm::Mat4::<S>::from_arr(&ms), cm::Mat4::<S>::from_arr(&ms));
    let (ri_, ci_) = (r.inverted(), c.inverted());
    for (what, g) in [("row-major", ri_.to_arr()), ("col-major", ci_.to_arr())] {
        let g0 = sc.unscale_inverse(&g);
        check_entries(cx, &g0, &w0, &tol, k, &|| format!("{} inverted() of a structured matrix ({}, {}) vs the exact inverse (scaled back by powers of two)", what, label, sc_label))?;
        check_entries(cx, &rf::matmul(&bs, &g0), &id, &tol_left, k, &|| format!("{} M * inverted() = I ({}, {})", what, label, sc_label))?;
        check_entries(cx, &rf::matmul(&g0, &bs), &id, &tol_right, k, &|| format!("{} inverted() * M = I ({}, {})", what, label, sc_label))?;
    }
    let mut r2 = r;
    r2.invert();
    check_eq!(cx, r2.to_arr(), ri_.to_arr(), "row-major invert() == inverted() ({})", label);
    let mut c2 = c;
    c2.invert();
    check_eq!(cx, c2.to_arr(), ci_.to_arr(), "col-major invert() == inverted() ({})", label);
    // vek's own products, both orders, one per layout (only where the products themselves stay in range)
    if own_products_in_range::<S>(&b_abs, &w_abs, &sc) {
        check_entries(cx, &sc.unscale_left_product(&(r * ri_).to_arr()), &id, &tol_left, k, &|| format!("row-major M * M.inverted() ({}, {})", label, sc_label))?;
        check_entries(cx, &sc.unscale_right_product(&(ci_ * c).to_arr()), &id, &tol_right, k, &|| format!("col-major M.inverted() * M ({}, {})", label, sc_label))?;
    } else {
        cx.label("vek's own M * inv(M) not formed (its terms would leave the range)");
    }
    Ok(())
}

// ---------------------------------------------------------------------------------------------------------------
// fast inverses on rigid / T*R*S matrices over wide magnitude regimes
// ---------------------------------------------------------------------------------------------------------------

fn rot_regime(t: &mut Tape) -> ([[Rat; 3]; 3], &'static str) {
    let (q, label) = match t.below(8) {
        0..=3 => (gens::int_quat(t, 4), "generic rotation"),
        4 => (gens::int_quat(t, 1), "quaternion with components in {-1,0,1} (axis turns, 120 degrees)"),
        5 => ([1, 0, 0, 0], "identity rotation"),
        6 => {
            let w = 1i64 << t.int(3, 10);
            let mut v = [t.int(-3, 3), t.int(-3, 3), t.int(-3, 3)];
            if v == [0, 0, 0] {
                v[t.below(3)] = 1;
            }
            ([w, v[0], v[1], v[2]], "small-angle rotation")
        }
        _ => {
            let mut v = [t.int(-8, 8), t.int(-8, 8), t.int(-8, 8)];
            if v == [0, 0, 0] {
                v[t.below(3)] = 1;
            }
            ([t.int(0, 1), v[0], v[1], v[2]], "near half-turn")
        }
    };
    let (k, n) = int_rot(&q);
    let mut r = [[Rat::ZERO; 3]; 3];
    for i in 0..3 {
        for j in 0..3 {
            r[i][j] = Rat::frac(k[i][j], n);
        }
    }
    (r, label)
}

/// Exponent range of a scale factor 2^e * mant (15/16 <= mant < 2): the affine inverse documents (by its epsilon
/// branch) the domain |column|^2 > T::epsilon(); emin keeps s^2 >= 1.75 * epsilon. emax keeps s^2 and every product of
/// four entries finite.
fn scale_exp_range<S: Dom>() -> (i64, i64) {
    match S::NAME {
        "f32" => (-11, 20),
        "f64" => (-25, 40),
        _ => (-25, 30),
    }
}

fn scales_regime<S: Dom>(t: &mut Tape) -> ([Rat; 3], [i32; 3], &'static str) {
    let (emin, emax) = scale_exp_range::<S>();
    let mants = [ri(1), ri(1), ri(1), ri(1), Rat::frac(3, 2), Rat::frac(5, 4), Rat::frac(7, 4), Rat::frac(5, 3), Rat::frac(7, 5), Rat::frac(9, 8)];
    let mut mant = [t.pick(&mants), t.pick(&mants), t.pick(&mants)];
    let mut e = [0i32; 3];
    let label = match t.below(8) {
        0 | 1 => {
            for i in 0..3 {
                e[i] = t.int(emin, emax) as i32;
            }
            "independent scale exponents"
        }
        2 => {
            let hi = t.int(emax / 2, emax) as i32;
            let lo = t.int(emin, emin / 2) as i32;
            let mid = t.int(-2, 2) as i32;
            let p = t.pick(&[[0usize, 1, 2], [0, 2, 1], [1, 0, 2], [1, 2, 0], [2, 0, 1], [2, 1, 0]]);
            e[p[0]] = hi;
            e[p[1]] = mid;
            e[p[2]] = lo;
            "one large, one moderate, one small axis"
        }
        3 => {
            let k = t.int(emin, emax) as i32;
            e = [k; 3];
            mant = [mant[0]; 3];
            "uniform scale"
        }
        4 => {
            let (k, l) = (t.int(emin, emax) as i32, t.int(emin, emax) as i32);
            let o = t.below(3);
            e = [k; 3];
            e[o] = l;
            mant = [mant[0]; 3];
            "two equal axes"
        }
        5 => {
            let jmax = match S::NAME {
                "f32" => 20,
                "f64" => 40,
                _ => 12,
            };
            for i in 0..3 {
                let j = t.int(4, jmax);
                let d = Rat::new(1, 1i128 << j);
                mant[i] = if t.bool() { Rat::ONE + d } else { Rat::ONE - d };
            }
            "scales next to 1 (1 +- 2^-j)"
        }
        6 => {
            for i in 0..3 {
                e[i] = t.int(-3, 3) as i32;
            }
            "moderate scales"
        }
        _ => {
            for i in 0..3 {
                e[i] = if t.bool() { emin as i32 } else { t.int(emin, 0) as i32 };
            }
            e[t.below(3)] = emin as i32;
            "smallest documented scale on some axis"
        }
    };
    for i in 0..3 {
        if t.chance(48) {
            mant[i] = -mant[i];
        }
    }
    (mant, e, label)
}

fn transl_regime<S: Dom>(t: &mut Tape) -> ([Rat; 3], i32, &'static str) {
    // far beyond MAX^(1/4): the fast inverses multiply a translation with one rotation entry / scale only, and a cofactor of
    // the general inverse contains at most one translation factor; the caller reduces k to the range limit of the case
    let ktmax = match S::NAME {
        "f32" => 110,
        "f64" => 900,
        _ => 56,
    };
    if t.chance(32) {
        return ([Rat::ZERO; 3], 0, "zero translation");
    }
    let tr = [Rat::frac(t.int(-160, 160), 8), Rat::frac(t.int(-160, 160), 8), Rat::frac(t.int(-160, 160), 8)];
    if tr == [Rat::ZERO; 3] {
        return (tr, 0, "zero translation");
    }
    if t.bool() {
        (tr, 0, "moderate translation")
    } else {
        let k = kexp(t, ktmax);
        (tr, k, if k < 0 { "tiny translation (2^k, k < 0)" } else { "huge translation (2^k, k > 0)" })
    }
}

fn ratio_label(e: &[i32; 3]) -> &'static str {
    let span = e.iter().max().unwrap() - e.iter().min().unwrap();
    match span {
        0..=5 => "axis ratio < 2^6",
        6..=11 => "axis ratio 2^6..2^11",
        12..=25 => "axis ratio 2^12..2^25",
        _ => "axis ratio >= 2^26",
    }
}

fn check_affine_like<S: Dom>(cx: &mut Cx, what: &str, g0: &M4<S>, w0: &M4<S>, lin_scale: f64, tr_scale: f64, k: f64) -> CaseResult {
    // linear part and last row: relative to 1/|scale|; translation column: relative to |t|/|scale|
    let mut gl = *g0;
    let mut wl = *w0;
    for i in 0..3 {
        gl[i][3] = S::zero();
        wl[i][3] = S::zero();
    }
    check_mat!(cx, S, gl, wl, lin_scale, k, "{}: linear part and last row vs the exact S^-1 R^T", what);
    let gt = [g0[0][3], g0[1][3], g0[2][3]];
    let wt = [w0[0][3], w0[1][3], w0[2][3]];
    check_vec!(cx, S, gt, wt, tr_scale, k, "{}: translation column vs the exact -S^-1 R^T t", what);
    Ok(())
}

/// A rotation computed in f64 from an angle (sin / cos, Rodrigues, or via a unit quaternion) and then rounded to the
/// domain entry by entry: the matrices applications actually store. Entries may round to exactly 0 / 1 / -1 while their
/// neighbours do not (small angles, angles next to a multiple of pi/2).
fn rot_rounded<S: Dom>(t: &mut Tape) -> ([[f64; 3]; 3], &'static str) {
    let emax = if S::NAME == "f32" { 30 } else { 60 };
    let sign = if t.bool() { -1.0 } else { 1.0 };
    let (theta, label) = match t.below(8) {
        0..=2 => {
            let e = t.int(3, emax) as i32;
            (sign * (2.0f64).powi(-e) * (1.0 + t.unit_f64()), "rounded rotation: small angle")
        }
        3 | 4 => {
            let q = t.int(0, 8) as f64;
            let d = (2.0f64).powi(-(t.int(3, emax) as i32)) * (1.0 + t.unit_f64());
            (sign * (q * std::f64::consts::FRAC_PI_2 + if t.bool() { d } else { -d }), "rounded rotation: next to a multiple of pi/2")
        }
        5 | 6 => (sign * t.range_f64(0.0, std::f64::consts::PI), "rounded rotation: ordinary angle"),
        _ => {
            let e = t.int(3, 20) as i32;
            (sign * (2.0f64).powi(e) * (1.0 + t.unit_f64()), "rounded rotation: many turns")
        }
    };
    // the angle itself is a value of the domain (as in rotation_z(1e-4_f32))
    let theta = <S as NumCast>::from(theta).expect("finite").f();
    let (sn, cs) = theta.sin_cos();
    let r = match t.below(6) {
        0 => [[1.0, 0.0, 0.0], [0.0, cs, -sn], [0.0, sn, cs]],
        1 => [[cs, 0.0, sn], [0.0, 1.0, 0.0], [-sn, 0.0, cs]],
        2 => [[cs, -sn, 0.0], [sn, cs, 0.0], [0.0, 0.0, 1.0]],
        3 | 4 => {
            // Rodrigues about a unit axis with rational components; 1 - cos = 2 sin^2(theta/2) keeps small angles accurate
            let (v, len) = gens::pythagorean3(t);
            let k = [v[0] as f64 / len as f64, v[1] as f64 / len as f64, v[2] as f64 / len as f64];
            let h = (theta / 2.0).sin();
            let omc = 2.0 * h * h;
            let mut r = [[0.0; 3]; 3];
            let kx = [[0.0, -k[2], k[1]], [k[2], 0.0, -k[0]], [-k[1], k[0], 0.0]];
            for i in 0..3 {
                for j in 0..3 {
                    r[i][j] = if i == j { 1.0 - omc * (1.0 - k[i] * k[i]) } else { omc * k[i] * k[j] + sn * kx[i][j] };
                }
            }
            r
        }
        _ => {
            // through the unit quaternion (cos(theta/2), sin(theta/2) k)
            let (v, len) = gens::pythagorean3(t);
            let (h, c) = (theta / 2.0).sin_cos();
            let (w, x, y, z) = (c, h * v[0] as f64 / len as f64, h * v[1] as f64 / len as f64, h * v[2] as f64 / len as f64);
            [
                [1.0 - 2.0 * (y * y + z * z), 2.0 * (x * y - w * z), 2.0 * (x * z + w * y)],
                [2.0 * (x * y + w * z), 1.0 - 2.0 * (x * x + z * z), 2.0 * (y * z - w * x)],
                [2.0 * (x * z - w * y), 2.0 * (y * z + w * x), 1.0 - 2.0 * (x * x + y * y)],
            ]
        }
    };
    (r, label)
}

/// Shared body: `rigid` -> T*R with the no-scale inverse (and the other two), else T*R*S with the affine inverse.
/// `rounded` -> the rotation is a float-rounded sin/cos rotation instead of an exact rational one (float domains only).
fn fast_inverse_wide<S: Dom>(t: &mut Tape, cx: &mut Cx, rigid: bool, rounded: bool) -> CaseResult {
    assert!(!(rounded && S::EXACT));
    let to_s = |x: f64| <S as NumCast>::from(x).expect("finite");
    // rotation: exact rational, or f64 rounded to the domain
    let (rot_rat, rot_f, rot_label) = if rounded {
        let (r, l) = rot_rounded::<S>(t);
        (None, r, l)
    } else {
        let (r, l) = rot_regime(t);
        let mut f = [[0.0; 3]; 3];
        for i in 0..3 {
            for j in 0..3 {
                f[i][j] = r[i][j].to_f64_lossy();
            }
        }
        (Some(r), f, l)
    };
    let (mant, e, s_label) = if rigid { ([Rat::ONE; 3], [0; 3], "no scale") } else { scales_regime::<S>(t) };
    let (tr, kt_wanted, t_label) = transl_regime::<S>(t);
    cx.label(rot_label);
    cx.label(t_label);
    if !rigid {
        cx.label(s_label);
        cx.label(ratio_label(&e));
        if mant.iter().any(|x| *x < Rat::ZERO) {
            cx.label("negative scale");
        }
    }
    // base matrix (moderate) in the domain, and its inverse S^-1 R^T [I | -t] (exact in Rat, from the f64 rotation otherwise)
    let mut bs: M4<S> = rf::identity();
    let mut w0: M4<S> = rf::identity();
    let mf: Vec<f64> = mant.iter().map(|x| x.to_f64_lossy()).collect();
    let tf: Vec<f64> = tr.iter().map(|x| x.to_f64_lossy()).collect();
    for i in 0..3 {
        bs[i][3] = rat_to::<S>(tr[i]);
        for j in 0..3 {
            bs[i][j] = match &rot_rat {
                Some(r) => rat_to::<S>(r[i][j] * mant[j]),
                None => to_s(rot_f[i][j]) * rat_to::<S>(mant[j]),
            };
        }
        match &rot_rat {
            Some(r) => {
                let mut acc = Rat::ZERO;
                for j in 0..3 {
                    w0[i][j] = rat_to::<S>(r[j][i] / mant[i]);
                    acc = acc + r[j][i] * tr[j];
                }
                w0[i][3] = rat_to::<S>(-(acc / mant[i]));
            }
            None => {
                let mut acc = 0.0;
                for j in 0..3 {
                    w0[i][j] = to_s(rot_f[j][i] / mf[i]);
                    acc += rot_f[j][i] * tf[j];
                }
                w0[i][3] = to_s(-acc / mf[i]);
            }
        }
    }
    if rounded {
        let mut snapped = false;
        for i in 0..3 {
            let row: Vec<f64> = (0..3).map(|j| to_s(rot_f[i][j]).f()).collect();
            if row.iter().any(|x| x.abs() == 1.0) && row.iter().filter(|x| **x != 0.0).count() > 1 {
                snapped = true;
            }
        }
        if snapped {
            cx.label("a rotation entry rounds to exactly +-1 while its row has other non-zero entries");
        }
    }
    if vkit::rat::poisoned().is_some() {
        // the rational oracle left the i128 range: its values are meaningless, stop before comparing anything
        discard!("poison:rat:overflow (oracle)");
    }
    let b_abs: M4<f64> = map4(&bs, |x: S| x.f().abs());
    let w_abs: M4<f64> = map4(&w0, |x: S| x.f().abs());
    let det_abs = (mf[0] * mf[1] * mf[2]).abs();
    let tmax = tf.iter().map(|x| x.abs()).fold(0.0, f64::max);
    // translation exponent: reduce to what the fast inverses themselves can represent: inputs t 2^kt, outputs
    // (R^T t / s_i) 2^(kt - e_i) and their terms, all inside the range
    let (lo, hi) = log_range::<S>();
    let fast_in_range = |kt: i32| {
        for i in 0..3 {
            if tf[i] != 0.0 {
                let l = tf[i].abs().log2() + kt as f64;
                if l < lo || l > hi {
                    return false;
                }
            }
            if tmax != 0.0 {
                let top = (tmax * 3.0 / mf[i].abs()).log2() + (kt - e[i]) as f64;
                if top > hi {
                    return false;
                }
            }
            if w_abs[i][3] != 0.0 {
                let l = w_abs[i][3].log2() + (kt - e[i]) as f64;
                if l < lo || l > hi {
                    return false;
                }
            }
        }
        true
    };
    let mut kt = kt_wanted;
    while kt != 0 && !fast_in_range(kt) {
        kt = kt * 3 / 4;
    }
    if kt != kt_wanted {
        cx.label("translation exponent reduced to the range limit");
    }
    if (kt as f64) + tmax.max(1e-300).log2() > hi / 4.0 + 2.0 {
        cx.label("translation above MAX^(1/4)");
    }
    if tmax != 0.0 && (kt as f64) + tmax.log2() < lo / 4.0 - 2.0 {
        cx.label("translation below MIN_POSITIVE^(1/4)");
    }
    let sc = Scaling { r: [0, 0, 0, -kt], c: [e[0], e[1], e[2], kt] };
    let ms = sc.apply(&bs);
    let rot_dense = rot_f.iter().all(|r| r.iter().all(|x| *x != 0.0));
    let nonuniform = !(e[0] == e[1] && e[1] == e[2] && mant[0] == mant[1] && mant[1] == mant[2]);
    cx.set_nontrivial((rot_dense || rounded) && if rigid { tmax != 0.0 } else { nonuniform });
    sample!(cx, "{} rot={:?} scale mantissas={:?} exponents={:?} t={:?}*2^{} M={:?}", S::NAME, rot_f, mant, e, tr, kt, ms);

    let (mmin, mmax) = (mf.iter().map(|x| x.abs()).fold(f64::MAX, f64::min), mf.iter().map(|x| x.abs()).fold(0.0, f64::max));
    let lin_scale = 1.0 / mmin;
    let tr_scale = tmax / mmin;
    let prod_scale = (mmax / mmin) * tmax.max(1.0);
    // column_i / |column_i|^2 and -(row . t): <= ~10 roundings per entry on top of the two roundings of each base entry;
    // 512 keeps two orders of magnitude above the largest error observed (3 eps) and three or more below an O(1) defect
    let k = 512.0;
    // residuals in doubled precision on the stored values, entry-wise relative to the size of the TERMS of that entry at
    // the base level (1 for M inv(M), m_j/m_i for inv(M) M, |t| resp. |t|/m_i in the translation column; the last row is
    // exact). A-priori: stored rotation entries are within ~2 eps (absolute, relative to 1) of a rotation, so
    // |R~^T R~ - I| <= ~4 sqrt(3) eps; column / |column|^2 adds <= 3 eps, the translation dot product <= 2 eps of its terms:
    // <= ~10 eps * (1 | m_j/m_i) resp. ~5 eps * |t|. 16 * 3 = 48 eps leaves a factor 5 and still sees a rotation block that
    // is off by an angle of 2^-17 (f32) / 2^-46 (f64)
    // (f64 domain: the rotation is itself computed in working precision and is orthogonal only to ~12 eps, observed; an
    // f32 rotation is the correct rounding of an f64 one. 64 in f64 still resolves angles of 2^-44.)
    let kres = if S::NAME == "f64" && rounded { 64.0 } else { 16.0 };
    let (mut res_left, mut res_right) = ([[0.0f64; 4]; 4], [[0.0f64; 4]; 4]);
    for i in 0..3 {
        for j in 0..3 {
            // terms r_ik m_k * r_jk / m_k are O(1); terms (r_ki / m_i) * (r_kj m_j) are O(m_j / m_i)
            res_left[i][j] = 3.0;
            res_right[i][j] = 3.0 * mf[j].abs() / mf[i].abs();
        }
        // sum_k a_ik g_k3 + t_i with |g_k3| <= sqrt(3) tmax / m_k;  sum_k g_ik t_k + g_i3
        res_left[i][3] = 6.0 * tmax;
        res_right[i][3] = 4.0 * tmax / mf[i].abs();
    }
    let id: M4<S> = rf::identity();
    let (r, c) = (rm::Mat4::<S>::from_arr(&ms), cm::Mat4::<S>::from_arr(&ms));

    // the general inverse and the determinant: only where a cofactor evaluation stays in range
    let general_ok = if S::EXACT { sc.weight() <= 56 } else { scaling_in_range::<S>(&b_abs, &w_abs, det_abs, &sc) };
    if !general_ok {
        cx.label("general inverse not called (its four-fold products would leave the range)");
    }

    macro_rules! one {
        ($what:expr, $g:expr) => {{
            let g0 = sc.unscale_inverse(&$g.to_arr());
            check_affine_like(cx, $what, &g0, &w0, lin_scale, tr_scale, k)?;
            check_mat!(cx, S, rf::matmul(&bs, &g0), id, prod_scale, k, "{}: M * inv(M) = I (scaled back by powers of two)", $what);
            check_mat!(cx, S, rf::matmul(&g0, &bs), id, prod_scale, k, "{}: inv(M) * M = I (scaled back by powers of two)", $what);
            residual_check(cx, $what, &bs, &g0, &res_left, &res_right, kres)?;
        }};
    }
    if rigid {
        one!("row-major inverted_affine_transform_no_scale()", r.inverted_affine_transform_no_scale());
        one!("col-major inverted_affine_transform_no_scale()", c.inverted_affine_transform_no_scale());
        let mut r2 = r;
        r2.invert_affine_transform_no_scale();
        check_eq!(cx, r2.to_arr(), r.inverted_affine_transform_no_scale().to_arr(), "row-major invert_affine_transform_no_scale() == returning form");
        let mut c2 = c;
        c2.invert_affine_transform_no_scale();
        check_eq!(cx, c2.to_arr(), c.inverted_affine_transform_no_scale().to_arr(), "col-major invert_affine_transform_no_scale() == returning form");
    }
    one!("row-major inverted_affine_transform()", r.inverted_affine_transform());
    one!("col-major inverted_affine_transform()", c.inverted_affine_transform());
    let mut r2 = r;
    r2.invert_affine_transform();
    check_eq!(cx, r2.to_arr(), r.inverted_affine_transform().to_arr(), "row-major invert_affine_transform() == returning form");
    let mut c2 = c;
    c2.invert_affine_transform();
    check_eq!(cx, c2.to_arr(), c.inverted_affine_transform().to_arr(), "col-major invert_affine_transform() == returning form");
    if general_ok {
        let kg = 64.0;
        let kind = if rigid { "rigid" } else { "T*R*S" };
        let alg = inverse_tolerances(&b_abs, &w_abs, det_abs);
        // the reference is the inverse of the ideal matrix; the stored one differs from it by <= 2 roundings per entry
        // (exact rotation a/n times a mantissa), resp. by <= 8 eps * |scale_l| in every entry of column l (rotation computed in
        // f64 and rounded; ~3 eps observed in the f64 domain, where the construction itself runs in working precision): the true inverse moves by <= |inv| |dB| |inv|
        let mut db = [[0.0f64; 4]; 4];
        for i in 0..3 {
            for j in 0..3 {
                db[i][j] = if rounded { 8.0 * mf[j].abs() } else { 2.0 * b_abs[i][j] };
            }
        }
        let pert = rf::matmul(&rf::matmul(&w_abs, &db), &w_abs);
        let (mut cmp, mut res_l, mut res_r) = (alg, rf::matmul(&b_abs, &alg), rf::matmul(&alg, &b_abs));
        for i in 0..4 {
            for j in 0..4 {
                cmp[i][j] = kg * alg[i][j] + if S::EXACT { 0.0 } else { pert[i][j] };
                res_l[i][j] *= kg;
                res_r[i][j] *= kg;
            }
        }
        let (gr, gc) = (r.inverted(), c.inverted());
        for (what, g) in [("row-major inverted()", gr.to_arr()), ("col-major inverted()", gc.to_arr())] {
            let g0 = sc.unscale_inverse(&g);
            check_entries(cx, &g0, &w0, &cmp, 1.0, &|| format!("{} on a {} matrix agrees with the exact / fast inverse (scaled back by powers of two)", what, kind))?;
            // the residual is taken on the matrix as stored: only the error of the cofactor evaluation itself is allowed
            residual_check(cx, what, &bs, &g0, &res_l, &res_r, 1.0)?;
        }
        let mut r2 = r;
        r2.invert();
        check_eq!(cx, r2.to_arr(), gr.to_arr(), "row-major invert() == inverted() on a {} matrix", kind);
        let mut c2 = c;
        c2.invert();
        check_eq!(cx, c2.to_arr(), gc.to_arr(), "col-major invert() == inverted() on a {} matrix", kind);
        // determinant = product of the scales (times det R = 1), scaled back
        // (the exact product of three mantissas 1 +- 2^-40 would leave the i128 range of the oracle: floats take it in f64)
        let want = if S::EXACT { rat_to::<S>(mant[0] * mant[1] * mant[2]) } else { to_s(mf[0] * mf[1] * mf[2]) };
        let dtol = 128.0 * S::eps() * perm_abs(&b_abs);
        let unscale = p2::<S>(-(e[0] + e[1] + e[2]));
        near::<S>(cx, r.determinant() * unscale, want, dtol, "row-major determinant of a T*R*S matrix = product of the scales", kind)?;
        near::<S>(cx, c.determinant() * unscale, want, dtol, "col-major determinant of a T*R*S matrix = product of the scales", kind)?;
    }
    Ok(())
}

pub fn inverse_rigid_wide<S: Dom>(t: &mut Tape, cx: &mut Cx) -> CaseResult {
    fast_inverse_wide::<S>(t, cx, true, false)
}
pub fn inverse_trs_wide<S: Dom>(t: &mut Tape, cx: &mut Cx) -> CaseResult {
    fast_inverse_wide::<S>(t, cx, false, false)
}
pub fn inverse_rigid_rounded<S: Dom>(t: &mut Tape, cx: &mut Cx) -> CaseResult {
    fast_inverse_wide::<S>(t, cx, true, true)
}
pub fn inverse_trs_rounded<S: Dom>(t: &mut Tape, cx: &mut Cx) -> CaseResult {
    fast_inverse_wide::<S>(t, cx, false, true)
}

// ---------------------------------------------------------------------------------------------------------------
// determinants on structured families, scaled exactly per row and column
// ---------------------------------------------------------------------------------------------------------------

/// Sum over permutations of prod |a[i][p(i)]|: the magnitude every evaluation of the Leibniz expansion works at.
pub(crate) fn perm_abs<const N: usize>(a: &[[f64; N]; N]) -> f64 {
    let mut abs = [[0.0f64; N]; N];
    for i in 0..N {
        for j in 0..N {
            abs[i][j] = a[i][j].abs();
        }
    }
    // Ryser is overkill: expand along the first row recursively on index masks
    fn rec<const N: usize>(a: &[[f64; N]; N], row: usize, used: u32) -> f64 {
        if row == N {
            return 1.0;
        }
        let mut s = 0.0;
        for j in 0..N {
            if used >> j & 1 == 0 && a[row][j] != 0.0 {
                s += a[row][j] * rec(a, row + 1, used | 1 << j);
            }
        }
        s
    }
    rec(&abs, 0, 0)
}

fn det_family<const N: usize>(t: &mut Tape) -> ([[Rat; N]; N], &'static str) {
    let mut m = [[Rat::ZERO; N]; N];
    let dense = |t: &mut Tape, m: &mut [[Rat; N]; N]| {
        for i in 0..N {
            for j in 0..N {
                m[i][j] = ent(t);
            }
        }
    };
    let label = match t.below(14) {
        0 => {
            let upper = t.bool();
            for i in 0..N {
                for j in 0..N {
                    if i == j {
                        m[i][j] = nz(t);
                    } else if (i < j) == upper {
                        m[i][j] = ent(t);
                    }
                }
            }
            "triangular"
        }
        1 => {
            for i in 0..N {
                m[i][i] = nz(t);
            }
            "diagonal"
        }
        2 => {
            m = signed_perm::<N>(t);
            "generalised permutation"
        }
        3 => {
            let mut u = [Rat::ZERO; N];
            let mut v = [Rat::ZERO; N];
            for i in 0..N {
                u[i] = nz(t);
                v[i] = nz(t);
            }
            for i in 0..N {
                for j in 0..N {
                    m[i][j] = u[i] * v[j];
                }
            }
            "rank one (det = 0)"
        }
        4 => {
            dense(t, &mut m);
            let (i, j) = (t.below(N), t.below(N));
            if i != j {
                let f = nz(t);
                for c in 0..N {
                    m[i][c] = m[j][c] * f;
                }
            } else {
                for r in 0..N {
                    m[r][i] = Rat::ZERO;
                }
            }
            "proportional rows or a zero column (det = 0)"
        }
        5 => {
            for i in 0..N {
                m[i][i] = if t.bool() { Rat::ONE } else { nz(t) };
            }
            let cnt = 1 + t.below(N);
            for _ in 0..cnt {
                let i = t.below(N);
                let j = (i + 1 + t.below(N - 1)) % N;
                m[i][j] = nz(t);
            }
            "sparse: diagonal plus a few entries"
        }
        6 => {
            dense(t, &mut m);
            let w = if t.bool() { Rat::ONE } else { nz(t) };
            for j in 0..N {
                m[N - 1][j] = if j == N - 1 { w } else { Rat::ZERO };
            }
            "last row (0,..,0,w), w = 1 in half of the cases"
        }
        7 => {
            dense(t, &mut m);
            let w = if t.bool() { Rat::ONE } else { nz(t) };
            for i in 0..N {
                m[i][N - 1] = if i == N - 1 { w } else { Rat::ZERO };
            }
            "last column (0,..,0,w), w = 1 in half of the cases"
        }
        8 => {
            dense(t, &mut m);
            for i in 0..N {
                for j in 0..i {
                    m[i][j] = m[j][i];
                }
            }
            "symmetric"
        }
        9 => {
            dense(t, &mut m);
            for i in 0..N {
                m[i][i] = Rat::ZERO;
                for j in 0..i {
                    m[i][j] = -m[j][i];
                }
            }
            "antisymmetric"
        }
        10 if N == 4 => {
            dense(t, &mut m);
            let which = t.below(3);
            for i in 0..2 {
                for j in 0..2 {
                    if which != 1 {
                        m[2 + i][j] = Rat::ZERO;
                    }
                    if which != 0 {
                        m[i][2 + j] = Rat::ZERO;
                    }
                }
            }
            "2x2 block diagonal / triangular"
        }
        11 => {
            // one row (or column) far from the others in direction only: identity plus rank one
            let mut u = [Rat::ZERO; N];
            let mut v = [Rat::ZERO; N];
            for i in 0..N {
                u[i] = ent(t);
                v[i] = ent(t);
            }
            for i in 0..N {
                for j in 0..N {
                    m[i][j] = u[i] * v[j];
                }
                m[i][i] = m[i][i] + Rat::ONE;
            }
            "identity plus rank one"
        }
        _ => {
            dense(t, &mut m);
            "dense"
        }
    };
    if t.chance(64) {
        m = rf::transpose(&m);
    }
    (m, label)
}

fn rat_abs_max<const N: usize>(a: &[[Rat; N]; N]) -> f64 {
    a.iter().flatten().map(|x| x.to_f64_lossy().abs()).fold(0.0, f64::max)
}

/// Budget for sum |r_i| + sum |c_j| of a determinant case: every partial product of up to N scaled entries
/// (|entry| <= 36 before scaling), the N!-term sums and the same for a product with a second small matrix stay normal.
fn det_budget<S: Dom>() -> i32 {
    match S::NAME {
        "f32" => 72,
        "f64" => 800,
        _ => 64,
    }
}

/// Closeness with an absolute tolerance (exact equality in `Rat`).
fn near<S: Dom>(cx: &mut Cx, got: S, want: S, tol: f64, what: &str, label: &str) -> CaseResult {
    cx.count();
    let ok = if S::EXACT {
        got == want
    } else {
        let d = (got.f() - want.f()).abs();
        if got.f() != want.f() && tol > 0.0 && d.is_finite() {
            cx.note_err(d / tol);
        }
        got.f() == want.f() || d <= tol
    };
    if !ok {
        fail!("{} ({}): got {:?}, want {:?} (absolute tolerance {:e})", what, label, got, want, tol);
    }
    Ok(())
}

macro_rules! det_wide_case {
    ($fname:ident, $N:expr, $Mat:ident) => {
        pub fn $fname<S: Dom>(t: &mut Tape, cx: &mut Cx) -> CaseResult {
            const N: usize = $N;
            let (mut b, label) = det_family::<N>(t);
            cx.label(label);
            let budget = det_budget::<S>();
            let wide = kwide::<S>();
            let (mut r, mut c) = ([0i32; N], [0i32; N]);
            match t.below(10) {
                0..=2 => cx.label("unit scale"),
                3 | 4 => {
                    let k = kexp(t, budget / N as i32);
                    c = [k; N];
                    cx.label(if k < 0 { "all entries * 2^k, k < 0" } else { "all entries * 2^k, k > 0" });
                }
                5 => {
                    // one line as far as the arithmetic goes: every term of the expansion contains exactly one factor of it
                    let k = kexp(t, wide);
                    if t.bool() {
                        r[t.below(N)] = k;
                    } else {
                        c[t.below(N)] = k;
                    }
                    cx.label(if k < 0 { "one row or column * 2^k, k < 0 (up to the range limit)" } else { "one row or column * 2^k, k > 0 (up to the range limit)" });
                }
                6 | 7 => {
                    let lim = (budget / (2 * N as i32)) as i64;
                    for i in 0..N {
                        r[i] = t.int(-lim, lim) as i32;
                        c[i] = t.int(-lim, lim) as i32;
                    }
                    cx.label("independent row and column exponents");
                }
                8 => {
                    let (i, j) = (t.below(N), t.below(N));
                    let k = kexp(t, 40);
                    let v = if b[i][j].is_zero() { nz(t) } else { b[i][j] };
                    b[i][j] = v * if k > 0 { Rat::new(1i128 << k, 1) } else { Rat::new(1, 1i128 << (-k)) };
                    cx.label("one element * 2^k (|k| <= 40)");
                }
                _ => {
                    let (k, l) = (kexp(t, wide).abs(), kexp(t, wide).abs());
                    let (i, j) = (t.below(N), t.below(N - 1));
                    match t.below(3) {
                        0 => {
                            r[i] = k;
                            r[(i + 1 + j) % N] = -l;
                        }
                        1 => {
                            c[i] = k;
                            c[(i + 1 + j) % N] = -l;
                        }
                        _ => {
                            r[i] = k;
                            c[j] = -l;
                        }
                    }
                    cx.label("one line * 2^k and another * 2^-l (up to the range limit)");
                }
            }
            // reduce the exponents until every partial product of the expansion, and the determinant itself, is in range
            let db = rf::det(&b);
            {
                let (lo, hi) = log_range::<S>();
                let mut abs = [[0.0f64; N]; N];
                for i in 0..N {
                    for j in 0..N {
                        abs[i][j] = b[i][j].to_f64_lossy().abs();
                    }
                }
                let wanted = (r, c);
                for _ in 0..48 {
                    let e: i32 = r.iter().sum::<i32>() + c.iter().sum::<i32>();
                    let ld = if db.is_zero() { 0.0 } else { db.to_f64_lossy().abs().log2() + e as f64 };
                    if partial_products_in_range(&log_matrix(&abs, &r, &c), lo, hi) && ld >= lo && ld <= hi {
                        break;
                    }
                    for i in 0..N {
                        r[i] = r[i] * 3 / 4;
                        c[i] = c[i] * 3 / 4;
                    }
                }
                if (r, c) != wanted {
                    cx.label("exponents reduced to the range limit of this zero pattern");
                }
                let lg = log_matrix(&abs, &r, &c);
                let mx = lg.iter().flatten().cloned().fold(f64::NEG_INFINITY, f64::max);
                let mn = lg.iter().flatten().cloned().filter(|x| *x != f64::NEG_INFINITY).fold(f64::INFINITY, f64::min);
                if mx > hi / N as f64 + 2.0 && mn < hi / (2 * N) as f64 {
                    cx.label("largest element above MAX^(1/N) next to ordinary ones");
                }
                if mn < lo / N as f64 - 2.0 && mx > lo / (2 * N) as f64 {
                    cx.label("smallest element below MIN_POSITIVE^(1/N) next to ordinary ones");
                }
            }
            // det(AB): a product with a dense factor spreads the largest row / column exponent over all N lines
            let spread = r.iter().map(|x| x.abs()).max().unwrap() + c.iter().map(|x| x.abs()).max().unwrap();
            let mild = N as i32 * spread <= budget && rat_abs_max(&b) <= 64.0;
            let e: i32 = r.iter().sum::<i32>() + c.iter().sum::<i32>();
            let mut a = [[S::zero(); N]; N];
            let mut af = [[0.0f64; N]; N];
            let mut zeros = 0;
            for i in 0..N {
                for j in 0..N {
                    a[i][j] = rat_to::<S>(b[i][j]) * p2::<S>(r[i] + c[j]);
                    af[i][j] = a[i][j].f();
                    if b[i][j].is_zero() {
                        zeros += 1;
                    }
                }
            }
            cx.set_nontrivial(zeros < N * N - N && b != rf::transpose(&b));
            let want = rat_to::<S>(db) * p2::<S>(e);
            sample!(cx, "{} n={} {} base={:?} row exps={:?} col exps={:?} det(base)={:?} A={:?}", S::NAME, N, label, b, r, c, db, a);
            // every evaluation of the Leibniz expansion has an error <= (N + N! - 1) eps * sum_perm prod |a| (<= 27 eps * ..);
            // 128 is two orders of magnitude above the largest error observed (0.8 eps * ..)
            let tol = 128.0 * S::eps() * perm_abs(&af);
            let (ra, ca) = (rm::$Mat::<S>::from_arr(&a), cm::$Mat::<S>::from_arr(&a));
            near::<S>(cx, ra.determinant(), want, tol, "row-major determinant vs the exact determinant scaled by 2^(sum of exponents)", label)?;
            near::<S>(cx, ca.determinant(), want, tol, "col-major determinant vs the exact determinant scaled by 2^(sum of exponents)", label)?;
            near::<S>(cx, ra.transposed().determinant(), want, tol, "row-major det(A^T)", label)?;
            near::<S>(cx, ca.transposed().determinant(), want, tol, "col-major det(A^T)", label)?;
            near::<S>(cx, rm::$Mat::<S>::from(ca).determinant(), want, tol, "det after layout change (col->row)", label)?;
            near::<S>(cx, cm::$Mat::<S>::from(ra).determinant(), want, tol, "det after layout change (row->col)", label)?;
            if mild {
                // multiplicative with a second (small, dense) factor on either side
                let b2: [[Rat; N]; N] = {
                    let mut m = [[Rat::ZERO; N]; N];
                    for i in 0..N {
                        for j in 0..N {
                            m[i][j] = ri(t.int(-4, 4));
                        }
                    }
                    m
                };
                let d2 = rf::det(&b2);
                let mut s2 = [[S::zero(); N]; N];
                let mut f2 = [[0.0f64; N]; N];
                for i in 0..N {
                    for j in 0..N {
                        s2[i][j] = rat_to::<S>(b2[i][j]);
                        f2[i][j] = s2[i][j].f().abs();
                    }
                }
                let mut abs_a = af;
                for i in 0..N {
                    for j in 0..N {
                        abs_a[i][j] = af[i][j].abs();
                    }
                }
                let want2 = rat_to::<S>(db * d2) * p2::<S>(e);
                let tol_ab = 128.0 * S::eps() * perm_abs(&rf::matmul(&abs_a, &f2));
                let tol_ba = 128.0 * S::eps() * perm_abs(&rf::matmul(&f2, &abs_a));
                let (rb, cb) = (rm::$Mat::<S>::from_arr(&s2), cm::$Mat::<S>::from_arr(&s2));
                near::<S>(cx, (ra * rb).determinant(), want2, tol_ab, "row-major det(A B) = det A det B", label)?;
                near::<S>(cx, (cb * ca).determinant(), want2, tol_ba, "col-major det(B A) = det B det A", label)?;
            } else {
                cx.label("det(AB) not formed (the entries of the product would leave the range)");
            }
            Ok(())
        }
    };
}
det_wide_case!(det2_wide, 2, Mat2);
det_wide_case!(det3_wide, 3, Mat3);
det_wide_case!(det4_wide, 4, Mat4);
