//! C07 — affine builders and Transform act on points as defined and chain in call order.

use vek::mat::repr_c::column_major as cm;
use vek::mat::repr_c::row_major as rm;
use vek::quaternion::repr_c::Quaternion;
use vek::transform::repr_c::Transform;
use vek::vec::repr_c::{Vec2, Vec3, Vec4};
use vkit::gens;
use vkit::refmath as rf;
use vkit::vk::{self, MatN};
use vkit::*;

const K: f64 = 1024.0;

mod reg;

#[derive(Clone, Copy, Debug)]
enum Step<S> {
    Translate2([S; 2]),
    Translate3([S; 3]),
    Scale3([S; 3]),
    Scale2([S; 2]),
    RotX(S),
    RotY(S),
    RotZ(S),
    Rot3(S, [S; 3], [S; 3]), // angle, axis as passed, exact unit axis
    ShearX(S),
    ShearY(S),
}

fn step_name<S>(s: &Step<S>) -> &'static str {
    match s {
        Step::Translate2(_) => "translate_2d",
        Step::Translate3(_) => "translate_3d",
        Step::Scale3(_) => "scale_3d",
        Step::Scale2(_) => "scale_2d",
        Step::RotX(_) => "rotate_x",
        Step::RotY(_) => "rotate_y",
        Step::RotZ(_) => "rotate_z",
        Step::Rot3(..) => "rotate_3d",
        Step::ShearX(_) => "shear_x",
        Step::ShearY(_) => "shear_y",
    }
}

/// What a step does to a 3D point / vector, by its definition (no matrices).
fn apply3<S: Dom>(s: &Step<S>, p: &[S; 3], w: S) -> [S; 3] {
    match s {
        Step::Translate2(v) => [p[0] + v[0] * w, p[1] + v[1] * w, p[2]],
        Step::Translate3(v) => [p[0] + v[0] * w, p[1] + v[1] * w, p[2] + v[2] * w],
        Step::Scale3(k) => [p[0] * k[0], p[1] * k[1], p[2] * k[2]],
        Step::RotX(a) => rf::rodrigues(p, &[S::one(), S::zero(), S::zero()], a.sin(), a.cos()),
        Step::RotY(a) => rf::rodrigues(p, &[S::zero(), S::one(), S::zero()], a.sin(), a.cos()),
        Step::RotZ(a) => rf::rodrigues(p, &[S::zero(), S::zero(), S::one()], a.sin(), a.cos()),
        Step::Rot3(a, _, unit) => rf::rodrigues(p, unit, a.sin(), a.cos()),
        _ => unreachable!(),
    }
}
/// Mat3 chains act on R^3 with z as the homogeneous coordinate of translate_2d.
fn apply3_h2<S: Dom>(s: &Step<S>, p: &[S; 3]) -> [S; 3] {
    match s {
        Step::Translate2(v) => [p[0] + v[0] * p[2], p[1] + v[1] * p[2], p[2]],
        other => apply3(other, p, S::zero()),
    }
}
fn apply2<S: Dom>(s: &Step<S>, p: &[S; 2]) -> [S; 2] {
    match s {
        Step::Scale2(k) => [p[0] * k[0], p[1] * k[1]],
        Step::RotZ(a) => [a.cos() * p[0] - a.sin() * p[1], a.sin() * p[0] + a.cos() * p[1]],
        Step::ShearX(k) => [p[0] + *k * p[1], p[1]],
        Step::ShearY(k) => [p[0], p[1] + *k * p[0]],
        _ => unreachable!(),
    }
}

/// The matrix of a step, column by column from its definition on the basis vectors.
fn matrix4<S: Dom>(s: &Step<S>) -> [[S; 4]; 4] {
    let mut m = [[S::zero(); 4]; 4];
    let (z, o) = (S::zero(), S::one());
    for j in 0..3 {
        let mut e = [z; 3];
        e[j] = o;
        let img = apply3(s, &e, z);
        for i in 0..3 {
            m[i][j] = img[i];
        }
    }
    let origin = apply3(s, &[z; 3], o);
    for i in 0..3 {
        m[i][3] = origin[i];
    }
    m[3][3] = o;
    m
}
fn matrix3<S: Dom>(s: &Step<S>) -> [[S; 3]; 3] {
    let mut m = [[S::zero(); 3]; 3];
    for j in 0..3 {
        let mut e = [S::zero(); 3];
        e[j] = S::one();
        let img = apply3_h2(s, &e);
        for i in 0..3 {
            m[i][j] = img[i];
        }
    }
    m
}
fn matrix2<S: Dom>(s: &Step<S>) -> [[S; 2]; 2] {
    let mut m = [[S::zero(); 2]; 2];
    for j in 0..2 {
        let mut e = [S::zero(); 2];
        e[j] = S::one();
        let img = apply2(s, &e);
        for i in 0..2 {
            m[i][j] = img[i];
        }
    }
    m
}

fn gen_axis<S: Dom>(t: &mut Tape) -> ([S; 3], [S; 3]) {
    let (v, len) = gens::pythagorean3(t);
    let l = S::q(t.int(1, 5), t.pick(&[1i64, 2, 3]));
    ([S::i(v[0]) * l, S::i(v[1]) * l, S::i(v[2]) * l], [S::q(v[0], len), S::q(v[1], len), S::q(v[2], len)])
}
fn gen_step4<S: Dom>(t: &mut Tape) -> Step<S> {
    match t.below(7) {
        0 => Step::Translate2([S::any(t, 9), S::any(t, 9)]),
        1 => Step::Translate3([S::any(t, 9), S::any(t, 9), S::any(t, 9)]),
        2 => Step::Scale3([S::small(t, 5), S::small(t, 5), S::small(t, 5)]),
        3 => Step::RotX(S::angle(t)),
        4 => Step::RotY(S::angle(t)),
        5 => Step::RotZ(S::angle(t)),
        _ => {
            let a = S::angle(t);
            let (ax, u) = gen_axis::<S>(t);
            Step::Rot3(a, ax, u)
        }
    }
}
fn gen_step3<S: Dom>(t: &mut Tape) -> Step<S> {
    match t.below(6) {
        0 => Step::Translate2([S::any(t, 9), S::any(t, 9)]),
        1 => Step::Scale3([S::small(t, 5), S::small(t, 5), S::small(t, 5)]),
        2 => Step::RotX(S::angle(t)),
        3 => Step::RotY(S::angle(t)),
        4 => Step::RotZ(S::angle(t)),
        _ => {
            let a = S::angle(t);
            let (ax, u) = gen_axis::<S>(t);
            Step::Rot3(a, ax, u)
        }
    }
}
fn gen_step2<S: Dom>(t: &mut Tape) -> Step<S> {
    match t.below(4) {
        0 => Step::RotZ(S::angle(t)),
        1 => Step::Scale2([S::small(t, 5), S::small(t, 5)]),
        2 => Step::ShearX(S::any(t, 5)),
        _ => Step::ShearY(S::any(t, 5)),
    }
}

fn noncommuting<S>(steps: &[Step<S>]) -> bool {
    // at least two steps of different kinds, one of them a translation, rotation, shear or (non-uniform) scale
    let kinds: std::collections::BTreeSet<&'static str> = steps.iter().map(step_name).collect();
    kinds.len() >= 2
}

macro_rules! chain_cases {
    ($f4:ident, $f3:ident, $f2:ident, $l:ident, $lname:expr) => {
        fn $f4<S: Dom>(t: &mut Tape, cx: &mut Cx) -> CaseResult {
            let n = t.below(9);
            let start: [[S; 4]; 4] = if t.bool() { rf::identity() } else { vk::gen_mat(t, 3) };
            let mut m = start;
            let mut v = $l::Mat4::<S>::from_arr(&start);
            let mut w = v;
            let mut steps = Vec::new();
            let p: [S; 3] = vk::gen_vec(t, 9);
            let mut q = p;
            let mut d = p;
            let mut mag = vk::mat_max(&m).max(1.0);
            for i in 0..n {
                let s = gen_step4::<S>(t);
                cx.label(step_name(&s));
                let c = matrix4(&s);
                m = rf::matmul(&c, &m);
                mag = (mag * vk::mat_max(&c).max(1.0) * 4.0).max(1.0);
                match s {
                    Step::Translate2(a) => { v = v.translated_2d(vk::v2(&a)); w.translate_2d(vk::v2(&a)); }
                    Step::Translate3(a) => { v = v.translated_3d(vk::v3(&a)); w.translate_3d(vk::v3(&a)); }
                    Step::Scale3(a) => { v = v.scaled_3d(vk::v3(&a)); w.scale_3d(vk::v3(&a)); }
                    Step::RotX(a) => { v = v.rotated_x(a); w.rotate_x(a); }
                    Step::RotY(a) => { v = v.rotated_y(a); w.rotate_y(a); }
                    Step::RotZ(a) => { v = v.rotated_z(a); w.rotate_z(a); }
                    Step::Rot3(a, ax, _) => { v = v.rotated_3d(a, vk::v3(&ax)); w.rotate_3d(a, vk::v3(&ax)); }
                    _ => unreachable!(),
                }
                check_mat!(cx, S, v.to_arr(), m, mag, K, "{} Mat4 after step {} ({}): value = constructor * previous", $lname, i + 1, step_name(&s));
                check_eq!(cx, w.to_arr(), v.to_arr(), "{} Mat4 in-place twin after step {} ({})", $lname, i + 1, step_name(&s));
                q = apply3(&s, &q, S::one());
                d = apply3(&s, &d, S::zero());
                steps.push(s);
            }
            cx.set_nontrivial(noncommuting(&steps));
            sample!(cx, "{} {} Mat4 start={:?} steps={:?} p={:?}", S::NAME, $lname, start, steps, p);
            // semantic: the chain applies its steps to a point in call order (only meaningful from the identity)
            if start == rf::identity::<S, 4>() {
                let pm = vk::vec_max(&p).max(1.0) * mag;
                let img = rf::matvec(&v.to_arr(), &[p[0], p[1], p[2], S::one()]);
                check_vec!(cx, S, [img[0], img[1], img[2]], q, pm, K, "{} Mat4 chain applied to a point in call order", $lname);
                check_close!(cx, S, img[3], S::one(), 1.0, K, "{} Mat4 chain keeps w = 1", $lname);
                let imd = rf::matvec(&v.to_arr(), &[p[0], p[1], p[2], S::zero()]);
                check_vec!(cx, S, [imd[0], imd[1], imd[2]], d, pm, K, "{} Mat4 chain applied to a direction in call order", $lname);
                check_vec!(cx, S, vk::a3(&v.mul_point(vk::v3(&p))), q, pm, K, "{} Mat4::mul_point", $lname);
                check_vec!(cx, S, vk::a3(&v.mul_direction(vk::v3(&p))), d, pm, K, "{} Mat4::mul_direction", $lname);
            }
            Ok(())
        }
        fn $f3<S: Dom>(t: &mut Tape, cx: &mut Cx) -> CaseResult {
            let n = t.below(9);
            let start: [[S; 3]; 3] = if t.bool() { rf::identity() } else { vk::gen_mat(t, 3) };
            let mut m = start;
            let mut v = $l::Mat3::<S>::from_arr(&start);
            let mut w = v;
            let mut steps = Vec::new();
            let p: [S; 3] = vk::gen_vec(t, 9);
            let mut q = p;
            let mut mag = vk::mat_max(&m).max(1.0);
            for i in 0..n {
                let s = gen_step3::<S>(t);
                cx.label(step_name(&s));
                let c = matrix3(&s);
                m = rf::matmul(&c, &m);
                mag = (mag * vk::mat_max(&c).max(1.0) * 3.0).max(1.0);
                match s {
                    Step::Translate2(a) => { v = v.translated_2d(vk::v2(&a)); w.translate_2d(vk::v2(&a)); }
                    Step::Scale3(a) => { v = v.scaled_3d(vk::v3(&a)); w.scale_3d(vk::v3(&a)); }
                    Step::RotX(a) => { v = v.rotated_x(a); w.rotate_x(a); }
                    Step::RotY(a) => { v = v.rotated_y(a); w.rotate_y(a); }
                    Step::RotZ(a) => { v = v.rotated_z(a); w.rotate_z(a); }
                    Step::Rot3(a, ax, _) => { v = v.rotated_3d(a, vk::v3(&ax)); w.rotate_3d(a, vk::v3(&ax)); }
                    _ => unreachable!(),
                }
                check_mat!(cx, S, v.to_arr(), m, mag, K, "{} Mat3 after step {} ({}): value = constructor * previous", $lname, i + 1, step_name(&s));
                check_eq!(cx, w.to_arr(), v.to_arr(), "{} Mat3 in-place twin after step {} ({})", $lname, i + 1, step_name(&s));
                q = apply3_h2(&s, &q);
                steps.push(s);
            }
            cx.set_nontrivial(noncommuting(&steps));
            sample!(cx, "{} {} Mat3 start={:?} steps={:?} p={:?}", S::NAME, $lname, start, steps, p);
            if start == rf::identity::<S, 3>() {
                let pm = vk::vec_max(&p).max(1.0) * mag;
                check_vec!(cx, S, rf::matvec(&v.to_arr(), &p), q, pm, K, "{} Mat3 chain applied to a vector in call order", $lname);
            }
            Ok(())
        }
        fn $f2<S: Dom>(t: &mut Tape, cx: &mut Cx) -> CaseResult {
            let n = t.below(9);
            let start: [[S; 2]; 2] = if t.bool() { rf::identity() } else { vk::gen_mat(t, 3) };
            let mut m = start;
            let mut v = $l::Mat2::<S>::from_arr(&start);
            let mut w = v;
            let mut steps = Vec::new();
            let p: [S; 2] = vk::gen_vec(t, 9);
            let mut q = p;
            let mut mag = vk::mat_max(&m).max(1.0);
            for i in 0..n {
                let s = gen_step2::<S>(t);
                cx.label(step_name(&s));
                let c = matrix2(&s);
                m = rf::matmul(&c, &m);
                mag = (mag * vk::mat_max(&c).max(1.0) * 2.0).max(1.0);
                match s {
                    Step::RotZ(a) => { v = v.rotated_z(a); w.rotate_z(a); }
                    Step::Scale2(a) => { v = v.scaled_2d(vk::v2(&a)); w.scale_2d(vk::v2(&a)); }
                    Step::ShearX(a) => { v = v.sheared_x(a); w.shear_x(a); }
                    Step::ShearY(a) => { v = v.sheared_y(a); w.shear_y(a); }
                    _ => unreachable!(),
                }
                check_mat!(cx, S, v.to_arr(), m, mag, K, "{} Mat2 after step {} ({}): value = constructor * previous", $lname, i + 1, step_name(&s));
                check_eq!(cx, w.to_arr(), v.to_arr(), "{} Mat2 in-place twin after step {} ({})", $lname, i + 1, step_name(&s));
                q = apply2(&s, &q);
                steps.push(s);
            }
            cx.set_nontrivial(noncommuting(&steps));
            sample!(cx, "{} {} Mat2 start={:?} steps={:?} p={:?}", S::NAME, $lname, start, steps, p);
            if start == rf::identity::<S, 2>() {
                let pm = vk::vec_max(&p).max(1.0) * mag;
                check_vec!(cx, S, rf::matvec(&v.to_arr(), &p), q, pm, K, "{} Mat2 chain applied to a vector in call order", $lname);
            }
            Ok(())
        }
    };
}
chain_cases!(chain4_rows, chain3_rows, chain2_rows, rm, "row-major");
chain_cases!(chain4_cols, chain3_cols, chain2_cols, cm, "col-major");

/// Constructors by definition on points and directions; mul_point / mul_direction helpers.
fn constructors<S: Dom>(t: &mut Tape, cx: &mut Cx) -> CaseResult {
    let v3: [S; 3] = vk::gen_vec(t, 9);
    let k3: [S; 3] = vk::gen_vec(t, 9);
    let p: [S; 3] = vk::gen_vec(t, 9);
    let k = S::any(t, 9);
    let m: [[S; 4]; 4] = vk::gen_mat(t, 5);
    let (z, o) = (S::zero(), S::one());
    cx.set_nontrivial(v3.iter().all(|x| !x.is_zero()) && p.iter().all(|x| !x.is_zero()) && k3[0] != k3[1] && k3[1] != k3[2]);
    sample!(cx, "{} v={:?} scale={:?} p={:?} k={:?} M={:?}", S::NAME, v3, k3, p, k, m);
    let sc = vk::vec_max(&p).max(1.0) * vk::vec_max(&k3).max(vk::vec_max(&v3)).max(vk::mat_max(&m)).max(1.0) * 4.0;
    macro_rules! layout {
        ($l:ident, $n:expr) => {{
            // Mat4 translation: moves points, leaves directions alone
            let t3 = $l::Mat4::<S>::translation_3d(vk::v3(&v3)).to_arr();
            check_eq!(cx, rf::matvec(&t3, &[p[0], p[1], p[2], o]), [p[0] + v3[0], p[1] + v3[1], p[2] + v3[2], o], "{} translation_3d * point", $n);
            check_eq!(cx, rf::matvec(&t3, &[p[0], p[1], p[2], z]), [p[0], p[1], p[2], z], "{} translation_3d * direction", $n);
            let t2 = $l::Mat4::<S>::translation_2d(Vec2 { x: v3[0], y: v3[1] }).to_arr();
            check_eq!(cx, rf::matvec(&t2, &[p[0], p[1], p[2], o]), [p[0] + v3[0], p[1] + v3[1], p[2], o], "{} Mat4::translation_2d * point", $n);
            check_eq!(cx, rf::matvec(&t2, &[p[0], p[1], p[2], z]), [p[0], p[1], p[2], z], "{} Mat4::translation_2d * direction", $n);
            let s3 = $l::Mat4::<S>::scaling_3d(vk::v3(&k3)).to_arr();
            check_eq!(cx, rf::matvec(&s3, &[p[0], p[1], p[2], o]), [p[0] * k3[0], p[1] * k3[1], p[2] * k3[2], o], "{} scaling_3d * point", $n);
            check_eq!(cx, rf::matvec(&s3, &[p[0], p[1], p[2], z]), [p[0] * k3[0], p[1] * k3[1], p[2] * k3[2], z], "{} scaling_3d * direction", $n);
            // Mat3
            let t2m3 = $l::Mat3::<S>::translation_2d(Vec2 { x: v3[0], y: v3[1] }).to_arr();
            check_eq!(cx, rf::matvec(&t2m3, &[p[0], p[1], o]), [p[0] + v3[0], p[1] + v3[1], o], "{} Mat3::translation_2d * point", $n);
            check_eq!(cx, rf::matvec(&t2m3, &[p[0], p[1], z]), [p[0], p[1], z], "{} Mat3::translation_2d * direction", $n);
            let s3m3 = $l::Mat3::<S>::scaling_3d(vk::v3(&k3)).to_arr();
            check_eq!(cx, rf::matvec(&s3m3, &p), [p[0] * k3[0], p[1] * k3[1], p[2] * k3[2]], "{} Mat3::scaling_3d * v", $n);
            // Mat2
            let s2 = $l::Mat2::<S>::scaling_2d(Vec2 { x: k3[0], y: k3[1] }).to_arr();
            check_eq!(cx, rf::matvec(&s2, &[p[0], p[1]]), [p[0] * k3[0], p[1] * k3[1]], "{} Mat2::scaling_2d * v", $n);
            let hx = $l::Mat2::<S>::shearing_x(k).to_arr();
            check_eq!(cx, rf::matvec(&hx, &[p[0], p[1]]), [p[0] + k * p[1], p[1]], "{} shearing_x(k) * (x,y) = (x + k y, y)", $n);
            let hy = $l::Mat2::<S>::shearing_y(k).to_arr();
            check_eq!(cx, rf::matvec(&hy, &[p[0], p[1]]), [p[0], p[1] + k * p[0]], "{} shearing_y(k) * (x,y) = (x, y + k x)", $n);
            // point / direction helpers on an arbitrary matrix
            let mm = $l::Mat4::<S>::from_arr(&m);
            let wp = rf::matvec(&m, &[p[0], p[1], p[2], o]);
            let wd = rf::matvec(&m, &[p[0], p[1], p[2], z]);
            check_vec!(cx, S, vk::a3(&mm.mul_point(vk::v3(&p))), [wp[0], wp[1], wp[2]], sc, K, "{} mul_point = M*(p,1) without w", $n);
            check_vec!(cx, S, vk::a3(&mm.mul_direction(vk::v3(&p))), [wd[0], wd[1], wd[2]], sc, K, "{} mul_direction = M*(d,0) without w", $n);
            let r4: Vec4<S> = mm.mul_point(Vec4 { x: p[0], y: p[1], z: p[2], w: k });
            check_vec!(cx, S, vk::a4(&r4), wp, sc, K, "{} mul_point on a Vec4 uses w = 1", $n);
            let r4: Vec4<S> = mm.mul_direction(Vec4 { x: p[0], y: p[1], z: p[2], w: k });
            check_vec!(cx, S, vk::a4(&r4), wd, sc, K, "{} mul_direction on a Vec4 uses w = 0", $n);
            let m3a = [[m[0][0], m[0][1], m[0][2]], [m[1][0], m[1][1], m[1][2]], [m[2][0], m[2][1], m[2][2]]];
            let m3 = $l::Mat3::<S>::from_arr(&m3a);
            let wp2 = rf::matvec(&m3a, &[p[0], p[1], o]);
            let wd2 = rf::matvec(&m3a, &[p[0], p[1], z]);
            check_vec!(cx, S, vk::a2(&m3.mul_point_2d(Vec2 { x: p[0], y: p[1] })), [wp2[0], wp2[1]], sc, K, "{} mul_point_2d", $n);
            check_vec!(cx, S, vk::a2(&m3.mul_direction_2d(Vec2 { x: p[0], y: p[1] })), [wd2[0], wd2[1]], sc, K, "{} mul_direction_2d", $n);
        }};
    }
    layout!(rm, "row-major");
    layout!(cm, "col-major");
    Ok(())
}

/// Mat4::from(Transform): p -> position + orientation * (scale . p); default Transform is the identity.
fn transform<S: Dom>(t: &mut Tape, cx: &mut Cx) -> CaseResult {
    // unit orientation: rational point of S^3 (exact in Rat)
    let (a, b, c) = (S::small(t, 5), S::small(t, 5), S::small(t, 5));
    let n = a * a + b * b + c * c;
    let d = S::one() + n;
    let two = S::i(2);
    let q = Quaternion { w: (S::one() - n) / d, x: two * a / d, y: two * b / d, z: two * c / d };
    let position: [S; 3] = vk::gen_vec(t, 9);
    let scale = if t.chance(48) { let s = S::small(t, 5); [s, s, s] } else { [S::small(t, 5), S::small(t, 5), S::small(t, 5)] };
    let p: [S; 3] = vk::gen_vec(t, 9);
    let nonuniform = scale[0] != scale[1] || scale[1] != scale[2];
    if nonuniform { cx.label("non-uniform-scale") } else { cx.label("uniform-scale") }
    let axis_aligned = [q.x, q.y, q.z].iter().filter(|x| !x.is_zero()).count() <= 1;
    cx.set_nontrivial(nonuniform && !axis_aligned);
    sample!(cx, "{} position={:?} orientation(w,x,y,z)={:?} scale={:?} p={:?}", S::NAME, position, [q.w, q.x, q.y, q.z], scale, p);
    // oracle: rotate (scale . p) by q (reference Hamilton product), then add position
    let sp = [p[0] * scale[0], p[1] * scale[1], p[2] * scale[2]];
    let qa = [q.w, q.x, q.y, q.z];
    let pv = [S::zero(), sp[0], sp[1], sp[2]];
    let r = rf::hamilton(&rf::hamilton(&qa, &pv), &[q.w, -q.x, -q.y, -q.z]);
    let want = [position[0] + r[1], position[1] + r[2], position[2] + r[3]];
    let xf = Transform { position: vk::v3(&position), orientation: q, scale: vk::v3(&scale) };
    let sc = vk::vec_max(&p).max(1.0) * vk::vec_max(&scale).max(1.0) * 4.0 + vk::vec_max(&position);
    for (name, m) in [("row-major", rm::Mat4::<S>::from(xf).to_arr()), ("col-major", cm::Mat4::<S>::from(xf).to_arr())] {
        let img = rf::matvec(&m, &[p[0], p[1], p[2], S::one()]);
        let got = [img[0], img[1], img[2]];
        let ok = (0..3).all(|i| vkit::dom::close::<S>(cx, got[i], want[i], sc, K));
        if !ok {
            // the one specific wrong map of finding F3: scale applied after the rotation (T*S*R)
            let pr = rf::hamilton(&rf::hamilton(&qa, &[S::zero(), p[0], p[1], p[2]]), &[q.w, -q.x, -q.y, -q.z]);
            let f3 = [position[0] + pr[1] * scale[0], position[1] + pr[2] * scale[1], position[2] + pr[3] * scale[2]];
            let is_f3 = (0..3).all(|i| vkit::dom::close::<S>(cx, got[i], f3[i], sc, K));
            if is_f3 && cx.known("F3-transform-scale-after-rotation") {
                cx.label("known:F3");
            } else {
                fail!("{} Mat4::from(Transform) maps p to {:?}, want position + orientation*(scale.p) = {:?}", name, got, want);
            }
        }
        check_close!(cx, S, img[3], S::one(), 1.0, K, "{} Mat4::from(Transform) keeps w = 1", name);
        check_eq!(cx, m[3], [S::zero(), S::zero(), S::zero(), S::one()], "{} Mat4::from(Transform) is affine", name);
    }
    // default Transform -> identity map
    let idt: Transform<S, S, S> = Transform::default();
    check_eq!(cx, rm::Mat4::<S>::from(idt).to_arr(), rf::identity::<S, 4>(), "row-major Mat4::from(Transform::default())");
    check_eq!(cx, cm::Mat4::<S>::from(idt).to_arr(), rf::identity::<S, 4>(), "col-major Mat4::from(Transform::default())");
    check_eq!(cx, (vk::a3(&idt.position), [idt.orientation.w, idt.orientation.x, idt.orientation.y, idt.orientation.z], vk::a3(&idt.scale)), ([S::zero(); 3], [S::one(), S::zero(), S::zero(), S::zero()], [S::one(); 3]), "Transform::default fields");
    let _ = Vec3::<S>::zero();
    Ok(())
}

pub fn property() -> Property {
    let mut checks = Vec::new();
    macro_rules! tape {
        ($name:expr, $about:expr, $len:expr, $q:expr, $th:expr, $f:expr) => {
            checks.push(Check { name: $name, about: $about, kind: Kind::Tape { len: $len, quick: $q, thorough: $th, f: $f } });
        };
    }
    let c4 = "Mat4 builder chains (0-8 steps over translated_2d/3d, scaled_3d, rotated_x/y/z/3d): after each step value = definition-matrix * previous; in-place twin identical; final matrix applied to a point / direction = the steps applied in call order by their definitions; mul_point/mul_direction";
    let c3 = "Mat3 builder chains (translated_2d, scaled_3d, rotated_x/y/z/3d): same three oracles";
    let c2 = "Mat2 builder chains (rotated_z, scaled_2d, sheared_x, sheared_y): same three oracles";
    tape!("chain4-rows-rat", c4, 160, 10_000, 300_000, chain4_rows::<Rat>);
    tape!("chain4-cols-rat", c4, 160, 10_000, 300_000, chain4_cols::<Rat>);
    tape!("chain3-rows-rat", c3, 160, 10_000, 300_000, chain3_rows::<Rat>);
    tape!("chain3-cols-rat", c3, 160, 10_000, 300_000, chain3_cols::<Rat>);
    tape!("chain2-rows-rat", c2, 96, 20_000, 400_000, chain2_rows::<Rat>);
    tape!("chain2-cols-rat", c2, 96, 20_000, 400_000, chain2_cols::<Rat>);
    tape!("chain4-rows-f64", c4, 256, 20_000, 400_000, chain4_rows::<f64>);
    tape!("chain4-cols-f64", c4, 256, 20_000, 400_000, chain4_cols::<f64>);
    tape!("chain3-cols-f64", c3, 256, 20_000, 400_000, chain3_cols::<f64>);
    tape!("chain2-rows-f32", c2, 128, 20_000, 400_000, chain2_rows::<f32>);
    let k = "translation/scaling/shear constructors act on points and directions by definition; mul_point/mul_direction(_2d) use w=1 / w=0; Mat2/3/4, both layouts";
    tape!("constructors-rat", k, 96, 30_000, 600_000, constructors::<Rat>);
    tape!("constructors-f64", k, 192, 20_000, 400_000, constructors::<f64>);
    let x = "Mat4::from(Transform) maps p to position + orientation*(scale . p) (reference quaternion action), both layouts; Transform::default is the identity map";
    tape!("transform-rat", x, 48, 30_000, 600_000, transform::<Rat>);
    tape!("transform-f64", x, 96, 20_000, 400_000, transform::<f64>);
    tape!("constructors-f32", k, 192, 4_000, 200_000, constructors::<f32>);
    tape!("transform-f32", x, 96, 4_000, 200_000, transform::<f32>);
    // regimes (src/reg.rs)
    let h = "point / direction helpers in every generic form (Mat4::mul_point / mul_direction with V = Vec2, Vec3, Vec4; Mat3::mul_point_2d / mul_direction_2d with V = Vec2, Vec3, Vec4; Vec4::from_point / from_direction / new_*, Vec3::*_2d) on structured matrices (general, affine, perspective-like bottom rows, sparse, vek's frustum_* / perspective_*), all lengths scaled exactly by 2^k; oracle row . vector with w = 1 / w = 0, every returned coordinate including w / z, tolerance 16 eps * sum of |terms|; both layouts";
    tape!("helpers-forms-rat", h, 224, 8_000, 400_000, reg::helpers::<Rat>);
    tape!("helpers-forms-f64", h, 320, 8_000, 400_000, reg::helpers::<f64>);
    tape!("helpers-forms-f32", h, 320, 8_000, 400_000, reg::helpers::<f32>);
    let f = "every Into<Vec3> / Into<Vec2> argument form (Vec2, Vec3, Vec4, array, tuple, broadcast scalar, (Vec2, T), Extent, Rgb) of translation/scaling constructors (entries by definition for the converted vector), their *_ed builders and in-place twins (= the Vec3 / Vec2 call, exactly), and of the rotation_3d / rotated_3d / rotate_3d axis (floats); Mat2/3/4, both layouts";
    tape!("arg-forms-rat", f, 224, 1_500, 100_000, reg::forms::<Rat>);
    tape!("arg-forms-f64", f, 320, 3_000, 150_000, reg::forms::<f64>);
    let s = "one builder step (translated_2d/3d, scaled_3d/2d, rotated_x/y/z/3d, sheared_x/y and the in-place twins) from an arbitrary (also projective) start matrix with parameters from the regimes: small angle, next to a multiple of pi/2, many turns, axis of length 2^j, translation 2^-e of the unit, unit of length 2^k, scale factor 1 +- 2^-e and +-2^j, shear 2^-e; entry-wise value = definition-matrix * start with tolerance 16 (32 for a general axis) eps * sum of |terms|; Mat2/3/4, both layouts";
    tape!("step-regimes-f64", s, 320, 16_000, 800_000, reg::step_regimes::<f64>);
    tape!("step-regimes-f32", s, 320, 16_000, 800_000, reg::step_regimes::<f32>);
    let o = "harness self-check: the exact-entry rotation matrices used by step-regimes agree with the axis-angle formula";
    tape!("oracle-selfcheck-f64", o, 32, 1_000, 50_000, reg::oracle_selfcheck::<f64>);
    tape!("oracle-selfcheck-f32", o, 32, 1_000, 50_000, reg::oracle_selfcheck::<f32>);
    let e = "translation / scaling / shearing constructors place their arguments exactly (all other entries 0 / 1) for finite IEEE specials, +-2^j up to the limits of the normal range, tiny and ordinary values; Mat2/3/4, both layouts";
    tape!("ctor-entries-f64", e, 64, 2_000, 100_000, reg::ctor_entries::<f64>);
    tape!("ctor-entries-f32", e, 64, 2_000, 100_000, reg::ctor_entries::<f32>);
    let r = "Mat4::from(Transform) maps p to position + orientation*(scale . p) with the orientation from the angle regimes (small down to 2^-40 / 2^-14, next to multiples of pi/2, many turns, identity, negated quaternion), scale factors 1 +- 2^-e / +-2^j / ordinary, positions and points in units of 2^k or 2^-e of the unit; oracle: quaternion action in f64; tolerance 16 eps * (|position_i| + sum |scale_j p_j|); both layouts";
    tape!("transform-regimes-f64", r, 128, 16_000, 800_000, reg::transform_regimes::<f64>);
    tape!("transform-regimes-f32", r, 128, 16_000, 800_000, reg::transform_regimes::<f32>);
    let w = "whole normal range of the element type (no builder ever needs the square of a parameter): one builder step (translated_2d/3d, scaled_3d/2d, sheared_x/y, rotated_x/y/z and the in-place twins) with parameters +-(1+u) 2^e, e from the exponent of MIN_POSITIVE up to where a single product of two entries stays finite (squares underflow to 0 / overflow in most cases), start-matrix entries likewise (identity, structured matrices times 2^b, rows at the exponent where the translation matters); entry-wise value = definition-matrix * start in f64, tolerance 16 eps * sum of |terms| + 16 subnormal quanta; Mat2/3/4, both layouts";
    tape!("wide-steps-f64", w, 320, 12_000, 800_000, reg::wide_steps::<f64>);
    tape!("wide-steps-f32", w, 320, 12_000, 800_000, reg::wide_steps::<f32>);
    let wh = "mul_point / mul_direction (Vec3, Vec4) and mul_point_2d / mul_direction_2d (Vec2, Vec3) with matrix entries and coordinates anywhere in the normal range; oracle row . vector in f64, same tolerance";
    tape!("wide-helpers-f64", wh, 320, 4_000, 300_000, reg::wide_helpers::<f64>);
    tape!("wide-helpers-f32", wh, 320, 4_000, 300_000, reg::wide_helpers::<f32>);
    let wt = "Mat4::from(Transform) entry by entry with position coordinates and scale factors anywhere in the normal range (each with its own exponent): last column = position, linear part = R(orientation) * diag(scale) with R from the quaternion action in f64, bottom row (0,0,0,1); both layouts";
    tape!("wide-transform-f64", wt, 160, 8_000, 500_000, reg::wide_transform::<f64>);
    tape!("wide-transform-f32", wt, 160, 8_000, 500_000, reg::wide_transform::<f32>);
    Property {
        id: "C07",
        rule: "builder chains of 0-8 generated steps (arguments: small rationals / floats, registered angles, Pythagorean axes) starting from the identity or a random matrix; Transform with rational unit quaternion, mostly non-uniform scale; non-trivial = chain with >= 2 different kinds of step / non-uniform scale with a non-axis-aligned rotation / all parameters non-zero and pairwise different scales; regime checks (src/reg.rs): helpers-forms non-trivial = projective matrix (bottom row != 0,0,0,1) and >= 2 non-zero coordinates; arg-forms = a, b, c pairwise different and non-zero, ignored w != c; step-regimes = the step is not a no-op and the start matrix is not the identity; transform-regimes = non-zero rotation angle and a point with >= 2 non-zero coordinates; ctor-entries = pairwise different arguments; wide-steps = the step is not a no-op; wide-helpers = >= 2 non-zero coordinates; wide-transform = non-zero position and rotation angle; distinct = distinct consumed tape prefix",
        assumptions: &[
            "rustc and the proptest runner/shrinker are trusted",
            "oracle: each step's action on a point written from its definition (translation adds, scaling multiplies per axis, shear adds k times the other coordinate, rotation by the axis-angle formula); its matrix is assembled from the images of the basis vectors",
            "float tolerance 1024*eps*(product of step magnitudes) in the chain / constructors / transform checks",
            "regime checks: tolerance k*eps*(sum of the magnitudes of the terms of that very component), never max(1, .): k = 16 for one row . vector or one builder step (<= 4 roundings in vek, the same in the oracle, constructor entries exact or one rounding of sin/cos), 32 for a rotation about a general axis (its entries are sums of terms <= 1 known to a few eps absolutely, so the 3x3 block is bounded by max(|entry|, 1)), 16 for the Transform map relative to |position_i| + sum_j |scale_j p_j| (any implementation of orientation*(scale . p) has an error relative to |scale . p|, not to the rotational displacement; so a dropped rotation of angle a is visible down to a ~ 100 eps: angles are drawn down to 2^-40 in f64 and 2^-14 in f32)",
            "regimes are kept inside the range where no correct implementation overflows or underflows: unit of length 2^k with |k| <= 24 (f32, Rat) / 200 (f64) (half of that for Transform, whose scale factors reach 2^(+-12) / 2^(+-100)); rotation-axis lengths 2^(+-12) / 2^(+-100) times a Pythagorean vector so that the squared length stays normal; angles up to 2^9 (f32) / 2^17 (f64) radians, where the oracle takes sin / cos of the same argument in the same type",
            "whole-normal-range checks (wide-*): translation components, scale factors, shears, angles, point coordinates and start-matrix entries are +-(1+u) 2^e with e from the exponent of MIN_POSITIVE up to the largest exponent minus 10 (4 for Transform fields), constrained only so that every single product of a constructor entry and a start entry, and every sum of <= 4 of them, stays finite; squares of the parameters underflow to 0 or overflow in most cases, which is irrelevant because no builder needs them; tolerance 16 eps * (sum of |terms|) + 16 subnormal quanta (an underflowing product or partial sum costs at most half a quantum, <= 5 of them in vek and in the f64 oracle together); rotations about a general axis are excluded there (normalising the axis does square it) and so are overflowing products",
            "Transform orientations are unit quaternions to rounding (cos(a/2), sin(a/2)*axis computed in f64 and rounded to the type; also the negated quaternion and +-identity); non-normalised orientations are outside the documented domain of Mat4::from(Quaternion) and are not generated",
            "argument forms: the vector an argument converts to is written down from the documented conversions (Vec2 -> z = 0, Vec4 -> w dropped, scalar -> broadcast, tuples / arrays / Extent / Rgb component-wise); builders with a converted argument must equal the Vec3 / Vec2 call bit for bit (same code after the conversion)",
            "ctor-entries: finite values only (subnormals, MIN_POSITIVE, MAX, EPSILON, 1 +- eps, -0 compared with ==, +-2^j over the whole normal range); infinities and NaN are not asserted (the property is silent there)",
            "mul_point / mul_direction(_2d) in their Vec4 / Vec3-returning forms must return every row of M*(p,1) / M*(d,0) (documented as shortcuts for M * Vec4::from_point(p) etc.); the shortcut relation itself is asserted to the same tolerance, not bit for bit",
        ],
        checks,
        max_discard_frac: 0.1,
    }
}
