fn main() {
    vkit::driver::main(c07::property())
}
