//! C07 regime checks: the same property judged where "moderate" sampling never goes.
//!
//! * every generic argument / return form of the point and direction helpers (`Vec2`, `Vec3`, `Vec4`) on
//!   *structured* matrices (general, affine, perspective-like bottom rows, sparse, vek's own projection
//!   constructors), with all lengths scaled exactly by 2^k;
//! * every `Into<Vec2>` / `Into<Vec3>` argument form of the constructors, `*_ed` builders and in-place twins;
//! * one builder step on an arbitrary start matrix with parameters from the regimes {small angle, angle next to
//!   a multiple of pi/2, many turns, translation tiny relative to the unit of length, scale factor 1 +- 2^-e,
//!   +-2^j, shear 2^-e}, judged *entry-wise* against `definition-matrix * start` with a tolerance relative to
//!   the magnitude of the terms of that entry (never `max(1, .)`);
//! * `Mat4::from(Transform)` with small-angle / near-pi / many-turn orientations, near-one and power-of-two scale
//!   factors, tiny and power-of-two-scaled positions and points, judged against the quaternion action in f64.
//!
//! Tolerances are `k * eps * (sum of |terms|)` per component; `k` is derived in the comments next to each use.

use super::*;
use vek::vec::repr_c::{Extent2, Extent3, Rgb};
use vek::FrustumPlanes;
use vkit::regimes::{angle_regime, pow2, safe_exp, scale_exp, scale_label, Special};

pub(crate) fn fc<S: Dom>(x: f64) -> S {
    <S as num_traits::NumCast>::from(x).expect("finite f64")
}

/// `|got - want| <= k * eps * mag` (exact equality in exact domains); `mag` is supplied by the caller as the
/// sum of the magnitudes of the terms the value is made of, so the test is relative at every scale.
fn near<S: Dom>(cx: &mut Cx, got: S, want: S, mag: f64, k: f64) -> bool {
    cx.count();
    if S::EXACT {
        return got == want;
    }
    near_f64(cx, got.f(), want.f(), k * S::eps() * mag)
}
fn near_f64(cx: &mut Cx, x: f64, y: f64, tol: f64) -> bool {
    if x == y {
        return true;
    }
    let d = (x - y).abs();
    if !d.is_finite() {
        return false;
    }
    if tol > 0.0 {
        cx.note_err(d / tol);
    }
    d <= tol
}
fn vec_near<S: Dom, const N: usize>(cx: &mut Cx, got: &[S; N], want: &[S; N], mag: &[f64; N], k: f64) -> Result<(), String> {
    for i in 0..N {
        if !near::<S>(cx, got[i], want[i], mag[i], k) {
            return Err(format!("element {} differs: got {:?}, want {:?}, tolerance {:.3e} (got {:?}, want {:?})", i, got[i], want[i], k * S::eps() * mag[i], got, want));
        }
    }
    Ok(())
}
fn mat_near<S: Dom, const N: usize>(cx: &mut Cx, got: &[[S; N]; N], want: &[[S; N]; N], mag: &[[f64; N]; N], k: f64) -> Result<(), String> {
    for i in 0..N {
        for j in 0..N {
            if !near::<S>(cx, got[i][j], want[i][j], mag[i][j], k) {
                return Err(format!("element ({},{}) differs: got {:?}, want {:?}, tolerance {:.3e}\n got  {:?}\n want {:?}", i, j, got[i][j], want[i][j], k * S::eps() * mag[i][j], got, want));
            }
        }
    }
    Ok(())
}
macro_rules! req {
    ($r:expr, $($arg:tt)*) => {
        if let Err(e) = $r {
            return Err(Fail::Violation(format!("{}: {}", format!($($arg)*), e)));
        }
    };
}

/// row . vector by the definition, together with the sum of the magnitudes of the terms of each component.
fn matvec_mag<S: Dom, const N: usize>(a: &[[S; N]; N], v: &[S; N]) -> ([S; N], [f64; N]) {
    let mut r = [S::zero(); N];
    let mut g = [0.0f64; N];
    for i in 0..N {
        for j in 0..N {
            r[i] = r[i] + a[i][j] * v[j];
            g[i] += (a[i][j].f() * v[j].f()).abs();
        }
    }
    (r, g)
}
/// C * A with the magnitude sum of every entry, where `cabs` bounds |C| entry-wise (including C's own rounding).
fn matmul_mag<S: Dom, const N: usize>(c: &[[S; N]; N], cabs: &[[f64; N]; N], a: &[[S; N]; N]) -> ([[S; N]; N], [[f64; N]; N]) {
    let mut r = [[S::zero(); N]; N];
    let mut g = [[0.0f64; N]; N];
    for i in 0..N {
        for j in 0..N {
            for k in 0..N {
                r[i][j] = r[i][j] + c[i][k] * a[k][j];
                g[i][j] += cabs[i][k] * a[k][j].f().abs();
            }
        }
    }
    (r, g)
}
fn first<S: Copy, const N: usize, const M: usize>(v: &[S; N]) -> [S; M] {
    let mut r = [v[0]; M];
    r.copy_from_slice(&v[..M]);
    r
}

// ------------------------------------------------------------------------------------------------------------
// structured matrices
// ------------------------------------------------------------------------------------------------------------

fn planes<S: Dom>(t: &mut Tape) -> FrustumPlanes<S> {
    let pos = |t: &mut Tape| S::q(t.int(1, 8), t.pick(&[1i64, 2, 4]));
    let left = S::any(t, 5);
    let bottom = S::any(t, 5);
    let near = pos(t);
    FrustumPlanes { left, right: left + pos(t), bottom, top: bottom + pos(t), near, far: near + pos(t) }
}

/// A 4x4 matrix from one of the structure classes; most of them are *not* affine.
pub(crate) fn gen_m4<S: Dom>(t: &mut Tape, cx: &mut Cx) -> [[S; 4]; 4] {
    let (z, o) = (S::zero(), S::one());
    match t.below(9) {
        0 => {
            cx.label("M4: affine (bottom row 0,0,0,1)");
            let mut m: [[S; 4]; 4] = vk::gen_mat(t, 5);
            m[3] = [z, z, z, o];
            m
        }
        1 => {
            cx.label("M4: perspective-like bottom row (0,0,+-1,0)");
            let mut m: [[S; 4]; 4] = vk::gen_mat(t, 5);
            m[3] = [z, z, if t.bool() { o } else { -o }, z];
            m
        }
        2 => {
            cx.label("M4: bottom row (0,0,c,d)");
            let mut m: [[S; 4]; 4] = vk::gen_mat(t, 5);
            m[3] = [z, z, S::any(t, 5), S::any(t, 5)];
            m
        }
        3 => {
            cx.label("M4: sparse");
            let mut m: [[S; 4]; 4] = vk::gen_mat(t, 5);
            let mask = t.u16();
            for i in 0..4 {
                for j in 0..4 {
                    if mask >> (4 * i + j) & 1 == 1 {
                        m[i][j] = z;
                    }
                }
            }
            m
        }
        4 => {
            cx.label("M4: vek frustum_{lh,rh}_{zo,no}");
            let pl = planes::<S>(t);
            match t.below(4) {
                0 => rm::Mat4::<S>::frustum_lh_zo(pl),
                1 => rm::Mat4::<S>::frustum_lh_no(pl),
                2 => rm::Mat4::<S>::frustum_rh_zo(pl),
                _ => rm::Mat4::<S>::frustum_rh_no(pl),
            }
            .to_arr()
        }
        5 => {
            cx.label("M4: vek perspective_{lh,rh}_{zo,no}");
            let fov = S::angle_0_pi(t);
            let aspect = S::q(t.int(1, 8), t.pick(&[1i64, 2, 3]));
            let near = S::q(t.int(1, 8), t.pick(&[1i64, 2, 4]));
            let far = near + S::q(t.int(1, 8), t.pick(&[1i64, 2, 4]));
            match t.below(4) {
                0 => rm::Mat4::<S>::perspective_lh_zo(fov, aspect, near, far),
                1 => rm::Mat4::<S>::perspective_lh_no(fov, aspect, near, far),
                2 => rm::Mat4::<S>::perspective_rh_zo(fov, aspect, near, far),
                _ => rm::Mat4::<S>::perspective_rh_no(fov, aspect, near, far),
            }
            .to_arr()
        }
        6 => {
            cx.label("M4: identity block with a general bottom row");
            let mut m: [[S; 4]; 4] = rf::identity();
            m[3] = vk::gen_vec(t, 5);
            m
        }
        _ => {
            cx.label("M4: general");
            vk::gen_mat(t, 5)
        }
    }
}
pub(crate) fn gen_m3<S: Dom>(t: &mut Tape, cx: &mut Cx) -> [[S; 3]; 3] {
    let (z, o) = (S::zero(), S::one());
    let mut m: [[S; 3]; 3] = vk::gen_mat(t, 5);
    match t.below(6) {
        0 => {
            cx.label("M3: affine (bottom row 0,0,1)");
            m[2] = [z, z, o];
        }
        1 => {
            cx.label("M3: bottom row (0,+-1,0)");
            m[2] = [z, if t.bool() { o } else { -o }, z];
        }
        2 => {
            cx.label("M3: bottom row (a,b,0)");
            m[2][2] = z;
        }
        3 => {
            cx.label("M3: sparse");
            let mask = t.u16();
            for i in 0..3 {
                for j in 0..3 {
                    if mask >> (3 * i + j) & 1 == 1 {
                        m[i][j] = z;
                    }
                }
            }
        }
        _ => cx.label("M3: general"),
    }
    m
}
/// Change the unit of length by 2^k: D M D^-1 with D = diag(2^k, .., 2^k, 1) (exact in every domain).
fn conj<S: Dom, const N: usize>(m: &[[S; N]; N], k: i32) -> [[S; N]; N] {
    let (u, d) = (pow2::<S>(k), pow2::<S>(-k));
    let mut r = *m;
    for i in 0..N - 1 {
        r[i][N - 1] = r[i][N - 1] * u;
        r[N - 1][i] = r[N - 1][i] * d;
    }
    r
}

// ------------------------------------------------------------------------------------------------------------
// point / direction helpers, every generic form
// ------------------------------------------------------------------------------------------------------------

/// k for the helpers: N products and N-1 sums in vek (fewer with fused multiply-add) and the same again in the
/// oracle, each bounded by eps * (sum of |terms|): <= 2 * (2N - 1) = 14 for N = 4.
const KH: f64 = 16.0;

pub fn helpers<S: Dom>(t: &mut Tape, cx: &mut Cx) -> CaseResult {
    let k = scale_exp(t, safe_exp::<S>());
    cx.label(scale_label(k));
    let u = pow2::<S>(k);
    let (z, o) = (S::zero(), S::one());
    let m = conj(&gen_m4::<S>(t, cx), k);
    let m3 = conj(&gen_m3::<S>(t, cx), k);
    let mut p: [S; 3] = vk::gen_vec(t, 9);
    for x in p.iter_mut() {
        *x = *x * u;
    }
    // what the caller left in the coordinates the helper must ignore
    let junk = match t.below(4) {
        0 => z,
        1 => o,
        2 => -o,
        _ => S::any(t, 9) * u,
    };
    let projective = m[3] != [z, z, z, o];
    if projective {
        cx.label("projective Mat4 (bottom row != 0,0,0,1)");
    }
    cx.set_nontrivial(projective && p.iter().filter(|x| !x.is_zero()).count() >= 2);
    sample!(cx, "{} k={} M4={:?} M3={:?} p={:?} ignored={:?}", S::NAME, k, m, m3, p, junk);

    let (v2, v3, v4) = (Vec2 { x: p[0], y: p[1] }, Vec3 { x: p[0], y: p[1], z: p[2] }, Vec4 { x: p[0], y: p[1], z: p[2], w: junk });
    // the homogeneous lifts themselves
    check_eq!(cx, vk::a4(&Vec4::<S>::from_point(v3)), [p[0], p[1], p[2], o], "Vec4::from_point(Vec3)");
    check_eq!(cx, vk::a4(&Vec4::<S>::from_point(v4)), [p[0], p[1], p[2], o], "Vec4::from_point(Vec4) replaces w by 1");
    check_eq!(cx, vk::a4(&Vec4::<S>::from_point(v2)), [p[0], p[1], z, o], "Vec4::from_point(Vec2)");
    check_eq!(cx, vk::a4(&Vec4::<S>::from_direction(v3)), [p[0], p[1], p[2], z], "Vec4::from_direction(Vec3)");
    check_eq!(cx, vk::a4(&Vec4::<S>::from_direction(v4)), [p[0], p[1], p[2], z], "Vec4::from_direction(Vec4) replaces w by 0");
    check_eq!(cx, vk::a4(&Vec4::<S>::from_direction(v2)), [p[0], p[1], z, z], "Vec4::from_direction(Vec2)");
    check_eq!(cx, vk::a4(&Vec4::<S>::new_point(p[0], p[1], p[2])), [p[0], p[1], p[2], o], "Vec4::new_point");
    check_eq!(cx, vk::a4(&Vec4::<S>::new_direction(p[0], p[1], p[2])), [p[0], p[1], p[2], z], "Vec4::new_direction");
    check_eq!(cx, vk::a3(&Vec3::<S>::from_point_2d(v2)), [p[0], p[1], o], "Vec3::from_point_2d(Vec2)");
    check_eq!(cx, vk::a3(&Vec3::<S>::from_point_2d(Vec3 { x: p[0], y: p[1], z: junk })), [p[0], p[1], o], "Vec3::from_point_2d(Vec3) replaces z by 1");
    check_eq!(cx, vk::a3(&Vec3::<S>::from_direction_2d(v2)), [p[0], p[1], z], "Vec3::from_direction_2d(Vec2)");
    check_eq!(cx, vk::a3(&Vec3::<S>::from_direction_2d(Vec3 { x: p[0], y: p[1], z: junk })), [p[0], p[1], z], "Vec3::from_direction_2d(Vec3) replaces z by 0");
    check_eq!(cx, vk::a3(&Vec3::<S>::new_point_2d(p[0], p[1])), [p[0], p[1], o], "Vec3::new_point_2d");
    check_eq!(cx, vk::a3(&Vec3::<S>::new_direction_2d(p[0], p[1])), [p[0], p[1], z], "Vec3::new_direction_2d");

    // oracles: row . vector
    let (wp, gp) = matvec_mag(&m, &[p[0], p[1], p[2], o]);
    let (wd, gd) = matvec_mag(&m, &[p[0], p[1], p[2], z]);
    let (wp2, gp2) = matvec_mag(&m, &[p[0], p[1], z, o]);
    let (wd2, gd2) = matvec_mag(&m, &[p[0], p[1], z, z]);
    let (xp, hp) = matvec_mag(&m3, &[p[0], p[1], o]);
    let (xd, hd) = matvec_mag(&m3, &[p[0], p[1], z]);
    macro_rules! layout {
        ($l:ident, $n:expr) => {{
            let mm = $l::Mat4::<S>::from_arr(&m);
            // Mat4::mul_point, V = Vec3 / Vec4 / Vec2
            let r3: Vec3<S> = mm.mul_point(v3);
            req!(vec_near::<S, 3>(cx, &vk::a3(&r3), &first(&wp), &first(&gp), KH), "{} Mat4::mul_point::<Vec3>(p) = rows 0..3 of M*(p,1)", $n);
            let r4: Vec4<S> = mm.mul_point(v4);
            req!(vec_near::<S, 4>(cx, &vk::a4(&r4), &wp, &gp, KH), "{} Mat4::mul_point::<Vec4>(p) = M*(p,1), all four rows (w = row3 . (p,1); the argument's w is ignored)", $n);
            let r2: Vec2<S> = mm.mul_point(v2);
            req!(vec_near::<S, 2>(cx, &vk::a2(&r2), &first(&wp2), &first(&gp2), KH), "{} Mat4::mul_point::<Vec2>(p) = rows 0..2 of M*(x,y,0,1)", $n);
            let s4 = mm * Vec4::<S>::from_point(v3);
            req!(vec_near::<S, 4>(cx, &vk::a4(&r4), &vk::a4(&s4), &gp, KH), "{} Mat4::mul_point::<Vec4>(p) = M * Vec4::from_point(p) (documented shortcut)", $n);
            // Mat4::mul_direction
            let r3: Vec3<S> = mm.mul_direction(v3);
            req!(vec_near::<S, 3>(cx, &vk::a3(&r3), &first(&wd), &first(&gd), KH), "{} Mat4::mul_direction::<Vec3>(d) = rows 0..3 of M*(d,0)", $n);
            let r4: Vec4<S> = mm.mul_direction(v4);
            req!(vec_near::<S, 4>(cx, &vk::a4(&r4), &wd, &gd, KH), "{} Mat4::mul_direction::<Vec4>(d) = M*(d,0), all four rows (w = row3 . (d,0); the argument's w is ignored)", $n);
            let r2: Vec2<S> = mm.mul_direction(v2);
            req!(vec_near::<S, 2>(cx, &vk::a2(&r2), &first(&wd2), &first(&gd2), KH), "{} Mat4::mul_direction::<Vec2>(d) = rows 0..2 of M*(x,y,0,0)", $n);
            let s4 = mm * Vec4::<S>::from_direction(v3);
            req!(vec_near::<S, 4>(cx, &vk::a4(&r4), &vk::a4(&s4), &gd, KH), "{} Mat4::mul_direction::<Vec4>(d) = M * Vec4::from_direction(d) (documented shortcut)", $n);
            // Mat3::mul_point_2d / mul_direction_2d, V = Vec2 / Vec3 / Vec4
            let n3 = $l::Mat3::<S>::from_arr(&m3);
            let q2: Vec2<S> = n3.mul_point_2d(v2);
            req!(vec_near::<S, 2>(cx, &vk::a2(&q2), &first(&xp), &first(&hp), KH), "{} Mat3::mul_point_2d::<Vec2>(p) = rows 0..2 of M*(p,1)", $n);
            let q3: Vec3<S> = n3.mul_point_2d(Vec3 { x: p[0], y: p[1], z: junk });
            req!(vec_near::<S, 3>(cx, &vk::a3(&q3), &xp, &hp, KH), "{} Mat3::mul_point_2d::<Vec3>(p) = M*(p,1), all three rows (z = row2 . (p,1); the argument's z is ignored)", $n);
            let q4: Vec4<S> = n3.mul_point_2d(Vec4 { x: p[0], y: p[1], z: junk, w: junk });
            req!(vec_near::<S, 4>(cx, &vk::a4(&q4), &[xp[0], xp[1], xp[2], z], &[hp[0], hp[1], hp[2], 0.0], KH), "{} Mat3::mul_point_2d::<Vec4>(p) = (M*(p,1), 0)", $n);
            let s3 = n3 * Vec3::<S>::from_point_2d(v2);
            req!(vec_near::<S, 3>(cx, &vk::a3(&q3), &vk::a3(&s3), &hp, KH), "{} Mat3::mul_point_2d::<Vec3>(p) = M * Vec3::from_point_2d(p) (documented shortcut)", $n);
            let q2: Vec2<S> = n3.mul_direction_2d(v2);
            req!(vec_near::<S, 2>(cx, &vk::a2(&q2), &first(&xd), &first(&hd), KH), "{} Mat3::mul_direction_2d::<Vec2>(d) = rows 0..2 of M*(d,0)", $n);
            let q3: Vec3<S> = n3.mul_direction_2d(Vec3 { x: p[0], y: p[1], z: junk });
            req!(vec_near::<S, 3>(cx, &vk::a3(&q3), &xd, &hd, KH), "{} Mat3::mul_direction_2d::<Vec3>(d) = M*(d,0), all three rows (the argument's z is ignored)", $n);
            let q4: Vec4<S> = n3.mul_direction_2d(Vec4 { x: p[0], y: p[1], z: junk, w: junk });
            req!(vec_near::<S, 4>(cx, &vk::a4(&q4), &[xd[0], xd[1], xd[2], z], &[hd[0], hd[1], hd[2], 0.0], KH), "{} Mat3::mul_direction_2d::<Vec4>(d) = (M*(d,0), 0)", $n);
            let s3 = n3 * Vec3::<S>::from_direction_2d(v2);
            req!(vec_near::<S, 3>(cx, &vk::a3(&q3), &vk::a3(&s3), &hd, KH), "{} Mat3::mul_direction_2d::<Vec3>(d) = M * Vec3::from_direction_2d(d) (documented shortcut)", $n);
        }};
    }
    layout!(rm, "row-major");
    layout!(cm, "col-major");
    Ok(())
}

// ------------------------------------------------------------------------------------------------------------
// every Into<Vec2> / Into<Vec3> argument form of the constructors, builders and in-place twins
// ------------------------------------------------------------------------------------------------------------

/// Expands `$body` once per argument form that converts into a `Vec3`; yields (form, the vector the documented
/// conversion produces, value of the body).
macro_rules! v3_forms {
    ($a:expr, $b:expr, $c:expr, $w:expr, $z:expr, |$v:ident| $body:expr) => {{
        let (a, b, c, w, z) = ($a, $b, $c, $w, $z);
        [
            ("Vec3", [a, b, c], { let $v = Vec3 { x: a, y: b, z: c }; $body }),
            ("Vec4 (w dropped)", [a, b, c], { let $v = Vec4 { x: a, y: b, z: c, w }; $body }),
            ("Vec2 (z = 0)", [a, b, z], { let $v = Vec2 { x: a, y: b }; $body }),
            ("[T; 3]", [a, b, c], { let $v = [a, b, c]; $body }),
            ("(T, T, T)", [a, b, c], { let $v = (a, b, c); $body }),
            ("T (broadcast)", [a, a, a], { let $v = a; $body }),
            ("(Vec2, T)", [a, b, c], { let $v = (Vec2 { x: a, y: b }, c); $body }),
            ("Extent3", [a, b, c], { let $v = Extent3 { w: a, h: b, d: c }; $body }),
            ("Rgb", [a, b, c], { let $v = Rgb { r: a, g: b, b: c }; $body }),
        ]
    }};
}
macro_rules! v2_forms {
    ($a:expr, $b:expr, $c:expr, $w:expr, |$v:ident| $body:expr) => {{
        let (a, b, c, w) = ($a, $b, $c, $w);
        [
            ("Vec2", [a, b], { let $v = Vec2 { x: a, y: b }; $body }),
            ("Vec3 (z dropped)", [a, b], { let $v = Vec3 { x: a, y: b, z: c }; $body }),
            ("Vec4 (z, w dropped)", [a, b], { let $v = Vec4 { x: a, y: b, z: c, w }; $body }),
            ("[T; 2]", [a, b], { let $v = [a, b]; $body }),
            ("(T, T)", [a, b], { let $v = (a, b); $body }),
            ("T (broadcast)", [a, a], { let $v = a; $body }),
            ("Extent2", [a, b], { let $v = Extent2 { w: a, h: b }; $body }),
        ]
    }};
}

pub fn forms<S: Dom>(t: &mut Tape, cx: &mut Cx) -> CaseResult {
    let (a, b, c, w) = (S::any(t, 9), S::any(t, 9), S::any(t, 9), S::any(t, 9));
    let z = S::zero();
    let s4: [[S; 4]; 4] = gen_m4::<S>(t, cx);
    let s3: [[S; 3]; 3] = gen_m3::<S>(t, cx);
    let s2: [[S; 2]; 2] = vk::gen_mat(t, 5);
    let angle = S::angle(t);
    cx.set_nontrivial(!a.is_zero() && !b.is_zero() && !c.is_zero() && a != b && b != c && a != c && w != c);
    sample!(cx, "{} (a,b,c,w)={:?} angle={:?} M4={:?} M3={:?} M2={:?}", S::NAME, (a, b, c, w), angle, s4, s3, s2);
    macro_rules! triple {
        ($forms:ident, $vk:ident, $l:ident, $n:expr, $M:ident, $start:expr, $ctor:ident, $ed:ident, $inpl:ident, $def:expr) => {{
            let base = $l::$M::<S>::from_arr(&$start);
            for (form, e, (cons, ed, inpl)) in $forms!(|v| ($l::$M::<S>::$ctor(v).to_arr(), base.$ed(v).to_arr(), { let mut q = base; q.$inpl(v); q.to_arr() })) {
                check_eq!(cx, cons, ($def)(e), "{} {}::{}({}): entries by definition for the vector {:?} the conversion yields", $n, stringify!($M), stringify!($ctor), form, e);
                let want = base.$ed(vk::$vk(&e)).to_arr();
                check_eq!(cx, ed, want, "{} {}::{}({}) = the same call with the converted vector {:?}", $n, stringify!($M), stringify!($ed), form, e);
                check_eq!(cx, inpl, want, "{} {}::{}({}) = the returning variant with the converted vector {:?}", $n, stringify!($M), stringify!($inpl), form, e);
            }
        }};
    }
    macro_rules! f3 {
        (|$v:ident| $body:expr) => {
            v3_forms!(a, b, c, w, z, |$v| $body)
        };
    }
    macro_rules! f2 {
        (|$v:ident| $body:expr) => {
            v2_forms!(a, b, c, w, |$v| $body)
        };
    }
    macro_rules! layout {
        ($l:ident, $n:expr) => {{
            triple!(f3, v3, $l, $n, Mat4, s4, translation_3d, translated_3d, translate_3d, |e: [S; 3]| matrix4(&Step::Translate3(e)));
            triple!(f3, v3, $l, $n, Mat4, s4, scaling_3d, scaled_3d, scale_3d, |e: [S; 3]| matrix4(&Step::Scale3(e)));
            triple!(f2, v2, $l, $n, Mat4, s4, translation_2d, translated_2d, translate_2d, |e: [S; 2]| matrix4(&Step::Translate2(e)));
            triple!(f3, v3, $l, $n, Mat3, s3, scaling_3d, scaled_3d, scale_3d, |e: [S; 3]| matrix3(&Step::Scale3(e)));
            triple!(f2, v2, $l, $n, Mat3, s3, translation_2d, translated_2d, translate_2d, |e: [S; 2]| matrix3(&Step::Translate2(e)));
            triple!(f2, v2, $l, $n, Mat2, s2, scaling_2d, scaled_2d, scale_2d, |e: [S; 2]| matrix2(&Step::Scale2(e)));
            // rotation axis forms (floats only: a general axis has an irrational length); all of them need a != 0
            if !S::EXACT && !a.is_zero() {
                let b4 = $l::Mat4::<S>::from_arr(&s4);
                for (form, e, (cons, ed, inpl)) in f3!(|v| ($l::Mat4::<S>::rotation_3d(angle, v).to_arr(), b4.rotated_3d(angle, v).to_arr(), { let mut q = b4; q.rotate_3d(angle, v); q.to_arr() })) {
                    check_eq!(cx, cons, $l::Mat4::<S>::rotation_3d(angle, vk::v3(&e)).to_arr(), "{} Mat4::rotation_3d(angle, {}) = the same call with the converted axis {:?}", $n, form, e);
                    let want = b4.rotated_3d(angle, vk::v3(&e)).to_arr();
                    check_eq!(cx, ed, want, "{} Mat4::rotated_3d(angle, {}) = the same call with the converted axis {:?}", $n, form, e);
                    check_eq!(cx, inpl, want, "{} Mat4::rotate_3d(angle, {}) = the returning variant with the converted axis {:?}", $n, form, e);
                }
                let b3 = $l::Mat3::<S>::from_arr(&s3);
                for (form, e, (cons, ed, inpl)) in f3!(|v| ($l::Mat3::<S>::rotation_3d(angle, v).to_arr(), b3.rotated_3d(angle, v).to_arr(), { let mut q = b3; q.rotate_3d(angle, v); q.to_arr() })) {
                    check_eq!(cx, cons, $l::Mat3::<S>::rotation_3d(angle, vk::v3(&e)).to_arr(), "{} Mat3::rotation_3d(angle, {}) = the same call with the converted axis {:?}", $n, form, e);
                    let want = b3.rotated_3d(angle, vk::v3(&e)).to_arr();
                    check_eq!(cx, ed, want, "{} Mat3::rotated_3d(angle, {}) = the same call with the converted axis {:?}", $n, form, e);
                    check_eq!(cx, inpl, want, "{} Mat3::rotate_3d(angle, {}) = the returning variant with the converted axis {:?}", $n, form, e);
                }
            }
        }};
    }
    layout!(rm, "row-major");
    layout!(cm, "col-major");
    Ok(())
}

// ------------------------------------------------------------------------------------------------------------
// parameter regimes (floats)
// ------------------------------------------------------------------------------------------------------------

fn is_f32<S: Dom>() -> bool {
    S::NAME == "f32"
}
/// Largest e such that a relative perturbation of 2^-e is still far above every tolerance used here
/// (32 * eps * a few terms): f32 (eps 2^-23) -> 2^-14, f64 (eps 2^-52) -> 2^-40.
fn pert_exp<S: Dom>() -> i32 {
    if is_f32::<S>() {
        14
    } else {
        40
    }
}
/// +-2^-e * (1 + u), e in 3..=pert_exp: a quantity that is tiny next to 1 but far above rounding.
fn tiny<S: Dom>(t: &mut Tape) -> S {
    let e = t.int(3, pert_exp::<S>() as i64) as i32;
    let v = (2.0f64).powi(-e) * (1.0 + t.unit_f64());
    fc::<S>(if t.bool() { -v } else { v })
}
fn reg_angle<S: Dom>(t: &mut Tape, cx: &mut Cx) -> S {
    let (a, l) = angle_regime(t, pert_exp::<S>(), if is_f32::<S>() { 8 } else { 16 });
    cx.label(l);
    fc::<S>(a)
}
/// One coordinate of a translation / position, in the unit of length `u`.
fn reg_len<S: Dom>(t: &mut Tape, cx: &mut Cx, u: S) -> S {
    match t.below(8) {
        0 | 1 | 2 | 3 => S::any(t, 9) * u,
        4 | 5 => {
            cx.label("length 2^-e of the unit");
            tiny::<S>(t) * u
        }
        6 => S::zero(),
        _ => S::i(t.int(-9, 9)) * u,
    }
}
fn reg_factor<S: Dom>(t: &mut Tape, cx: &mut Cx) -> S {
    match t.below(8) {
        0 | 1 | 2 => S::small(t, 5),
        3 | 4 => {
            cx.label("scale factor 1 +- 2^-e");
            S::one() + tiny::<S>(t)
        }
        5 => {
            cx.label("scale factor +-2^j");
            let j = safe_exp::<S>() as i64 / 2;
            let f = pow2::<S>(t.int(-j, j) as i32);
            if t.bool() {
                -f
            } else {
                f
            }
        }
        _ => S::any(t, 5),
    }
}
fn reg_shear<S: Dom>(t: &mut Tape, cx: &mut Cx) -> S {
    match t.below(4) {
        0 | 1 => S::any(t, 5),
        2 => {
            cx.label("shear 2^-e");
            tiny::<S>(t)
        }
        _ => {
            cx.label("shear +-2^j");
            let j = safe_exp::<S>() as i64 / 2;
            let f = pow2::<S>(t.int(-j, j) as i32);
            if t.bool() {
                -f
            } else {
                f
            }
        }
    }
}
/// Rotation axis as passed (any length: Pythagorean direction times a rational times 2^j) and its exact unit.
fn reg_axis<S: Dom>(t: &mut Tape, cx: &mut Cx) -> ([S; 3], [S; 3]) {
    let (ax, unit) = gen_axis::<S>(t);
    if t.bool() {
        return (ax, unit);
    }
    cx.label("axis length 2^j");
    let j = safe_exp::<S>() as i64 / 2;
    let f = pow2::<S>(t.int(-j, j) as i32);
    ([ax[0] * f, ax[1] * f, ax[2] * f], unit)
}

/// The matrix of a step with *exact* entries where the definition gives them exactly (translation, scaling,
/// shear: the parameters themselves; rotation about a coordinate axis: 0, 1, +-sin, cos of the angle), the
/// axis-angle formula otherwise; plus an entry-wise bound of |C| that includes C's own rounding (a rotation
/// about a general axis has entries made of terms of magnitude <= 1, each known to a few eps *absolutely*).
fn cmat4<S: Dom>(s: &Step<S>) -> ([[S; 4]; 4], [[f64; 4]; 4]) {
    let mut c: [[S; 4]; 4] = rf::identity();
    let mut general_rotation = false;
    match s {
        Step::Translate2(v) => {
            c[0][3] = v[0];
            c[1][3] = v[1];
        }
        Step::Translate3(v) => {
            c[0][3] = v[0];
            c[1][3] = v[1];
            c[2][3] = v[2];
        }
        Step::Scale3(k) => {
            c[0][0] = k[0];
            c[1][1] = k[1];
            c[2][2] = k[2];
        }
        // (x, y cos - z sin, y sin + z cos): counter-clockwise in the plane orthogonal to the axis
        Step::RotX(a) => {
            c[1][1] = a.cos();
            c[1][2] = -a.sin();
            c[2][1] = a.sin();
            c[2][2] = a.cos();
        }
        Step::RotY(a) => {
            c[2][2] = a.cos();
            c[2][0] = -a.sin();
            c[0][2] = a.sin();
            c[0][0] = a.cos();
        }
        Step::RotZ(a) => {
            c[0][0] = a.cos();
            c[0][1] = -a.sin();
            c[1][0] = a.sin();
            c[1][1] = a.cos();
        }
        Step::Rot3(..) => {
            c = matrix4(s);
            general_rotation = true;
        }
        _ => unreachable!(),
    }
    let mut cabs = [[0.0f64; 4]; 4];
    for i in 0..4 {
        for j in 0..4 {
            cabs[i][j] = c[i][j].f().abs();
            if general_rotation && i < 3 && j < 3 {
                cabs[i][j] = cabs[i][j].max(1.0);
            }
        }
    }
    (c, cabs)
}
/// Mat3 steps act on R^3 (translate_2d uses z as the homogeneous coordinate).
fn cmat3<S: Dom>(s: &Step<S>) -> ([[S; 3]; 3], [[f64; 3]; 3]) {
    let mut c: [[S; 3]; 3] = rf::identity();
    let mut cabs = [[0.0f64; 3]; 3];
    if let Step::Translate2(v) = s {
        c[0][2] = v[0];
        c[1][2] = v[1];
        for i in 0..3 {
            for j in 0..3 {
                cabs[i][j] = c[i][j].f().abs();
            }
        }
    } else {
        let (c4, a4) = cmat4(s);
        for i in 0..3 {
            for j in 0..3 {
                c[i][j] = c4[i][j];
                cabs[i][j] = a4[i][j];
            }
        }
    }
    (c, cabs)
}
fn cmat2<S: Dom>(s: &Step<S>) -> ([[S; 2]; 2], [[f64; 2]; 2]) {
    let c = matrix2(s); // exact entries: k, 1, 0, +-sin, cos
    let mut cabs = [[0.0f64; 2]; 2];
    for i in 0..2 {
        for j in 0..2 {
            cabs[i][j] = c[i][j].f().abs();
        }
    }
    (c, cabs)
}

fn reg_step4<S: Dom>(t: &mut Tape, cx: &mut Cx, u: S, dim4: bool) -> Step<S> {
    match t.below(if dim4 { 7 } else { 6 }) {
        0 => Step::Translate2([reg_len(t, cx, u), reg_len(t, cx, u)]),
        1 => Step::Scale3([reg_factor(t, cx), reg_factor(t, cx), reg_factor(t, cx)]),
        2 => Step::RotX(reg_angle(t, cx)),
        3 => Step::RotY(reg_angle(t, cx)),
        4 => Step::RotZ(reg_angle(t, cx)),
        5 => {
            let a = reg_angle(t, cx);
            let (ax, unit) = reg_axis::<S>(t, cx);
            Step::Rot3(a, ax, unit)
        }
        _ => Step::Translate3([reg_len(t, cx, u), reg_len(t, cx, u), reg_len(t, cx, u)]),
    }
}
fn reg_step2<S: Dom>(t: &mut Tape, cx: &mut Cx) -> Step<S> {
    match t.below(4) {
        0 => Step::RotZ(reg_angle(t, cx)),
        1 => Step::Scale2([reg_factor(t, cx), reg_factor(t, cx)]),
        2 => Step::ShearX(reg_shear(t, cx)),
        _ => Step::ShearY(reg_shear(t, cx)),
    }
}
fn is_noop<S: Dom>(s: &Step<S>) -> bool {
    let (z, o) = (S::zero(), S::one());
    match s {
        Step::Translate2(v) => v.iter().all(|x| *x == z),
        Step::Translate3(v) => v.iter().all(|x| *x == z),
        Step::Scale3(k) => k.iter().all(|x| *x == o),
        Step::Scale2(k) => k.iter().all(|x| *x == o),
        Step::RotX(a) | Step::RotY(a) | Step::RotZ(a) | Step::Rot3(a, _, _) => *a == z,
        Step::ShearX(k) | Step::ShearY(k) => *k == z,
    }
}

/// k for one builder step. vek: the constructor's entries (exact, or one rounding of sin / cos, or for a general
/// axis <= ~7 roundings of terms <= 1) and an N-term product row (<= 4 roundings); the oracle the same again:
/// <= 2 * (1 + 4) = 10 for exact constructors, <= 2 * (7 + 4) = 22 for a general axis.
const KS: f64 = 16.0;
const KS_AXIS: f64 = 32.0;

/// One builder step from an arbitrary start matrix, parameters from the regimes; both layouts.
pub fn step_regimes<S: Dom>(t: &mut Tape, cx: &mut Cx) -> CaseResult {
    let k = scale_exp(t, safe_exp::<S>());
    cx.label(scale_label(k));
    let u = pow2::<S>(k);
    let dim = t.pick(&[4usize, 4, 3, 2]);
    macro_rules! run {
        ($N:expr, $M:ident, $start:expr, $step:expr, $cmat:ident, $apply:ident) => {{
            let start: [[S; $N]; $N] = $start;
            let s: Step<S> = $step;
            cx.label(step_name(&s));
            let (c, cabs) = $cmat(&s);
            let (want, mag) = matmul_mag(&c, &cabs, &start);
            let kk = if let Step::Rot3(..) = s { KS_AXIS } else { KS };
            cx.set_nontrivial(!is_noop(&s) && start != rf::identity::<S, $N>());
            sample!(cx, "{} {} k={} start={:?} step={:?}", S::NAME, stringify!($M), k, start, s);
            macro_rules! layout {
                ($l:ident, $n:expr) => {{
                    let v0 = $l::$M::<S>::from_arr(&start);
                    let mut w = v0;
                    let v = $apply!(v0, w, s);
                    req!(mat_near::<S, $N>(cx, &v.to_arr(), &want, &mag, kk), "{} {} {}: value = definition-matrix * start, entry-wise", $n, stringify!($M), step_name(&s));
                    check_eq!(cx, w.to_arr(), v.to_arr(), "{} {} in-place twin of {}", $n, stringify!($M), step_name(&s));
                }};
            }
            layout!(rm, "row-major");
            layout!(cm, "col-major");
        }};
    }
    macro_rules! apply4 {
        ($v:ident, $w:ident, $s:ident) => {
            match $s {
                Step::Translate2(a) => { $w.translate_2d(vk::v2(&a)); $v.translated_2d(vk::v2(&a)) }
                Step::Translate3(a) => { $w.translate_3d(vk::v3(&a)); $v.translated_3d(vk::v3(&a)) }
                Step::Scale3(a) => { $w.scale_3d(vk::v3(&a)); $v.scaled_3d(vk::v3(&a)) }
                Step::RotX(a) => { $w.rotate_x(a); $v.rotated_x(a) }
                Step::RotY(a) => { $w.rotate_y(a); $v.rotated_y(a) }
                Step::RotZ(a) => { $w.rotate_z(a); $v.rotated_z(a) }
                Step::Rot3(a, ax, _) => { $w.rotate_3d(a, vk::v3(&ax)); $v.rotated_3d(a, vk::v3(&ax)) }
                _ => unreachable!(),
            }
        };
    }
    macro_rules! apply3 {
        ($v:ident, $w:ident, $s:ident) => {
            match $s {
                Step::Translate2(a) => { $w.translate_2d(vk::v2(&a)); $v.translated_2d(vk::v2(&a)) }
                Step::Scale3(a) => { $w.scale_3d(vk::v3(&a)); $v.scaled_3d(vk::v3(&a)) }
                Step::RotX(a) => { $w.rotate_x(a); $v.rotated_x(a) }
                Step::RotY(a) => { $w.rotate_y(a); $v.rotated_y(a) }
                Step::RotZ(a) => { $w.rotate_z(a); $v.rotated_z(a) }
                Step::Rot3(a, ax, _) => { $w.rotate_3d(a, vk::v3(&ax)); $v.rotated_3d(a, vk::v3(&ax)) }
                _ => unreachable!(),
            }
        };
    }
    macro_rules! apply2 {
        ($v:ident, $w:ident, $s:ident) => {
            match $s {
                Step::RotZ(a) => { $w.rotate_z(a); $v.rotated_z(a) }
                Step::Scale2(a) => { $w.scale_2d(vk::v2(&a)); $v.scaled_2d(vk::v2(&a)) }
                Step::ShearX(a) => { $w.shear_x(a); $v.sheared_x(a) }
                Step::ShearY(a) => { $w.shear_y(a); $v.sheared_y(a) }
                _ => unreachable!(),
            }
        };
    }
    let ident = t.chance(40);
    match dim {
        4 => run!(4, Mat4, if ident { rf::identity() } else { conj(&gen_m4::<S>(t, cx), k) }, reg_step4::<S>(t, cx, u, true), cmat4, apply4),
        3 => run!(3, Mat3, if ident { rf::identity() } else { conj(&gen_m3::<S>(t, cx), k) }, reg_step4::<S>(t, cx, u, false), cmat3, apply3),
        _ => run!(2, Mat2, if ident { rf::identity() } else { vk::gen_mat(t, 5) }, reg_step2::<S>(t, cx), cmat2, apply2),
    }
    Ok(())
}

/// The exact-entry oracle used by `step_regimes` for rotations about a coordinate axis agrees with the
/// axis-angle formula the rest of the crate uses (guards the harness, not vek).
pub fn oracle_selfcheck<S: Dom>(t: &mut Tape, cx: &mut Cx) -> CaseResult {
    let a = reg_angle::<S>(t, cx);
    for s in [Step::RotX(a), Step::RotY(a), Step::RotZ(a)] {
        let (c, _) = cmat4(&s);
        let r = matrix4(&s);
        req!(mat_near::<S, 4>(cx, &c, &r, &[[1.0; 4]; 4], 4.0), "exact-entry matrix of {} vs the axis-angle formula", step_name(&s));
    }
    cx.nontrivial();
    Ok(())
}

// ------------------------------------------------------------------------------------------------------------
// constructors place their arguments exactly, whatever their magnitude
// ------------------------------------------------------------------------------------------------------------

fn reg_value<S: Dom + Special>(t: &mut Tape, cx: &mut Cx) -> S {
    match t.below(4) {
        0 => {
            let f: Vec<S> = S::specials().iter().copied().filter(|x| x.f().is_finite()).collect();
            cx.label("finite IEEE special (subnormal, MIN_POSITIVE, MAX, EPSILON, 1 +- eps, -0)");
            f[t.below(f.len())]
        }
        1 => {
            cx.label("+-2^j up to the limits of the normal range");
            let j = if is_f32::<S>() { 120 } else { 1000 };
            let f = fc::<S>((2.0f64).powi(t.int(-j, j) as i32));
            if t.bool() {
                -f
            } else {
                f
            }
        }
        2 => tiny::<S>(t),
        _ => S::any(t, 9),
    }
}
pub fn ctor_entries<S: Dom + Special>(t: &mut Tape, cx: &mut Cx) -> CaseResult {
    let (a, b, c, k) = (reg_value::<S>(t, cx), reg_value::<S>(t, cx), reg_value::<S>(t, cx), reg_value::<S>(t, cx));
    let (z, o) = (S::zero(), S::one());
    cx.set_nontrivial(a != b && b != c && a != c);
    sample!(cx, "{} (a,b,c)={:?} k={:?}", S::NAME, (a, b, c), k);
    macro_rules! layout {
        ($l:ident, $n:expr) => {{
            check_eq!(cx, $l::Mat4::<S>::translation_3d(Vec3 { x: a, y: b, z: c }).to_arr(), [[o, z, z, a], [z, o, z, b], [z, z, o, c], [z, z, z, o]], "{} Mat4::translation_3d entries", $n);
            check_eq!(cx, $l::Mat4::<S>::translation_2d(Vec2 { x: a, y: b }).to_arr(), [[o, z, z, a], [z, o, z, b], [z, z, o, z], [z, z, z, o]], "{} Mat4::translation_2d entries", $n);
            check_eq!(cx, $l::Mat4::<S>::scaling_3d(Vec3 { x: a, y: b, z: c }).to_arr(), [[a, z, z, z], [z, b, z, z], [z, z, c, z], [z, z, z, o]], "{} Mat4::scaling_3d entries", $n);
            check_eq!(cx, $l::Mat3::<S>::translation_2d(Vec2 { x: a, y: b }).to_arr(), [[o, z, a], [z, o, b], [z, z, o]], "{} Mat3::translation_2d entries", $n);
            check_eq!(cx, $l::Mat3::<S>::scaling_3d(Vec3 { x: a, y: b, z: c }).to_arr(), [[a, z, z], [z, b, z], [z, z, c]], "{} Mat3::scaling_3d entries", $n);
            check_eq!(cx, $l::Mat2::<S>::scaling_2d(Vec2 { x: a, y: b }).to_arr(), [[a, z], [z, b]], "{} Mat2::scaling_2d entries", $n);
            check_eq!(cx, $l::Mat2::<S>::shearing_x(k).to_arr(), [[o, k], [z, o]], "{} Mat2::shearing_x entries", $n);
            check_eq!(cx, $l::Mat2::<S>::shearing_y(k).to_arr(), [[o, z], [k, o]], "{} Mat2::shearing_y entries", $n);
        }};
    }
    layout!(rm, "row-major");
    layout!(cm, "col-major");
    Ok(())
}

// ------------------------------------------------------------------------------------------------------------
// Mat4::from(Transform) in the regimes
// ------------------------------------------------------------------------------------------------------------

fn cross64(a: [f64; 3], b: [f64; 3]) -> [f64; 3] {
    [a[1] * b[2] - a[2] * b[1], a[2] * b[0] - a[0] * b[2], a[0] * b[1] - a[1] * b[0]]
}
/// q v q* for a unit quaternion (w, x, y, z), written without cancellation: v + 2w (u x v) + 2 u x (u x v).
fn rotate64(q: [f64; 4], v: [f64; 3]) -> [f64; 3] {
    let u = [q[1], q[2], q[3]];
    let c = cross64(u, v);
    let t = [2.0 * c[0], 2.0 * c[1], 2.0 * c[2]];
    let d = cross64(u, t);
    [v[0] + q[0] * t[0] + d[0], v[1] + q[0] * t[1] + d[1], v[2] + q[0] * t[2] + d[2]]
}

/// k for the Transform map, relative to |position_i| + sum_j |scale_j p_j|: vek's rotation entries (<= 3
/// roundings of terms <= 1), times scale (1), the translation column is exact; a quaternion that is unit only to
/// rounding (norm^2 = 1 +- 2 eps: the rotation is defined to that accuracy, <= 4); the f64 oracle and the f64
/// evaluation of the image (<= 6 eps when S = f64, nothing when S = f32): <= 14.
const KT: f64 = 16.0;

pub fn transform_regimes<S: Dom>(t: &mut Tape, cx: &mut Cx) -> CaseResult {
    // unit of length; half the safe exponent leaves room for scale factors up to 2^(safe/2)
    let k = scale_exp(t, safe_exp::<S>() / 2);
    cx.label(scale_label(k));
    let u = pow2::<S>(k);
    let (z, o) = (S::zero(), S::one());
    // orientation
    let mut angle = 0.0f64;
    let q: [S; 4] = match t.below(16) {
        0 => {
            cx.label("identity orientation");
            [o, z, z, z]
        }
        1 => {
            cx.label("orientation (-1,0,0,0)");
            [-o, z, z, z]
        }
        _ => {
            let (a, l) = angle_regime(t, pert_exp::<S>(), 8);
            cx.label(l);
            angle = a;
            let ax: [f64; 3] = match t.below(4) {
                0 => {
                    let mut e = [0.0; 3];
                    e[t.below(3)] = 1.0;
                    e
                }
                1 | 2 => {
                    let (v, len) = gens::pythagorean3(t);
                    [v[0] as f64 / len as f64, v[1] as f64 / len as f64, v[2] as f64 / len as f64]
                }
                _ => {
                    let v = [t.range_f64(-1.0, 1.0), t.range_f64(-1.0, 1.0), t.range_f64(-1.0, 1.0)];
                    let n = (v[0] * v[0] + v[1] * v[1] + v[2] * v[2]).sqrt();
                    if n < 0.1 {
                        [1.0, 0.0, 0.0]
                    } else {
                        [v[0] / n, v[1] / n, v[2] / n]
                    }
                }
            };
            let (sn, cs) = ((a / 2.0).sin(), (a / 2.0).cos());
            let sg = if t.chance(64) { -1.0 } else { 1.0 };
            [fc::<S>(sg * cs), fc::<S>(sg * sn * ax[0]), fc::<S>(sg * sn * ax[1]), fc::<S>(sg * sn * ax[2])]
        }
    };
    let scale: [S; 3] = if t.chance(48) {
        let s = reg_factor::<S>(t, cx);
        [s, s, s]
    } else {
        [reg_factor::<S>(t, cx), reg_factor::<S>(t, cx), reg_factor::<S>(t, cx)]
    };
    let position: [S; 3] = [reg_len(t, cx, u), reg_len(t, cx, u), reg_len(t, cx, u)];
    let p: [S; 3] = match t.below(8) {
        0 => {
            cx.label("p = origin");
            [z; 3]
        }
        1 => {
            let mut e = [z; 3];
            e[t.below(3)] = u;
            e
        }
        _ => {
            let v: [S; 3] = vk::gen_vec(t, 9);
            [v[0] * u, v[1] * u, v[2] * u]
        }
    };
    let moved = angle != 0.0 && p.iter().filter(|x| !x.is_zero()).count() >= 2;
    cx.set_nontrivial(moved);
    sample!(cx, "{} k={} angle={:e} orientation(w,x,y,z)={:?} scale={:?} position={:?} p={:?}", S::NAME, k, angle, q, scale, position, p);

    let qf = [q[0].f(), q[1].f(), q[2].f(), q[3].f()];
    let sp = [scale[0].f() * p[0].f(), scale[1].f() * p[1].f(), scale[2].f() * p[2].f()];
    let r = rotate64(qf, sp);
    let spsum = sp[0].abs() + sp[1].abs() + sp[2].abs();
    let xf = Transform { position: vk::v3(&position), orientation: Quaternion { w: q[0], x: q[1], y: q[2], z: q[3] }, scale: vk::v3(&scale) };
    for (name, m) in [("row-major", rm::Mat4::<S>::from(xf).to_arr()), ("col-major", cm::Mat4::<S>::from(xf).to_arr())] {
        check_eq!(cx, m[3], [z, z, z, o], "{} Mat4::from(Transform) is affine", name);
        for i in 0..3 {
            let got = m[i][0].f() * p[0].f() + m[i][1].f() * p[1].f() + m[i][2].f() * p[2].f() + m[i][3].f();
            let want = position[i].f() + r[i];
            let tol = KT * S::eps() * (position[i].f().abs() + spsum);
            cx.count();
            if !near_f64(cx, got, want, tol) {
                fail!("{} Mat4::from(Transform) maps p to a point whose coordinate {} is {:e}, want position + orientation*(scale.p) = {:e} (difference {:e}, tolerance {:e}; rotation angle {:e})\n matrix {:?}", name, i, got, want, (got - want).abs(), tol, angle, m);
            }
        }
    }
    Ok(())
}

// ------------------------------------------------------------------------------------------------------------
// the whole normal range of the element type
// ------------------------------------------------------------------------------------------------------------
//
// A translation, a scale factor, a shear or the sine / cosine of an angle is never squared by a builder: every
// entry of `constructor * start` is a sum of at most N products of one constructor entry and one start entry.
// So the builders must work wherever a *single* product of two entries stays finite, down to MIN_POSITIVE and
// below (an underflowing product costs at most half a subnormal quantum), not only where squares stay normal.
// Guards of the kind `v.magnitude_squared() == 0`, `dot == 0`, `is_approx_zero()` on a parameter break that.

/// (smallest normal exponent, largest exponent, subnormal quantum) of the element type.
fn range_of<S: Dom>() -> (i32, i32, f64) {
    if is_f32::<S>() {
        (-126, 127, f32::from_bits(1) as f64)
    } else {
        (-1022, 1023, f64::from_bits(1))
    }
}
/// 2^e exactly, for a normal f64 exponent.
fn p2(e: i32) -> f64 {
    debug_assert!((-1022..=1023).contains(&e));
    f64::from_bits(((e + 1023) as u64) << 52)
}
/// An exponent in lo..=hi, stratified: next to the lower limit, the lower half (squares underflow), moderate,
/// the upper half (squares overflow), next to the upper limit, uniform.
fn wide_exp(t: &mut Tape, lo: i32, hi: i32) -> i32 {
    debug_assert!(lo <= hi);
    let (l, h) = (lo as i64, hi as i64);
    let e = match t.below(8) {
        0 | 1 => l + t.int(0, 24),
        2 | 3 => t.int(l, (l / 2).clamp(l, h)),
        4 => t.int(-8, 8),
        5 => t.int((h / 2).clamp(l, h), h),
        6 => h - t.int(0, 24),
        _ => t.int(l, h),
    };
    e.clamp(l, h) as i32
}
fn square_label<S: Dom>(cx: &mut Cx, e: i32) {
    let (lo, hi, _) = range_of::<S>();
    let mant = if is_f32::<S>() { 24 } else { 53 };
    if 2 * e + 2 < lo - mant {
        cx.label("parameter whose square underflows to 0");
    } else if 2 * e < lo {
        cx.label("parameter whose square is subnormal");
    } else if 2 * e > hi {
        cx.label("parameter whose square overflows");
    } else {
        cx.label("parameter whose square is normal");
    }
}
/// +-(1 + u) * 2^e
fn wide_value<S: Dom>(t: &mut Tape, e: i32) -> S {
    let v = (1.0 + t.unit_f64()) * p2(e);
    fc::<S>(if t.bool() { -v } else { v })
}
/// One coordinate of a translation / one shear: +-(1+u) 2^e, sometimes 0.
fn wide_len<S: Dom>(t: &mut Tape, e: i32) -> S {
    if t.chance(56) {
        S::zero()
    } else {
        wide_value::<S>(t, e)
    }
}
/// One scale factor: +-(1+u) 2^e, sometimes 1 or a small rational.
fn wide_factor<S: Dom>(t: &mut Tape, e: i32) -> S {
    match t.below(8) {
        0 => S::one(),
        1 => S::small(t, 5),
        _ => wide_value::<S>(t, e),
    }
}
/// An angle +-(1+u) 2^e with e from MIN_EXP up to 2 (sin and cos of it are taken in the element type by vek and
/// by the oracle alike).
fn wide_angle<S: Dom>(t: &mut Tape, cx: &mut Cx) -> S {
    let (lo, _, _) = range_of::<S>();
    let e = wide_exp(t, lo, 2);
    square_label::<S>(cx, e);
    wide_value::<S>(t, e)
}

/// k for the whole-range checks: <= N roundings in vek's row . column (N <= 4, each relative to the partial
/// sum, or half a quantum when the partial result is subnormal), one rounding of sin / cos which is the same
/// in the oracle, and <= N + 1 roundings of the f64 oracle when the element type is f64: <= 10 eps * sum of
/// |terms| plus <= 5 quanta.
const KW: f64 = 16.0;
const QW: f64 = 16.0;

fn wide_close<S: Dom>(cx: &mut Cx, got: S, want: f64, mag: f64) -> Result<(), String> {
    let (_, _, q) = range_of::<S>();
    let tol = KW * S::eps() * mag + QW * q;
    cx.count();
    if near_f64(cx, got.f(), want, tol) {
        Ok(())
    } else {
        Err(format!("got {:e}, want {:e} (difference {:e}, tolerance {:e} = {} eps * {:e} + {} subnormal quanta)", got.f(), want, (got.f() - want).abs(), tol, KW, mag, QW))
    }
}
/// C * A in f64 with the magnitude sums (for f32 every product is exact in f64; for f64 see KW).
fn wide_product<S: Dom, const N: usize>(c: &[[S; N]; N], a: &[[S; N]; N]) -> ([[f64; N]; N], [[f64; N]; N]) {
    let mut r = [[0.0f64; N]; N];
    let mut g = [[0.0f64; N]; N];
    for i in 0..N {
        for j in 0..N {
            for k in 0..N {
                let p = c[i][k].f() * a[k][j].f();
                r[i][j] += p;
                g[i][j] += p.abs();
            }
        }
    }
    (r, g)
}
/// A start matrix whose entries are (small value) * 2^be; `row_e` moves the first N-1 rows to another exponent
/// (so that a translation of that size matters next to the entries it is added to).
fn wide_start<S: Dom, const N: usize>(m: &[[S; N]; N], be: i32, row_e: Option<i32>) -> [[S; N]; N] {
    let mut r = *m;
    for i in 0..N {
        let e = if i < N - 1 { row_e.unwrap_or(be) } else { be };
        let f = fc::<S>(p2(e));
        for j in 0..N {
            r[i][j] = r[i][j] * f;
        }
    }
    r
}

/// One builder step with parameters and start-matrix entries anywhere in the normal range; both layouts.
pub fn wide_steps<S: Dom>(t: &mut Tape, cx: &mut Cx) -> CaseResult {
    let (lo, hi, _) = range_of::<S>();
    let dim = t.pick(&[4usize, 4, 4, 3, 2]);
    // parameter exponent: the whole normal range, leaving 10 binades for mantissas (< 2^4) and 4-term sums
    let pe = wide_exp(t, lo, hi - 10);
    // start-matrix exponent: so that every single product (and every start entry) stays finite
    let top = hi - 10 - pe.max(0);
    let be = match t.below(6) {
        0 | 1 => 0.clamp(lo, top),
        2 => (-pe).clamp(lo, top),
        _ => wide_exp(t, lo, top),
    };
    let row_e = if t.chance(96) { Some((be + pe).clamp(lo, top)) } else { None };
    let ident = t.chance(48);
    macro_rules! run {
        ($N:expr, $M:ident, $gen:expr, $step:expr, $cmat:ident, $apply:ident) => {{
            let start: [[S; $N]; $N] = if ident { rf::identity() } else { wide_start(&$gen, be, row_e) };
            let s: Step<S> = $step;
            cx.label(step_name(&s));
            let (c, _) = $cmat(&s);
            let (want, mag) = wide_product(&c, &start);
            cx.set_nontrivial(!is_noop(&s));
            sample!(cx, "{} {} parameter exponent {} start exponent {} (rows {:?}) start={:?} step={:?}", S::NAME, stringify!($M), pe, be, row_e, start, s);
            macro_rules! layout {
                ($l:ident, $n:expr) => {{
                    let v0 = $l::$M::<S>::from_arr(&start);
                    let mut w = v0;
                    let v = $apply!(v0, w, s);
                    let got = v.to_arr();
                    for i in 0..$N {
                        for j in 0..$N {
                            req!(wide_close::<S>(cx, got[i][j], want[i][j], mag[i][j]), "{} {} {} over the whole normal range: element ({},{}) of the result vs definition-matrix * start\n got  {:?}\n want {:?}", $n, stringify!($M), step_name(&s), i, j, got, want);
                        }
                    }
                    check_eq!(cx, w.to_arr(), got, "{} {} in-place twin of {} (whole normal range)", $n, stringify!($M), step_name(&s));
                }};
            }
            layout!(rm, "row-major");
            layout!(cm, "col-major");
        }};
    }
    macro_rules! apply4 {
        ($v:ident, $w:ident, $s:ident) => {
            match $s {
                Step::Translate2(a) => { $w.translate_2d(vk::v2(&a)); $v.translated_2d(vk::v2(&a)) }
                Step::Translate3(a) => { $w.translate_3d(vk::v3(&a)); $v.translated_3d(vk::v3(&a)) }
                Step::Scale3(a) => { $w.scale_3d(vk::v3(&a)); $v.scaled_3d(vk::v3(&a)) }
                Step::RotX(a) => { $w.rotate_x(a); $v.rotated_x(a) }
                Step::RotY(a) => { $w.rotate_y(a); $v.rotated_y(a) }
                Step::RotZ(a) => { $w.rotate_z(a); $v.rotated_z(a) }
                _ => unreachable!(),
            }
        };
    }
    macro_rules! apply3 {
        ($v:ident, $w:ident, $s:ident) => {
            match $s {
                Step::Translate2(a) => { $w.translate_2d(vk::v2(&a)); $v.translated_2d(vk::v2(&a)) }
                Step::Scale3(a) => { $w.scale_3d(vk::v3(&a)); $v.scaled_3d(vk::v3(&a)) }
                Step::RotX(a) => { $w.rotate_x(a); $v.rotated_x(a) }
                Step::RotY(a) => { $w.rotate_y(a); $v.rotated_y(a) }
                Step::RotZ(a) => { $w.rotate_z(a); $v.rotated_z(a) }
                _ => unreachable!(),
            }
        };
    }
    macro_rules! apply2 {
        ($v:ident, $w:ident, $s:ident) => {
            match $s {
                Step::RotZ(a) => { $w.rotate_z(a); $v.rotated_z(a) }
                Step::Scale2(a) => { $w.scale_2d(vk::v2(&a)); $v.scaled_2d(vk::v2(&a)) }
                Step::ShearX(a) => { $w.shear_x(a); $v.sheared_x(a) }
                Step::ShearY(a) => { $w.shear_y(a); $v.sheared_y(a) }
                _ => unreachable!(),
            }
        };
    }
    let param = |cx: &mut Cx| square_label::<S>(cx, pe);
    match dim {
        4 => run!(4, Mat4, gen_m4::<S>(t, cx), match t.below(8) {
            0 | 1 | 2 => { param(cx); Step::Translate3([wide_len(t, pe), wide_len(t, pe), wide_len(t, pe)]) }
            3 => { param(cx); Step::Translate2([wide_len(t, pe), wide_len(t, pe)]) }
            4 => { param(cx); Step::Scale3([wide_factor(t, pe), wide_factor(t, pe), wide_factor(t, pe)]) }
            5 => Step::RotX(wide_angle(t, cx)),
            6 => Step::RotY(wide_angle(t, cx)),
            _ => Step::RotZ(wide_angle(t, cx)),
        }, cmat4, apply4),
        3 => run!(3, Mat3, gen_m3::<S>(t, cx), match t.below(6) {
            0 | 1 => { param(cx); Step::Translate2([wide_len(t, pe), wide_len(t, pe)]) }
            2 => { param(cx); Step::Scale3([wide_factor(t, pe), wide_factor(t, pe), wide_factor(t, pe)]) }
            3 => Step::RotX(wide_angle(t, cx)),
            4 => Step::RotY(wide_angle(t, cx)),
            _ => Step::RotZ(wide_angle(t, cx)),
        }, cmat3, apply3),
        _ => run!(2, Mat2, vk::gen_mat::<S, 2>(t, 5), match t.below(4) {
            0 => Step::RotZ(wide_angle(t, cx)),
            1 => { param(cx); Step::Scale2([wide_factor(t, pe), wide_factor(t, pe)]) }
            2 => { param(cx); Step::ShearX(wide_len(t, pe)) }
            _ => { param(cx); Step::ShearY(wide_len(t, pe)) }
        }, cmat2, apply2),
    }
    Ok(())
}

/// Point / direction helpers with matrix entries and coordinates anywhere in the normal range.
pub fn wide_helpers<S: Dom>(t: &mut Tape, cx: &mut Cx) -> CaseResult {
    let (lo, hi, _) = range_of::<S>();
    let pe = wide_exp(t, lo, hi - 10);
    square_label::<S>(cx, pe);
    let top = hi - 10 - pe.max(0);
    let be = match t.below(4) {
        0 => 0.clamp(lo, top),
        1 => (-pe).clamp(lo, top),
        _ => wide_exp(t, lo, top),
    };
    // the last column multiplies the 1 of a point, so it may live at the exponent of the products
    let col_e = if t.bool() { Some((be + pe).clamp(lo, top)) } else { None };
    let (z, o) = (S::zero(), S::one());
    let mut m: [[S; 4]; 4] = wide_start(&gen_m4::<S>(t, cx), be, None);
    let mut m3: [[S; 3]; 3] = wide_start(&gen_m3::<S>(t, cx), be, None);
    if let Some(ce) = col_e {
        let f = fc::<S>(p2(ce - be));
        for i in 0..4 {
            m[i][3] = m[i][3] * f;
        }
        for i in 0..3 {
            m3[i][2] = m3[i][2] * f;
        }
    }
    let p: [S; 3] = [wide_len(t, pe), wide_len(t, pe), wide_len(t, pe)];
    cx.set_nontrivial(p.iter().filter(|x| !x.is_zero()).count() >= 2);
    sample!(cx, "{} coordinate exponent {} matrix exponent {} (last column {:?}) M4={:?} M3={:?} p={:?}", S::NAME, pe, be, col_e, m, m3, p);
    fn rows<S: Dom, const N: usize>(m: &[[S; N]; N], v: &[S; N]) -> ([f64; N], [f64; N]) {
        let mut r = [0.0f64; N];
        let mut g = [0.0f64; N];
        for i in 0..N {
            for j in 0..N {
                let p = m[i][j].f() * v[j].f();
                r[i] += p;
                g[i] += p.abs();
            }
        }
        (r, g)
    }
    let (wp, gp) = rows(&m, &[p[0], p[1], p[2], o]);
    let (wd, gd) = rows(&m, &[p[0], p[1], p[2], z]);
    let (xp, hp) = rows(&m3, &[p[0], p[1], o]);
    let (xd, hd) = rows(&m3, &[p[0], p[1], z]);
    macro_rules! layout {
        ($l:ident, $n:expr) => {{
            let mm = $l::Mat4::<S>::from_arr(&m);
            let r3: Vec3<S> = mm.mul_point(vk::v3(&p));
            let r4: Vec4<S> = mm.mul_point(Vec4 { x: p[0], y: p[1], z: p[2], w: z });
            let d3: Vec3<S> = mm.mul_direction(vk::v3(&p));
            let d4: Vec4<S> = mm.mul_direction(Vec4 { x: p[0], y: p[1], z: p[2], w: o });
            for i in 0..4 {
                req!(wide_close::<S>(cx, vk::a4(&r4)[i], wp[i], gp[i]), "{} Mat4::mul_point::<Vec4> over the whole normal range, row {}", $n, i);
                req!(wide_close::<S>(cx, vk::a4(&d4)[i], wd[i], gd[i]), "{} Mat4::mul_direction::<Vec4> over the whole normal range, row {}", $n, i);
            }
            for i in 0..3 {
                req!(wide_close::<S>(cx, vk::a3(&r3)[i], wp[i], gp[i]), "{} Mat4::mul_point::<Vec3> over the whole normal range, row {}", $n, i);
                req!(wide_close::<S>(cx, vk::a3(&d3)[i], wd[i], gd[i]), "{} Mat4::mul_direction::<Vec3> over the whole normal range, row {}", $n, i);
            }
            let n3 = $l::Mat3::<S>::from_arr(&m3);
            let q3: Vec3<S> = n3.mul_point_2d(Vec3 { x: p[0], y: p[1], z });
            let e3: Vec3<S> = n3.mul_direction_2d(Vec3 { x: p[0], y: p[1], z: o });
            let q2: Vec2<S> = n3.mul_point_2d(Vec2 { x: p[0], y: p[1] });
            let e2: Vec2<S> = n3.mul_direction_2d(Vec2 { x: p[0], y: p[1] });
            for i in 0..3 {
                req!(wide_close::<S>(cx, vk::a3(&q3)[i], xp[i], hp[i]), "{} Mat3::mul_point_2d::<Vec3> over the whole normal range, row {}", $n, i);
                req!(wide_close::<S>(cx, vk::a3(&e3)[i], xd[i], hd[i]), "{} Mat3::mul_direction_2d::<Vec3> over the whole normal range, row {}", $n, i);
            }
            for i in 0..2 {
                req!(wide_close::<S>(cx, vk::a2(&q2)[i], xp[i], hp[i]), "{} Mat3::mul_point_2d::<Vec2> over the whole normal range, row {}", $n, i);
                req!(wide_close::<S>(cx, vk::a2(&e2)[i], xd[i], hd[i]), "{} Mat3::mul_direction_2d::<Vec2> over the whole normal range, row {}", $n, i);
            }
        }};
    }
    layout!(rm, "row-major");
    layout!(cm, "col-major");
    Ok(())
}

/// A unit quaternion (to rounding) from the angle regimes; returns (w, x, y, z) and the angle.
fn reg_orientation<S: Dom>(t: &mut Tape, cx: &mut Cx) -> ([S; 4], f64) {
    let (a, l) = angle_regime(t, pert_exp::<S>(), 8);
    cx.label(l);
    let ax: [f64; 3] = match t.below(4) {
        0 => {
            let mut e = [0.0; 3];
            e[t.below(3)] = 1.0;
            e
        }
        1 | 2 => {
            let (v, len) = gens::pythagorean3(t);
            [v[0] as f64 / len as f64, v[1] as f64 / len as f64, v[2] as f64 / len as f64]
        }
        _ => {
            let v = [t.range_f64(-1.0, 1.0), t.range_f64(-1.0, 1.0), t.range_f64(-1.0, 1.0)];
            let n = (v[0] * v[0] + v[1] * v[1] + v[2] * v[2]).sqrt();
            if n < 0.1 {
                [1.0, 0.0, 0.0]
            } else {
                [v[0] / n, v[1] / n, v[2] / n]
            }
        }
    };
    let (sn, cs) = ((a / 2.0).sin(), (a / 2.0).cos());
    let sg = if t.chance(64) { -1.0 } else { 1.0 };
    ([fc::<S>(sg * cs), fc::<S>(sg * sn * ax[0]), fc::<S>(sg * sn * ax[1]), fc::<S>(sg * sn * ax[2])], a)
}

/// `Mat4::from(Transform)` entry by entry, with position coordinates and scale factors anywhere in the normal
/// range (each with its own exponent): the linear part is R(q) * diag(scale) (one product per entry, R known to
/// a few eps absolutely), the last column is the position itself, the bottom row is (0,0,0,1).
pub fn wide_transform<S: Dom>(t: &mut Tape, cx: &mut Cx) -> CaseResult {
    let (lo, hi, q) = range_of::<S>();
    let (z, o) = (S::zero(), S::one());
    let (qs, angle): ([S; 4], f64) = if t.chance(32) {
        cx.label("identity orientation");
        ([o, z, z, z], 0.0)
    } else {
        reg_orientation::<S>(t, cx)
    };
    let pe = wide_exp(t, lo, hi - 4);
    square_label::<S>(cx, pe);
    let position: [S; 3] = if t.chance(160) {
        [wide_len(t, pe), wide_len(t, pe), wide_len(t, pe)]
    } else {
        {
            let own = |t: &mut Tape| {
                let e = wide_exp(t, lo, hi - 4);
                wide_len::<S>(t, e)
            };
            [own(t), own(t), own(t)]
        }
    };
    let se = wide_exp(t, lo, hi - 4);
    let scale: [S; 3] = if t.chance(160) {
        [wide_factor(t, se), wide_factor(t, se), wide_factor(t, se)]
    } else {
        {
            let own = |t: &mut Tape| {
                let e = wide_exp(t, lo, hi - 4);
                wide_factor::<S>(t, e)
            };
            [own(t), own(t), own(t)]
        }
    };
    cx.set_nontrivial(position.iter().any(|x| !x.is_zero()) && angle != 0.0);
    sample!(cx, "{} angle={:e} orientation(w,x,y,z)={:?} scale={:?} position={:?}", S::NAME, angle, qs, scale, position);
    let f = [qs[0].f(), qs[1].f(), qs[2].f(), qs[3].f()];
    // columns of R(q): images of the basis vectors under the quaternion action
    let cols = [rotate64(f, [1.0, 0.0, 0.0]), rotate64(f, [0.0, 1.0, 0.0]), rotate64(f, [0.0, 0.0, 1.0])];
    let xf = Transform { position: vk::v3(&position), orientation: Quaternion { w: qs[0], x: qs[1], y: qs[2], z: qs[3] }, scale: vk::v3(&scale) };
    for (name, m) in [("row-major", rm::Mat4::<S>::from(xf).to_arr()), ("col-major", cm::Mat4::<S>::from(xf).to_arr())] {
        check_eq!(cx, m[3], [z, z, z, o], "{} Mat4::from(Transform) is affine (whole normal range)", name);
        for i in 0..3 {
            // the image of the origin is the position: 0 + position_i * 1, one rounding at most
            cx.count();
            if !near_f64(cx, m[i][3].f(), position[i].f(), S::eps() * position[i].f().abs() + q) {
                fail!("{} Mat4::from(Transform): translation entry {} is {:e}, want position = {:e} (orientation angle {:e}, scale {:?})\n matrix {:?}", name, i, m[i][3].f(), position[i].f(), angle, scale, m);
            }
            for j in 0..3 {
                // |R_ij| <= 1 is known to a few eps absolutely (terms <= 1), times one factor
                let s = scale[j].f();
                let want = cols[j][i] * s;
                let tol = KT * S::eps() * s.abs() + QW * q;
                cx.count();
                if !near_f64(cx, m[i][j].f(), want, tol) {
                    fail!("{} Mat4::from(Transform): linear entry ({},{}) is {:e}, want R(orientation)_ij * scale_j = {:e} (difference {:e}, tolerance {:e})\n position {:?} scale {:?} matrix {:?}", name, i, j, m[i][j].f(), want, (m[i][j].f() - want).abs(), tol, position, scale, m);
                }
            }
        }
    }
    Ok(())
}
