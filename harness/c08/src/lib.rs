//! C08 — projection matrices map the view volume onto the canonical clip volume.

mod regime;
mod ulps;

use vek::geom::FrustumPlanes;
use vek::mat::repr_c::column_major as cm;
use vek::mat::repr_c::row_major as rm;
use vkit::refmath as rf;
use vkit::vk::MatN;
use vkit::*;

const K: f64 = 4096.0;

#[derive(Clone, Copy, Debug)]
struct Planes<S> {
    l: S,
    r: S,
    b: S,
    t: S,
    n: S,
    f: S,
}
impl<S: Dom> Planes<S> {
    fn vek(&self) -> FrustumPlanes<S> {
        FrustumPlanes { left: self.l, right: self.r, bottom: self.b, top: self.t, near: self.n, far: self.f }
    }
}

/// Interval [lo, hi] (or reversed) with a controlled ratio between its centre and half-width.
fn gen_interval<S: Dom>(t: &mut Tape, allow_reversed: bool, cx: &mut Cx) -> (S, S) {
    let h = S::q(t.int(1, 40), t.pick(&[1i64, 2, 3, 4, 5, 8]));
    let centred = t.chance(40);
    let c = if centred { S::zero() } else { h * S::q(t.int(-20, 20), t.pick(&[3i64, 4, 5, 7])) };
    if !centred && !c.is_zero() {
        cx.label("off-centre");
    }
    let (lo, hi) = (c - h, c + h);
    if allow_reversed && t.chance(48) {
        cx.label("reversed-interval");
        (hi, lo)
    } else {
        (lo, hi)
    }
}
/// near, far > 0, near != far.
fn gen_depth<S: Dom>(t: &mut Tape, allow_far_lt_near: bool, cx: &mut Cx) -> (S, S) {
    let n = S::q(t.int(1, 30), t.pick(&[1i64, 2, 3, 4, 5, 10, 20]));
    let g = S::q(t.int(1, 60), t.pick(&[1i64, 1, 2, 3, 7]));
    let f = n + n * g;
    if allow_far_lt_near && t.chance(24) {
        cx.label("far<near");
        (f, n)
    } else {
        (n, f)
    }
}

fn col2_negated<S: Dom>(m: &[[S; 4]; 4]) -> [[S; 4]; 4] {
    let mut r = *m;
    for i in 0..4 {
        r[i][2] = -m[i][2];
    }
    r
}

/// Apply `m` to the point and compare the perspective-divided result with the expected clip-space corner.
#[allow(clippy::too_many_arguments)]
fn corner<S: Dom>(cx: &mut Cx, what: &str, m: &[[S; 4]; 4], p: [S; 3], want: [S; 3], want_w_one: bool, sc: f64) -> CaseResult {
    let c = rf::matvec(m, &[p[0], p[1], p[2], S::one()]);
    if want_w_one {
        check_close!(cx, S, c[3], S::one(), 1.0, K, "{}: w of {:?} must be 1", what, p);
    } else {
        check!(cx, c[3] > S::zero(), "{}: point {:?} in front of the viewer must get positive w, got {:?}", what, p, c[3]);
    }
    let ndc = [c[0] / c[3], c[1] / c[3], c[2] / c[3]];
    for i in 0..3 {
        if !vkit::dom::close::<S>(cx, ndc[i], want[i], sc, K) {
            fail!("{}: corner {:?} maps to ndc {:?} (clip {:?}), want {:?}", what, p, ndc, c, want);
        }
    }
    Ok(())
}

/// All eight corners. `lh`: corners at z=+d, else z=-d. `persp`: x,y grow with d/n. `zo`: near -> 0 else -1.
fn corners<S: Dom>(cx: &mut Cx, what: &str, m: &[[S; 4]; 4], pl: &Planes<S>, lh: bool, persp: bool, zo: bool, sc: f64) -> CaseResult {
    let (one, zero) = (S::one(), S::zero());
    for (x, ex) in [(pl.l, -one), (pl.r, one)] {
        for (y, ey) in [(pl.b, -one), (pl.t, one)] {
            for (d, ez) in [(pl.n, if zo { zero } else { -one }), (pl.f, one)] {
                let k = if persp { d / pl.n } else { one };
                let z = if lh { d } else { -d };
                corner(cx, what, m, [x * k, y * k, z], [ex, ey, ez], !persp, sc)?;
            }
        }
    }
    Ok(())
}

macro_rules! proj_cases {
    ($ortho:ident, $frustum:ident, $persp:ident, $l:ident, $lname:expr) => {
        fn $ortho<S: Dom>(t: &mut Tape, cx: &mut Cx) -> CaseResult {
            let (l, r) = gen_interval::<S>(t, true, cx);
            let (b, tp) = gen_interval::<S>(t, true, cx);
            // orthographic depth planes: any two distinct values, also negative
            let n = S::q(t.int(-30, 30), t.pick(&[1i64, 2, 3, 5]));
            let mut f = S::q(t.int(-60, 60), t.pick(&[1i64, 1, 2, 3]));
            if f == n {
                f = n + S::one();
            }
            let pl = Planes { l, r, b, t: tp, n, f };
            cx.set_nontrivial((l + r) != S::zero() && (b + tp) != S::zero() && !n.is_zero() && n != S::one());
            sample!(cx, "{} {} ortho planes {:?}", S::NAME, $lname, pl);
            let sc = 8.0 * [l, r, b, tp, n, f].iter().fold(1.0f64, |m, x| m.max(x.f().abs())) / (r - l).f().abs().min((tp - b).f().abs()).min((f - n).f().abs()).min(1.0);
            let o = pl.vek();
            let lh_zo = $l::Mat4::<S>::orthographic_lh_zo(o).to_arr();
            let lh_no = $l::Mat4::<S>::orthographic_lh_no(o).to_arr();
            let rh_zo = $l::Mat4::<S>::orthographic_rh_zo(o).to_arr();
            let rh_no = $l::Mat4::<S>::orthographic_rh_no(o).to_arr();
            corners(cx, "orthographic_lh_zo", &lh_zo, &pl, true, false, true, sc)?;
            corners(cx, "orthographic_lh_no", &lh_no, &pl, true, false, false, sc)?;
            corners(cx, "orthographic_rh_zo", &rh_zo, &pl, false, false, true, sc)?;
            corners(cx, "orthographic_rh_no", &rh_no, &pl, false, false, false, sc)?;
            check_mat!(cx, S, lh_zo, col2_negated(&rh_zo), sc, K, "orthographic_lh_zo = orthographic_rh_zo * z-mirror");
            check_mat!(cx, S, lh_no, col2_negated(&rh_no), sc, K, "orthographic_lh_no = orthographic_rh_no * z-mirror");
            // without depth planes: x,y mapped, z and w left alone
            let wd = $l::Mat4::<S>::orthographic_without_depth_planes(o).to_arr();
            let (one, z) = (S::one(), S::any(t, 20));
            for (x, ex) in [(l, -one), (r, one)] {
                for (y, ey) in [(b, -one), (tp, one)] {
                    let c = rf::matvec(&wd, &[x, y, z, one]);
                    check_vec!(cx, S, [c[0], c[1]], [ex, ey], sc, K, "orthographic_without_depth_planes corner ({:?},{:?})", x, y);
                    check_eq!(cx, (c[2], c[3]), (z, one), "orthographic_without_depth_planes leaves z and w alone");
                }
            }
            Ok(())
        }
        fn $frustum<S: Dom>(t: &mut Tape, cx: &mut Cx) -> CaseResult {
            let (l, r) = gen_interval::<S>(t, false, cx);
            let (b, tp) = gen_interval::<S>(t, false, cx);
            let (n, f) = gen_depth::<S>(t, true, cx);
            let pl = Planes { l, r, b, t: tp, n, f };
            let ratio = (f / n).f();
            cx.set_nontrivial((l + r) != S::zero() && (b + tp) != S::zero() && n != S::one() && ratio.log2().fract() != 0.0);
            sample!(cx, "{} {} frustum planes {:?}", S::NAME, $lname, pl);
            let mx = [l, r, b, tp].iter().fold(1.0f64, |m, x| m.max(x.f().abs()));
            let sc = 16.0 * (mx / (r - l).f().abs().min((tp - b).f().abs())).max(1.0) * ((f.f() + n.f()) / (f - n).f().abs()).max(1.0) * (f / n).f().max((n / f).f());
            let o = pl.vek();
            let lh_zo = $l::Mat4::<S>::frustum_lh_zo(o).to_arr();
            let lh_no = $l::Mat4::<S>::frustum_lh_no(o).to_arr();
            let rh_zo = $l::Mat4::<S>::frustum_rh_zo(o).to_arr();
            let rh_no = $l::Mat4::<S>::frustum_rh_no(o).to_arr();
            corners(cx, "frustum_rh_zo", &rh_zo, &pl, false, true, true, sc)?;
            corners(cx, "frustum_rh_no", &rh_no, &pl, false, true, false, sc)?;
            corners(cx, "frustum_lh_zo", &lh_zo, &pl, true, true, true, sc)?;
            corners(cx, "frustum_lh_no", &lh_no, &pl, true, true, false, sc)?;
            check_mat!(cx, S, lh_zo, col2_negated(&rh_zo), sc, K, "frustum_lh_zo = frustum_rh_zo * z-mirror");
            check_mat!(cx, S, lh_no, col2_negated(&rh_no), sc, K, "frustum_lh_no = frustum_rh_no * z-mirror");
            Ok(())
        }
        fn $persp<S: Dom>(t: &mut Tape, cx: &mut Cx) -> CaseResult {
            let fov = S::angle_0_pi(t);
            let two = S::i(2);
            let th = (fov / two).tan();
            let aspect = S::q(t.int(1, 30), t.int(1, 20));
            let (n, f) = gen_depth::<S>(t, false, cx);
            let height = S::q(t.int(1, 2000), t.pick(&[1i64, 1, 2, 3]));
            let width = height * aspect;
            let top = n * th;
            let right = top * aspect;
            let pl = Planes { l: -right, r: right, b: -top, t: top, n, f };
            cx.set_nontrivial(aspect != S::one() && n != S::one() && (f / n).f().log2().fract() != 0.0);
            sample!(cx, "{} {} perspective fov={:?} (tan(fov/2)={:?}) aspect={:?} near={:?} far={:?} width={:?} height={:?}", S::NAME, $lname, fov, th, aspect, n, f, width, height);
            let sc = 16.0 * ((f.f() + n.f()) / (f - n).f()).max(1.0) * (f / n).f() * (1.0 / th.f()).max(th.f()).max(1.0) * aspect.f().max(1.0 / aspect.f());
            let o = pl.vek();
            type M<S> = $l::Mat4<S>;
            let p_rh_zo = M::<S>::perspective_rh_zo(fov, aspect, n, f).to_arr();
            let p_rh_no = M::<S>::perspective_rh_no(fov, aspect, n, f).to_arr();
            let p_lh_zo = M::<S>::perspective_lh_zo(fov, aspect, n, f).to_arr();
            let p_lh_no = M::<S>::perspective_lh_no(fov, aspect, n, f).to_arr();
            corners(cx, "perspective_rh_zo", &p_rh_zo, &pl, false, true, true, sc)?;
            corners(cx, "perspective_rh_no", &p_rh_no, &pl, false, true, false, sc)?;
            corners(cx, "perspective_lh_zo", &p_lh_zo, &pl, true, true, true, sc)?;
            corners(cx, "perspective_lh_no", &p_lh_no, &pl, true, true, false, sc)?;
            // a perspective matrix is the frustum matrix of the symmetric planes it implies
            check_mat!(cx, S, p_rh_zo, M::<S>::frustum_rh_zo(o).to_arr(), sc, K, "perspective_rh_zo = frustum_rh_zo(symmetric planes)");
            check_mat!(cx, S, p_rh_no, M::<S>::frustum_rh_no(o).to_arr(), sc, K, "perspective_rh_no = frustum_rh_no(symmetric planes)");
            check_mat!(cx, S, p_lh_zo, M::<S>::frustum_lh_zo(o).to_arr(), sc, K, "perspective_lh_zo = frustum_lh_zo(symmetric planes)");
            check_mat!(cx, S, p_lh_no, M::<S>::frustum_lh_no(o).to_arr(), sc, K, "perspective_lh_no = frustum_lh_no(symmetric planes)");
            check_mat!(cx, S, p_lh_zo, col2_negated(&p_rh_zo), sc, K, "perspective_lh_zo = perspective_rh_zo * z-mirror");
            check_mat!(cx, S, p_lh_no, col2_negated(&p_rh_no), sc, K, "perspective_lh_no = perspective_rh_no * z-mirror");
            // field-of-view + viewport size variants
            check_mat!(cx, S, M::<S>::perspective_fov_rh_zo(fov, width, height, n, f).to_arr(), p_rh_zo, sc, K, "perspective_fov_rh_zo(w,h) = perspective_rh_zo(w/h)");
            check_mat!(cx, S, M::<S>::perspective_fov_rh_no(fov, width, height, n, f).to_arr(), p_rh_no, sc, K, "perspective_fov_rh_no(w,h) = perspective_rh_no(w/h)");
            check_mat!(cx, S, M::<S>::perspective_fov_lh_zo(fov, width, height, n, f).to_arr(), p_lh_zo, sc, K, "perspective_fov_lh_zo(w,h) = perspective_lh_zo(w/h)");
            check_mat!(cx, S, M::<S>::perspective_fov_lh_no(fov, width, height, n, f).to_arr(), p_lh_no, sc, K, "perspective_fov_lh_no(w,h) = perspective_lh_no(w/h)");
            // infinite perspective
            let inf_rh = M::<S>::infinite_perspective_rh(fov, aspect, n).to_arr();
            let inf_lh = M::<S>::infinite_perspective_lh(fov, aspect, n).to_arr();
            check_mat!(cx, S, inf_rh, M::<S>::tweaked_infinite_perspective_rh(fov, aspect, n, S::zero()).to_arr(), sc, K, "infinite_perspective_rh = tweaked(eps = 0)");
            check_mat!(cx, S, inf_lh, M::<S>::tweaked_infinite_perspective_lh(fov, aspect, n, S::zero()).to_arr(), sc, K, "infinite_perspective_lh = tweaked(eps = 0)");
            check_mat!(cx, S, inf_lh, col2_negated(&inf_rh), sc, K, "infinite_perspective_lh = infinite_perspective_rh * z-mirror");
            // entry-wise limit far -> infinity of perspective_rh_no: m22 -> -1, m23 -> -2 near, the rest unchanged
            let mut lim = p_rh_no;
            lim[2][2] = -S::one();
            lim[2][3] = -two * n;
            check_mat!(cx, S, inf_rh, lim, sc, K, "infinite_perspective_rh = limit of perspective_rh_no as far -> infinity");
            let one = S::one();
            let eps = S::q(t.int(0, 9), 1000);
            let tw_rh = M::<S>::tweaked_infinite_perspective_rh(fov, aspect, n, eps).to_arr();
            let tw_lh = M::<S>::tweaked_infinite_perspective_lh(fov, aspect, n, eps).to_arr();
            for (name, m, lh) in [("infinite_perspective_rh", &inf_rh, false), ("infinite_perspective_lh", &inf_lh, true), ("tweaked_infinite_perspective_rh", &tw_rh, false), ("tweaked_infinite_perspective_lh", &tw_lh, true)] {
                for (x, ex) in [(pl.l, -one), (pl.r, one)] {
                    for (y, ey) in [(pl.b, -one), (pl.t, one)] {
                        corner(cx, name, m, [x, y, if lh { n } else { -n }], [ex, ey, -one], false, sc)?;
                    }
                }
            }
            // depth(d) = 1 - 2 near / d: strictly increasing with limit 1
            let d1 = n * S::q(t.int(2, 50), 1);
            let d2 = d1 * S::q(t.int(2, 9), 1);
            for (name, m, lh) in [("infinite_perspective_rh", &inf_rh, false), ("infinite_perspective_lh", &inf_lh, true)] {
                let mut last = -one;
                for d in [d1, d2] {
                    let c = rf::matvec(m, &[S::zero(), S::zero(), if lh { d } else { -d }, one]);
                    check!(cx, c[3] > S::zero(), "{}: w > 0 in front of the viewer", name);
                    let depth = c[2] / c[3];
                    check_close!(cx, S, depth, one - two * n / d, sc, K, "{}: depth(d) = 1 - 2 near / d", name);
                    check!(cx, depth > last && depth < one, "{}: depth must increase towards 1 (got {:?} after {:?})", name, depth, last);
                    last = depth;
                }
            }
            Ok(())
        }
    };
}
proj_cases!(ortho_rows, frustum_rows, persp_rows, rm, "row-major");
proj_cases!(ortho_cols, frustum_cols, persp_cols, cm, "col-major");

pub fn property() -> Property {
    let mut checks = Vec::new();
    macro_rules! tape {
        ($name:expr, $about:expr, $len:expr, $q:expr, $th:expr, $f:expr) => {
            checks.push(Check { name: $name, about: $about, kind: Kind::Tape { len: $len, quick: $q, thorough: $th, f: $f } });
        };
    }
    let o = "orthographic_{lh,rh}_{zo,no} and orthographic_without_depth_planes: 8 corners of the box (planes also reversed / negative depths) map to the clip corners, w = 1; lh = rh * z-mirror";
    let f = "frustum_{lh,rh}_{zo,no} on off-centre volumes: 8 corners (x,y scaled by d/near, z = +-d) map to (-+1, -+1, near->0|-1, far->1) after the divide, w > 0; lh = rh * z-mirror";
    let p = "perspective_{lh,rh}_{zo,no}, perspective_fov_*, (tweaked_)infinite_perspective_*: corners of the implied symmetric volume; equals the frustum matrix of the implied planes; fov(w,h) = perspective(w/h); lh = rh * z-mirror; infinite = tweaked(0) = entry-wise limit far->inf; depth(d) = 1 - 2n/d";
    tape!("ortho-rows-rat", o, 64, 20_000, 500_000, ortho_rows::<Rat>);
    tape!("ortho-cols-rat", o, 64, 20_000, 500_000, ortho_cols::<Rat>);
    tape!("ortho-cols-f64", o, 64, 20_000, 500_000, ortho_cols::<f64>);
    tape!("frustum-rows-rat", f, 64, 20_000, 500_000, frustum_rows::<Rat>);
    tape!("frustum-cols-rat", f, 64, 20_000, 500_000, frustum_cols::<Rat>);
    tape!("frustum-rows-f64", f, 64, 20_000, 500_000, frustum_rows::<f64>);
    tape!("frustum-cols-f32", f, 64, 20_000, 500_000, frustum_cols::<f32>);
    tape!("perspective-rows-rat", p, 64, 20_000, 500_000, persp_rows::<Rat>);
    tape!("perspective-cols-rat", p, 64, 20_000, 500_000, persp_cols::<Rat>);
    tape!("perspective-cols-f64", p, 64, 20_000, 500_000, persp_cols::<f64>);
    tape!("perspective-rows-f32", p, 64, 20_000, 500_000, persp_rows::<f32>);
    checks.extend(regime::checks());
    checks.extend(ulps::checks());
    Property {
        id: "C08",
        rule: "planes generated as centre +- half-width (centre 0 in ~15% of cases, otherwise off-centre by up to 7 half-widths; orthographic planes also reversed and with negative depth values), near/far positive with far/near in (1, 61] (frustum: also far < near); fields of view as registered angles in (0, pi), rational aspect and viewport sizes; non-trivial = off-centre in x and y, near != 1, far/near not a power of two (perspective: aspect != 1); distinct = distinct consumed tape prefix. regime-* checks: each axis (x planes, y planes, depth planes) is an interval from {ordinary, one plane 2^-1 .. 2^-(mantissa+4) of the other, width << offset (conditioning up to 2^10 f32 / 2^38 f64), off-centre by 2^-1..2^-(mantissa+2) of the width (Rat: 2^-42), one plane at 0, centred} x {reversed}, then scaled exactly by 2^k: k = 0 for all axes (1/8), one k for all lengths (1/2) or one k per axis (3/8; narrow / wide frusta), |k| stratified up to 96 (f32) / 960 (f64) / 56 (Rat) for the orthographic family and 45 / 450 / 20 where far*near is formed; frustum / perspective depth from {ordinary (1/4), far/near - 1 down to 2^-9 / 2^-37 (1/8), far/near up to 2^20 / 2^50 at any unit (1/4), far/near extreme (3/8): 2^20 .. 2^100 (f32) / 2^50 .. 2^900 (f64) / 2^20 .. 2^48 (Rat), a quarter of them within 2^-2 .. 2^6 of 1/eps, with the unit of length such that near * far ~ 1 and (frustum) the x, y planes at the scale of the near plane} x {far < near (frustum, 1/8)}; fields of view from {uniform in (0.05, pi-0.05), log-uniform 2^-3 .. 2^-32 (f32) / 2^-300 (f64) rad, pi - 2^-j, round numbers of degrees 0.001 .. 179.9}, aspect 2^+-30 / 2^+-100 (beyond 1/eps), viewport sizes 2^+-60 / 2^+-200; non-trivial = off-centre in x and y (ortho: near != 0; perspective: aspect != 1). ulps-* checks (f32, f64): a non-empty subset of {x, y, depth} has its two planes 1, 2, 3, 4 or 8 ulps apart (mantissa 3*2^(p-2), bottom of a binade, straddling a power of two, or random; magnitude 2^-4 .. 2^5; either sign and order; frustum depth positive, also far < near), the other axes are short dyadic intervals; perspective family: near / far ulps apart with ordinary fov and aspect; every case non-trivial (perspective: aspect != 1)",
        assumptions: &[
            "rustc and the proptest runner/shrinker are trusted",
            "oracle: validity predicate on the images of the eight corners after the homogeneous divide (reference matrix*vector on plain arrays), plus entry-wise relations between constructors",
            "perspective family only on the debug_assert!ed domain: fov in (0, pi), aspect, width, height, near > 0, far > near",
            "float tolerance 4096*eps*scale with scale from the plane magnitudes / interval widths / far-near ratio",
            "regime-* checks: tolerance 32*eps*cond on the divided (dimensionless) coordinates, cond = (|lo|+|hi|)/|hi-lo| of the axis for x, y and orthographic depth, (far+near)/|far-near| for perspective depth, fov/sin(fov) for x, y of the fov-based constructors (conditioning of 1/tan(fov/2) w.r.t. the angle; 1 for narrow fields of view); entry-wise relations between constructors are compared relative to max(|entry|, floor) (32*eps*cond*that), floor = the magnitude below which the entry cannot move any corner of the view volume by more than the corner tolerance (min over the corners of clip magnitude / |coordinate|), never to 1 + max; cases are generated so that 32*eps*cond <= 2^-7",
            "ulps-* checks: the corner predicate is NOT asserted (conditioning ~2^mantissa, tolerance above 1); asserted instead, entry-wise: every entry within 8 eps of max(|entry|, floor) of the textbook formula (2/(r-l), -(r+l)/(r-l), 2n/(r-l), f/(f-n), (f+n)/(f-n), -fn/(f-n), -2fn/(f-n), 1/(f-n), -n/(f-n), -(f+n)/(f-n), +-1 in the w row, 0 elsewhere) evaluated exactly in Rat on the given floats and rounded once to f64; this fixes the normalisation the crate documents by its formulas (w row +-1 resp. (0,0,0,1)), which the corner predicate alone would leave free; x / y rows of the perspective family within 32 eps fov/sin(fov) of 1/(aspect tan(fov/2)) evaluated in f64",
            "regime-* checks: the platform tan / sin / cos are taken to be accurate to a few ulps relative to their result for every argument in (0, pi/2) (also next to pi/2); the oracle corner uses tan(fov/2) of the same scalar type",
            "not asserted: lengths outside the normal range or so large / small that the textbook products overflow or underflow (2/(right-left), far*near: |log2 length| > 96+19 f32 / 960+46 f64 for the orthographic family, > 45+25 / 450+55 for frustum / perspective; far/near above 2^100 / 2^900, and far/near above 2^20 / 2^50 at a unit of length where near * far is not ~ 1), subnormal, infinite or NaN planes, far = infinity, fov >= pi (the debug_assert message calls it invalid although the asserted bound is 2 pi), fov within 2^-9 (f32) / 2^-37 (f64) of pi, far/near - 1 below 2^-9 / 2^-37 (loss of all significant bits in far - near's quotient for any implementation); bit-exact covariance under 2^k scaling is deliberately not demanded (a harmless guard at unit scale would violate it without violating the property)",
        ],
        checks,
        max_discard_frac: 0.1,
    }
}
