fn main() {
    vkit::driver::main(c08::property())
}
