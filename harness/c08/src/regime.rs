//! C08 regimes: the same corner predicate as `lib.rs`, on view volumes the moderate generators never reach,
//! with tolerances that are relative to the conditioning of the textbook formulas *in that regime*
//! (never `1 + max |plane|`).
//!
//! Every length of an axis is scaled exactly by a power of two (all axes by the same one, or each axis by its
//! own: the x, y and depth planes of a projection are independent units), volumes are narrow relative to their
//! offset or off-centre by a few ulps only, far/near is next to 1 or huge, fields of view are narrow (down to
//! 2^-32 / 2^-300 rad) or next to pi, aspect ratios and viewport sizes are extreme (aspect beyond 1/eps).
//!
//! Ratios of two parameters are a regime of their own (no common 2^k scaling changes them): far/near runs up to
//! 2^100 (f32) / 2^900 (f64), in particular beyond 1/eps where far - near == far in floats (and the mirror far < near
//! for the frustum constructors); there the unit of length is chosen so that near * far ~ 1, which keeps far*near and
//! every corner in the normal range. The depth of both the near and the far corners stays well conditioned:
//! (far+near)/|far-near| -> 1, so the tolerance there is the plain 32 eps.
//!
//! Conditioning (u = eps/2; every bound below is a small multiple of u times the stated number, K2 = 32 eps
//! leaves a factor >= 4 over the operation count):
//! * x (same for y): ndc = 2x/(r-l) - (r+l)/(r-l); two terms of magnitude <= (|l|+|r|)/|r-l| = cond_x each
//!   carrying <= 4 roundings, for the orthographic and (after the divide by w = d) the frustum matrices.
//! * depth, orthographic: the same with (n, f) in place of (l, r).
//! * depth, frustum / perspective: two terms of magnitude <= (f+n)/|f-n| (times <= 2), independent of far/near.
//! * perspective x, y: 1/tan(fov/2) has relative condition fov/sin(fov) w.r.t. the angle: ~1 for narrow fields
//!   of view, pi/(pi-fov) next to pi. The libm tan/sin/cos are taken to be accurate to a few ulps *relative*.
//! NDC values are dimensionless, so none of this depends on the unit of length.

use vek::geom::FrustumPlanes;
use vek::mat::repr_c::column_major as cm;
use vek::mat::repr_c::row_major as rm;
use vkit::rat;
use vkit::refmath as rf;
use vkit::regimes::{pow2, scale_label};
use vkit::vk::MatN;
use vkit::*;

/// Tolerance factor: |got - want| <= K2 * eps * cond.
pub(crate) const K2: f64 = 32.0;

pub(crate) type M4<S> = [[S; 4]; 4];

/// Ranges of the regimes per scalar domain.
pub(crate) struct Lim {
    /// |exponent| of a per-axis unit of length, orthographic family (no product of two lengths is formed)
    k_lin: i32,
    /// same for frustum / perspective (far*near is a squared length: 2*k_sq + ratio + 10 stays in the normal range)
    k_sq: i32,
    /// log2 of the largest conditioning number admitted: K2 * eps * 2^(cond+1) <= 2^-7
    cond: i32,
    /// log2 of the largest far/near at an arbitrary unit of length
    ratio: i32,
    /// log2 of the largest far/near at all (unit of length chosen so that near * far ~ 1: the textbook entries,
    /// far*near in particular, and the corners stay in the normal range)
    xratio: i32,
    /// narrowest field of view: 2^-fov rad
    fov: i32,
    /// aspect ratios 2^-aspect .. 2^aspect (floats: beyond 1/eps, a ratio no common scaling reaches)
    aspect: i32,
}

pub(crate) trait RDom: Dom {
    /// bits of the mantissa (for offsets down to a few ulps of the width)
    const MANT: i32;
    /// -log2 of `T::epsilon()`: above a ratio of 2^EPS_EXP, far - near == far in floats
    const EPS_EXP: i32;
    fn lim() -> Lim;
    /// A value in [1, 2): a short dyadic in the exact domain, a random mantissa for floats.
    fn mant(t: &mut Tape) -> Self;
    /// A field of view in (0, pi): ordinary / narrow (log-uniform) / next to pi / round numbers of degrees.
    fn fov(t: &mut Tape, cx: &mut Cx) -> Self;
}

impl RDom for Rat {
    // No mantissa: offsets down to 2^-42 of the width. Deliberately above `Rat::epsilon()` = 2^-52 (an artefact of
    // the harness scalar): a guard relative to the volume's own size below machine epsilon is harmless in every
    // float type and is not to be reported through the exact domain; absolute guards are reached by the 2^k scaling.
    const MANT: i32 = 40;
    // only a stratification centre here; far/near stays below 2^48 < 1/Rat::epsilon() for the reason given above
    const EPS_EXP: i32 = 40;
    fn lim() -> Lim {
        Lim { k_lin: 56, k_sq: 20, cond: 20, ratio: 20, xratio: 48, fov: 12, aspect: 12 }
    }
    fn mant(t: &mut Tape) -> Rat {
        Rat::frac(t.int(16, 31), 16)
    }
    fn fov(t: &mut Tape, _cx: &mut Cx) -> Rat {
        // u = tan(fov/4); sin, cos, tan of fov and fov/2 are then rational and registered
        let l = Self::lim();
        match t.below(8) {
            0 | 1 => {
                let d = t.int(2, 8);
                let n = t.int(1, d - 1);
                rat::register_angle_quarter_tan(Rat::frac(n, d))
            }
            2 | 3 | 4 => {
                let e = t.int(1, l.fov as i64);
                rat::register_angle_quarter_tan(Rat::frac(1, t.int(4, 7) << e))
            }
            _ => {
                let e = t.int(1, 10);
                let d = t.int(4, 7) << e;
                rat::register_angle_quarter_tan(Rat::frac(d - 1, d))
            }
        }
    }
}

macro_rules! rdom_float {
    ($F:ident, $mant:expr, $lim:expr) => {
        impl RDom for $F {
            const MANT: i32 = $mant;
            const EPS_EXP: i32 = $mant;
            fn lim() -> Lim {
                $lim
            }
            fn mant(t: &mut Tape) -> $F {
                (1.0 + t.unit_f64()) as $F
            }
            fn fov(t: &mut Tape, cx: &mut Cx) -> $F {
                let l = Self::lim();
                let pi = std::f64::consts::PI;
                match t.below(8) {
                    0 | 1 => {
                                t.range_f64(0.05, pi - 0.05) as $F
                    }
                    2 | 3 | 4 => {
                        let e = t.int(3, l.fov as i64) as i32;
                        ((1.0 + t.unit_f64()) * (2.0f64).powi(-e)) as $F
                    }
                    5 | 6 => {
                        // pi - delta, delta >= 2^-(cond-1): fov/sin(fov) <= 2^(cond+1)
                        let j = t.int(1, (l.cond - 1) as i64) as i32;
                                (pi - (1.0 + t.unit_f64()) * (2.0f64).powi(-j)) as $F
                    }
                    _ => {
                        cx.label("fov round degrees");
                        let deg = t.pick(&[60.0f64, 90.0, 45.0, 1.0, 0.5, 0.25, 0.1, 0.01, 0.001, 120.0, 170.0, 179.0, 179.9]);
                        (deg * pi / 180.0) as $F
                    }
                }
            }
        }
    };
}
rdom_float!(f32, 23, Lim { k_lin: 96, k_sq: 45, cond: 10, ratio: 20, xratio: 100, fov: 32, aspect: 30 });
rdom_float!(f64, 52, Lim { k_lin: 960, k_sq: 450, cond: 38, ratio: 50, xratio: 900, fov: 300, aspect: 100 });

/// The 21 constructors of one layout, as plain arrays.
pub(crate) trait Lay<S: Dom> {
    const NAME: &'static str;
    /// 0 lh_zo, 1 lh_no, 2 rh_zo, 3 rh_no, 4 without depth planes
    fn ortho(i: usize, o: FrustumPlanes<S>) -> M4<S>;
    /// 0 lh_zo, 1 lh_no, 2 rh_zo, 3 rh_no
    fn frustum(i: usize, o: FrustumPlanes<S>) -> M4<S>;
    fn persp(i: usize, fov: S, aspect: S, n: S, f: S) -> M4<S>;
    fn persp_fov(i: usize, fov: S, w: S, h: S, n: S, f: S) -> M4<S>;
    /// 0 lh, 1 rh; `eps`: None = infinite_perspective_*, Some = tweaked_infinite_perspective_*
    fn inf(i: usize, fov: S, aspect: S, n: S, eps: Option<S>) -> M4<S>;
}
pub(crate) struct Rows;
pub(crate) struct Cols;
macro_rules! lay_impl {
    ($T:ident, $l:ident, $name:expr) => {
        impl<S: Dom> Lay<S> for $T {
            const NAME: &'static str = $name;
            fn ortho(i: usize, o: FrustumPlanes<S>) -> M4<S> {
                match i {
                    0 => $l::Mat4::<S>::orthographic_lh_zo(o),
                    1 => $l::Mat4::<S>::orthographic_lh_no(o),
                    2 => $l::Mat4::<S>::orthographic_rh_zo(o),
                    3 => $l::Mat4::<S>::orthographic_rh_no(o),
                    _ => $l::Mat4::<S>::orthographic_without_depth_planes(o),
                }
                .to_arr()
            }
            fn frustum(i: usize, o: FrustumPlanes<S>) -> M4<S> {
                match i {
                    0 => $l::Mat4::<S>::frustum_lh_zo(o),
                    1 => $l::Mat4::<S>::frustum_lh_no(o),
                    2 => $l::Mat4::<S>::frustum_rh_zo(o),
                    _ => $l::Mat4::<S>::frustum_rh_no(o),
                }
                .to_arr()
            }
            fn persp(i: usize, fov: S, aspect: S, n: S, f: S) -> M4<S> {
                match i {
                    0 => $l::Mat4::<S>::perspective_lh_zo(fov, aspect, n, f),
                    1 => $l::Mat4::<S>::perspective_lh_no(fov, aspect, n, f),
                    2 => $l::Mat4::<S>::perspective_rh_zo(fov, aspect, n, f),
                    _ => $l::Mat4::<S>::perspective_rh_no(fov, aspect, n, f),
                }
                .to_arr()
            }
            fn persp_fov(i: usize, fov: S, w: S, h: S, n: S, f: S) -> M4<S> {
                match i {
                    0 => $l::Mat4::<S>::perspective_fov_lh_zo(fov, w, h, n, f),
                    1 => $l::Mat4::<S>::perspective_fov_lh_no(fov, w, h, n, f),
                    2 => $l::Mat4::<S>::perspective_fov_rh_zo(fov, w, h, n, f),
                    _ => $l::Mat4::<S>::perspective_fov_rh_no(fov, w, h, n, f),
                }
                .to_arr()
            }
            fn inf(i: usize, fov: S, aspect: S, n: S, eps: Option<S>) -> M4<S> {
                match (i, eps) {
                    (0, None) => $l::Mat4::<S>::infinite_perspective_lh(fov, aspect, n),
                    (_, None) => $l::Mat4::<S>::infinite_perspective_rh(fov, aspect, n),
                    (0, Some(e)) => $l::Mat4::<S>::tweaked_infinite_perspective_lh(fov, aspect, n, e),
                    (_, Some(e)) => $l::Mat4::<S>::tweaked_infinite_perspective_rh(fov, aspect, n, e),
                }
                .to_arr()
            }
        }
    };
}
lay_impl!(Rows, rm, "row-major");
lay_impl!(Cols, cm, "col-major");

pub(crate) const ORTHO: [&str; 4] = ["orthographic_lh_zo", "orthographic_lh_no", "orthographic_rh_zo", "orthographic_rh_no"];
pub(crate) const FRUSTUM: [&str; 4] = ["frustum_lh_zo", "frustum_lh_no", "frustum_rh_zo", "frustum_rh_no"];
pub(crate) const PERSP: [&str; 4] = ["perspective_lh_zo", "perspective_lh_no", "perspective_rh_zo", "perspective_rh_no"];
pub(crate) const PERSP_FOV: [&str; 4] = ["perspective_fov_lh_zo", "perspective_fov_lh_no", "perspective_fov_rh_zo", "perspective_fov_rh_no"];
const P_EQ_FRUSTUM: [&str; 4] = ["perspective_lh_zo = frustum_lh_zo(symmetric planes)", "perspective_lh_no = frustum_lh_no(symmetric planes)", "perspective_rh_zo = frustum_rh_zo(symmetric planes)", "perspective_rh_no = frustum_rh_no(symmetric planes)"];
const PF_EQ_FRUSTUM: [&str; 4] = ["perspective_fov_lh_zo = frustum_lh_zo(symmetric planes)", "perspective_fov_lh_no = frustum_lh_no(symmetric planes)", "perspective_fov_rh_zo = frustum_rh_zo(symmetric planes)", "perspective_fov_rh_no = frustum_rh_no(symmetric planes)"];
const PF_EQ_P: [&str; 4] = ["perspective_fov_lh_zo(w,h) = perspective_lh_zo(w/h)", "perspective_fov_lh_no(w,h) = perspective_lh_no(w/h)", "perspective_fov_rh_zo(w,h) = perspective_rh_zo(w/h)", "perspective_fov_rh_no(w,h) = perspective_rh_no(w/h)"];
const P_MIRROR: [&str; 2] = ["perspective_lh_zo = perspective_rh_zo * z-mirror", "perspective_lh_no = perspective_rh_no * z-mirror"];
const PF_MIRROR: [&str; 2] = ["perspective_fov_lh_zo = perspective_fov_rh_zo * z-mirror", "perspective_fov_lh_no = perspective_fov_rh_no * z-mirror"];
const INF: [&str; 2] = ["infinite_perspective_lh", "infinite_perspective_rh"];
const TW_INF: [&str; 2] = ["tweaked_infinite_perspective_lh", "tweaked_infinite_perspective_rh"];
pub(crate) fn is_lh(i: usize) -> bool {
    i < 2
}
pub(crate) fn is_zo(i: usize) -> bool {
    i % 2 == 0
}

/// A non-zero exponent stratified over [1, kmax] (mild / large / extreme), either sign.
fn strat_exp(t: &mut Tape, kmax: i32) -> i32 {
    let kmax = kmax as i64;
    let k = match t.below(4) {
        0 => t.int(1, (kmax / 8).max(1)),
        1 => t.int((kmax / 8).max(1), (kmax / 2).max(1)),
        _ => t.int((kmax / 2).max(1), kmax),
    } as i32;
    if t.bool() {
        -k
    } else {
        k
    }
}

/// Exponents of the units of length of the three axes: all 0 (1/8), all equal (1/2: every length of the case
/// scaled exactly by the same 2^k), or one per axis (3/8, each 0 with probability 1/2).
fn axis_exps(t: &mut Tape, cx: &mut Cx, kmax: i32) -> [i32; 3] {
    let ks = match t.below(8) {
        0 => {
            cx.label("unit scale, tight tolerance");
            [0; 3]
        }
        1..=4 => {
            cx.label("all lengths * 2^k");
            [strat_exp(t, kmax); 3]
        }
        _ => {
            cx.label("one 2^k per axis");
            let mut ks = [0; 3];
            for k in ks.iter_mut() {
                if t.bool() {
                    *k = strat_exp(t, kmax);
                }
            }
            ks
        }
    };
    cx.label(scale_label(ks[0]));
    ks
}

/// (|lo| + |hi|) / |hi - lo| >= 1: the conditioning of mapping [lo, hi] onto [-1, 1] at its end points.
fn cond_of<S: Dom>(lo: S, hi: S) -> f64 {
    ((lo.f().abs() + hi.f().abs()) / (hi - lo).f().abs()).max(1.0)
}

/// One axis of a view volume at unit scale (scaled by the caller): ordinary / narrow relative to its offset /
/// off-centre by a few ulps only / one plane at 0 / one plane tiny relative to the other / centred; optionally reversed.
fn gen_axis<S: RDom>(t: &mut Tape, cx: &mut Cx, allow_reversed: bool) -> (S, S) {
    let lim = S::lim();
    let h = S::q(t.int(1, 40), t.pick(&[1i64, 2, 4, 8, 3, 5]));
    let neg = t.bool();
    let sel = t.below(8);
    let (lo, hi) = if sel == 7 && t.bool() {
        // |lo| / |hi| = 2^-rho down to below machine epsilon (hi - lo == hi in floats), either sign of lo
        cx.label("one plane << the other");
        let lo = h * S::mant(t) * pow2::<S>(-(t.int(1, (S::MANT + 4) as i64) as i32));
        (if t.bool() { -lo } else { lo }, h + h)
    } else {
        let c = match sel {
            0 | 1 => h * S::q(t.int(-20, 20), t.pick(&[3i64, 4, 5, 7])),
            2 | 3 => {
                cx.label("width << offset");
                h * S::mant(t) * pow2::<S>(t.int(1, lim.cond as i64) as i32)
            }
            4 | 5 => {
                cx.label("offset << width");
                h * S::mant(t) * pow2::<S>(-(t.int(1, (S::MANT + 2) as i64) as i32))
            }
            6 => {
                cx.label("one plane at 0");
                h
            }
            _ => {
                cx.label("centred");
                S::zero()
            }
        };
        (c - h, c + h)
    };
    let (lo, hi) = if neg { (-hi, -lo) } else { (lo, hi) };
    if allow_reversed && t.chance(48) {
        cx.label("reversed interval");
        (hi, lo)
    } else {
        (lo, hi)
    }
}

/// Depth planes of a frustum / perspective volume at unit scale, `near < far` (the caller scales, then swaps if `reversed`).
struct Depth<S> {
    n: S,
    f: S,
    /// log2(far/near) in the extreme-ratio regime (then the caller must pick the unit of length so that
    /// near * far ~ 1), 0 otherwise
    xr: i32,
    reversed: bool,
}

/// near, far > 0 at unit scale: ordinary / far next to near / far/near huge / far/near extreme (around and far
/// beyond 1/eps, where far - near == far in floats); optionally far < near.
fn gen_depth<S: RDom>(t: &mut Tape, cx: &mut Cx, allow_reversed: bool) -> Depth<S> {
    let lim = S::lim();
    let n = S::q(t.int(1, 30), t.pick(&[1i64, 2, 3, 4, 5, 10, 20]));
    let mut xr = 0;
    let f = match t.below(8) {
        0 | 1 => n + n * S::q(t.int(1, 60), t.pick(&[1i64, 1, 2, 3, 7])),
        2 => {
            cx.label("far next to near");
            n + n * S::mant(t) * pow2::<S>(-(t.int(1, (lim.cond - 1) as i64) as i32))
        }
        3 | 4 => {
            cx.label("far/near >= 2^6");
            n * S::mant(t) * pow2::<S>(t.int(6, lim.ratio as i64) as i32)
        }
        _ => {
            let e = S::EPS_EXP as i64;
            xr = match t.below(4) {
                0 => t.int(e - 2, (e + 6).min(lim.xratio as i64)),
                1 => t.int(lim.ratio as i64, (2 * e + 8).min(lim.xratio as i64)),
                _ => t.int(lim.ratio as i64, lim.xratio as i64),
            } as i32;
            cx.label(if xr > S::EPS_EXP + 1 { "far/near > 1/eps" } else { "far/near huge .. 1/eps" });
            n * S::mant(t) * pow2::<S>(xr)
        }
    };
    let reversed = allow_reversed && t.chance(32);
    if reversed {
        cx.label("far < near");
    }
    Depth { n, f, xr, reversed }
}

/// Exponent of the unit of length of the depth planes in the extreme-ratio regime: near ~ 2^(-xr/2), far ~ 2^(xr/2)
/// (up to a jitter), so that far * near and every corner coordinate stay in the normal range.
fn extreme_kz<S: RDom>(t: &mut Tape, xr: i32) -> i32 {
    let j = (S::lim().k_sq / 8) as i64;
    -(xr / 2) + t.int(-j, j) as i32
}

/// Label the exact blind spot: an off-centre axis whose plane sum is below machine epsilon in absolute terms.
fn label_sum<S: Dom>(cx: &mut Cx, lo: S, hi: S, what: &'static str) {
    let s = (lo + hi).f().abs();
    let eps = if S::EXACT { (2.0f64).powi(-52) } else { S::eps() };
    if s != 0.0 && s < eps {
        cx.label(what);
    }
}

fn close<S: Dom>(cx: &mut Cx, got: S, want: S, cond: f64) -> bool {
    vkit::dom::close::<S>(cx, got, want, cond.max(1.0), K2)
}

/// Entry-wise |a - b| <= K2 eps cond[row] max(|a|, |b|, floor[column]) (exact domains: equality).
///
/// `floor[j]` is the magnitude below which entry (i, j) cannot move any corner of the view volume by more than the
/// corner tolerance: min over the corners of (natural magnitude of the clip coordinates) / |coordinate j|. Two
/// matrices that differ by less are the same map on the view volume as far as the property can tell, so an entry
/// that is tiny relative to its floor (a translation of 1e-17 clip units, far/(far-near) for far << near) is not
/// compared relative to itself.
fn mat_rel<S: Dom>(cx: &mut Cx, what: &str, a: &M4<S>, b: &M4<S>, cond: [f64; 4], floor: [f64; 4]) -> CaseResult {
    mat_rel_k(cx, what, a, b, K2, cond, floor)
}

/// `mat_rel` with the factor `k` in place of K2.
pub(crate) fn mat_rel_k<S: Dom>(cx: &mut Cx, what: &str, a: &M4<S>, b: &M4<S>, k: f64, cond: [f64; 4], floor: [f64; 4]) -> CaseResult {
    for i in 0..4 {
        for j in 0..4 {
            cx.count();
            let ok = if S::EXACT {
                a[i][j] == b[i][j]
            } else {
                let (x, y) = (a[i][j].f(), b[i][j].f());
                if x == y {
                    true
                } else {
                    let tol = k * S::eps() * cond[i].max(1.0) * x.abs().max(y.abs()).max(floor[j]);
                    let d = (x - y).abs();
                    if d.is_finite() {
                        cx.note_err(d / tol);
                    }
                    d <= tol
                }
            };
            if !ok {
                fail!("{}: entry ({},{}) {:?} vs {:?} (tolerance {} eps * cond {:.3e} relative to max(entry, floor {:.3e}));\n  left  {:?}\n  right {:?}", what, i, j, a[i][j], b[i][j], k, cond[i], floor[j], a, b);
            }
        }
    }
    Ok(())
}

pub(crate) fn col2_negated<S: Dom>(m: &M4<S>) -> M4<S> {
    let mut r = *m;
    for row in r.iter_mut() {
        row[2] = -row[2];
    }
    r
}

/// Apply `m` to the corner and compare the divided result with the clip-space corner, per axis tolerance.
fn corner<S: Dom>(cx: &mut Cx, what: &str, m: &M4<S>, p: [S; 3], want: [S; 3], cond: [f64; 3], want_w_one: bool) -> CaseResult {
    let c = rf::matvec(m, &[p[0], p[1], p[2], S::one()]);
    if want_w_one {
        if !close(cx, c[3], S::one(), 1.0) {
            fail!("{}: w of {:?} must be 1, got {:?}", what, p, c[3]);
        }
    } else {
        check!(cx, c[3] > S::zero(), "{}: corner {:?} in front of the viewer must get positive w, got {:?}", what, p, c[3]);
    }
    let ndc = [c[0] / c[3], c[1] / c[3], c[2] / c[3]];
    for i in 0..3 {
        if !close(cx, ndc[i], want[i], cond[i]) {
            fail!("{}: corner {:?} maps to ndc {:?} (clip {:?}), want {:?}; axis {} tolerance {} eps * cond {:.3e}; matrix {:?}", what, p, ndc, c, want, i, K2, cond[i], m);
        }
    }
    Ok(())
}

#[derive(Clone, Copy, Debug)]
pub(crate) struct Planes<S> {
    pub(crate) l: S,
    pub(crate) r: S,
    pub(crate) b: S,
    pub(crate) t: S,
    pub(crate) n: S,
    pub(crate) f: S,
}
impl<S: Dom> Planes<S> {
    pub(crate) fn vek(&self) -> FrustumPlanes<S> {
        FrustumPlanes { left: self.l, right: self.r, bottom: self.b, top: self.t, near: self.n, far: self.f }
    }
}

impl<S: Dom> Planes<S> {
    /// `mat_rel` floors of an orthographic matrix: clip coordinates are O(1), corners are (l|r, b|t, n|f, 1).
    pub(crate) fn floor_ortho(&self) -> [f64; 4] {
        let mx = |a: S, b: S| a.f().abs().max(b.f().abs());
        [1.0 / mx(self.l, self.r), 1.0 / mx(self.b, self.t), 1.0 / mx(self.n, self.f), 1.0]
    }
    /// `mat_rel` floors of a perspective matrix: corners are (x d/n, y d/n, +-d, 1) with clip coordinates O(d).
    pub(crate) fn floor_persp(&self) -> [f64; 4] {
        let mx = |a: S, b: S| a.f().abs().max(b.f().abs());
        let n = self.n.f().abs();
        [n / mx(self.l, self.r), n / mx(self.b, self.t), 1.0, n.min(self.f.f().abs())]
    }
}

/// All eight corners. `persp`: x, y grow with d / near.
fn corners<S: Dom>(cx: &mut Cx, what: &str, m: &M4<S>, pl: &Planes<S>, lh: bool, persp: bool, zo: bool, cond: [f64; 3]) -> CaseResult {
    let (one, zero) = (S::one(), S::zero());
    for (x, ex) in [(pl.l, -one), (pl.r, one)] {
        for (y, ey) in [(pl.b, -one), (pl.t, one)] {
            for (d, ez) in [(pl.n, if zo { zero } else { -one }), (pl.f, one)] {
                let k = if persp { d / pl.n } else { one };
                let z = if lh { d } else { -d };
                corner(cx, what, m, [x * k, y * k, z], [ex, ey, ez], cond, !persp)?;
            }
        }
    }
    Ok(())
}

pub(crate) fn ortho<S: RDom, L: Lay<S>>(t: &mut Tape, cx: &mut Cx) -> CaseResult {
    let ks = axis_exps(t, cx, S::lim().k_lin);
    let (l, r) = gen_axis::<S>(t, cx, true);
    let (b, tp) = gen_axis::<S>(t, cx, true);
    // orthographic depth planes are any two distinct values (negative, zero, reversed)
    let (n, f) = gen_axis::<S>(t, cx, true);
    let (px, py, pz) = (pow2::<S>(ks[0]), pow2::<S>(ks[1]), pow2::<S>(ks[2]));
    let pl = Planes { l: l * px, r: r * px, b: b * py, t: tp * py, n: n * pz, f: f * pz };
    if pl.l == pl.r || pl.b == pl.t || pl.n == pl.f {
        discard!("interval collapsed by rounding");
    }
    label_sum(cx, pl.l, pl.r, "off-centre with |plane sum| < eps");
    label_sum(cx, pl.b, pl.t, "off-centre with |plane sum| < eps");
    label_sum(cx, pl.n, pl.f, "depth planes with |sum| < eps");
    cx.set_nontrivial((pl.l + pl.r) != S::zero() && (pl.b + pl.t) != S::zero() && !pl.n.is_zero());
    sample!(cx, "{} {} ortho (axis exponents {:?}) planes {:?}", S::NAME, L::NAME, ks, pl);
    let cond = [cond_of(pl.l, pl.r), cond_of(pl.b, pl.t), cond_of(pl.n, pl.f)];
    let o = pl.vek();
    let m: Vec<M4<S>> = (0..4).map(|i| L::ortho(i, o)).collect();
    for i in 0..4 {
        corners(cx, ORTHO[i], &m[i], &pl, is_lh(i), false, is_zo(i), cond)?;
    }
    let cm = [cond[0], cond[1], cond[2], 1.0];
    mat_rel(cx, "orthographic_lh_zo = orthographic_rh_zo * z-mirror", &m[0], &col2_negated(&m[2]), cm, pl.floor_ortho())?;
    mat_rel(cx, "orthographic_lh_no = orthographic_rh_no * z-mirror", &m[1], &col2_negated(&m[3]), cm, pl.floor_ortho())?;
    // without depth planes: x, y mapped, z and w left alone
    let wd = L::ortho(4, o);
    let (one, z) = (S::one(), S::any(t, 20) * pz);
    for (x, ex) in [(pl.l, -one), (pl.r, one)] {
        for (y, ey) in [(pl.b, -one), (pl.t, one)] {
            let c = rf::matvec(&wd, &[x, y, z, one]);
            if !close(cx, c[0], ex, cond[0]) || !close(cx, c[1], ey, cond[1]) {
                fail!("orthographic_without_depth_planes: corner ({:?},{:?}) maps to ({:?},{:?}), want ({:?},{:?}); matrix {:?}", x, y, c[0], c[1], ex, ey, wd);
            }
            check_eq!(cx, (c[2], c[3]), (z, one), "orthographic_without_depth_planes leaves z and w alone");
        }
    }
    Ok(())
}

pub(crate) fn frustum<S: RDom, L: Lay<S>>(t: &mut Tape, cx: &mut Cx) -> CaseResult {
    let mut ks = axis_exps(t, cx, S::lim().k_sq);
    let (l, r) = gen_axis::<S>(t, cx, true);
    let (b, tp) = gen_axis::<S>(t, cx, true);
    let dp = gen_depth::<S>(t, cx, true);
    if dp.xr > 0 {
        // extreme far/near: near * far ~ 1, x and y planes at the scale of the near plane (the far-plane corners
        // are the near-plane ones times far/near)
        let kz = extreme_kz::<S>(t, dp.xr);
        let kn = if dp.reversed { kz + dp.xr } else { kz };
        let j = (S::lim().k_sq / 8) as i64;
        ks = [kn + t.int(-j, j) as i32, kn + t.int(-j, j) as i32, kz];
    }
    let (px, py, pz) = (pow2::<S>(ks[0]), pow2::<S>(ks[1]), pow2::<S>(ks[2]));
    let (n, f) = if dp.reversed { (dp.f * pz, dp.n * pz) } else { (dp.n * pz, dp.f * pz) };
    let pl = Planes { l: l * px, r: r * px, b: b * py, t: tp * py, n, f };
    if pl.l == pl.r || pl.b == pl.t || pl.n == pl.f {
        discard!("interval collapsed by rounding");
    }
    label_sum(cx, pl.l, pl.r, "off-centre with |plane sum| < eps");
    label_sum(cx, pl.b, pl.t, "off-centre with |plane sum| < eps");
    if dp.xr == 0 && (ks[0] != ks[2] || ks[1] != ks[2]) {
        cx.label(if ks[0] < ks[2] { "narrow frustum (x planes << near)" } else { "wide frustum (x planes >> near)" });
    }
    cx.set_nontrivial((pl.l + pl.r) != S::zero() && (pl.b + pl.t) != S::zero());
    sample!(cx, "{} {} frustum (axis exponents {:?}) planes {:?}", S::NAME, L::NAME, ks, pl);
    let cz = ((pl.f + pl.n) / (pl.f - pl.n)).f().abs().max(1.0);
    let cond = [cond_of(pl.l, pl.r), cond_of(pl.b, pl.t), cz];
    let o = pl.vek();
    let m: Vec<M4<S>> = (0..4).map(|i| L::frustum(i, o)).collect();
    for i in 0..4 {
        corners(cx, FRUSTUM[i], &m[i], &pl, is_lh(i), true, is_zo(i), cond)?;
    }
    let cm = [cond[0], cond[1], cond[2], 1.0];
    mat_rel(cx, "frustum_lh_zo = frustum_rh_zo * z-mirror", &m[0], &col2_negated(&m[2]), cm, pl.floor_persp())?;
    mat_rel(cx, "frustum_lh_no = frustum_rh_no * z-mirror", &m[1], &col2_negated(&m[3]), cm, pl.floor_persp())?;
    Ok(())
}

/// Aspect ratio: ordinary rational, or 2^+-a times a mantissa.
fn gen_aspect<S: RDom>(t: &mut Tape, cx: &mut Cx) -> S {
    match t.below(4) {
        0 | 1 => S::q(t.int(1, 30), t.int(1, 20)),
        _ => {
            let a = t.int(3, S::lim().aspect as i64) as i32;
            let wide = t.bool();
            cx.label(if wide { "aspect >= 2^3" } else { "aspect <= 2^-3" });
            if a > S::EPS_EXP {
                cx.label("aspect beyond 1/eps or eps");
            }
            S::mant(t) * pow2::<S>(if wide { a } else { -a })
        }
    }
}

pub(crate) fn persp<S: RDom, L: Lay<S>>(t: &mut Tape, cx: &mut Cx) -> CaseResult {
    let lim = S::lim();
    let (one, two, zero) = (S::one(), S::i(2), S::zero());
    let fov = S::fov(t, cx);
    cx.label(match fov.f() {
        x if x < (2.0f64).powi(-24) => "fov < 2^-24 rad",
        x if x < (2.0f64).powi(-8) => "fov 2^-24..2^-8 rad",
        x if x < 0.125 => "fov 2^-8..2^-3 rad (0.2..7 degrees)",
        x if x > std::f64::consts::PI - 0.125 => "fov within 2^-3 rad of pi",
        _ => "fov ordinary",
    });
    let aspect = gen_aspect::<S>(t, cx);
    let dp = gen_depth::<S>(t, cx, false);
    let (n, f) = (dp.n, dp.f);
    // unit of length of near / far (x, y are implied by the field of view)
    let kz = if dp.xr > 0 {
        extreme_kz::<S>(t, dp.xr)
    } else {
        match t.below(4) {
            0 => 0,
            _ => strat_exp(t, lim.k_sq),
        }
    };
    cx.label(scale_label(kz));
    let pz = pow2::<S>(kz);
    let (n, f) = (n * pz, f * pz);
    if !(f > n) {
        discard!("interval collapsed by rounding");
    }
    // viewport size of the fov variants: any unit (pixels .. normalised), width = height * aspect
    let height = S::q(t.int(1, 2000), t.pick(&[1i64, 1, 2, 3]))
        * match t.below(4) {
            0 | 1 => one,
            _ => {
                cx.label("viewport size * 2^k");
                pow2::<S>(strat_exp(t, 2 * lim.aspect))
            }
        };
    let width = height * aspect;
    let aspect_wh = width / height;
    let th = (fov / two).tan();
    let top = n * th;
    cx.set_nontrivial(aspect != one);
    sample!(cx, "{} {} perspective fov={:?} (tan(fov/2)={:?}) aspect={:?} near={:?} far={:?} width={:?} height={:?}", S::NAME, L::NAME, fov, th, aspect, n, f, width, height);
    // conditioning of 1/tan(fov/2) w.r.t. the angle, and of the depth row
    let cf = if S::EXACT { 1.0 } else { (fov.f() / fov.f().sin()).abs().max(1.0) };
    let cz = ((f + n) / (f - n)).f().abs().max(1.0);
    let cond = [cf, cf, cz];
    let cm = [cf, cf, cz, 1.0];
    let pl = Planes { l: -(top * aspect), r: top * aspect, b: -top, t: top, n, f };
    let pl_wh = Planes { l: -(top * aspect_wh), r: top * aspect_wh, ..pl };
    let (fl, fl_wh) = (pl.floor_persp(), pl_wh.floor_persp());
    let p: Vec<M4<S>> = (0..4).map(|i| L::persp(i, fov, aspect, n, f)).collect();
    let pf: Vec<M4<S>> = (0..4).map(|i| L::persp_fov(i, fov, width, height, n, f)).collect();
    for i in 0..4 {
        corners(cx, PERSP[i], &p[i], &pl, is_lh(i), true, is_zo(i), cond)?;
        corners(cx, PERSP_FOV[i], &pf[i], &pl_wh, is_lh(i), true, is_zo(i), cond)?;
        // a perspective matrix is the frustum matrix of the symmetric planes it implies
        mat_rel(cx, P_EQ_FRUSTUM[i], &p[i], &L::frustum(i, pl.vek()), cm, fl)?;
        mat_rel(cx, PF_EQ_FRUSTUM[i], &pf[i], &L::frustum(i, pl_wh.vek()), cm, fl_wh)?;
        mat_rel(cx, PF_EQ_P[i], &pf[i], &L::persp(i, fov, aspect_wh, n, f), cm, fl_wh)?;
    }
    for i in 0..2 {
        mat_rel(cx, P_MIRROR[i], &p[i], &col2_negated(&p[i + 2]), cm, fl)?;
        mat_rel(cx, PF_MIRROR[i], &pf[i], &col2_negated(&pf[i + 2]), cm, fl_wh)?;
    }
    // infinite perspective: near-plane corners -> (-+1, -+1, -1) for every epsilon, depth(d) = 1 - 2 near / d
    let eps = match t.below(4) {
        0 => zero,
        1 => S::q(t.int(1, 9), 1000),
        _ => pow2::<S>(-(t.int(10, (S::MANT - 2).min(40) as i64) as i32)),
    };
    let inf = [L::inf(0, fov, aspect, n, None), L::inf(1, fov, aspect, n, None)];
    let tw = [L::inf(0, fov, aspect, n, Some(eps)), L::inf(1, fov, aspect, n, Some(eps))];
    let cm1 = [cf, cf, 1.0, 1.0];
    mat_rel(cx, "infinite_perspective_lh = tweaked(eps = 0)", &inf[0], &L::inf(0, fov, aspect, n, Some(zero)), cm1, fl)?;
    mat_rel(cx, "infinite_perspective_rh = tweaked(eps = 0)", &inf[1], &L::inf(1, fov, aspect, n, Some(zero)), cm1, fl)?;
    mat_rel(cx, "infinite_perspective_lh = infinite_perspective_rh * z-mirror", &inf[0], &col2_negated(&inf[1]), cm1, fl)?;
    mat_rel(cx, "tweaked_infinite_perspective_lh = tweaked_infinite_perspective_rh * z-mirror", &tw[0], &col2_negated(&tw[1]), cm1, fl)?;
    // entry-wise limit far -> infinity of perspective_rh_no: m22 -> -1, m23 -> -2 near, the rest unchanged
    let mut limit = p[3];
    limit[2][2] = -one;
    limit[2][3] = -two * n;
    mat_rel(cx, "infinite_perspective_rh = limit of perspective_rh_no as far -> infinity", &inf[1], &limit, cm1, fl)?;
    // a deeper corner; in the extreme-ratio regime (near ~ 2^(-xr/2)) as deep as the far plane, beyond near / eps
    let d1 = n * S::mant(t) * pow2::<S>(t.int(0, if dp.xr > 0 { dp.xr } else { lim.ratio } as i64) as i32);
    for (names, ms, plain) in [(&INF, &inf, true), (&TW_INF, &tw, false)] {
        for (i, m) in ms.iter().enumerate() {
            let lh = i == 0;
            let what = names[i];
            for (x, ex) in [(pl.l, -one), (pl.r, one)] {
                for (y, ey) in [(pl.b, -one), (pl.t, one)] {
                    corner(cx, what, m, [x, y, if lh { n } else { -n }], [ex, ey, -one], [cf, cf, 1.0], false)?;
                }
            }
            if plain {
                // x, y of a deeper corner, and depth(d) = 1 - 2 near / d < 1
                let k = d1 / n;
                let want = one - two * n / d1;
                corner(cx, what, m, [pl.r * k, pl.b * k, if lh { d1 } else { -d1 }], [one, -one, want], [cf, cf, 1.0], false)?;
            }
        }
    }
    Ok(())
}

pub(crate) fn checks() -> Vec<Check> {
    let mut v = Vec::new();
    macro_rules! tape {
        ($name:expr, $about:expr, $q:expr, $th:expr, $f:expr) => {
            v.push(Check { name: $name, about: $about, kind: Kind::Tape { len: 96, quick: $q, thorough: $th, f: $f } });
        };
    }
    let o = "regimes, orthographic_{lh,rh}_{zo,no} + without_depth_planes: corners -> clip corners with every axis scaled exactly by 2^k (one k for all lengths, or one per axis: tiny .. huge), volumes narrow relative to their offset, off-centre by a few ulps, a plane at 0, one plane below eps times the other, reversed; tolerance 32 eps * (|lo|+|hi|)/|hi-lo| per axis; lh = rh * z-mirror";
    let f = "regimes, frustum_{lh,rh}_{zo,no}: corners -> clip corners with x / y / depth planes scaled exactly by 2^k (all lengths, or per axis: narrow and wide frusta), off-centre shapes as for ortho, far next to near, far/near huge or extreme (up to 2^100 f32 / 2^900 f64, beyond 1/eps, with near * far ~ 1 and the x, y planes at the scale of near), far < near (same ratios mirrored); tolerance 32 eps * conditioning per axis; lh = rh * z-mirror";
    let p = "regimes, perspective_*, perspective_fov_*, (tweaked_)infinite_perspective_*: fov narrow (log-uniform down to 2^-32 / 2^-300 rad, round degrees) and next to pi, aspect 2^+-k (beyond 1/eps), viewport sizes 2^+-k, near/far scaled by 2^k, far next to near, far/near huge, far/near extreme (up to 2^100 / 2^900, beyond 1/eps where far - near == far): corners of the implied volume -> clip corners within 32 eps * fov/sin(fov) (x, y) and 32 eps * (f+n)/(f-n) (depth); = frustum_* of the implied planes entry-wise (relative); fov(w,h) = perspective(w/h); lh = rh * z-mirror; infinite: near corners, depth(d) = 1 - 2n/d";
    tape!("regime-ortho-rows-f32", o, 20_000, 2_000_000, ortho::<f32, Rows>);
    tape!("regime-ortho-cols-f32", o, 20_000, 2_000_000, ortho::<f32, Cols>);
    tape!("regime-ortho-rows-f64", o, 20_000, 2_000_000, ortho::<f64, Rows>);
    tape!("regime-ortho-cols-f64", o, 20_000, 2_000_000, ortho::<f64, Cols>);
    tape!("regime-ortho-rows-rat", o, 4_000, 200_000, ortho::<Rat, Rows>);
    tape!("regime-ortho-cols-rat", o, 4_000, 200_000, ortho::<Rat, Cols>);
    tape!("regime-frustum-rows-f32", f, 20_000, 2_000_000, frustum::<f32, Rows>);
    tape!("regime-frustum-cols-f32", f, 20_000, 2_000_000, frustum::<f32, Cols>);
    tape!("regime-frustum-rows-f64", f, 20_000, 2_000_000, frustum::<f64, Rows>);
    tape!("regime-frustum-cols-f64", f, 20_000, 2_000_000, frustum::<f64, Cols>);
    tape!("regime-frustum-rows-rat", f, 4_000, 200_000, frustum::<Rat, Rows>);
    tape!("regime-frustum-cols-rat", f, 4_000, 200_000, frustum::<Rat, Cols>);
    tape!("regime-perspective-rows-f32", p, 20_000, 2_000_000, persp::<f32, Rows>);
    tape!("regime-perspective-cols-f32", p, 20_000, 2_000_000, persp::<f32, Cols>);
    tape!("regime-perspective-rows-f64", p, 20_000, 2_000_000, persp::<f64, Rows>);
    tape!("regime-perspective-cols-f64", p, 20_000, 2_000_000, persp::<f64, Cols>);
    tape!("regime-perspective-rows-rat", p, 4_000, 200_000, persp::<Rat, Rows>);
    tape!("regime-perspective-cols-rat", p, 4_000, 200_000, persp::<Rat, Cols>);
    v
}
