//! C08, planes a few ulps apart: the ENTRY-WISE clauses of the property where the corner predicate says nothing.
//!
//! When two distinct planes of an axis are 1 .. 8 ulps apart the conditioning (|lo|+|hi|)/|hi-lo| of that axis is
//! ~2^mantissa, the corner tolerance 32 eps cond exceeds 1 and the corner predicate is vacuous: it is NOT asserted
//! here. The matrix entries however are not ill-conditioned as functions of the given floats: hi - lo of two floats
//! within a factor 2 is exact (Sterbenz), so 2/(r-l), 2n/(r-l), (r+l)/(r-l), f/(f-n), (f+n)/(f-n), f n/(f-n), ...
//! are determined to a few ulps of the entry itself whatever the cancellation. So every entry is compared with the
//! textbook formula evaluated exactly (`Rat` on the dyadic inputs, converted to f64 once: <= 1 ulp of f64) within
//! KU = 8 eps of max(|entry|, floor) (the textbook evaluation commits <= 3 roundings = 1.5 eps; a reformulation with
//! a reciprocal or another association a few more), and the entry-wise relations of the property are kept:
//! lh = rh o z-mirror, the zo and no variants share their x / y / w rows, perspective = frustum of the implied planes.
//!
//! Axes: any non-empty subset of {x, y, depth} has its planes ulps apart (1, 2, 3, 4 or 8 ulps; at 3 * 2^(p-2), at
//! the bottom of a binade, straddling a power of two where the ulp doubles, or a random mantissa; either sign,
//! either order), the others are short dyadic intervals. Magnitudes are 2^-4 .. 2^5 so that the exact evaluation
//! fits i128. The perspective family is reached through near / far (its x / y extents are symmetric by construction).

use crate::regime::{col2_negated, is_lh, is_zo, mat_rel_k, Cols, Lay, Planes, RDom, Rows, FRUSTUM, K2, M4, ORTHO, PERSP, PERSP_FOV};
use vkit::regimes::pow2;
use vkit::*;

/// Entry tolerance factor: |got - want| <= KU eps max(|want|, floor).
const KU: f64 = 8.0;

type R4 = [[Rat; 4]; 4];

fn zero4() -> R4 {
    [[Rat::ZERO; 4]; 4]
}

/// Two distinct floats `j` (small) ulps apart, lo < hi, of magnitude 2^-4 .. 2^5.
fn gen_ulps_pair<S: RDom>(t: &mut Tape, cx: &mut Cx, positive: bool) -> (S, S) {
    let p = S::MANT + 1; // significand bits
    let j = t.pick(&[1i64, 1, 2, 3, 4, 8]);
    cx.label(match j {
        1 => "planes 1 ulp apart",
        2 => "planes 2 ulps apart",
        3 | 4 => "planes 3-4 ulps apart",
        _ => "planes 8 ulps apart",
    });
    let e = -p + t.int(-3, 5) as i32;
    let top = 1i64 << p;
    let half = 1i64 << (p - 1);
    let (lo, hi) = match t.below(4) {
        0 => {
            let m = 3 * (1i64 << (p - 2));
            (S::q(m, 1) * pow2::<S>(e), S::q(m + j, 1) * pow2::<S>(e))
        }
        1 => {
            // j small ulps below the power of two, b large ulps above it
            cx.label("planes straddle a power of two");
            let b = t.int(0, 2);
            (S::q(top - j, 1) * pow2::<S>(e), S::q(half + b, 1) * pow2::<S>(e + 1))
        }
        2 => (S::q(half, 1) * pow2::<S>(e), S::q(half + j, 1) * pow2::<S>(e)),
        _ => {
            let m = half + (t.u64() % (half as u64 - 9)) as i64;
            (S::q(m, 1) * pow2::<S>(e), S::q(m + j, 1) * pow2::<S>(e))
        }
    };
    if !positive && t.bool() {
        (-hi, -lo)
    } else {
        (lo, hi)
    }
}

/// A short dyadic interval of ordinary shape (exactly representable, cheap to evaluate exactly).
fn gen_plain_pair<S: RDom>(t: &mut Tape, positive: bool) -> (S, S) {
    if positive {
        let n = S::q(t.int(1, 30), t.pick(&[1i64, 2, 4, 8]));
        (n, n + S::q(t.int(1, 60), t.pick(&[1i64, 2, 4])))
    } else {
        let h = S::q(t.int(1, 40), t.pick(&[1i64, 2, 4, 8]));
        let c = S::q(t.int(-40, 40), t.pick(&[1i64, 2, 4, 8]));
        (c - h, c + h)
    }
}

fn gen_axis<S: RDom>(t: &mut Tape, cx: &mut Cx, ulps: bool, positive: bool, allow_reversed: bool, which: &'static str) -> (S, S) {
    let (lo, hi) = if ulps {
        cx.label(which);
        gen_ulps_pair::<S>(t, cx, positive)
    } else {
        gen_plain_pair::<S>(t, positive)
    };
    if allow_reversed && t.chance(48) {
        cx.label("reversed interval");
        (hi, lo)
    } else {
        (lo, hi)
    }
}

fn exact<S: Dom>(x: S) -> Rat {
    Rat::from_f64_exact(x.f())
}
fn exact_planes<S: Dom>(p: &Planes<S>) -> Planes<Rat> {
    Planes { l: exact(p.l), r: exact(p.r), b: exact(p.b), t: exact(p.t), n: exact(p.n), f: exact(p.f) }
}

/// Textbook orthographic matrix: 0 lh_zo, 1 lh_no, 2 rh_zo, 3 rh_no, 4 without depth planes.
fn tb_ortho(i: usize, p: &Planes<Rat>) -> R4 {
    let (one, two) = (Rat::ONE, Rat::int(2));
    let mut m = zero4();
    m[0][0] = two / (p.r - p.l);
    m[1][1] = two / (p.t - p.b);
    m[0][3] = -(p.r + p.l) / (p.r - p.l);
    m[1][3] = -(p.t + p.b) / (p.t - p.b);
    m[3][3] = one;
    if i == 4 {
        m[2][2] = one;
        return m;
    }
    let d = p.f - p.n;
    let (m22, m23) = if is_zo(i) { (one / d, -p.n / d) } else { (two / d, -(p.f + p.n) / d) };
    m[2][2] = if is_lh(i) { m22 } else { -m22 };
    m[2][3] = m23;
    m
}

/// Depth rows of a perspective-type matrix (row 2 and the w row), shared by frustum_* and perspective_*.
fn tb_depth_rows(i: usize, n: Rat, f: Rat, m: &mut R4) {
    let two = Rat::int(2);
    let d = f - n;
    let (m22, m23) = if is_zo(i) { (f / d, -(f * n) / d) } else { ((f + n) / d, -(two * f * n) / d) };
    let s = if is_lh(i) { Rat::ONE } else { -Rat::ONE };
    m[2][2] = s * m22;
    m[2][3] = m23;
    m[3][2] = s;
}

/// Textbook frustum matrix: 0 lh_zo, 1 lh_no, 2 rh_zo, 3 rh_no.
fn tb_frustum(i: usize, p: &Planes<Rat>) -> R4 {
    let two = Rat::int(2);
    let s = if is_lh(i) { Rat::ONE } else { -Rat::ONE };
    let mut m = zero4();
    m[0][0] = two * p.n / (p.r - p.l);
    m[1][1] = two * p.n / (p.t - p.b);
    m[0][2] = s * (-(p.r + p.l) / (p.r - p.l));
    m[1][2] = s * (-(p.t + p.b) / (p.t - p.b));
    tb_depth_rows(i, p.n, p.f, &mut m);
    m
}

fn to_f64(m: &R4) -> [[f64; 4]; 4] {
    let mut r = [[0.0; 4]; 4];
    for i in 0..4 {
        for j in 0..4 {
            r[i][j] = m[i][j].to_f64_lossy();
        }
    }
    r
}

/// Every entry within k[row] eps of max(|want|, floor[column]) of the textbook value.
fn entries<S: Dom>(cx: &mut Cx, what: &str, got: &M4<S>, want: &[[f64; 4]; 4], k: [f64; 4], floor: [f64; 4]) -> CaseResult {
    for i in 0..4 {
        for j in 0..4 {
            cx.count();
            let (g, w) = (got[i][j].f(), want[i][j]);
            if g == w {
                continue;
            }
            let tol = k[i] * S::eps() * w.abs().max(floor[j]);
            let d = (g - w).abs();
            if d.is_finite() {
                cx.note_err(d / tol);
            }
            if !(d <= tol) {
                fail!("{}: entry ({},{}) is {:?}, the textbook formula on these planes gives {:e} (tolerance {} eps relative to max(entry, floor {:.3e}));\n  got  {:?}\n  want {:?}", what, i, j, got[i][j], w, k[i], floor[j], got, want);
            }
        }
    }
    Ok(())
}

/// The zo and the no variant of one handedness share their x, y and w rows.
fn shared_rows<S: Dom>(cx: &mut Cx, what: &str, zo: &M4<S>, no: &M4<S>, floor: [f64; 4]) -> CaseResult {
    let mut a = *zo;
    a[2] = no[2];
    mat_rel_k(cx, what, &a, no, KU, [1.0; 4], floor)
}

fn axes_mask(t: &mut Tape) -> [bool; 3] {
    let m = 1 + t.below(7);
    [m & 1 != 0, m & 2 != 0, m & 4 != 0]
}

pub(crate) fn ortho<S: RDom, L: Lay<S>>(t: &mut Tape, cx: &mut Cx) -> CaseResult {
    let mask = axes_mask(t);
    let (l, r) = gen_axis::<S>(t, cx, mask[0], false, true, "x planes ulps apart");
    let (b, tp) = gen_axis::<S>(t, cx, mask[1], false, true, "y planes ulps apart");
    let (n, f) = gen_axis::<S>(t, cx, mask[2], false, true, "depth planes ulps apart");
    let pl = Planes { l, r, b, t: tp, n, f };
    cx.nontrivial();
    sample!(cx, "{} {} ortho, planes ulps apart on axes {:?}: {:?}", S::NAME, L::NAME, mask, pl);
    let ex = exact_planes(&pl);
    let floor = pl.floor_ortho();
    let m: Vec<M4<S>> = (0..5).map(|i| L::ortho(i, pl.vek())).collect();
    for i in 0..4 {
        entries(cx, ORTHO[i], &m[i], &to_f64(&tb_ortho(i, &ex)), [KU; 4], floor)?;
    }
    entries(cx, "orthographic_without_depth_planes", &m[4], &to_f64(&tb_ortho(4, &ex)), [KU; 4], floor)?;
    mat_rel_k(cx, "orthographic_lh_zo = orthographic_rh_zo * z-mirror", &m[0], &col2_negated(&m[2]), KU, [1.0; 4], floor)?;
    mat_rel_k(cx, "orthographic_lh_no = orthographic_rh_no * z-mirror", &m[1], &col2_negated(&m[3]), KU, [1.0; 4], floor)?;
    shared_rows(cx, "orthographic_lh_zo and orthographic_lh_no share their x, y, w rows", &m[0], &m[1], floor)?;
    shared_rows(cx, "orthographic_rh_zo and orthographic_rh_no share their x, y, w rows", &m[2], &m[3], floor)?;
    shared_rows(cx, "orthographic_without_depth_planes and orthographic_rh_no share their x, y, w rows", &m[4], &m[3], floor)?;
    Ok(())
}

pub(crate) fn frustum<S: RDom, L: Lay<S>>(t: &mut Tape, cx: &mut Cx) -> CaseResult {
    let mask = axes_mask(t);
    let (l, r) = gen_axis::<S>(t, cx, mask[0], false, true, "x planes ulps apart");
    let (b, tp) = gen_axis::<S>(t, cx, mask[1], false, true, "y planes ulps apart");
    let (n, f) = gen_axis::<S>(t, cx, mask[2], true, true, "depth planes ulps apart");
    let pl = Planes { l, r, b, t: tp, n, f };
    cx.nontrivial();
    sample!(cx, "{} {} frustum, planes ulps apart on axes {:?}: {:?}", S::NAME, L::NAME, mask, pl);
    let ex = exact_planes(&pl);
    let floor = pl.floor_persp();
    let m: Vec<M4<S>> = (0..4).map(|i| L::frustum(i, pl.vek())).collect();
    for i in 0..4 {
        entries(cx, FRUSTUM[i], &m[i], &to_f64(&tb_frustum(i, &ex)), [KU; 4], floor)?;
    }
    mat_rel_k(cx, "frustum_lh_zo = frustum_rh_zo * z-mirror", &m[0], &col2_negated(&m[2]), KU, [1.0; 4], floor)?;
    mat_rel_k(cx, "frustum_lh_no = frustum_rh_no * z-mirror", &m[1], &col2_negated(&m[3]), KU, [1.0; 4], floor)?;
    shared_rows(cx, "frustum_lh_zo and frustum_lh_no share their x, y, w rows", &m[0], &m[1], floor)?;
    shared_rows(cx, "frustum_rh_zo and frustum_rh_no share their x, y, w rows", &m[2], &m[3], floor)?;
    Ok(())
}

pub(crate) fn persp<S: RDom, L: Lay<S>>(t: &mut Tape, cx: &mut Cx) -> CaseResult {
    // ordinary field of view and aspect (their regimes are in `regime.rs`), near / far a few ulps apart
    let fov = S::angle_0_pi(t);
    let aspect = S::q(t.int(1, 30), t.int(1, 20));
    let (n, f) = gen_axis::<S>(t, cx, true, true, false, "depth planes ulps apart");
    let height = S::q(t.int(1, 2000), 1);
    let width = height * aspect;
    cx.set_nontrivial(aspect != S::one());
    sample!(cx, "{} {} perspective, near / far ulps apart: fov={:?} aspect={:?} near={:?} far={:?} width={:?} height={:?}", S::NAME, L::NAME, fov, aspect, n, f, width, height);
    // x, y rows: 1/(aspect tan(fov/2)), 1/tan(fov/2) evaluated in f64, conditioning fov/sin(fov) as in `regime.rs`
    let th = (fov.f() / 2.0).tan();
    let cf = (fov.f() / fov.f().sin()).abs().max(1.0);
    let k = [K2 * cf, K2 * cf, KU, KU];
    let (en, ef) = (exact(n), exact(f));
    let two = S::i(2);
    let top = n * (fov / two).tan();
    let pl = Planes { l: -(top * aspect), r: top * aspect, b: -top, t: top, n, f };
    let aspect_wh = width / height;
    let pl_wh = Planes { l: -(top * aspect_wh), r: top * aspect_wh, ..pl };
    let (fl, fl_wh) = (pl.floor_persp(), pl_wh.floor_persp());
    let mut p = Vec::new();
    let mut pf = Vec::new();
    for i in 0..4 {
        let mut want = zero4();
        tb_depth_rows(i, en, ef, &mut want);
        let mut want = to_f64(&want);
        want[1][1] = 1.0 / th;
        want[0][0] = 1.0 / (aspect.f() * th);
        let m = L::persp(i, fov, aspect, n, f);
        entries(cx, PERSP[i], &m, &want, k, fl)?;
        want[0][0] = height.f() / (width.f() * th);
        let mf = L::persp_fov(i, fov, width, height, n, f);
        entries(cx, PERSP_FOV[i], &mf, &want, k, fl_wh)?;
        // a perspective matrix is the frustum matrix of the symmetric planes it implies (depth rows: same planes)
        mat_rel_k(cx, "perspective_* = frustum_*(symmetric planes)", &m, &L::frustum(i, pl.vek()), 1.0, k, fl)?;
        mat_rel_k(cx, "perspective_fov_* = frustum_*(symmetric planes)", &mf, &L::frustum(i, pl_wh.vek()), 1.0, k, fl_wh)?;
        p.push(m);
        pf.push(mf);
    }
    for i in 0..2 {
        mat_rel_k(cx, "perspective_lh_* = perspective_rh_* * z-mirror", &p[i], &col2_negated(&p[i + 2]), KU, [1.0; 4], fl)?;
        mat_rel_k(cx, "perspective_fov_lh_* = perspective_fov_rh_* * z-mirror", &pf[i], &col2_negated(&pf[i + 2]), KU, [1.0; 4], fl_wh)?;
    }
    for i in [0, 2] {
        shared_rows(cx, "perspective_*_zo and perspective_*_no share their x, y, w rows", &p[i], &p[i + 1], fl)?;
        shared_rows(cx, "perspective_fov_*_zo and perspective_fov_*_no share their x, y, w rows", &pf[i], &pf[i + 1], fl_wh)?;
    }
    Ok(())
}

pub(crate) fn checks() -> Vec<Check> {
    let mut v = Vec::new();
    macro_rules! tape {
        ($name:expr, $about:expr, $q:expr, $th:expr, $f:expr) => {
            v.push(Check { name: $name, about: $about, kind: Kind::Tape { len: 64, quick: $q, thorough: $th, f: $f } });
        };
    }
    let o = "planes 1..8 ulps apart on a non-empty subset of the axes, orthographic x5: every ENTRY within 8 eps of the textbook formula evaluated exactly on the given floats (corner predicate vacuous there, not asserted); lh = rh * z-mirror; zo / no / without-depth share their x, y, w rows";
    let f = "planes 1..8 ulps apart on a non-empty subset of the axes (near / far too, also far < near), frustum x4: every ENTRY within 8 eps of the textbook formula evaluated exactly; lh = rh * z-mirror; zo / no share their x, y, w rows";
    let p = "near / far 1..8 ulps apart, perspective_* and perspective_fov_* x4: depth rows within 8 eps of the textbook formula evaluated exactly, x / y rows within 32 eps fov/sin(fov) of 1/(aspect tan(fov/2)), 1/tan(fov/2); = frustum_* of the implied planes; lh = rh * z-mirror; zo / no share their x, y, w rows";
    tape!("ulps-ortho-rows-f32", o, 8_000, 400_000, ortho::<f32, Rows>);
    tape!("ulps-ortho-cols-f32", o, 8_000, 400_000, ortho::<f32, Cols>);
    tape!("ulps-ortho-rows-f64", o, 8_000, 400_000, ortho::<f64, Rows>);
    tape!("ulps-ortho-cols-f64", o, 8_000, 400_000, ortho::<f64, Cols>);
    tape!("ulps-frustum-rows-f32", f, 8_000, 400_000, frustum::<f32, Rows>);
    tape!("ulps-frustum-cols-f32", f, 8_000, 400_000, frustum::<f32, Cols>);
    tape!("ulps-frustum-rows-f64", f, 8_000, 400_000, frustum::<f64, Rows>);
    tape!("ulps-frustum-cols-f64", f, 8_000, 400_000, frustum::<f64, Cols>);
    tape!("ulps-perspective-rows-f32", p, 8_000, 400_000, persp::<f32, Rows>);
    tape!("ulps-perspective-cols-f32", p, 8_000, 400_000, persp::<f32, Cols>);
    tape!("ulps-perspective-rows-f64", p, 8_000, 400_000, persp::<f64, Rows>);
    tape!("ulps-perspective-cols-f64", p, 8_000, 400_000, persp::<f64, Cols>);
    v
}
