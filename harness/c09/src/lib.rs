//! C09 — view and change-of-basis matrices are rigid and place eye, target, axes right.
#![allow(deprecated)]

use vek::mat::repr_c::column_major as cm;
use vek::mat::repr_c::row_major as rm;
use vkit::gens;
use vkit::refmath as rf;
use vkit::vk::{self, MatN};
use vkit::*;

const K: f64 = 4096.0;

mod regime;

fn pow2<S: Dom>(e: i64) -> S {
    if e >= 0 {
        S::i(1i64 << e)
    } else {
        S::q(1, 1i64 << (-e))
    }
}

struct View<S> {
    eye: [S; 3],
    target: [S; 3],
    up: [S; 3],
    dist: S,       // |target - eye|, exact in Rat
    sin_up: f64,   // sine of the angle between up and forward
}

/// eye/target/up. Exact domains: built from a rational orthonormal frame so that both normalisations
/// (|target-eye| and |up x forward|) are rational; lengths vary over many orders of magnitude.
fn gen_view<S: Dom>(t: &mut Tape, cx: &mut Cx) -> View<S> {
    if S::EXACT || t.bool() {
        let r = gens::rotation3::<S>(t); // columns: s, u, f
        let col = |j: usize| [r[0][j], r[1][j], r[2][j]];
        let (u, f) = (col(1), col(2));
        let eye: [S; 3] = vk::gen_vec(t, 20);
        let l = S::q(t.int(1, 20), t.pick(&[1i64, 2, 3, 7])) * pow2::<S>(t.int(-12, 12));
        let target = rf::addv(&eye, &rf::scale(&f, l));
        // up = a u + b f, a > 0 (not parallel); b != 0 in most cases (not perpendicular)
        let up_scale_exp = if t.chance(96) { t.int(-36, 20) } else { t.int(-3, 3) };
        if up_scale_exp < -20 {
            cx.label("tiny-up");
        }
        let a = S::q(t.int(1, 9), t.pick(&[1i64, 2, 5]));
        let b = S::q(t.int(-12, 12), t.pick(&[1i64, 1, 3]));
        if b.is_zero() {
            cx.label("up-perpendicular");
        }
        let sc = pow2::<S>(up_scale_exp);
        let up = rf::scale(&rf::addv(&rf::scale(&u, a), &rf::scale(&f, b)), sc);
        let sin_up = a.f() / (a.f() * a.f() + b.f() * b.f()).sqrt();
        cx.label("constructed-frame");
        View { eye, target, up, dist: l, sin_up }
    } else {
        cx.label("random-floats");
        let cast = |x: f64| <S as num_traits::NumCast>::from(x).unwrap();
        let eye = [t.range_f64(-50.0, 50.0), t.range_f64(-50.0, 50.0), t.range_f64(-50.0, 50.0)];
        let mut d = [t.range_f64(-1.0, 1.0), t.range_f64(-1.0, 1.0), t.range_f64(-1.0, 1.0)];
        let mut dn = (d[0] * d[0] + d[1] * d[1] + d[2] * d[2]).sqrt();
        if dn < 0.05 {
            d = [0.3, -0.4, 0.5];
            dn = (0.5f64).sqrt();
        }
        let l = t.pick(&[1.0f64, 0.01, 100.0, 7.5, 1e-3]);
        let target = [eye[0] + d[0] / dn * l, eye[1] + d[1] / dn * l, eye[2] + d[2] / dn * l];
        let mut up = [t.range_f64(-1.0, 1.0), t.range_f64(-1.0, 1.0), t.range_f64(-1.0, 1.0)];
        if t.chance(64) {
            up = [[0.0, 1.0, 0.0], [0.0, 0.0, 1.0], [1.0, 0.0, 0.0], [0.0, -1.0, 0.0]][t.below(4)];
        }
        let e = View { eye: [cast(eye[0]), cast(eye[1]), cast(eye[2])], target: [cast(target[0]), cast(target[1]), cast(target[2])], up: [S::zero(); 3], dist: S::zero(), sin_up: 0.0 };
        // measure on the values as rounded into S
        let fw = rf::subv(&e.target, &e.eye);
        let fl = rf::dot(&fw, &fw).f().sqrt();
        let upn = (up[0] * up[0] + up[1] * up[1] + up[2] * up[2]).sqrt().max(1e-9);
        let cr = [up[1] * fw[2].f() - up[2] * fw[1].f(), up[2] * fw[0].f() - up[0] * fw[2].f(), up[0] * fw[1].f() - up[1] * fw[0].f()];
        let sin_up = (cr[0] * cr[0] + cr[1] * cr[1] + cr[2] * cr[2]).sqrt() / (fl * upn);
        let us = t.pick(&[1.0f64, 1e-4, 1e-9, 1e6, 3.0]);
        if us < 1e-3 {
            cx.label("tiny-up");
        }
        View { up: [cast(up[0] * us), cast(up[1] * us), cast(up[2] * us)], dist: cast(fl), sin_up, ..e }
    }
}

fn upper3<S: Dom>(m: &[[S; 4]; 4]) -> [[S; 3]; 3] {
    let mut r = [[S::zero(); 3]; 3];
    for i in 0..3 {
        for j in 0..3 {
            r[i][j] = m[i][j];
        }
    }
    r
}

fn look_at<S: Dom>(t: &mut Tape, cx: &mut Cx) -> CaseResult {
    let v = gen_view::<S>(t, cx);
    if !S::EXACT && v.sin_up < 0.02 {
        discard!("precondition:up-within-0.02rad-of-view-direction");
    }
    let nz = |a: &[S; 3]| a.iter().all(|x| !x.is_zero());
    cx.set_nontrivial(nz(&v.eye) && nz(&rf::subv(&v.target, &v.eye)) && nz(&v.up) && v.sin_up < 0.999);
    sample!(cx, "{} eye={:?} target={:?} up={:?} |target-eye|={:?}", S::NAME, v.eye, v.target, v.up, v.dist);
    let (eye, target, up) = (vk::v3(&v.eye), vk::v3(&v.target), vk::v3(&v.up));
    let one = S::one();
    let id4: [[S; 4]; 4] = rf::identity();
    let id3: [[S; 3]; 3] = rf::identity();
    let emax = vk::vec_max(&v.eye).max(vk::vec_max(&v.target)).max(1.0);
    let cond = 1.0 / v.sin_up.max(1e-6);
    let k = K * cond * cond;
    let up_len = rf::dot(&v.up, &v.up).f().sqrt();
    macro_rules! layout {
        ($l:ident, $n:expr) => {{
            for (hand, sign, view, model) in [
                ("lh", one, $l::Mat4::<S>::look_at_lh(eye, target, up).to_arr(), $l::Mat4::<S>::model_look_at_lh(eye, target, up).to_arr()),
                ("rh", -one, $l::Mat4::<S>::look_at_rh(eye, target, up).to_arr(), $l::Mat4::<S>::model_look_at_rh(eye, target, up).to_arr()),
            ] {
                let what = format!("{} look_at_{}", $n, hand);
                // rigid, determinant +1
                check_eq!(cx, view[3], [S::zero(), S::zero(), S::zero(), one], "{}: last row is e4", what);
                let r = upper3(&view);
                check_mat!(cx, S, rf::matmul(&rf::transpose(&r), &r), id3, 1.0, k, "{}: upper 3x3 orthogonal", what);
                check_close!(cx, S, rf::det(&r), one, 1.0, k, "{}: determinant +1", what);
                // eye -> origin
                let e = rf::matvec(&view, &[v.eye[0], v.eye[1], v.eye[2], one]);
                check_vec!(cx, S, [e[0], e[1], e[2]], [S::zero(); 3], emax, k, "{}: eye maps to the origin", what);
                // target -> (0, 0, +-distance)
                let tg = rf::matvec(&view, &[v.target[0], v.target[1], v.target[2], one]);
                check_vec!(cx, S, [tg[0], tg[1], tg[2]], [S::zero(), S::zero(), sign * v.dist], emax.max(v.dist.f()), k, "{}: target on the forward axis at the eye-target distance", what);
                // up direction: x = 0, y > 0
                let ud = rf::matvec(&view, &[v.up[0], v.up[1], v.up[2], S::zero()]);
                check_close!(cx, S, ud[0], S::zero(), up_len, k, "{}: up has no sideways component", what);
                check!(cx, ud[1] > S::zero(), "{}: up must stay in the upper half-plane, got y = {:?} (view*up = {:?})", what, ud[1], ud);
                // model matrix is the inverse and sends the origin to the eye
                check_mat!(cx, S, rf::matmul(&model, &view), id4, emax, k, "{}: model_look_at * look_at = I", what);
                check_mat!(cx, S, rf::matmul(&view, &model), id4, emax, k, "{}: look_at * model_look_at = I", what);
                let o = rf::matvec(&model, &[S::zero(), S::zero(), S::zero(), one]);
                check_eq!(cx, [o[0], o[1], o[2]], v.eye, "{}: model matrix sends the origin to the eye", what);
                check_eq!(cx, model[3], [S::zero(), S::zero(), S::zero(), one], "{}: model last row is e4", what);
            }
            check_eq!(cx, $l::Mat4::<S>::look_at(eye, target, up).to_arr(), $l::Mat4::<S>::look_at_lh(eye, target, up).to_arr(), "{} look_at == look_at_lh", $n);
            check_eq!(cx, $l::Mat4::<S>::model_look_at(eye, target, up).to_arr(), $l::Mat4::<S>::model_look_at_lh(eye, target, up).to_arr(), "{} model_look_at == model_look_at_lh", $n);
        }};
    }
    layout!(rm, "row-major");
    layout!(cm, "col-major");
    Ok(())
}

fn basis<S: Dom>(t: &mut Tape, cx: &mut Cx) -> CaseResult {
    let o: [S; 3] = vk::gen_vec(t, 20);
    let one = S::one();
    let zero = S::zero();
    // arbitrary (non-orthonormal) basis for local_to_basis
    let (i, j, k): ([S; 3], [S; 3], [S; 3]) = (vk::gen_vec(t, 9), vk::gen_vec(t, 9), vk::gen_vec(t, 9));
    let p: [S; 3] = vk::gen_vec(t, 9);
    // orthonormal basis (proper or improper) for the inverse clause
    let r = gens::rotation3::<S>(t);
    let improper = t.chance(96);
    if improper {
        cx.label("improper-basis");
    }
    let col = |m: &[[S; 3]; 3], c: usize| [m[0][c], m[1][c], m[2][c]];
    let (oi, oj, mut ok) = (col(&r, 0), col(&r, 1), col(&r, 2));
    if improper {
        ok = [-ok[0], -ok[1], -ok[2]];
    }
    cx.set_nontrivial(o.iter().all(|x| !x.is_zero()) && oi.iter().all(|x| !x.is_zero()) && oj.iter().all(|x| !x.is_zero()));
    sample!(cx, "{} origin={:?} i={:?} j={:?} k={:?} orthonormal=({:?},{:?},{:?}) p={:?}", S::NAME, o, i, j, k, oi, oj, ok, p);
    let sc = vk::vec_max(&o).max(1.0) * 8.0 * vk::vec_max(&p).max(1.0);
    macro_rules! layout {
        ($l:ident, $n:expr) => {{
            let m = $l::Mat4::<S>::local_to_basis(vk::v3(&o), vk::v3(&i), vk::v3(&j), vk::v3(&k)).to_arr();
            let at = |x: [S; 3]| { let r = rf::matvec(&m, &[x[0], x[1], x[2], one]); ([r[0], r[1], r[2]], r[3]) };
            check_eq!(cx, at([zero; 3]), (o, one), "{} local_to_basis: origin", $n);
            check_eq!(cx, at([one, zero, zero]), (rf::addv(&o, &i), one), "{} local_to_basis: e_x -> origin + i", $n);
            check_eq!(cx, at([zero, one, zero]), (rf::addv(&o, &j), one), "{} local_to_basis: e_y -> origin + j", $n);
            check_eq!(cx, at([zero, zero, one]), (rf::addv(&o, &k), one), "{} local_to_basis: e_z -> origin + k", $n);
            // general point: o + x i + y j + z k
            let want = rf::addv(&o, &rf::addv(&rf::scale(&i, p[0]), &rf::addv(&rf::scale(&j, p[1]), &rf::scale(&k, p[2]))));
            check_vec!(cx, S, at(p).0, want, sc * 9.0, K, "{} local_to_basis: general point", $n);
            // orthonormal basis: basis_to_local undoes local_to_basis
            let l2b = $l::Mat4::<S>::local_to_basis(vk::v3(&o), vk::v3(&oi), vk::v3(&oj), vk::v3(&ok)).to_arr();
            let b2l = $l::Mat4::<S>::basis_to_local(vk::v3(&o), vk::v3(&oi), vk::v3(&oj), vk::v3(&ok)).to_arr();
            let id4: [[S; 4]; 4] = rf::identity();
            check_mat!(cx, S, rf::matmul(&b2l, &l2b), id4, sc, K, "{} basis_to_local * local_to_basis = I", $n);
            check_mat!(cx, S, rf::matmul(&l2b, &b2l), id4, sc, K, "{} local_to_basis * basis_to_local = I", $n);
            let bt = |x: [S; 3]| { let r = rf::matvec(&b2l, &[x[0], x[1], x[2], one]); [r[0], r[1], r[2]] };
            check_vec!(cx, S, bt(o), [zero; 3], sc, K, "{} basis_to_local: origin -> 0", $n);
            check_vec!(cx, S, bt(rf::addv(&o, &oi)), [one, zero, zero], sc, K, "{} basis_to_local: origin + i -> e_x", $n);
            check_vec!(cx, S, bt(rf::addv(&o, &oj)), [zero, one, zero], sc, K, "{} basis_to_local: origin + j -> e_y", $n);
            check_vec!(cx, S, bt(rf::addv(&o, &ok)), [zero, zero, one], sc, K, "{} basis_to_local: origin + k -> e_z", $n);
        }};
    }
    layout!(rm, "row-major");
    layout!(cm, "col-major");
    Ok(())
}

pub fn property() -> Property {
    let mut checks = Vec::new();
    macro_rules! tape {
        ($name:expr, $about:expr, $len:expr, $q:expr, $th:expr, $f:expr) => {
            checks.push(Check { name: $name, about: $about, kind: Kind::Tape { len: $len, quick: $q, thorough: $th, f: $f } });
        };
    }
    let a = "look_at_{lh,rh} / model_look_at_{lh,rh} / deprecated aliases, both layouts: rigid with det +1, eye -> origin, target -> (0,0,+-distance), up in the upper vertical half-plane (x = 0, y > 0), model = inverse and origin -> eye";
    tape!("look-at-rat", a, 64, 30_000, 800_000, look_at::<Rat>);
    tape!("look-at-f64", a, 96, 30_000, 800_000, look_at::<f64>);
    tape!("look-at-f32", a, 96, 20_000, 500_000, look_at::<f32>);
    let b = "local_to_basis maps 0, e_x, e_y, e_z to origin, origin+i, +j, +k for arbitrary i,j,k; basis_to_local inverts it for orthonormal (proper and improper) bases";
    tape!("basis-rat", b, 96, 30_000, 800_000, basis::<Rat>);
    tape!("basis-f64", b, 160, 20_000, 500_000, basis::<f64>);
    let c = "REGIMES. every look-at / model-look-at variant (lh, rh, deprecated aliases, both layouts, Vec3 / Vec4 / array / tuple operands) with the eye-target distance, |up| and the eye position scaled exactly by independent powers of two over the whole range in which one squared length stays finite and normal (f32: distance 2^-58..2^62, |up| 2^-54..2^60, |eye| up to 2^12 * distance and down to 2^-100; f64: 2^-500..2^504, 2^-495..2^502, 2^40 * distance, 2^-900); view directions along / next to the coordinate axes, up = a coordinate axis; judged in f64 against the frame the property determines, rotation entries to 128 eps / sin(up, forward), translations relative to |eye|, images of target relative to |eye| + |target| and (rotation part) to the distance, up relative to |up|";
    tape!("look-at-regime-f32", c, 160, 30_000, 4_000_000, regime::look_at_regime::<f32>);
    tape!("look-at-regime-f64", c, 160, 30_000, 4_000_000, regime::look_at_regime::<f64>);
    let e = "STEEP cameras. every look-at / model-look-at variant (lh, rh, deprecated aliases, both layouts) with a small legal angle a between up and the view direction, on the parallel and on the antiparallel side, a log-uniform from 0.5 rad down to 1e-3 (f32) / 1e-7 (f64), and with up almost exactly perpendicular (|cos| log-uniform 1e-3 .. 1e-12); distance and |up| at unit scale and scaled by independent powers of two. RIGIDITY with tolerances that do not grow like 1/a^2: |axis|^2 = 1 and det = 1 to 24 eps (+ (8 eps / sin a)^2), side . up' = 0 to 12 eps, side . forward and up' . forward = 0 to 12 eps + 8 eps / sin a, model * view = view * model = I to 24 eps + 16 eps / sin a, on view rows and model columns; ROLL (side and up' axes) against an oracle whose cross product is evaluated with error-free transformations, to 64 eps / sin a; forward axis to 12 eps; eye -> 0, target - eye -> (0,0,+-distance), up -> x = 0, y > 0";
    tape!("look-at-steep-f32", e, 160, 30_000, 4_000_000, regime::look_at_steep::<f32>);
    tape!("look-at-steep-f64", e, 160, 30_000, 4_000_000, regime::look_at_steep::<f64>);
    let d = "REGIMES. local_to_basis with arbitrary vectors and origins at every finite magnitude (independent powers of two, MAX, MIN_POSITIVE, subnormals): columns are exactly i, j, k, origin; basis_to_local / local_to_basis with orthonormal bases (signed permutations of the axes, tiny rotations of them, rational rotations; proper and improper) and origins scaled by 2^-100..2^100 (f32) / 2^-900..2^1000 (f64): inverse of each other blockwise, origin -> 0 relative to |origin|, basis vectors -> unit axes";
    tape!("basis-regime-f32", d, 200, 20_000, 2_000_000, regime::basis_regime::<f32>);
    tape!("basis-regime-f64", d, 200, 20_000, 2_000_000, regime::basis_regime::<f64>);
    Property {
        id: "C09",
        rule: "views built from a rational orthonormal frame: target = eye + L*forward with L spanning 2^-12..2^12, up = scale*(a*u + b*forward) with a > 0, b usually != 0 and scale spanning 2^-36..2^20 (so every normalisation is rational), plus random float views incl. tiny/huge up vectors; bases: arbitrary vectors and rational rotations (1/3 improper); non-trivial = eye, direction and up have three non-zero components and up is not perpendicular; distinct = distinct consumed tape prefix. REGIME checks (f32 and f64): a view direction from {rational frame, exactly along a coordinate axis, next to one (offsets 2^-1..2^-30 / 2^-60), random} and an up vector from {a*u + b*forward, a coordinate axis, random} (sine of the angle >= 0.12 by construction), then distance, |up| and eye scaled exactly by independent powers of two (half of the cases at unit scale, the rest stratified: moderate, next to either end of the range, outer halves, uniform), eye up to 2^12 (f32) / 2^40 (f64) times the distance (target = eye + d rounded into the type, everything measured on the rounded values), eye at the origin in 1/16; bases: arbitrary vectors with independent scales 2^-120..2^120 / 2^-1000..2^1000 and entries MAX / MIN_POSITIVE / subnormal, orthonormal bases = signed permutation x {identity, rotation by 2^-2..2^-12 / 2^-25, rational rotation}, origin 2^-100..2^100 / 2^-900..2^1000; regime non-trivial = eye (origin), target - eye and up (two basis vectors) have three non-zero components and up is not perpendicular (so axis-aligned cases count as trivial and are reported by label only). STEEP checks (f32 and f64): an orthonormal pair (forward, w) from {rational frame, along / next to a coordinate axis, random}; up = |up| (cos a forward + sin a w) with, in 3/8 of the cases each, a = 0.5 * 2^-x rad on the parallel and on the antiparallel side (x uniform in 0..9 for f32, 0..22.3 for f64, i.e. a log-uniform down to 1e-3 / 1e-7), and in 2/8 cos a = +-1e-3 * 2^-x (x uniform in 0..30) next to perpendicular; distance 2^kd * [1,16], |up| 2^ku * [3/4,4) with kd, ku = 0 in a quarter of the draws each and otherwise stratified over the regime range (|up| kept 2^12 / 2^26 above its lower end so that |up|^2 sin^2 a stays normal), eye = 2^(kd-6..kd+2) * [-20,20]^3 or 0; the angle is re-measured on the inputs as rounded into S; steep non-trivial = target - eye and up have three non-zero components (and cos != 0 in the perpendicular family)",
        assumptions: &[
            "rustc and the proptest runner/shrinker are trusted",
            "precondition from the property: eye != target and up not parallel to the view direction; float cases within 0.02 rad of parallel are discarded, tolerance scaled by 1/sin^2(angle)",
            "oracle: validity predicates (rigidity via reference transpose-product and Leibniz determinant, images of eye/target/up) on plain arrays",
            "regime checks: the oracle is the frame the clauses determine uniquely (third row +-unit(target - eye), first row the unit normal of up and forward oriented by det = +1 and up.y > 0), computed in f64 from the inputs as rounded into S with every squared length taken on a copy rescaled exactly by a power of two; for S = f64 the oracle's own rounding is inside the 128 eps / sin(up, forward) budget",
            "regime range = where the arithmetic the property itself needs is finite and normal: ONE squared length of target - eye (f32 2^-58..2^62, f64 2^-500..2^504), one of up x forward (|up| f32 2^-54..2^60, f64 2^-495..2^502) and dot products with the eye; beyond it (|target - eye|^2 or |up|^2 overflowing / underflowing, where vek's own normalisation returns 0, inf or NaN) nothing is asserted, and IEEE specials (inf, NaN) as inputs are not generated",
            "an eye more than 2^12 (f32) / 2^40 (f64) times the distance away is not generated: target = eye + d then has too few significant bits left for a direction (cancellation in target - eye is the caller's business); in the regime checks views within 0.05 rad (sine) of parallel after rounding are discarded (none occur by construction)",
            "steep cameras: only the roll (direction of the side and up' axes around the view axis) is ill-conditioned, eps / sin a for ANY implementation, and is compared to 64 eps / sin a with an oracle whose cross product up x (target - eye) is evaluated with error-free transformations (two_sum / fma two_prod) on exactly rescaled copies; unit length of every axis, side . up' and the determinant are asserted to fixed multiples of eps (24 / 12 / 24, worst case by operation count 13 / 4 / 13.5, observed <= 5 / 1 / 5 on the unchanged tree); the dots of the two roll axes with forward get a FIRST-order allowance 8 eps / sin a (measured on the unchanged tree: side . forward = 0.39 eps / sin a, from the rounding of the products of up x forward projected onto forward - so the claim 'mutually orthogonal to a few ulps at every angle' does not hold for side . forward even in the unchanged code; up' . forward is <= 1 eps there but gets the same allowance, the property does not say which roll axis is derived from which) and nothing grows like 1 / sin^2 a except where the first-order term enters squared",
            "steep cameras: angles below 1e-3 rad (f32) / 1e-7 rad (f64) are not generated (eps / a then approaches the size of the axes themselves; up parallel to the view direction is excluded by the property); cases whose re-measured sine fell below half of that after rounding would be discarded (none occur)",
            "translations and images of points are judged relative to the magnitude that enters them (|eye|, |eye| + |target|, distance, |up|, |origin|), never max(1, ..): the view matrix must send the eye to 0 within 64 eps |eye| also for a tiny eye",
            "basis_to_local documents i, j, k as 'required to be normalized': the inverse clause is only asserted for orthonormal bases (orthonormal to rounding, 64 eps), with origin + basis vector -> unit axis split by linearity into origin -> 0 (relative to |origin|) and basis vector -> unit axis (o + i is not representable next to a huge origin); local_to_basis performs no arithmetic, so 'columns are exactly i, j, k, origin' is asserted for arbitrary vectors at every finite magnitude",
        ],
        checks,
        max_discard_frac: 0.2,
    }
}
