fn main() {
    vkit::driver::main(c09::property())
}
