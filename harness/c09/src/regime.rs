//! C09 regimes: the same clauses as `look_at` / `basis` in lib.rs, at magnitudes the moderate generators never
//! reach. Eye-target distance, |up| and the eye position (resp. origin and basis vectors) are scaled *exactly*
//! by independent powers of two over the whole range in which the arithmetic the property needs (one squared
//! length of target - eye, one of up x forward, dot products with the eye) stays finite and normal in the scalar
//! type. Everything is judged in f64 on the values *as rounded into S*, with the squared lengths of the oracle
//! taken on rescaled copies, and every tolerance is relative to the magnitude of the quantity compared
//! (|eye|, |target|, distance, |up|, |origin|) - never `max(1, ..)`.

use vek::mat::repr_c::column_major as cm;
use vek::mat::repr_c::row_major as rm;
use vek::vec::repr_c::Vec4;
use vkit::gens;
use vkit::refmath as rf;
use vkit::vk::{self, MatN};
use vkit::*;

/// rotation entries: budget in units of eps / sin(angle(up, forward)). Worst case by operation count is ~15
/// (rounded difference, squared length, sqrt, division, cross product with cancellation 1/sin, second
/// normalisation, second cross product; on both sides when S = f64).
const KR: f64 = 128.0;
/// translation entries / images of points: budget in units of eps * (largest component of the point): three
/// products and three additions against a unit row (<= 3 sqrt(3) eps each side, ~10.4 in total).
const KT: f64 = 64.0;
/// change of basis with an orthonormal basis that is itself only orthonormal to rounding (~3 eps per entry of
/// B^T B - I, ~9 eps |origin| through a product, plus ~10 eps of evaluation: ~20 in total).
const KB: f64 = 64.0;
/// views closer to parallel than this (sine of the angle between up and the view direction, measured on the
/// rounded inputs) are outside the regime check; the generator keeps the sine above 0.12.
const MIN_SIN: f64 = 0.05;

fn near(cx: &mut Cx, got: f64, want: f64, tol: f64) -> bool {
    cx.count();
    if got == want {
        return true;
    }
    let d = (got - want).abs();
    if !d.is_finite() {
        return false;
    }
    if tol > 0.0 {
        cx.note_err(d / tol);
    }
    d <= tol
}
macro_rules! check_near {
    ($cx:expr, $got:expr, $want:expr, $tol:expr, $($arg:tt)*) => {{
        let (g, w, tl): (f64, f64, f64) = ($got, $want, $tol);
        if !near($cx, g, w, tl) {
            return Err(vkit::Fail::Violation(format!("{}: got {:e}, want {:e} (|diff| {:.3e} > tolerance {:.3e})", format!($($arg)*), g, w, (g - w).abs(), tl)));
        }
    }};
}

/// exactly 2^e as f64, e in the normal range
fn p2(e: i64) -> f64 {
    assert!((-1022..=1023).contains(&e), "p2({})", e);
    f64::from_bits(((e + 1023) as u64) << 52)
}
fn cast<S: Dom>(x: f64) -> S {
    <S as num_traits::NumCast>::from(x).unwrap()
}
fn tof<S: Dom, const N: usize>(a: &[S; N]) -> [f64; N] {
    let mut r = [0.0; N];
    for i in 0..N {
        r[i] = a[i].f();
    }
    r
}
fn mtof<S: Dom>(m: &[[S; 4]; 4]) -> [[f64; 4]; 4] {
    [tof(&m[0]), tof(&m[1]), tof(&m[2]), tof(&m[3])]
}
fn dot3(a: &[f64; 3], b: &[f64; 3]) -> f64 {
    a[0] * b[0] + a[1] * b[1] + a[2] * b[2]
}
fn cross3(a: &[f64; 3], b: &[f64; 3]) -> [f64; 3] {
    [a[1] * b[2] - a[2] * b[1], a[2] * b[0] - a[0] * b[2], a[0] * b[1] - a[1] * b[0]]
}
fn amax(a: &[f64; 3]) -> f64 {
    a.iter().fold(0.0f64, |m, x| m.max(x.abs()))
}
/// (v / |v|, |v|) with the squared length taken on a copy rescaled exactly by a power of two, so that it neither
/// overflows nor underflows wherever v itself is finite and non-zero.
fn unit(v: &[f64; 3]) -> Option<([f64; 3], f64)> {
    let m = amax(v);
    if !(m > 0.0) || !m.is_finite() {
        return None;
    }
    let e = ((((m.to_bits() >> 52) & 0x7ff) as i64) - 1023).clamp(-1021, 1021);
    let sc = p2(-e);
    let w = [v[0] * sc, v[1] * sc, v[2] * sc];
    let n = dot3(&w, &w).sqrt();
    Some(([w[0] / n, w[1] / n, w[2] / n], n * p2(e)))
}
fn row3(m: &[[f64; 4]; 4], i: usize) -> [f64; 3] {
    [m[i][0], m[i][1], m[i][2]]
}
fn det3(r: &[[f64; 3]; 3]) -> f64 {
    dot3(&r[0], &cross3(&r[1], &r[2]))
}

/// Exponent ranges per scalar type. `kd`: eye-target distance 2^kd * [1,16]; `ku`: |up| 2^ku * [3/4,4);
/// `ke`: eye 2^ke * [-20,20]^3, never more than 2^far above the distance (beyond that target = eye + d is not
/// representable next to the eye); `ko`: origin; `kb`: arbitrary basis vectors of local_to_basis.
struct Lim {
    kd: (i64, i64),
    ku: (i64, i64),
    ke: (i64, i64),
    far: i64,
    delta: i64,
    ko: (i64, i64),
    kb: (i64, i64),
    qw: i64,
}
fn lim<S: Dom>() -> Lim {
    if S::NAME == "f32" {
        // |d|^2 <= 2^124 < MAX = 2^128 and >= 2^-116 (sum of squares exact to 2^-150 / 2^-116 << eps);
        // |up x f|^2 <= 2^120 and >= (3/4 * 0.05 * 2^-54)^2 > 2^-118
        Lim { kd: (-58, 58), ku: (-54, 58), ke: (-100, 100), far: 12, delta: 30, ko: (-100, 100), kb: (-120, 120), qw: 12 }
    } else {
        Lim { kd: (-500, 500), ku: (-495, 500), ke: (-900, 1000), far: 40, delta: 60, ko: (-900, 1000), kb: (-1000, 1000), qw: 25 }
    }
}
/// stratified exponent in lo..=hi: 0, moderate, next to either end, the outer halves, uniform
fn exp_in(t: &mut Tape, lo: i64, hi: i64) -> i64 {
    match t.below(8) {
        0 | 1 => 0,
        2 => t.int(-8, 8),
        3 => hi - t.int(0, hi / 8),
        4 => lo + t.int(0, -lo / 8),
        5 => t.int(hi / 2, hi),
        6 => t.int(lo, lo / 2),
        _ => t.int(lo, hi),
    }
}
fn exp_label(what: usize, k: i64, lo: i64, hi: i64) -> &'static str {
    const L: [[&str; 5]; 3] = [
        ["distance: unit scale", "distance: tiny (outer half of the exponent range)", "distance: small", "distance: large", "distance: huge (outer half of the exponent range)"],
        ["|up|: unit scale", "|up|: tiny (outer half of the exponent range)", "|up|: small", "|up|: large", "|up|: huge (outer half of the exponent range)"],
        ["|eye| or |origin|: unit scale", "|eye| or |origin|: tiny (outer half of the exponent range)", "|eye| or |origin|: small", "|eye| or |origin|: large", "|eye| or |origin|: huge (outer half of the exponent range)"],
    ];
    L[what][if k == 0 {
        0
    } else if k < lo / 2 {
        1
    } else if k < 0 {
        2
    } else if k <= hi / 2 {
        3
    } else {
        4
    }]
}

fn axis(i: usize, s: f64) -> [f64; 3] {
    let mut a = [0.0; 3];
    a[i] = s;
    a
}
fn lin(a: f64, x: &[f64; 3], b: f64, y: &[f64; 3]) -> [f64; 3] {
    [a * x[0] + b * y[0], a * x[1] + b * y[1], a * x[2] + b * y[2]]
}

/// View direction (length in [1,16]) and up vector (length in [3/4,4)) at unit scale, sine of the angle between
/// them >= 0.12, from the classes {rational frame, forward along an axis, forward next to an axis, random}
/// x {up = a*u + b*f, up = a coordinate axis, random up}.
fn gen_dir_up(t: &mut Tape, cx: &mut Cx, lm: &Lim) -> ([f64; 3], [f64; 3]) {
    let sgn = |t: &mut Tape| if t.bool() { -1.0 } else { 1.0 };
    let ab = |t: &mut Tape| {
        let a = t.int(1, 9) as f64 / t.pick(&[1.0f64, 2.0]);
        let b = a * t.int(-8, 8) as f64 / t.pick(&[1.0f64, 2.0, 4.0]);
        (a, b)
    };
    let (f, mut up): ([f64; 3], [f64; 3]) = match t.below(8) {
        0 | 1 | 2 => {
            cx.label("direction: rational rotation frame");
            let r = gens::rotation3::<f64>(t);
            let col = |j: usize| [r[0][j], r[1][j], r[2][j]];
            let (u, f) = (col(1), col(2));
            let (a, b) = ab(t);
            (f, if t.chance(64) { axis(t.below(3), sgn(t)) } else { lin(a, &u, b, &f) })
        }
        3 => {
            cx.label("direction: along a coordinate axis");
            let i = t.below(3);
            let (j, k) = if t.bool() { ((i + 1) % 3, (i + 2) % 3) } else { ((i + 2) % 3, (i + 1) % 3) };
            let f = axis(i, sgn(t));
            let (a, b) = ab(t);
            let up = match t.below(3) {
                0 => axis(j, sgn(t)),
                1 => lin(a, &axis(j, sgn(t)), b, &f),
                _ => lin(1.0, &lin(a, &axis(j, sgn(t)), b, &f), a * t.int(-4, 4) as f64 / 2.0, &axis(k, 1.0)),
            };
            (f, up)
        }
        4 | 5 => {
            cx.label("direction: next to a coordinate axis");
            let i = t.below(3);
            let (j, k) = ((i + 1) % 3, (i + 2) % 3);
            let mut f = axis(i, sgn(t));
            let small = |t: &mut Tape| if t.chance(64) { 0.0 } else { sgn(t) * p2(-t.int(1, lm.delta)) * t.pick(&[1.0f64, 1.0, 1.5, 1.25]) };
            f[j] = small(t);
            f[k] = small(t);
            if f[j] == 0.0 && f[k] == 0.0 {
                f[j] = p2(-lm.delta);
            }
            let (a, b) = ab(t);
            let up = match t.below(4) {
                0 => axis(j, sgn(t)),
                1 => axis(k, sgn(t)),
                2 => lin(a, &axis(j, sgn(t)), b, &f),
                _ => [t.range_f64(-1.0, 1.0), t.range_f64(-1.0, 1.0), t.range_f64(-1.0, 1.0)],
            };
            (f, up)
        }
        _ => {
            cx.label("direction: random");
            let f = [t.range_f64(-1.0, 1.0), t.range_f64(-1.0, 1.0), t.range_f64(-1.0, 1.0)];
            let up = if t.bool() { axis(t.below(3), sgn(t)) } else { [t.range_f64(-1.0, 1.0), t.range_f64(-1.0, 1.0), t.range_f64(-1.0, 1.0)] };
            (f, up)
        }
    };
    let f = match unit(&f) {
        Some((f, n)) if n > 0.05 => f,
        _ => [0.48, -0.6, 0.64],
    };
    // keep away from parallel by construction instead of discarding: fall back to the axis least aligned with f
    let ok = |up: &[f64; 3]| unit(up).map_or(false, |(u, n)| n > 1e-3 && dot3(&cross3(&u, &f), &cross3(&u, &f)).sqrt() >= 0.12);
    if !ok(&up) {
        cx.label("up: fallback to the least aligned axis");
        let m = (0..3).min_by(|&a, &b| f[a].abs().partial_cmp(&f[b].abs()).unwrap()).unwrap();
        up = axis(m, 1.0);
    }
    if up.iter().filter(|x| **x != 0.0).count() == 1 {
        cx.label("up: a coordinate axis");
    }
    let (un, _) = unit(&up).unwrap();
    let ul = t.pick(&[1.0f64, 1.0, 0.75, 1.5, 3.0, 3.9375]);
    let l = if t.bool() { t.int(1, 16) as f64 } else { t.range_f64(1.0, 16.0) };
    ([f[0] * l, f[1] * l, f[2] * l], [un[0] * ul, un[1] * ul, un[2] * ul])
}

struct Oracle {
    e: [f64; 3],
    tg: [f64; 3],
    up: [f64; 3],
    dp: [f64; 3],
    f: [f64; 3],
    un: [f64; 3],
    dist: f64,
    ulen: f64,
    sin: f64,
    emag: f64,
    tmag: f64,
    eps: f64,
}

/// All clauses of the property for one (view, model) pair, in f64 on the rounded inputs.
fn judge<S: Dom>(cx: &mut Cx, o: &Oracle, what: &str, rh: bool, view: &[[S; 4]; 4], model: &[[S; 4]; 4]) -> CaseResult {
    let (zero, one) = (S::zero(), S::one());
    check_eq!(cx, view[3], [zero, zero, zero, one], "{}: last row is e4", what);
    check_eq!(cx, model[3], [zero, zero, zero, one], "{}: model last row is e4", what);
    let (v, m) = (mtof(view), mtof(model));
    let f = o.f;
    // the frame the property determines: third row +-forward (target on the forward axis, rigid), first row
    // orthogonal to forward and to up (up has no sideways component), orientation from det = +1 and up.y > 0
    let (s, u) = if rh {
        let s = unit(&cross3(&f, &o.un)).unwrap().0;
        (s, cross3(&s, &f))
    } else {
        let s = unit(&cross3(&o.un, &f)).unwrap().0;
        (s, cross3(&f, &s))
    };
    let sg = if rh { -1.0 } else { 1.0 };
    let rows = [s, u, [sg * f[0], sg * f[1], sg * f[2]]];
    let tol_r = KR * o.eps / o.sin;
    let r = [row3(&v, 0), row3(&v, 1), row3(&v, 2)];
    let rmod = [row3(&m, 0), row3(&m, 1), row3(&m, 2)];
    for i in 0..3 {
        for j in 0..3 {
            check_near!(cx, r[i][j], rows[i][j], tol_r, "{}: view rotation entry ({},{}) against the frame (side, up', +-forward) the property determines; view = {:?}", what, i, j, view);
            check_near!(cx, rmod[j][i], rows[i][j], tol_r, "{}: MODEL rotation entry ({},{}) against the transposed frame; model = {:?}", what, j, i, model);
        }
    }
    // validity predicates on the returned matrices themselves: orthogonal, determinant +1
    for (nm, q) in [("view", &r), ("model", &rmod)] {
        for i in 0..3 {
            for j in i..3 {
                check_near!(cx, dot3(&q[i], &q[j]), if i == j { 1.0 } else { 0.0 }, 4.0 * tol_r, "{}: {} rotation rows {} and {} orthonormal", what, nm, i, j);
            }
        }
        check_near!(cx, det3(q), 1.0, 4.0 * tol_r, "{}: {} determinant +1", what, nm);
    }
    let want_t = [0.0, 0.0, sg * o.dist];
    for i in 0..3 {
        // eye -> origin, relative to |eye|
        check_near!(cx, dot3(&r[i], &o.e) + v[i][3], 0.0, KT * o.eps * o.emag, "{}: eye maps to the origin (component {}, relative to |eye| = {:e})", what, i, o.emag);
        // target -> (0, 0, +-distance): relative to |eye| + |target| for the full affine map ...
        check_near!(cx, dot3(&r[i], &o.tg) + v[i][3], want_t[i], KT * o.eps * (o.emag + o.tmag) + 2.0 * tol_r * o.dist, "{}: target on the forward axis at the eye-target distance (component {})", what, i);
        // ... and relative to the distance alone for the rotation applied to target - eye
        check_near!(cx, dot3(&r[i], &o.dp), want_t[i], 2.0 * tol_r * o.dist, "{}: rotation part sends target - eye to (0, 0, +-distance) (component {})", what, i);
    }
    // up: x = 0, y > 0 (and then y = |up| sin by rigidity), relative to |up|
    check_near!(cx, dot3(&r[0], &o.up), 0.0, 2.0 * tol_r * o.ulen, "{}: up has no sideways component (relative to |up| = {:e})", what, o.ulen);
    let uy = dot3(&r[1], &o.up);
    check!(cx, uy > 0.0, "{}: up must stay in the upper half-plane, got y = {:e} for |up| = {:e}", what, uy, o.ulen);
    check_near!(cx, uy, o.ulen * o.sin, 2.0 * tol_r * o.ulen, "{}: vertical component of up is |up| sin(angle(up, forward))", what);
    // model: origin -> eye, inverse of the view matrix (blockwise: rotation blocks absolutely, translation
    // blocks relative to |eye|)
    check!(cx, (0..3).all(|i| m[i][3] == o.e[i]), "{}: model matrix sends the origin to the eye: column 3 = {:?}, eye = {:?}", what, [m[0][3], m[1][3], m[2][3]], o.e);
    for i in 0..3 {
        for j in 0..3 {
            let id = if i == j { 1.0 } else { 0.0 };
            let mv = (0..3).map(|k| m[i][k] * v[k][j]).sum::<f64>();
            let vm = (0..3).map(|k| v[i][k] * m[k][j]).sum::<f64>();
            check_near!(cx, mv, id, 4.0 * tol_r, "{}: (model * view)[{}][{}]", what, i, j);
            check_near!(cx, vm, id, 4.0 * tol_r, "{}: (view * model)[{}][{}]", what, i, j);
        }
        let mv_t = (0..3).map(|k| m[i][k] * v[k][3]).sum::<f64>() + m[i][3];
        let vm_t = (0..3).map(|k| v[i][k] * m[k][3]).sum::<f64>() + v[i][3];
        check_near!(cx, mv_t, 0.0, (KT * o.eps + 4.0 * tol_r) * o.emag, "{}: (model * view) translation {} (relative to |eye| = {:e})", what, i, o.emag);
        check_near!(cx, vm_t, 0.0, KT * o.eps * o.emag, "{}: (view * model) translation {} (relative to |eye| = {:e})", what, i, o.emag);
    }
    Ok(())
}

pub(crate) fn look_at_regime<S: Dom>(t: &mut Tape, cx: &mut Cx) -> CaseResult {
    let lm = lim::<S>();
    let (d0, up0) = gen_dir_up(t, cx, &lm);
    let kd = exp_in(t, lm.kd.0, lm.kd.1);
    let ku = exp_in(t, lm.ku.0, lm.ku.1);
    let ke = match t.below(4) {
        0 => 0,
        1 => kd + t.int(-lm.far, lm.far),
        2 => kd + t.int(lm.far / 2, lm.far),
        _ => exp_in(t, lm.ke.0, lm.ke.1),
    };
    let ke = ke.min(kd + lm.far).clamp(lm.ke.0, lm.ke.1);
    cx.label(exp_label(0, kd, lm.kd.0, lm.kd.1));
    cx.label(exp_label(1, ku, lm.ku.0, lm.ku.1));
    cx.label(exp_label(2, ke, lm.ke.0, lm.ke.1));
    if kd != 0 && ku != 0 && ke != 0 && (kd - ku).abs() > 8 && (kd - ke).abs() > 4 {
        cx.label("three different scales");
    }
    let eye0: [S; 3] = if t.chance(16) { [S::zero(); 3] } else { vk::gen_vec(t, 20) };
    let sc = |v: &[S; 3], k: i64| rf::scale(v, cast::<S>(p2(k)));
    let eye = sc(&eye0, ke);
    let d = sc(&[cast::<S>(d0[0]), cast::<S>(d0[1]), cast::<S>(d0[2])], kd);
    let target = rf::addv(&eye, &d);
    let up = sc(&[cast::<S>(up0[0]), cast::<S>(up0[1]), cast::<S>(up0[2])], ku);

    // oracle quantities, on the values as rounded into S
    let (e, tg, upf) = (tof(&eye), tof(&target), tof(&up));
    let dp = [tg[0] - e[0], tg[1] - e[1], tg[2] - e[2]];
    let Some((f, dist)) = unit(&dp) else { discard!("precondition:eye == target after rounding") };
    let Some((un, ulen)) = unit(&upf) else { discard!("precondition:up is zero after rounding") };
    let c = cross3(&un, &f);
    let sin = dot3(&c, &c).sqrt();
    if sin < MIN_SIN {
        discard!("precondition:up within 0.05 rad of the view direction after rounding");
    }
    // the range in which one squared length is finite and normal in S (see `lim`); rounding target = eye + d
    // next to a far eye moves the distance by at most 2^-6 relative
    if !(dist >= p2(lm.kd.0 - 1) && dist <= p2(lm.kd.1 + 5)) {
        discard!("precondition:distance left the range in which its square is finite and normal");
    }
    let emag = amax(&e);
    if emag > 0.0 && emag / dist >= 64.0 {
        cx.label("eye far from the origin, short view distance (|eye| >= 64 distance)");
    }
    if eye0.iter().all(|x| x.is_zero()) {
        cx.label("eye at the origin");
    }
    let o = Oracle { e, tg, up: upf, dp, f, un, dist, ulen, sin, emag, tmag: amax(&tg), eps: S::eps() };
    let nz = |a: &[f64; 3]| a.iter().all(|x| *x != 0.0);
    cx.set_nontrivial(nz(&o.e) && nz(&o.dp) && nz(&o.up) && sin < 0.999);
    sample!(cx, "{} eye={:?} target={:?} up={:?} (2^{} * eye0, distance 2^{} * {:?}, |up| 2^{} * {:?}) sin(up,forward)={:.4}", S::NAME, eye, target, up, ke, kd, dist / p2(kd), ku, ulen / p2(ku), sin);

    let (ve, vt, vu) = (vk::v3(&eye), vk::v3(&target), vk::v3(&up));
    let form = t.below(4);
    macro_rules! layout {
        ($l:ident, $n:expr) => {{
            let vlh = $l::Mat4::<S>::look_at_lh(ve, vt, vu);
            let vrh = $l::Mat4::<S>::look_at_rh(ve, vt, vu);
            let mlh = $l::Mat4::<S>::model_look_at_lh(ve, vt, vu);
            let mrh = $l::Mat4::<S>::model_look_at_rh(ve, vt, vu);
            judge::<S>(cx, &o, concat!($n, " look_at_lh / model_look_at_lh"), false, &vlh.to_arr(), &mlh.to_arr())?;
            judge::<S>(cx, &o, concat!($n, " look_at_rh / model_look_at_rh"), true, &vrh.to_arr(), &mrh.to_arr())?;
            check_eq!(cx, $l::Mat4::<S>::look_at(ve, vt, vu).to_arr(), vlh.to_arr(), "{} look_at == look_at_lh", $n);
            check_eq!(cx, $l::Mat4::<S>::model_look_at(ve, vt, vu).to_arr(), mlh.to_arr(), "{} model_look_at == model_look_at_lh", $n);
            // the other documented operand forms (`V: Into<Vec3<T>>`): Vec4 as in the doc examples (w = 1 for
            // points, 0 for up), arrays, tuples - same matrix
            macro_rules! forms {
                ($a:expr, $b:expr, $c:expr, $f:expr) => {{
                    check_eq!(cx, $l::Mat4::<S>::look_at_lh($a, $b, $c).to_arr(), vlh.to_arr(), "{} look_at_lh with {} operands", $n, $f);
                    check_eq!(cx, $l::Mat4::<S>::look_at_rh($a, $b, $c).to_arr(), vrh.to_arr(), "{} look_at_rh with {} operands", $n, $f);
                    check_eq!(cx, $l::Mat4::<S>::model_look_at_lh($a, $b, $c).to_arr(), mlh.to_arr(), "{} model_look_at_lh with {} operands", $n, $f);
                    check_eq!(cx, $l::Mat4::<S>::model_look_at_rh($a, $b, $c).to_arr(), mrh.to_arr(), "{} model_look_at_rh with {} operands", $n, $f);
                }};
            }
            match form {
                0 => forms!(Vec4::new(eye[0], eye[1], eye[2], S::one()), Vec4::new(target[0], target[1], target[2], S::one()), Vec4::new(up[0], up[1], up[2], S::zero()), "Vec4"),
                1 => forms!(eye, target, up, "[T; 3]"),
                2 => forms!((eye[0], eye[1], eye[2]), (target[0], target[1], target[2]), (up[0], up[1], up[2]), "tuple"),
                _ => {}
            }
        }};
    }
    layout!(rm, "row-major");
    layout!(cm, "col-major");
    Ok(())
}

/// A finite value at the edge of the type: MAX, -MAX, MIN_POSITIVE, a subnormal.
fn edge<S: Dom>(t: &mut Tape) -> S {
    let four = S::i(4);
    match t.below(5) {
        0 => S::max_value(),
        1 => -S::max_value(),
        2 => S::min_positive_value(),
        3 => S::min_positive_value() / four,
        _ => -S::min_positive_value() / four,
    }
}

pub(crate) fn basis_regime<S: Dom>(t: &mut Tape, cx: &mut Cx) -> CaseResult {
    let lm = lim::<S>();
    let (zero, one) = (S::zero(), S::one());
    let sc = |v: &[S; 3], k: i64| rf::scale(v, cast::<S>(p2(k)));
    let ko = exp_in(t, lm.ko.0, lm.ko.1);
    cx.label(exp_label(2, ko, lm.ko.0, lm.ko.1));
    let o0: [S; 3] = if t.chance(16) { [zero; 3] } else { vk::gen_vec(t, 20) };
    let o = sc(&o0, ko);
    // arbitrary basis vectors for local_to_basis: every vector its own scale, entries up to the edge of the type
    let arb = |t: &mut Tape, cx: &mut Cx| -> [S; 3] {
        let k = exp_in(t, lm.kb.0, lm.kb.1);
        let v0: [S; 3] = vk::gen_vec(t, 9);
        let mut v = sc(&v0, k);
        if t.chance(32) {
            cx.label("basis entry at the edge of the type (MAX, MIN_POSITIVE, subnormal)");
            v[t.below(3)] = edge::<S>(t);
        }
        if k < lm.kb.0 / 2 {
            cx.label("arbitrary basis vector: tiny");
        } else if k > lm.kb.1 / 2 {
            cx.label("arbitrary basis vector: huge");
        }
        v
    };
    let (i, j, k) = (arb(t, cx), arb(t, cx), arb(t, cx));
    let o_arb = if t.chance(48) { [edge::<S>(t), o[1], edge::<S>(t)] } else { o };

    // orthonormal basis: signed permutation * {identity, rational rotation, rotation by a tiny angle}
    let perm = [[0, 1, 2], [0, 2, 1], [1, 0, 2], [1, 2, 0], [2, 0, 1], [2, 1, 0]][t.below(6)];
    let signs = if t.bool() { 0 } else { t.below(8) };
    let q: [[S; 3]; 3] = match t.below(4) {
        0 => {
            cx.label("orthonormal basis: signed permutation of the axes");
            rf::identity()
        }
        1 => {
            cx.label("orthonormal basis: next to a signed permutation (tiny rotation)");
            let w = 1i64 << t.int(2, lm.qw);
            gens::rotation_from_int_quat::<S>(&[w, t.int(-3, 3), t.int(-3, 3), t.int(-3, 3)])
        }
        _ => {
            cx.label("orthonormal basis: rational rotation");
            gens::rotation3::<S>(t)
        }
    };
    // column c of the basis matrix = basis vector c; rows permuted and negated exactly
    let mut b = [[zero; 3]; 3];
    for r in 0..3 {
        for c in 0..3 {
            b[r][c] = if signs >> r & 1 == 1 { -q[perm[r]][c] } else { q[perm[r]][c] };
        }
    }
    let col = |c: usize| [b[0][c], b[1][c], b[2][c]];
    let (oi, oj, ok) = (col(0), col(1), col(2));
    let bf = [tof(&oi), tof(&oj), tof(&ok)];
    if det3(&bf) < 0.0 {
        cx.label("improper-basis");
    }
    let of = tof(&o);
    let omag = amax(&of);
    let nz = |a: &[S; 3]| a.iter().all(|x| !x.is_zero());
    cx.set_nontrivial(nz(&o) && nz(&oi) && nz(&oj));
    sample!(cx, "{} origin={:?} (2^{} * {:?}) i={:?} j={:?} k={:?} origin'={:?} orthonormal=({:?},{:?},{:?})", S::NAME, o, ko, o0, i, j, k, o_arb, oi, oj, ok);
    let eps = S::eps();
    macro_rules! layout {
        ($l:ident, $n:expr) => {{
            // local_to_basis: 0 -> origin and e_c -> origin + (c-th vector) for an affine map means: columns
            // are i, j, k, origin and the last row is e4 - no arithmetic, so exact at every finite magnitude
            let m = $l::Mat4::<S>::local_to_basis(vk::v3(&o_arb), vk::v3(&i), vk::v3(&j), vk::v3(&k)).to_arr();
            let want = [[i[0], j[0], k[0], o_arb[0]], [i[1], j[1], k[1], o_arb[1]], [i[2], j[2], k[2], o_arb[2]], [zero, zero, zero, one]];
            check_eq!(cx, m, want, "{} local_to_basis(origin, i, j, k) has columns i, j, k, origin", $n);
            let l2b = $l::Mat4::<S>::local_to_basis(vk::v3(&o), vk::v3(&oi), vk::v3(&oj), vk::v3(&ok)).to_arr();
            let want = [[oi[0], oj[0], ok[0], o[0]], [oi[1], oj[1], ok[1], o[1]], [oi[2], oj[2], ok[2], o[2]], [zero, zero, zero, one]];
            check_eq!(cx, l2b, want, "{} local_to_basis(origin, orthonormal basis) has columns i, j, k, origin", $n);
            let b2l = $l::Mat4::<S>::basis_to_local(vk::v3(&o), vk::v3(&oi), vk::v3(&oj), vk::v3(&ok)).to_arr();
            check_eq!(cx, b2l[3], [zero, zero, zero, one], "{} basis_to_local: last row is e4", $n);
            let (a, l) = (mtof(&b2l), mtof(&l2b));
            for r in 0..3 {
                let ar = row3(&a, r);
                // origin -> 0, relative to |origin|
                check_near!(cx, dot3(&ar, &of) + a[r][3], 0.0, KB * eps * omag, "{} basis_to_local: origin -> 0 (component {}, relative to |origin| = {:e})", $n, r, omag);
                for c in 0..3 {
                    let id = if r == c { 1.0 } else { 0.0 };
                    // origin + (c-th vector) -> e_c: by linearity, the linear part sends the c-th vector to e_c
                    check_near!(cx, dot3(&ar, &bf[c]), id, KB * eps, "{} basis_to_local: linear part sends basis vector {} to the unit axis (component {})", $n, c, r);
                    check_near!(cx, a[r][c], bf[r][c], KB * eps, "{} basis_to_local: entry ({},{}) is the inverse (= transpose) of the basis", $n, r, c);
                    let ab = (0..3).map(|x| a[r][x] * l[x][c]).sum::<f64>();
                    let ba = (0..3).map(|x| l[r][x] * a[x][c]).sum::<f64>();
                    check_near!(cx, ab, id, KB * eps, "{} (basis_to_local * local_to_basis)[{}][{}]", $n, r, c);
                    check_near!(cx, ba, id, KB * eps, "{} (local_to_basis * basis_to_local)[{}][{}]", $n, r, c);
                }
                let ab_t = (0..3).map(|x| a[r][x] * l[x][3]).sum::<f64>() + a[r][3];
                let ba_t = (0..3).map(|x| l[r][x] * a[x][3]).sum::<f64>() + l[r][3];
                check_near!(cx, ab_t, 0.0, KB * eps * omag, "{} (basis_to_local * local_to_basis) translation {} (relative to |origin| = {:e})", $n, r, omag);
                check_near!(cx, ba_t, 0.0, KB * eps * omag, "{} (local_to_basis * basis_to_local) translation {} (relative to |origin| = {:e})", $n, r, omag);
            }
        }};
    }
    layout!(rm, "row-major");
    layout!(cm, "col-major");
    Ok(())
}

// ---------------------------------------------------------------------------------------------------------
// STEEP cameras (small legal angle a between up and the view direction, parallel or antiparallel side) and
// the symmetric family, up almost exactly perpendicular to the view direction.
//
// What is ill-conditioned at a small angle is only the ROLL (direction of side / up' around the view axis):
// a relative perturbation eps of up or of target - eye turns it by eps / sin a, whatever the implementation.
// Unit length of the three axes, up' . forward, side . up' and the determinant are NOT ill-conditioned, and the
// component of a roll axis along forward is first order (eps / sin a) at worst. So rigidity is asserted with
// fixed multiples of eps (plus the first-order term on the dots with forward, plus its square where it enters
// quadratically) - nothing here grows like 1 / a^2 - and the roll against an oracle whose cross product is
// evaluated with error-free transformations, to CROLL eps / sin a.
// ---------------------------------------------------------------------------------------------------------

/// |row|^2 - 1 and det - 1: fixed budget in eps. Worst case by operation count: a normalised vector is unit to
/// 2.5 eps (sum of squares, sqrt, division), the second cross product of two such to 5.5 eps, squared / tripled
/// 11 eps, plus 2 eps of evaluation when S = f64. Observed on the unchanged tree: <= 5 at every angle.
const CN: f64 = 24.0;
/// side . up' and the fixed part of the dots with forward (worst case ~4, observed <= 1).
const CD: f64 = 12.0;
/// first-order part of (roll axis) . forward, in eps / sin a: the rounding of the products of the cross product
/// projects onto forward with at most 3 max|fx fy fz| ~ 0.6 (observed 0.39 on the unchanged tree for side . forward).
const CS: f64 = 8.0;
/// roll: entries of side and up' against the oracle, in eps / sin a (worst case by operation count ~5).
const CROLL: f64 = 64.0;
/// forward row against unit(target - eye): well conditioned (worst case ~3.5 eps).
const CFWD: f64 = 12.0;

fn two_sum(a: f64, b: f64) -> (f64, f64) {
    let s = a + b;
    let bb = s - a;
    (s, (a - (s - bb)) + (b - bb))
}
fn two_prod(a: f64, b: f64) -> (f64, f64) {
    let p = a * b;
    (p, a.mul_add(b, -p))
}
/// a1*b1 - a2*b2 rounded once (relative to the RESULT, not to the products): error-free products and sum
fn diff_of_products(a1: f64, b1: f64, a2: f64, b2: f64) -> f64 {
    let (p1, e1) = two_prod(a1, b1);
    let (p2, e2) = two_prod(a2, b2);
    let (s, e) = two_sum(p1, -p2);
    s + (e + (e1 - e2))
}
/// a x (b_hi + b_lo), the leading part without cancellation error
fn cross_accurate(a: &[f64; 3], bh: &[f64; 3], bl: &[f64; 3]) -> [f64; 3] {
    let c = |i: usize, j: usize| diff_of_products(a[i], bh[j], a[j], bh[i]) + (a[i] * bl[j] - a[j] * bl[i]);
    [c(1, 2), c(2, 0), c(0, 1)]
}
fn exp_of(m: f64) -> i64 {
    ((((m.to_bits() >> 52) & 0x7ff) as i64) - 1023).clamp(-1021, 1021)
}

struct Steep {
    e: [f64; 3],
    up: [f64; 3],
    dp: [f64; 3],
    f: [f64; 3],
    /// unit(up x (target - eye)), cross product free of cancellation error
    side_lh: [f64; 3],
    dist: f64,
    ulen: f64,
    sin: f64,
    cos: f64,
    emag: f64,
    eps: f64,
}

fn judge_steep<S: Dom>(cx: &mut Cx, o: &Steep, what: &str, rh: bool, view: &[[S; 4]; 4], model: &[[S; 4]; 4]) -> CaseResult {
    let (zero, one) = (S::zero(), S::one());
    check_eq!(cx, view[3], [zero, zero, zero, one], "{}: last row is e4", what);
    check_eq!(cx, model[3], [zero, zero, zero, one], "{}: model last row is e4", what);
    let (v, m) = (mtof(view), mtof(model));
    let (eps, f) = (o.eps, o.f);
    let first = CS * eps / o.sin; // first-order term
    let r = [row3(&v, 0), row3(&v, 1), row3(&v, 2)];
    let c = [[m[0][0], m[1][0], m[2][0]], [m[0][1], m[1][1], m[2][1]], [m[0][2], m[1][2], m[2][2]]]; // model columns
    let names = ["side", "up'", "forward"];
    for (nm, q) in [("view rows", &r), ("model columns", &c)] {
        // RIGIDITY - none of these tolerances grows like 1 / sin^2
        for i in 0..3 {
            check_near!(cx, dot3(&q[i], &q[i]), 1.0, CN * eps + first * first, "{}: {}: |{}|^2 = 1 (sin(up, forward) = {:.3e}); view = {:?} model = {:?}", what, nm, names[i], o.sin, view, model);
        }
        check_near!(cx, dot3(&q[0], &q[1]), 0.0, CD * eps, "{}: {}: side . up' = 0 (sin(up, forward) = {:.3e})", what, nm, o.sin);
        check_near!(cx, dot3(&q[0], &q[2]), 0.0, CD * eps + first, "{}: {}: side . forward = 0 (sin(up, forward) = {:.3e})", what, nm, o.sin);
        check_near!(cx, dot3(&q[1], &q[2]), 0.0, CD * eps + first, "{}: {}: up' . forward = 0 (sin(up, forward) = {:.3e})", what, nm, o.sin);
        check_near!(cx, det3(q), 1.0, CN * eps + first * first, "{}: {}: determinant +1 (sin(up, forward) = {:.3e})", what, nm, o.sin);
    }
    // ROLL and forward against the oracle
    let sg = if rh { -1.0 } else { 1.0 };
    let s = [sg * o.side_lh[0], sg * o.side_lh[1], sg * o.side_lh[2]]; // f x up = -(up x f)
    let u = if rh { cross3(&s, &f) } else { cross3(&f, &s) };
    let rows = [s, u, [sg * f[0], sg * f[1], sg * f[2]]];
    let tol_roll = CROLL * eps / o.sin;
    for i in 0..3 {
        let tol = if i == 2 { CFWD * eps } else { tol_roll };
        for j in 0..3 {
            check_near!(cx, r[i][j], rows[i][j], tol, "{}: view {} axis, component {} (sin(up, forward) = {:.3e}); view = {:?}", what, names[i], j, o.sin, view);
            check_near!(cx, c[i][j], rows[i][j], tol, "{}: MODEL {} axis, component {} (sin(up, forward) = {:.3e}); model = {:?}", what, names[i], j, o.sin, model);
        }
    }
    // images: eye -> 0 relative to |eye|; target - eye -> (0, 0, +-distance); up -> (0, > 0, .)
    for i in 0..3 {
        check_near!(cx, dot3(&r[i], &o.e) + v[i][3], 0.0, KT * eps * o.emag, "{}: eye maps to the origin (component {}, relative to |eye| = {:e})", what, i, o.emag);
        let (want, tol) = if i == 2 { (sg * o.dist, CFWD * eps * o.dist) } else { (0.0, (CD * eps + first) * o.dist) };
        check_near!(cx, dot3(&r[i], &o.dp), want, tol, "{}: rotation part sends target - eye to (0, 0, +-distance) (component {}, sin(up, forward) = {:.3e})", what, i, o.sin);
    }
    check_near!(cx, dot3(&r[0], &o.up), 0.0, tol_roll * o.ulen, "{}: up has no sideways component (relative to |up| = {:e}, sin(up, forward) = {:.3e})", what, o.ulen, o.sin);
    let uy = dot3(&r[1], &o.up);
    check!(cx, uy > 0.0, "{}: up must stay in the upper half-plane, got y = {:e} for |up| = {:e}, sin(up, forward) = {:.3e}", what, uy, o.ulen, o.sin);
    check_near!(cx, uy, o.ulen * o.sin, (CD * eps + first * o.cos.abs()) * o.ulen + tol_roll * tol_roll * o.ulen, "{}: vertical component of up is |up| sin(up, forward)", what);
    // model: origin -> eye; model * view = view * model = identity (rotation blocks to twice the first-order
    // budget - view and model may each carry their own first-order roll error -, translation blocks relative
    // to |eye|)
    check!(cx, (0..3).all(|i| m[i][3] == o.e[i]), "{}: model matrix sends the origin to the eye: column 3 = {:?}, eye = {:?}", what, [m[0][3], m[1][3], m[2][3]], o.e);
    for i in 0..3 {
        for j in 0..3 {
            let id = if i == j { 1.0 } else { 0.0 };
            let mv = (0..3).map(|k| m[i][k] * v[k][j]).sum::<f64>();
            let vm = (0..3).map(|k| v[i][k] * m[k][j]).sum::<f64>();
            check_near!(cx, mv, id, CN * eps + 2.0 * first, "{}: (model * view)[{}][{}] (sin(up, forward) = {:.3e})", what, i, j, o.sin);
            check_near!(cx, vm, id, CN * eps + 2.0 * first, "{}: (view * model)[{}][{}] (sin(up, forward) = {:.3e})", what, i, j, o.sin);
        }
        let mv_t = (0..3).map(|k| m[i][k] * v[k][3]).sum::<f64>() + m[i][3];
        let vm_t = (0..3).map(|k| v[i][k] * m[k][3]).sum::<f64>() + v[i][3];
        check_near!(cx, mv_t, 0.0, (KT * eps + 3.0 * first) * o.emag, "{}: (model * view) translation {} (relative to |eye| = {:e})", what, i, o.emag);
        check_near!(cx, vm_t, 0.0, KT * eps * o.emag, "{}: (view * model) translation {} (relative to |eye| = {:e})", what, i, o.emag);
    }
    Ok(())
}

pub(crate) fn look_at_steep<S: Dom>(t: &mut Tape, cx: &mut Cx) -> CaseResult {
    let lm = lim::<S>();
    let f32_ = S::NAME == "f32";
    // orthonormal pair (f, w) at unit scale
    let (f, w): ([f64; 3], [f64; 3]) = match t.below(4) {
        0 => {
            cx.label("direction: rational rotation frame");
            let r = gens::rotation3::<f64>(t);
            ([r[0][2], r[1][2], r[2][2]], [r[0][1], r[1][1], r[2][1]])
        }
        1 => {
            cx.label("direction: along or next to a coordinate axis");
            let i = t.below(3);
            let (j, k) = ((i + 1) % 3, (i + 2) % 3);
            let mut f = axis(i, if t.bool() { -1.0 } else { 1.0 });
            if t.bool() {
                f[j] = p2(-t.int(1, lm.delta));
                f[k] = if t.bool() { 0.0 } else { -p2(-t.int(1, lm.delta)) };
            }
            let f = unit(&f).unwrap().0;
            let g = if t.bool() { axis(j, 1.0) } else { lin(0.6, &axis(j, 1.0), -0.8, &axis(k, 1.0)) };
            let h = dot3(&g, &f);
            (f, unit(&lin(1.0, &g, -h, &f)).unwrap().0)
        }
        _ => {
            cx.label("direction: random");
            let f = [t.range_f64(-1.0, 1.0), t.range_f64(-1.0, 1.0), t.range_f64(-1.0, 1.0)];
            let f = match unit(&f) {
                Some((f, n)) if n > 0.05 => f,
                _ => [0.48, -0.6, 0.64],
            };
            let g = [t.range_f64(-1.0, 1.0), t.range_f64(-1.0, 1.0), t.range_f64(-1.0, 1.0)];
            let h = dot3(&g, &f);
            let w = lin(1.0, &g, -h, &f);
            match unit(&w) {
                Some((w, n)) if n > 0.05 => (f, w),
                _ => {
                    let m = (0..3).min_by(|&a, &b| f[a].abs().partial_cmp(&f[b].abs()).unwrap()).unwrap();
                    let g = axis(m, 1.0);
                    (f, unit(&lin(1.0, &g, -f[m], &f)).unwrap().0)
                }
            }
        }
    };
    // angle family
    let (amin, octaves) = if f32_ { (1e-3, 9.0) } else { (1e-7, 22.3) };
    let (cs, sn): (f64, f64) = match t.below(8) {
        0 | 1 | 2 => {
            cx.label("steep: up within 0.5 rad of +forward");
            let a = 0.5 * (-t.range_f64(0.0, octaves)).exp2();
            (a.cos(), a.sin())
        }
        3 | 4 | 5 => {
            cx.label("steep: up within 0.5 rad of -forward (antiparallel side)");
            let a = 0.5 * (-t.range_f64(0.0, octaves)).exp2();
            (-a.cos(), a.sin())
        }
        _ => {
            cx.label("up almost perpendicular to forward (|cos| 1e-3 .. 1e-12)");
            let c = 1e-3 * (-t.range_f64(0.0, 30.0)).exp2();
            (if t.bool() { -c } else { c }, (1.0 - c * c).sqrt())
        }
    };
    let ul = t.pick(&[1.0f64, 1.0, 0.75, 1.5, 3.0, 3.9375]);
    let l = if t.bool() { t.int(1, 16) as f64 } else { t.range_f64(1.0, 16.0) };
    let up0 = lin(cs * ul, &f, sn * ul, &w);
    let d0 = [f[0] * l, f[1] * l, f[2] * l];
    // magnitudes: ordinary in half of the cases, otherwise exact powers of two over the range of `lim`
    // (2^4 inside the ends: |up x f|^2 = |up|^2 sin^2 must stay normal down to sin = amin / 2)
    let pad = if f32_ { 12 } else { 26 };
    let kd = exp_in(t, lm.kd.0, lm.kd.1);
    let ku = exp_in(t, lm.ku.0 + pad, lm.ku.1);
    let eye0: [S; 3] = if t.chance(32) { [S::zero(); 3] } else { vk::gen_vec(t, 20) };
    let ke = kd + t.int(-6, 2);
    cx.label(exp_label(0, kd, lm.kd.0, lm.kd.1));
    cx.label(exp_label(1, ku, lm.ku.0, lm.ku.1));
    let sc = |v: &[S; 3], k: i64| rf::scale(v, cast::<S>(p2(k)));
    let eye = sc(&eye0, ke);
    let d = sc(&[cast::<S>(d0[0]), cast::<S>(d0[1]), cast::<S>(d0[2])], kd);
    let target = rf::addv(&eye, &d);
    let up = sc(&[cast::<S>(up0[0]), cast::<S>(up0[1]), cast::<S>(up0[2])], ku);

    // oracle on the values as rounded into S; target - eye as an unevaluated sum hi + lo
    let (e, tg, upf) = (tof(&eye), tof(&target), tof(&up));
    let (mut dh, mut dl) = ([0.0; 3], [0.0; 3]);
    for i in 0..3 {
        let (s, r) = two_sum(tg[i], -e[i]);
        dh[i] = s;
        dl[i] = r;
    }
    let Some((fo, dist)) = unit(&dh) else { discard!("precondition:eye == target after rounding") };
    let Some((un, ulen)) = unit(&upf) else { discard!("precondition:up is zero after rounding") };
    let ed = exp_of(amax(&dh));
    let (dhs, dls) = ([dh[0] * p2(-ed), dh[1] * p2(-ed), dh[2] * p2(-ed)], [dl[0] * p2(-ed), dl[1] * p2(-ed), dl[2] * p2(-ed)]);
    let c = cross_accurate(&un, &dhs, &dls);
    let Some((side_lh, cn)) = unit(&c) else { discard!("precondition:up parallel to the view direction after rounding") };
    let dn = dot3(&dhs, &dhs).sqrt();
    let sin = cn / dn;
    let cos = dot3(&un, &dhs) / dn;
    let steep = cs.abs() > 0.5;
    if steep && sin < amin / 2.0 {
        discard!("precondition:angle between up and the view direction below half the smallest generated angle after rounding");
    }
    if !(dist >= p2(lm.kd.0 - 1) && dist <= p2(lm.kd.1 + 5)) {
        discard!("precondition:distance left the range in which its square is finite and normal");
    }
    if steep {
        cx.label(if sin >= 0.1 {
            "angle 0.1 .. 0.5"
        } else if sin >= 1e-2 {
            "angle 1e-2 .. 0.1"
        } else if sin >= 1e-3 {
            "angle 1e-3 .. 1e-2"
        } else if sin >= 1e-5 {
            "angle 1e-5 .. 1e-3"
        } else {
            "angle < 1e-5"
        });
    } else {
        cx.label(if cos.abs() >= 1e-6 {
            "|cos(up, forward)| 1e-6 .. 1e-3"
        } else if cos.abs() >= 1e-9 {
            "|cos(up, forward)| 1e-9 .. 1e-6"
        } else if cos != 0.0 {
            "|cos(up, forward)| < 1e-9, not 0"
        } else {
            "cos(up, forward) exactly 0 after rounding"
        });
    }
    let o = Steep { e, up: upf, dp: dh, f: fo, side_lh, dist, ulen, sin, cos, emag: amax(&e), eps: S::eps() };
    let nz = |a: &[f64; 3]| a.iter().all(|x| *x != 0.0);
    cx.set_nontrivial(nz(&o.dp) && nz(&o.up) && (steep || cos != 0.0));
    sample!(cx, "{} eye={:?} target={:?} up={:?} (distance 2^{} * {:?}, |up| 2^{} * {:?}) sin(up,forward)={:.4e} cos={:.4e}", S::NAME, eye, target, up, kd, dist / p2(kd), ku, ulen / p2(ku), sin, cos);

    let (ve, vt, vu) = (vk::v3(&eye), vk::v3(&target), vk::v3(&up));
    macro_rules! layout {
        ($l:ident, $n:expr) => {{
            let vlh = $l::Mat4::<S>::look_at_lh(ve, vt, vu);
            let vrh = $l::Mat4::<S>::look_at_rh(ve, vt, vu);
            let mlh = $l::Mat4::<S>::model_look_at_lh(ve, vt, vu);
            let mrh = $l::Mat4::<S>::model_look_at_rh(ve, vt, vu);
            judge_steep::<S>(cx, &o, concat!($n, " look_at_lh / model_look_at_lh"), false, &vlh.to_arr(), &mlh.to_arr())?;
            judge_steep::<S>(cx, &o, concat!($n, " look_at_rh / model_look_at_rh"), true, &vrh.to_arr(), &mrh.to_arr())?;
            check_eq!(cx, $l::Mat4::<S>::look_at(ve, vt, vu).to_arr(), vlh.to_arr(), "{} look_at == look_at_lh", $n);
            check_eq!(cx, $l::Mat4::<S>::model_look_at(ve, vt, vu).to_arr(), mlh.to_arr(), "{} model_look_at == model_look_at_lh", $n);
        }};
    }
    layout!(rm, "row-major");
    layout!(cm, "col-major");
    Ok(())
}
