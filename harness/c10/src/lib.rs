//! C10 — viewport projection, unprojection and the picking matrix are consistent.

use vek::geom::repr_c::Rect;
use vek::mat::repr_c::column_major as cm;
use vek::mat::repr_c::row_major as rm;
use vek::vec::repr_c::Vec2;
use vkit::gens;
use vkit::refmath as rf;
use vkit::vk::{self, MatN};
use vkit::*;

mod regime;

struct Setup<S> {
    mv: [[S; 4]; 4],
    proj: [[S; 4]; 4],
    vp: [S; 4], // x, y, w, h
    structured: bool,
}

fn gen_viewport<S: Dom>(t: &mut Tape, cx: &mut Cx) -> [S; 4] {
    let x = S::q(t.int(-50, 200), t.pick(&[1i64, 1, 2]));
    let y = S::q(t.int(-50, 200), t.pick(&[1i64, 1, 4]));
    let w = S::q(t.int(1, 2000), t.pick(&[1i64, 1, 3]));
    let mut h = S::q(t.int(1, 1500), t.pick(&[1i64, 1, 2]));
    if t.chance(24) {
        cx.label("negative-viewport-height");
        h = -h;
    }
    [x, y, w, h]
}

fn gen_setup<S: Dom>(t: &mut Tape, cx: &mut Cx) -> Setup<S> {
    let vp = gen_viewport::<S>(t, cx);
    if t.bool() {
        // structured: rigid model-view, perspective or orthographic projection (built with vek's constructors; their
        // own correctness is C08's business — here they are just invertible matrices of the usual shape)
        cx.label("structured");
        let mv = gens::rigid4::<S>(t);
        let n = S::q(t.int(1, 9), t.pick(&[1i64, 2, 10]));
        let f = n * S::q(t.int(2, 20), 1);
        let proj = match t.below(4) {
            0 => cm::Mat4::<S>::perspective_rh_no(S::angle_0_pi(t), S::q(t.int(1, 16), t.int(1, 9)), n, f).to_arr(),
            1 => cm::Mat4::<S>::perspective_lh_zo(S::angle_0_pi(t), S::q(t.int(1, 16), t.int(1, 9)), n, f).to_arr(),
            2 => cm::Mat4::<S>::orthographic_rh_no(vek::geom::FrustumPlanes { left: S::i(-t.int(1, 9)), right: S::i(t.int(1, 9)), bottom: S::i(-t.int(1, 9)), top: S::i(t.int(1, 9)), near: n, far: f }).to_arr(),
            _ => cm::Mat4::<S>::frustum_rh_zo(vek::geom::FrustumPlanes { left: S::i(-t.int(1, 9)), right: S::i(t.int(1, 5)), bottom: S::i(-t.int(1, 3)), top: S::i(t.int(1, 9)), near: n, far: f }).to_arr(),
        };
        Setup { mv, proj, vp, structured: true }
    } else {
        cx.label("arbitrary-invertible");
        let g = |t: &mut Tape| {
            let mut m = [[S::zero(); 4]; 4];
            for i in 0..4 {
                for j in 0..4 {
                    m[i][j] = if S::EXACT { S::small(t, 6) } else { S::i(t.int(-4, 4)) };
                }
            }
            m
        };
        Setup { mv: g(t), proj: g(t), vp, structured: false }
    }
}

/// Reference projection (GLM project semantics written from the property statement).
fn project_ref<S: Dom>(s: &Setup<S>, p: &[S; 3], zo: bool) -> Option<[S; 3]> {
    let clip = rf::matvec(&s.proj, &rf::matvec(&s.mv, &[p[0], p[1], p[2], S::one()]));
    if clip[3].is_zero() || (!S::EXACT && clip[3].f().abs() < 0.05) {
        return None;
    }
    let ndc = [clip[0] / clip[3], clip[1] / clip[3], clip[2] / clip[3]];
    let two = S::i(2);
    let x = s.vp[0] + s.vp[2] * (ndc[0] + S::one()) / two;
    let y = s.vp[1] + s.vp[3] * (ndc[1] + S::one()) / two;
    let z = if zo { ndc[2] } else { (ndc[2] + S::one()) / two };
    Some([x, y, z])
}

fn viewport<S: Dom>(t: &mut Tape, cx: &mut Cx) -> CaseResult {
    let s = gen_setup::<S>(t, cx);
    let pm = rf::matmul(&s.proj, &s.mv);
    let d = rf::det(&pm);
    if d.is_zero() || (!S::EXACT && d.f().abs() < 0.5 && !s.structured) {
        discard!("precondition:singular-or-ill-conditioned");
    }
    let p: [S; 3] = if s.structured {
        // a point roughly in front of the camera: apply the inverse rigid transform to a point with negative/positive z
        let local = [S::any(t, 4), S::any(t, 4), S::any(t, 9)];
        let inv = rf::inverse(&s.mv).unwrap();
        let w = rf::matvec(&inv, &[local[0], local[1], local[2], S::one()]);
        [w[0], w[1], w[2]]
    } else {
        vk::gen_vec(t, 9)
    };
    let (want_no, want_zo) = match (project_ref(&s, &p, false), project_ref(&s, &p, true)) {
        (Some(a), Some(b)) => (a, b),
        _ => discard!("precondition:clip-w=0"),
    };
    let clipw = rf::matvec(&pm, &[p[0], p[1], p[2], S::one()])[3];
    let vp_centre_off = !s.vp[0].is_zero() && !s.vp[1].is_zero() && s.vp[2] != s.vp[3];
    cx.set_nontrivial(vp_centre_off && clipw != S::one() && p.iter().all(|x| !x.is_zero()));
    sample!(cx, "{} modelview={:?} proj={:?} viewport(x,y,w,h)={:?} p={:?} clip w={:?}", S::NAME, s.mv, s.proj, s.vp, p, clipw);
    let rect = Rect { x: s.vp[0], y: s.vp[1], w: s.vp[2], h: s.vp[3] };
    // conditioning of the unprojection in floats: |inverse| * |matrix|, and 1/|w|
    let inv = rf::inverse(&pm).unwrap();
    let cond = (vk::mat_max(&pm).max(1.0) * vk::mat_max(&inv).max(1.0) * 16.0).max(1.0);
    let vsc = s.vp.iter().fold(1.0f64, |m, x| m.max(x.f().abs()));
    let psc = vk::vec_max(&p).max(1.0) * vk::mat_max(&pm).max(1.0) * 8.0 / clipw.f().abs().min(1.0);
    let kf = 4096.0;
    macro_rules! layout {
        ($l:ident, $n:expr) => {{
            let (mv, pr) = ($l::Mat4::<S>::from_arr(&s.mv), $l::Mat4::<S>::from_arr(&s.proj));
            let got_no = vk::a3(&$l::Mat4::<S>::world_to_viewport_no(vk::v3(&p), mv, pr, rect));
            let got_zo = vk::a3(&$l::Mat4::<S>::world_to_viewport_zo(vk::v3(&p), mv, pr, rect));
            check_vec!(cx, S, got_no, want_no, vsc * psc, kf, "{} world_to_viewport_no vs reference projection", $n);
            check_vec!(cx, S, got_zo, want_zo, vsc * psc, kf, "{} world_to_viewport_zo vs reference projection", $n);
            // unprojecting the projection returns the original point
            let back_no = vk::a3(&$l::Mat4::<S>::viewport_to_world_no(vk::v3(&got_no), mv, pr, rect));
            let back_zo = vk::a3(&$l::Mat4::<S>::viewport_to_world_zo(vk::v3(&got_zo), mv, pr, rect));
            let rsc = vk::vec_max(&p).max(1.0) * cond * cond * psc;
            check_vec!(cx, S, back_no, p, rsc, kf, "{} viewport_to_world_no(world_to_viewport_no(p)) = p", $n);
            check_vec!(cx, S, back_zo, p, rsc, kf, "{} viewport_to_world_zo(world_to_viewport_zo(p)) = p", $n);
        }};
    }
    layout!(rm, "row-major");
    layout!(cm, "col-major");
    // the converse round trip (exact domains only: a window point with depth, unprojected then projected)
    if S::EXACT {
        let win = [s.vp[0] + s.vp[2] * S::q(t.int(0, 8), 8), s.vp[1] + s.vp[3] * S::q(t.int(0, 8), 8), S::q(t.int(1, 7), 8)];
        let (mv, pr) = (cm::Mat4::<S>::from_arr(&s.mv), cm::Mat4::<S>::from_arr(&s.proj));
        // the unprojected homogeneous point must have w != 0, and projecting it back must not hit clip w = 0
        let two = S::i(2);
        for zo in [false, true] {
            let ndc = [(win[0] - s.vp[0]) / s.vp[2] * two - S::one(), (win[1] - s.vp[1]) / s.vp[3] * two - S::one(), if zo { win[2] } else { win[2] * two - S::one() }];
            let obj = rf::matvec(&inv, &[ndc[0], ndc[1], ndc[2], S::one()]);
            if obj[3].is_zero() {
                continue;
            }
            let world = if zo { cm::Mat4::<S>::viewport_to_world_zo(vk::v3(&win), mv, pr, rect) } else { cm::Mat4::<S>::viewport_to_world_no(vk::v3(&win), mv, pr, rect) };
            check_eq!(cx, vk::a3(&world), [obj[0] / obj[3], obj[1] / obj[3], obj[2] / obj[3]], "viewport_to_world_{} vs reference unprojection", if zo { "zo" } else { "no" });
            let again = if zo { cm::Mat4::<S>::world_to_viewport_zo(world, mv, pr, rect) } else { cm::Mat4::<S>::world_to_viewport_no(world, mv, pr, rect) };
            check_eq!(cx, vk::a3(&again), win, "world_to_viewport_{0}(viewport_to_world_{0}(win)) = win", if zo { "zo" } else { "no" });
        }
    }
    Ok(())
}

fn picking<S: Dom>(t: &mut Tape, cx: &mut Cx) -> CaseResult {
    let vp = gen_viewport::<S>(t, cx);
    let centre = [vp[0] + vp[2] * S::q(t.int(-4, 12), 8), vp[1] + vp[3] * S::q(t.int(-4, 12), 8)];
    let size = [S::q(t.int(1, 400), t.pick(&[1i64, 1, 2, 3])), S::q(t.int(1, 300), t.pick(&[1i64, 1, 2, 5]))];
    let two = S::i(2);
    let rect = Rect { x: vp[0], y: vp[1], w: vp[2], h: vp[3] };
    let vc = [vp[0] + vp[2] / two, vp[1] + vp[3] / two];
    cx.set_nontrivial(centre[0] != vc[0] && centre[1] != vc[1] && vp[2] != vp[3] && size[0] != size[1]);
    sample!(cx, "{} viewport(x,y,w,h)={:?} centre={:?} size={:?}", S::NAME, vp, centre, size);
    let z = S::any(t, 9);
    let w = S::q(t.int(1, 9), 2);
    // window coordinate -> clip coordinate of the viewport (ndc, then times w)
    let to_ndc = |x: S, axis: usize| (x - vp[axis]) / vp[2 + axis] * two - S::one();
    let sc = 64.0 * vp.iter().fold(1.0f64, |m, x| m.max(x.f().abs())) / size[0].f().min(size[1].f()).min(1.0) * (1.0 + (centre[0].f().abs() + centre[1].f().abs()) / vp[2].f().abs().min(vp[3].f().abs()));
    macro_rules! layout {
        ($l:ident, $n:expr) => {{
            let m = $l::Mat4::<S>::picking_region(Vec2 { x: centre[0], y: centre[1] }, Vec2 { x: size[0], y: size[1] }, rect).to_arr();
            for (sx, ex) in [(-S::one(), -S::one()), (S::one(), S::one())] {
                for (sy, ey) in [(-S::one(), -S::one()), (S::one(), S::one())] {
                    let wx = centre[0] + sx * size[0] / two;
                    let wy = centre[1] + sy * size[1] / two;
                    let clip = [to_ndc(wx, 0) * w, to_ndc(wy, 1) * w, z, w];
                    let out = rf::matvec(&m, &clip);
                    let ok = vkit::dom::close::<S>(cx, out[0] / out[3], ex, sc, 4096.0) && vkit::dom::close::<S>(cx, out[1] / out[3], ey, sc, 4096.0);
                    if !ok {
                        fail!("{} picking_region: window corner ({:?},{:?}) = clip {:?} maps to {:?} (ndc {:?},{:?}), want ({:?},{:?})", $n, wx, wy, clip, out, out[0] / out[3], out[1] / out[3], ex, ey);
                    }
                    check_eq!(cx, (out[2], out[3]), (z, w), "{} picking_region leaves z and w untouched", $n);
                }
            }
        }};
    }
    layout!(rm, "row-major");
    layout!(cm, "col-major");
    // documented panic: size must be > 0
    let bad = if t.bool() { [S::zero(), size[1]] } else { [size[0], -size[1]] };
    let r = vkit::catch(|| cm::Mat4::<S>::picking_region(Vec2 { x: centre[0], y: centre[1] }, Vec2 { x: bad[0], y: bad[1] }, rect));
    check!(cx, r.is_err(), "picking_region must panic for a non-positive size {:?}", bad);
    Ok(())
}

pub fn property() -> Property {
    let mut checks = Vec::new();
    macro_rules! tape {
        ($name:expr, $about:expr, $len:expr, $q:expr, $th:expr, $f:expr) => {
            checks.push(Check { name: $name, about: $about, kind: Kind::Tape { len: $len, quick: $q, thorough: $th, f: $f } });
        };
    }
    let a = "world_to_viewport_{no,zo} vs a reference projection (clip = P*MV*(p,1), divide, x,y in [-1,1] cover the viewport, depth to [0,1] for _no / unchanged for _zo); viewport_to_world(world_to_viewport(p)) = p; (exact domain) the converse round trip; both layouts";
    tape!("viewport-rat", a, 160, 20_000, 400_000, viewport::<Rat>);
    tape!("viewport-f64", a, 192, 40_000, 800_000, viewport::<f64>);
    let b = "picking_region(centre, size, viewport): the window rectangle centre +- size/2, expressed in clip coordinates of the viewport, has its four corners sent to (-+1, -+1) with z and w untouched; non-positive size panics";
    tape!("picking-rat", b, 48, 40_000, 800_000, picking::<Rat>);
    tape!("picking-f64", b, 64, 40_000, 800_000, picking::<f64>);
    tape!("picking-f32", b, 64, 20_000, 400_000, picking::<f32>);
    regime::add(&mut checks);
    Property {
        id: "C10",
        rule: "model-view/projection pairs: structured (rational rigid transform x perspective/orthographic/frustum) and arbitrary invertible matrices with small rational (floats: integer) entries, singular products discarded; viewports at arbitrary offsets with w != h, sometimes negative height; points with clip w != 0; picking centres inside and outside the viewport, anisotropic sizes; non-trivial = viewport offset != 0 and w != h and clip w != 1 / centre != viewport centre; distinct = distinct consumed tape prefix. Regime checks (scaled-*, f32 and f64): an exact dyadic unit-frame case (modelview: signed permutation x 2^g / rotation rounded to 2^-8 / general affine / full 4x4; projection: perspective or frustum with dyadic near and far up to far/near 2^16, orthographic, ordinary upper part with bottom row (0,0,c,1) (0,0,c,0) (0,0,0,d) (0,0,c,d) (a,0,0,1) (a,b,c,1) (a,b,c,d), arbitrary integers; viewports ordinary / offsets up to 2^30 / sizes down to 2^-30 (f32) 2^-60 (f64) / sizes up to 2^32 / negative width or height; points generic or within 2^-12 of the eye plane; window points inside, outside, depth in, on the ends of and outside [0,1]) handed to vek with modelview x 2^a, projection x 2^b, world unit x 2^j (projection: a, b, j stratified over every exponent for which the inputs are representable and eye / clip space stay finite, half of the scaled cases aimed at a subnormal clip w; unprojection: a and b anywhere in the normal range with every entry of the scaled product and of its inverse within 2^+-26 (f32) / 2^+-240 (f64)); picking: viewport, centre, size x 2^k over the whole range down to subnormal sizes, sizes 2^-20 of the viewport and huge, centres far outside; non-trivial there = some exponent != 0, clip w != 1 and the derived bound below 1/64 of the viewport size / depth range / point magnitude. Special-value checks (special-*, f32 and f64, each case also evaluated by vek in Rat with exact comparison): every parameter independently a special exact value in 11 cases of 16 and an ordinary regime value otherwise (so all combinations occur): viewport (-1,-1,2,2) [twice as often], (0,0,1,1), (0,0,2,2), (-1,-1,1,1), (-1/2,-1/2,1,1), (1,1,1,1), (0,0,2^k,2^m), (0,0,640,480), power-of-two offset and size, (-2^k,-2^k,2^(k+1),2^(k+1)), occasionally with a negative size; modelview identity, integer translation, signed permutation without translation, 2^g scale, z flip, power-of-two z translation; projection identity, diag(1,1,-1,1), power-of-two orthographic, perspective with focal lengths 1 / 2^k and dyadic near / far in both depth flavours and handednesses, affine with bottom row exactly (0,0,0,1), 2^g I, identity with w x 2^g, identity with depth translation, bottom row (0,0,1,1); points whose clip-space image is exactly on ndc x,y,z in {-1,-1/2,0,1/2,1} (near / far plane, viewport centre, corners, edge midpoints; used when dyadic), world origin, unit points, eye-plane neighbours; window points exactly on viewport corners / edge midpoints / centre with depth exactly 0, 1/2, 1; picking centre = viewport centre / origin / far corner / (0,0) / (1,1), size = exactly the viewport size (with the viewport centre: region = whole viewport) / (1,1) / (2,2) / half the viewport / a power of two; three cases in four unscaled, the rest combined with the 2^a, 2^b, 2^j, 2^k scalings; the scaled-* checks draw a special viewport in one case of eight; non-trivial there = at least one parameter special and the derived bound below 1/64 of the magnitudes",
        assumptions: &[
            "rustc and the proptest runner/shrinker are trusted",
            "oracle: reference projection / unprojection on plain arrays (vkit::refmath matvec, adjugate inverse)",
            "float round trips: tolerance scaled by the conditioning |M| |inv M| of proj*modelview and by 1/|clip w|; matrices with |det| < 0.5 (unstructured) or |clip w| < 0.05 are discarded",
            "regime checks: the oracle is the exact (Rat) evaluation of the unscaled dyadic case; scaling a matrix of the pair by a power of two does not change the projective map, a change of the world unit scales unprojected points exactly; tolerances are per-case forward error bounds: 8 eps sum|terms| for clip = P (MV (p,1)) plus 7 * 2^(minexp-1) per dot product whose result may be subnormal, propagated through the divide and the viewport map with a safety factor 4 (clip space taken as exact when every term and partial sum is representable at the scaled exponents); for the unprojection 8 eps (perm|minor| + |inv| perm|M|)/|det| for any cofactor-type 4x4 inverse plus the effect of the rounding of P*MV and of the window coordinates",
            "regime checks, excluded as ill-conditioned for any implementation: clip w with fewer than three significant bits left after underflow (error bound of w > |w|/8: the call is still made, nothing is asserted about its value); eye or clip coordinates that would overflow; unprojections whose homogeneous w is below 8x its error bound or exactly 0 (point at infinity); for the unprojection, scalings that take an entry of P*MV or of its inverse outside 2^+-26 (f32) / 2^+-240 (f64), where a determinant of four factors leaves the normal range - in particular a subnormal w of the unprojected point is not reachable",
            "regime checks: off-diagonal entries of the picking matrix are only required to vanish within 4 eps of the diagonal entry of their row; window lengths in the subnormal range carry no extra tolerance (sums of floats have no underflow error, the quotients are of ordinary magnitude)",
        ],
        checks,
        max_discard_frac: 0.3,
    }
}
