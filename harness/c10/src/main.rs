fn main() {
    vkit::driver::main(c10::property())
}
