//! C10 regime checks: the projection / unprojection / picking matrix under exact power-of-two re-scalings and in the
//! unusual-but-legal corners of their input domain.
//!
//! Every case is generated in an exact *unit frame* (`Rat`, all quantities dyadic) and evaluated there exactly
//! (reference projection, adjugate inverse). The float inputs handed to vek are the unit-frame quantities times
//! exact powers of two:
//!
//! * `a`: the model-view matrix times 2^a, `b`: the projection matrix times 2^b (the same projective map, so the
//!   window coordinates must not change; clip space is scaled by 2^(a+b)),
//! * `j`: a change of the world unit by 2^j (p -> 2^j p, modelview -> D MV D^-1, proj -> proj D^-1 with
//!   D = diag(2^j, 2^j, 2^j, 1)): window coordinates unchanged, unprojected points scaled by 2^j,
//! * `k` (picking): all window lengths (viewport, centre, size) times 2^k: the picking matrix is unchanged.
//!
//! The exponents range over the whole normal range of the float type and, for the clip w of the projection and
//! the window lengths of the picking matrix, down into the subnormal range. Tolerances are forward error bounds
//! derived per case from the unit-frame quantities (sums of absolute values of the terms of every dot product,
//! permanents of the minors for the inverse), plus the absolute rounding error 2^(minexp-1) of every operation
//! whose result may be subnormal; when every term and partial sum of eye = MV (p,1) and clip = P eye is exactly
//! representable at the scaled exponents ("exact dyadic"), clip space carries no error at all and only the
//! divide and the viewport mapping round. Nothing is compared with `1 + max`.

use super::{project_ref, Setup};
use vek::geom::repr_c::Rect;
use vek::mat::repr_c::column_major as cm;
use vek::mat::repr_c::row_major as rm;
use vek::vec::repr_c::Vec2;
use vkit::gens;
use vkit::refmath as rf;
use vkit::vk::{self, MatN};
use vkit::*;

type M4 = [[Rat; 4]; 4];
type F4 = [[f64; 4]; 4];

// ------------------------------------------------------------------------------------------------------------
// float formats, dyadic numbers
// ------------------------------------------------------------------------------------------------------------

/// mantissa bits, exponent of the smallest subnormal, exponent of the largest binade
struct Fmt {
    mant: i32,
    minexp: i32,
    emax: i32,
}
fn fmt<S: Dom>() -> Fmt {
    if S::NAME == "f32" {
        Fmt { mant: 24, minexp: -149, emax: 127 }
    } else {
        Fmt { mant: 53, minexp: -1074, emax: 1023 }
    }
}
impl Fmt {
    fn minnorm(&self) -> i32 {
        self.minexp + self.mant - 1
    }
}

/// Exactly 2^k in the domain, by repeated squaring; exact down to the smallest subnormal and up to 2^emax
/// (no square beyond the ones used is ever formed).
pub fn p2<S: Dom>(k: i32) -> S {
    let mut b = if k < 0 { S::q(1, 2) } else { S::i(2) };
    let mut e = k.unsigned_abs();
    let mut r = S::one();
    while e > 0 {
        if e & 1 == 1 {
            r = r * b;
        }
        e >>= 1;
        if e > 0 {
            b = b * b;
        }
    }
    r
}
/// 2^k as f64 (0 / inf outside the f64 range - used for tolerances only)
fn pw(k: i32) -> f64 {
    (2.0f64).powi(k.clamp(-2000, 2000))
}
/// n * 2^e as an exact rational
fn d(n: i64, e: i32) -> Rat {
    if e >= 0 {
        Rat::new((n as i128) << e, 1)
    } else {
        Rat::new(n as i128, 1i128 << (-e))
    }
}
/// r = m * 2^e with m odd; None for zero and for non-dyadic rationals
fn dy(r: Rat) -> Option<(i128, i32)> {
    let (n, dn) = (r.numer(), r.denom());
    if n == 0 || dn & (dn - 1) != 0 {
        return None;
    }
    let tz = n.trailing_zeros() as i32;
    Some((n >> tz, tz - dn.trailing_zeros() as i32))
}
fn bits(m: i128) -> i32 {
    128 - m.unsigned_abs().leading_zeros() as i32
}
/// exponent of the lowest set bit (i32::MAX for zero / non-dyadic)
fn lb(r: Rat) -> i32 {
    dy(r).map(|(_, e)| e).unwrap_or(i32::MAX)
}
/// floor(log2 x) for x > 0 (to within one, which every user allows for)
fn hbf(x: f64) -> i32 {
    if x > 0.0 && x.is_finite() {
        x.log2().floor() as i32
    } else {
        -4000
    }
}
fn af(r: Rat) -> f64 {
    r.to_f64_lossy().abs()
}
/// r * 2^off as a value of the float domain, only if that is exact (dyadic, mantissa fits, inside the range
/// including subnormals).
fn conv<S: Dom>(r: Rat, off: i32) -> Option<S> {
    if r.numer() == 0 {
        return Some(S::zero());
    }
    let (m, e) = dy(r)?;
    let f = fmt::<S>();
    let nb = bits(m);
    let lo = e + off;
    if nb > f.mant || lo < f.minexp || lo + nb - 1 > f.emax {
        return None;
    }
    Some(S::i(m as i64) * p2::<S>(lo))
}
/// Range of base exponents x such that every entry m[r][c] * 2^(x + off(r,c)) is exactly representable.
fn exp_range<S: Dom>(m: &[Rat], off: &dyn Fn(usize) -> i32) -> Option<(i32, i32)> {
    let f = fmt::<S>();
    let (mut lo, mut hi) = (-100_000, 100_000);
    for (i, x) in m.iter().enumerate() {
        if x.numer() == 0 {
            continue;
        }
        let (mm, e) = dy(*x)?;
        let nb = bits(mm);
        if nb > f.mant {
            return None;
        }
        lo = lo.max(f.minexp - e - off(i));
        hi = hi.min(f.emax - (e + nb - 1) - off(i));
    }
    if lo > hi {
        None
    } else {
        Some((lo, hi))
    }
}
fn flat(m: &M4) -> Vec<Rat> {
    m.iter().flat_map(|r| r.iter().copied()).collect()
}
/// An exponent in lo..=hi: the one nearest 0, next to either end, moderate, or uniform.
fn strat(t: &mut Tape, lo: i32, hi: i32) -> i32 {
    let c = 0.clamp(lo, hi);
    let span = (hi - lo) as i64;
    match t.below(8) {
        0 => c,
        1 => hi - t.int(0, span.min(3)) as i32,
        2 => lo + t.int(0, span.min(3)) as i32,
        3 | 4 => (c + t.int(-40, 40) as i32).clamp(lo, hi),
        _ => lo + ((t.u16() as i64 * (span + 1)) >> 16) as i32,
    }
}
fn exp_label(k: i32) -> &'static str {
    match k {
        0 => "exponent 0",
        k if k < -120 => "exponent < -120",
        k if k < -24 => "exponent -120..-25",
        k if k < 0 => "exponent -24..-1",
        k if k <= 24 => "exponent 1..24",
        k if k <= 120 => "exponent 25..120",
        _ => "exponent > 120",
    }
}

// ------------------------------------------------------------------------------------------------------------
// unit-frame generators (exact, dyadic)
// ------------------------------------------------------------------------------------------------------------

struct Unit {
    /// how many of (modelview, projection, viewport, point) are special exact values
    nsp: u32,
    mv: M4,
    proj: M4,
    vp: [Rat; 4],
    p: [Rat; 3],
}

const PERMS: [[usize; 3]; 6] = [[0, 1, 2], [0, 2, 1], [1, 0, 2], [1, 2, 0], [2, 0, 1], [2, 1, 0]];

fn zero4() -> M4 {
    [[Rat::ZERO; 4]; 4]
}

/// viewport sizes down to n * 2^-30 (f32) / n * 2^-60 (f64), n < 256
fn tiny_exp<S: Dom>() -> i64 {
    if S::NAME == "f32" {
        30
    } else {
        60
    }
}

fn gen_mv(t: &mut Tape, cx: &mut Cx) -> M4 {
    let mut m = zero4();
    m[3][3] = Rat::ONE;
    match t.below(5) {
        0 | 1 => {
            cx.label("modelview: signed permutation x 2^g, translation");
            let perm = PERMS[t.below(6)];
            let g = if t.chance(64) { t.int(-3, 3) as i32 } else { 0 };
            for i in 0..3 {
                m[i][perm[i]] = d(if t.bool() { -1 } else { 1 }, g);
                m[i][3] = d(t.int(-80, 80), -2);
            }
        }
        2 => {
            cx.label("modelview: rotation rounded to 2^-8, translation");
            let r = gens::rotation3::<Rat>(t);
            for i in 0..3 {
                for j in 0..3 {
                    m[i][j] = Rat::new((r[i][j] * Rat::int(256)).floor_int(), 256);
                }
                m[i][3] = d(t.int(-80, 80), -2);
            }
        }
        3 => {
            cx.label("modelview: general affine");
            for i in 0..3 {
                for j in 0..3 {
                    m[i][j] = d(t.int(-4, 4), -(t.below(3) as i32));
                }
                m[i][3] = d(t.int(-80, 80), -2);
            }
        }
        _ => {
            cx.label("modelview: non-affine (full 4x4)");
            for i in 0..4 {
                for j in 0..4 {
                    m[i][j] = d(t.int(-4, 4), 0);
                }
            }
        }
    }
    m
}

/// (matrix, perspective-like)
fn gen_proj(t: &mut Tape, cx: &mut Cx, wide_depth: bool) -> M4 {
    let mut m = zero4();
    let sgn = |t: &mut Tape| if t.chance(40) { -1i64 } else { 1 };
    match t.below(8) {
        0 | 1 | 2 => {
            // near = 2^-i, far = near + 2^g: -(f+n)/(f-n), -2fn/(f-n) (resp. -f/(f-n), -fn/(f-n)) are dyadic
            cx.label("proj: perspective / frustum (dyadic near, far)");
            let i = t.int(0, 6) as i32;
            let g = t.int(-2, if wide_depth { 10 } else { 5 }) as i32;
            if i + g >= 12 {
                cx.label("proj: far/near >= 2^12");
            }
            let zo = t.bool();
            let (a, b) = if zo {
                (-(Rat::ONE + d(1, -i - g)), -(d(1, -2 * i - g) + d(1, -i)))
            } else {
                (-(Rat::ONE + d(1, 1 - i - g)), -(d(1, 1 - 2 * i - g) + d(1, 1 - i)))
            };
            m[0][0] = d(t.int(1, 24), t.int(-3, 3) as i32);
            m[1][1] = d(t.int(1, 24), t.int(-3, 3) as i32);
            if t.chance(64) {
                cx.label("proj: off-centre frustum");
                m[0][2] = d(t.int(-8, 8), -3);
                m[1][2] = d(t.int(-8, 8), -3);
            }
            let lh = t.bool();
            m[2][2] = if lh { -a } else { a };
            m[2][3] = b;
            m[3][2] = if lh { Rat::ONE } else { -Rat::ONE };
        }
        3 => {
            cx.label("proj: orthographic");
            for i in 0..3 {
                m[i][i] = d(sgn(t) * t.int(1, 24), t.int(-6, 2) as i32);
                m[i][3] = d(t.int(-16, 16), -3);
            }
            m[3][3] = Rat::ONE;
        }
        4 | 5 | 6 => {
            // an ordinary upper part with a structured bottom row
            for i in 0..3 {
                m[i][i] = d(sgn(t) * t.int(1, 12), -2);
                m[i][3] = d(t.int(-16, 16), -2);
                let jx = t.below(3);
                if jx != i && t.bool() {
                    m[i][jx] = d(t.int(-4, 4), -1);
                }
            }
            let nz = |t: &mut Tape| {
                let s = if t.bool() { -1 } else { 1 };
                d(s * t.pick(&[1i64, 1, 2, 3, 4, 5, 8]), -(t.below(3) as i32))
            };
            match t.below(8) {
                0 | 1 => {
                    cx.label("proj: bottom row (0,0,c,1)");
                    m[3] = [Rat::ZERO, Rat::ZERO, nz(t), Rat::ONE];
                }
                2 => {
                    cx.label("proj: bottom row (0,0,c,0)");
                    m[3] = [Rat::ZERO, Rat::ZERO, nz(t), Rat::ZERO];
                }
                3 => {
                    cx.label("proj: bottom row (0,0,0,d)");
                    m[3] = [Rat::ZERO, Rat::ZERO, Rat::ZERO, nz(t)];
                }
                4 => {
                    cx.label("proj: bottom row (0,0,c,d)");
                    m[3] = [Rat::ZERO, Rat::ZERO, nz(t), nz(t)];
                }
                5 => {
                    cx.label("proj: bottom row (a,0,0,1) / (0,b,0,1)");
                    m[3] = if t.bool() { [nz(t), Rat::ZERO, Rat::ZERO, Rat::ONE] } else { [Rat::ZERO, nz(t), Rat::ZERO, Rat::ONE] };
                }
                6 => {
                    cx.label("proj: bottom row (a,b,c,1)");
                    m[3] = [nz(t), nz(t), nz(t), Rat::ONE];
                }
                _ => {
                    cx.label("proj: bottom row (a,b,c,d)");
                    m[3] = [nz(t), nz(t), nz(t), nz(t)];
                }
            }
        }
        _ => {
            cx.label("proj: arbitrary small integers");
            for i in 0..4 {
                for j in 0..4 {
                    m[i][j] = d(t.int(-4, 4), 0);
                }
            }
        }
    }
    m
}

/// `tiny`: largest e of a tiny size n * 2^-e (chosen so that sizes below the machine epsilon of the type occur)
fn gen_vp(t: &mut Tape, cx: &mut Cx, tiny: i64) -> [Rat; 4] {
    let r = t.below(8);
    let ord_off = |t: &mut Tape| d(t.int(-200, 800), -2);
    let big_off = |t: &mut Tape| d((if t.bool() { -1 } else { 1 }) * t.int(1, 1023), t.int(8, 20) as i32);
    let (mut x, mut y) = (ord_off(t), ord_off(t));
    let (mut w, mut h) = (d(t.int(1, 4000), -1), d(t.int(1, 3000), -1));
    match r {
        3 => return sp_vp(t, cx),
        4 => {
            cx.label("viewport: large offset");
            x = big_off(t);
            y = big_off(t);
        }
        5 | 6 => {
            cx.label("viewport: tiny size");
            w = d(t.int(1, 255), -(t.int(10, tiny) as i32));
            h = d(t.int(1, 255), -(t.int(10, tiny) as i32));
            if r == 6 {
                cx.label("viewport: large offset");
                x = big_off(t);
                y = big_off(t);
            } else if t.bool() {
                x = Rat::ZERO;
                y = Rat::ZERO;
            }
        }
        7 => {
            cx.label("viewport: huge size");
            w = d(t.int(1, 255), t.int(12, 24) as i32);
            h = d(t.int(1, 255), t.int(12, 24) as i32);
        }
        _ => {}
    }
    if t.chance(32) {
        cx.label("viewport: negative height");
        h = -h;
    }
    if t.chance(32) {
        cx.label("viewport: negative width");
        w = -w;
    }
    [x, y, w, h]
}


// ------------------------------------------------------------------------------------------------------------
// special exact values (what a generator of "arbitrary" values never produces, and what a fast path is keyed on)
// ------------------------------------------------------------------------------------------------------------

fn ident4() -> M4 {
    let mut m = zero4();
    for i in 0..4 {
        m[i][i] = Rat::ONE;
    }
    m
}

fn sp_vp(t: &mut Tape, cx: &mut Cx) -> [Rat; 4] {
    cx.label("viewport: special exact value");
    let i = |n: i64| Rat::int(n);
    match t.below(12) {
        0 | 1 => {
            cx.label("viewport: the clip square (-1,-1,2,2)");
            [i(-1), i(-1), i(2), i(2)]
        }
        2 => {
            cx.label("viewport: (0,0,1,1)");
            [i(0), i(0), i(1), i(1)]
        }
        3 => {
            cx.label("viewport: (0,0,2,2)");
            [i(0), i(0), i(2), i(2)]
        }
        4 => {
            cx.label("viewport: (-1,-1,1,1)");
            [i(-1), i(-1), i(1), i(1)]
        }
        5 => {
            cx.label("viewport: (-1/2,-1/2,1,1)");
            [d(-1, -1), d(-1, -1), i(1), i(1)]
        }
        6 => {
            cx.label("viewport: (1,1,1,1)");
            [i(1), i(1), i(1), i(1)]
        }
        7 | 8 => {
            cx.label("viewport: zero offset, power-of-two size");
            [i(0), i(0), d(1, t.int(0, 12) as i32), d(1, t.int(0, 12) as i32)]
        }
        9 => {
            cx.label("viewport: (0,0,640,480)");
            [i(0), i(0), i(640), i(480)]
        }
        10 => {
            cx.label("viewport: power-of-two offset and size");
            [d(1, t.int(0, 10) as i32), d(1, t.int(0, 10) as i32), d(1, t.int(0, 12) as i32), d(1, t.int(0, 12) as i32)]
        }
        _ => {
            cx.label("viewport: symmetric about 0 (-2^k,-2^k,2^(k+1),2^(k+1))");
            let k = t.int(-3, 10) as i32;
            [d(-1, k), d(-1, k), d(1, k + 1), d(1, k + 1)]
        }
    }
}

fn sp_mv(t: &mut Tape, cx: &mut Cx) -> M4 {
    cx.label("modelview: special exact value");
    let mut m = ident4();
    match t.below(8) {
        0 | 1 | 2 => cx.label("modelview: identity"),
        3 => {
            cx.label("modelview: pure integer translation");
            for i in 0..3 {
                m[i][3] = Rat::int(t.int(-4, 4));
            }
        }
        4 => {
            cx.label("modelview: signed permutation, no translation");
            let perm = PERMS[t.below(6)];
            for i in 0..3 {
                m[i][i] = Rat::ZERO;
            }
            for i in 0..3 {
                m[i][perm[i]] = Rat::int(if t.bool() { -1 } else { 1 });
            }
        }
        5 => {
            cx.label("modelview: uniform scale 2^g");
            let g = t.int(-3, 3) as i32;
            for i in 0..3 {
                m[i][i] = d(1, g);
            }
        }
        6 => {
            cx.label("modelview: z flip");
            m[2][2] = -Rat::ONE;
        }
        _ => {
            cx.label("modelview: translation along z by a power of two");
            m[2][3] = d(if t.bool() { -1 } else { 1 }, t.int(-2, 4) as i32);
        }
    }
    m
}

fn sp_proj(t: &mut Tape, cx: &mut Cx) -> M4 {
    cx.label("proj: special exact value");
    let mut m = ident4();
    match t.below(12) {
        0 | 1 => cx.label("proj: identity"),
        2 => {
            cx.label("proj: orthographic of the cube [-1,1]^3 (diag(1,1,-1,1))");
            m[2][2] = -Rat::ONE;
        }
        3 => {
            cx.label("proj: orthographic, power-of-two extents");
            for i in 0..3 {
                m[i][i] = d(if i == 2 && t.bool() { -1 } else { 1 }, -(t.int(0, 4) as i32));
                m[i][3] = Rat::int(t.int(-1, 1));
            }
        }
        4 | 5 | 6 => {
            // fov 90 degrees, aspect 1 (or power-of-two focal lengths), near 2^-i, far = near + 2^g
            cx.label("proj: perspective, focal lengths exactly 1 or a power of two");
            let i = t.int(0, 3) as i32;
            let g = t.int(-1, 3) as i32;
            let zo = t.bool();
            let (a, b) = if zo { (-(Rat::ONE + d(1, -i - g)), -(d(1, -2 * i - g) + d(1, -i))) } else { (-(Rat::ONE + d(1, 1 - i - g)), -(d(1, 1 - 2 * i - g) + d(1, 1 - i))) };
            if t.chance(64) {
                m[0][0] = d(1, t.int(-2, 2) as i32);
                m[1][1] = d(1, t.int(-2, 2) as i32);
            }
            let lh = t.bool();
            m[2][2] = if lh { -a } else { a };
            m[2][3] = b;
            m[3][2] = if lh { Rat::ONE } else { -Rat::ONE };
            m[3][3] = Rat::ZERO;
        }
        7 => {
            cx.label("proj: affine, bottom row exactly (0,0,0,1)");
            for i in 0..3 {
                for j in 0..4 {
                    m[i][j] = Rat::int(t.int(-3, 3));
                }
            }
        }
        8 => {
            cx.label("proj: uniform scale 2^g of the identity (w included)");
            let g = t.int(-4, 4) as i32;
            for i in 0..4 {
                m[i][i] = d(1, g);
            }
        }
        9 => {
            cx.label("proj: identity with w scaled by 2^g");
            m[3][3] = d(1, t.int(-3, 3) as i32);
        }
        10 => {
            cx.label("proj: identity with a depth translation");
            m[2][3] = Rat::int(if t.bool() { -1 } else { 1 });
        }
        _ => {
            cx.label("proj: bottom row exactly (0,0,1,1)");
            m[3][2] = Rat::ONE;
        }
    }
    m
}

/// A point that lands exactly on a special place of clip space (near / far plane, centre, corners and edge
/// midpoints of the viewport, half way), the world origin or a unit point - if it is dyadic.
fn sp_point(t: &mut Tape, cx: &mut Cx, mv: &M4, proj: &M4) -> Option<[Rat; 3]> {
    let small = |q: &[Rat; 3]| q.iter().all(|x| x.numer() == 0 || dy(*x).map(|(m, _)| bits(m) <= 20).unwrap_or(false));
    match t.below(8) {
        0 => {
            cx.label("point: world origin");
            Some([Rat::ZERO; 3])
        }
        1 => {
            cx.label("point: unit point");
            let k = t.below(4);
            let s = Rat::int(if t.bool() { -1 } else { 1 });
            Some(if k == 3 { [s, s, s] } else { let mut q = [Rat::ZERO; 3]; q[k] = s; q })
        }
        _ => {
            let pick = |t: &mut Tape| if t.chance(40) { d(if t.bool() { -1 } else { 1 }, -1) } else { Rat::int(t.int(-1, 1)) };
            let n = [pick(t), pick(t), pick(t), Rat::ONE];
            let inv = rf::inverse(&rf::matmul(proj, mv))?;
            let o = rf::matvec(&inv, &n);
            if o[3].numer() == 0 {
                return None;
            }
            let q = [o[0] / o[3], o[1] / o[3], o[2] / o[3]];
            if !small(&q) {
                cx.label("point: special clip-space point not dyadic (generic point used)");
                return None;
            }
            cx.label("point: exactly on ndc x,y,z in {-1,-1/2,0,1/2,1}");
            if n[2] == -Rat::ONE || n[2] == Rat::ONE {
                cx.label("point: on the plane ndc z = -1 or +1");
            }
            if n[2].numer() == 0 {
                cx.label("point: on the plane ndc z = 0");
            }
            Some(q)
        }
    }
}

fn gen_unit(t: &mut Tape, cx: &mut Cx, wide_depth: bool, tiny: i64, special: bool) -> Unit {
    let mut nsp = 0;
    let mv = if special && t.chance(176) {
        nsp += 1;
        sp_mv(t, cx)
    } else {
        gen_mv(t, cx)
    };
    let proj = if special && t.chance(176) {
        nsp += 1;
        sp_proj(t, cx)
    } else {
        gen_proj(t, cx, wide_depth)
    };
    let vp = if special && t.chance(176) {
        nsp += 1;
        let mut v = sp_vp(t, cx);
        if t.chance(16) {
            cx.label("viewport: negative height");
            v[3] = -v[3];
        }
        if t.chance(16) {
            cx.label("viewport: negative width");
            v[2] = -v[2];
        }
        v
    } else {
        gen_vp(t, cx, tiny)
    };
    let mut p = [d(t.int(-72, 72), -3), d(t.int(-72, 72), -3), d(t.int(-72, 72), -3)];
    // a point close to the eye plane: eye-space z a small power of two (so |clip w| << |clip x,y| for a perspective)
    let local = [d(t.int(-16, 16), -2), d(t.int(-16, 16), -2), d((if t.bool() { -1 } else { 1 }) * t.int(1, 3), -(t.int(0, 12) as i32)), Rat::ONE];
    if t.chance(80) {
        if let Some(inv) = rf::inverse(&mv) {
            let q = rf::matvec(&inv, &local);
            if q[3] == Rat::ONE && q.iter().all(|x| x.numer() == 0 || dy(*x).map(|(m, _)| bits(m) <= 20).unwrap_or(false)) {
                cx.label("point close to the eye plane");
                p = [q[0], q[1], q[2]];
            }
        }
    }
    if special && t.chance(176) {
        if let Some(q) = sp_point(t, cx, &mv, &proj) {
            nsp += 1;
            p = q;
        }
    }
    Unit { nsp, mv, proj, vp, p }
}

// ------------------------------------------------------------------------------------------------------------
// projection: forward error analysis in the unit frame
// ------------------------------------------------------------------------------------------------------------

struct Scaled<S> {
    mv: [[S; 4]; 4],
    proj: [[S; 4]; 4],
    p: [S; 3],
    vp: [S; 4],
}

/// the offset of modelview entry (r,c) / projection entry (r,c) / point coordinate under the exponents (a, b, j)
fn off_mv(a: i32, j: i32, r: usize, c: usize) -> i32 {
    a + if r < 3 { j } else { 0 } - if c < 3 { j } else { 0 }
}
fn off_pr(b: i32, j: i32, c: usize) -> i32 {
    b - if c < 3 { j } else { 0 }
}

fn scale_inputs<S: Dom>(u: &Unit, a: i32, b: i32, j: i32) -> Option<Scaled<S>> {
    let mut mv = [[S::zero(); 4]; 4];
    let mut proj = [[S::zero(); 4]; 4];
    for r in 0..4 {
        for c in 0..4 {
            mv[r][c] = conv::<S>(u.mv[r][c], off_mv(a, j, r, c))?;
            proj[r][c] = conv::<S>(u.proj[r][c], off_pr(b, j, c))?;
        }
    }
    let p = [conv::<S>(u.p[0], j)?, conv::<S>(u.p[1], j)?, conv::<S>(u.p[2], j)?];
    let vp = [conv::<S>(u.vp[0], 0)?, conv::<S>(u.vp[1], 0)?, conv::<S>(u.vp[2], 0)?, conv::<S>(u.vp[3], 0)?];
    Some(Scaled { mv, proj, p, vp })
}

struct ProjAn {
    /// sums of |terms| of eye = MV (p,1) and clip = P eye, unit frame
    a_eye: [f64; 4],
    a_clip: [f64; 4],
    /// lowest bit any term of the row can have (unit frame); i32::MAX when all terms vanish
    q_eye: [i32; 4],
    q_clip: [i32; 4],
    clip: [Rat; 4],
}

fn analyse(u: &Unit) -> ProjAn {
    let p4 = [u.p[0], u.p[1], u.p[2], Rat::ONE];
    let mut a_eye = [0.0; 4];
    let mut q_eye = [i32::MAX; 4];
    for r in 0..4 {
        for c in 0..4 {
            if u.mv[r][c].numer() != 0 && p4[c].numer() != 0 {
                a_eye[r] += af(u.mv[r][c]) * af(p4[c]);
                q_eye[r] = q_eye[r].min(lb(u.mv[r][c]) + lb(p4[c]));
            }
        }
    }
    let mut a_clip = [0.0; 4];
    let mut q_clip = [i32::MAX; 4];
    for r in 0..4 {
        for c in 0..4 {
            if u.proj[r][c].numer() != 0 && q_eye[c] != i32::MAX {
                a_clip[r] += af(u.proj[r][c]) * a_eye[c];
                q_clip[r] = q_clip[r].min(lb(u.proj[r][c]) + q_eye[c]);
            }
        }
    }
    let clip = rf::matvec(&u.proj, &rf::matvec(&u.mv, &p4));
    ProjAn { a_eye, a_clip, q_eye, q_clip, clip }
}

/// All terms and all partial sums (in any order) of a dot product whose terms are multiples of 2^(q+off) and whose
/// absolute sum is `a * 2^off` are exactly representable.
fn row_exact(f: &Fmt, a: f64, q: i32, off: i32) -> bool {
    q == i32::MAX || (q + off >= f.minexp && a <= pw(q + f.mant) && hbf(a) + off + 1 < f.emax)
}

struct ProjTol {
    ndc: [f64; 3],
    /// absolute tolerances of the window coordinates (x, y, z) for the _no and the _zo flavour
    no: [f64; 3],
    zo: [f64; 3],
    exact_clip: bool,
}

/// Forward error bound of world_to_viewport on the inputs scaled by (a, b, j). None: the clip w has fewer than
/// three significant bits left after underflow (nothing can be asserted about the quotient).
fn proj_tol<S: Dom>(u: &Unit, an: &ProjAn, a: i32, b: i32, j: i32) -> Option<ProjTol> {
    let f = fmt::<S>();
    let eps = S::eps();
    let mut exact = true;
    for r in 0..4 {
        exact &= row_exact(&f, an.a_eye[r], an.q_eye[r], a + if r < 3 { j } else { 0 });
        exact &= row_exact(&f, an.a_clip[r], an.q_clip[r], a + b);
    }
    // error of clip row r, in unit-frame units (i.e. divided by 2^(a+b)): 8 eps sum|terms| for the two dot products
    // of four terms, and half a subnormal quantum 2^(minexp-1) for each of the <= 7 operations of either product
    let ec = |r: usize| -> f64 {
        if exact {
            return 0.0;
        }
        let mut under = pw(f.minexp - 1 - a - b);
        for c in 0..4 {
            under += af(u.proj[r][c]) * pw(f.minexp - 1 - a - if c < 3 { j } else { 0 });
        }
        8.0 * eps * an.a_clip[r] + 7.0 * under
    };
    let w = af(an.clip[3]);
    let ew = ec(3);
    if !(ew <= w / 8.0) {
        return None;
    }
    let mut ndc = [0.0; 3];
    let mut en = [0.0; 3];
    for i in 0..3 {
        ndc[i] = (an.clip[i] / an.clip[3]).to_f64_lossy();
        en[i] = (ec(i) + ndc[i].abs() * ew) / (w - ew) + eps * ndc[i].abs();
    }
    const K: f64 = 4.0;
    let win = |i: usize| -> f64 {
        let (o, s) = (af(u.vp[i]), af(u.vp[2 + i]));
        K * (s * en[i] / 2.0 + eps * (1.5 * s * (ndc[i].abs() + 1.0) + o))
    };
    let z_no = K * (en[2] / 2.0 + eps * (ndc[2].abs() + 1.0));
    let z_zo = K * en[2];
    Some(ProjTol { ndc, no: [win(0), win(1), z_no], zo: [win(0), win(1), z_zo], exact_clip: exact })
}

/// |got - want| <= tol, got finite
fn near<S: Dom>(cx: &mut Cx, got: S, want: f64, tol: f64) -> bool {
    cx.count();
    let g = got.f();
    if !g.is_finite() {
        return false;
    }
    let dlt = (g - want).abs();
    if dlt == 0.0 {
        return true;
    }
    if tol > 0.0 {
        cx.note_err(dlt / tol);
    }
    dlt <= tol
}

fn rat3(v: &[Rat; 3]) -> [f64; 3] {
    [v[0].to_f64_lossy(), v[1].to_f64_lossy(), v[2].to_f64_lossy()]
}

/// The unit-frame case evaluated by vek in exact arithmetic (both layouts): must equal the reference exactly.
fn exact_extra(cx: &mut Cx, u: &Unit, want_no: &[Rat; 3], want_zo: &[Rat; 3]) -> CaseResult {
    let rect = Rect { x: u.vp[0], y: u.vp[1], w: u.vp[2], h: u.vp[3] };
    macro_rules! layout {
        ($l:ident, $n:expr) => {{
            let (mv, pr) = ($l::Mat4::<Rat>::from_arr(&u.mv), $l::Mat4::<Rat>::from_arr(&u.proj));
            let no = vk::a3(&$l::Mat4::<Rat>::world_to_viewport_no(vk::v3(&u.p), mv, pr, rect));
            let zo = vk::a3(&$l::Mat4::<Rat>::world_to_viewport_zo(u.p, mv, pr, rect));
            check_eq!(cx, no, *want_no, "{} Rat world_to_viewport_no vs reference projection (unit frame)", $n);
            check_eq!(cx, zo, *want_zo, "{} Rat world_to_viewport_zo (array operand) vs reference projection (unit frame)", $n);
            let bn = vk::a3(&$l::Mat4::<Rat>::viewport_to_world_no(vk::v3(&no), mv, pr, rect));
            let bz = vk::a3(&$l::Mat4::<Rat>::viewport_to_world_zo(zo, mv, pr, rect));
            check_eq!(cx, bn, u.p, "{} Rat viewport_to_world_no(world_to_viewport_no(p)) = p (unit frame)", $n);
            check_eq!(cx, bz, u.p, "{} Rat viewport_to_world_zo(world_to_viewport_zo(p)) = p (unit frame, array operand)", $n);
        }};
    }
    layout!(rm, "row-major");
    layout!(cm, "col-major");
    Ok(())
}

fn reference(u: &Unit) -> Option<([Rat; 3], [Rat; 3])> {
    let s = Setup::<Rat> { mv: u.mv, proj: u.proj, vp: u.vp, structured: true };
    Some((project_ref(&s, &u.p, false)?, project_ref(&s, &u.p, true)?))
}

/// world_to_viewport_{no,zo} with the modelview scaled by 2^a, the projection by 2^b and the world unit by 2^j.
fn proj_scaled<S: Dom, const SP: bool>(t: &mut Tape, cx: &mut Cx) -> CaseResult {
    let f = fmt::<S>();
    let u = gen_unit(t, cx, true, tiny_exp::<S>(), SP);
    let pm = rf::matmul(&u.proj, &u.mv);
    if rf::det(&pm).numer() == 0 {
        discard!("precondition:singular");
    }
    let an = analyse(&u);
    if an.clip[3].numer() == 0 {
        discard!("precondition:clip-w=0");
    }
    let (want_no, want_zo) = match reference(&u) {
        Some(x) => x,
        None => discard!("precondition:clip-w=0"),
    };
    exact_extra(cx, &u, &want_no, &want_zo)?;

    // ---- exponents (special-value cases: mostly unscaled) ----
    let mode = if SP && !t.chance(64) { 0 } else { t.below(8) };
    let jmax = f.emax - 40;
    let j = if mode >= 5 {
        let rj = match exp_range::<S>(&u.p, &|_| 0) {
            Some(r) => r,
            None => discard!("regime:point-not-representable"),
        };
        strat(t, rj.0.max(-jmax), rj.1.min(jmax))
    } else {
        0
    };
    let ra = exp_range::<S>(&flat(&u.mv), &|i| off_mv(0, j, i / 4, i % 4));
    let rb = exp_range::<S>(&flat(&u.proj), &|i| off_pr(0, j, i % 4));
    let (ra, rb) = match (ra, rb) {
        (Some(x), Some(y)) => (x, y),
        _ => discard!("regime:matrix-not-representable"),
    };
    // eye space must not overflow: a + j + log2 sum|terms| < emax
    let mut a_hi = ra.1;
    for r in 0..4 {
        if an.a_eye[r] > 0.0 {
            a_hi = a_hi.min(f.emax - 3 - hbf(an.a_eye[r]) - if r < 3 { j } else { 0 });
        }
    }
    if a_hi < ra.0 {
        discard!("excluded:eye-space-overflow");
    }
    let a = match mode {
        0 | 1 | 2 | 5 => 0.clamp(ra.0, a_hi),
        _ => strat(t, ra.0, a_hi),
    };
    // clip space must not overflow: a + b + log2 sum|terms| < emax
    let amax = an.a_clip.iter().fold(0.0f64, |m, x| m.max(*x));
    let b_hi = rb.1.min(f.emax - 3 - hbf(amax) - a);
    if b_hi < rb.0 {
        discard!("excluded:clip-space-overflow");
    }
    let target_sub = t.bool();
    let hw = hbf(af(an.clip[3]));
    let b = match mode {
        0 | 3 | 5 => 0.clamp(rb.0, b_hi),
        _ if target_sub => {
            // the leading bit of the scaled clip w somewhere in the subnormal binades
            let top = f.minnorm() - 1 - t.int(0, (f.mant - 2) as i64) as i32;
            (top - hw - a).clamp(rb.0, b_hi)
        }
        _ => strat(t, rb.0, b_hi),
    };
    let sc = match scale_inputs::<S>(&u, a, b, j) {
        Some(s) => s,
        None => discard!("regime:not-representable"),
    };
    let w_top = hw + a + b;
    let eye_sub = (0..4).any(|r| an.a_eye[r] > 0.0 && hbf(an.a_eye[r]) + a + if r < 3 { j } else { 0 } < f.minnorm());
    cx.label(match (a != 0, b != 0, j != 0) {
        (false, false, false) => "scaling: none",
        (false, true, false) => "scaling: projection x 2^b",
        (true, false, false) => "scaling: modelview x 2^a",
        (true, true, false) => "scaling: modelview x 2^a, projection x 2^b",
        (false, false, true) => "scaling: world unit x 2^j",
        _ => "scaling: world unit and matrices",
    });
    if a != 0 && b != 0 && (a > 0) != (b > 0) {
        cx.label("scaling: a and b of opposite sign");
    }
    cx.label(match a + b {
        0 => "clip scale 2^0",
        s if s < 0 => match exp_label(s) {
            "exponent < -120" => "clip scale < 2^-120",
            "exponent -120..-25" => "clip scale 2^-120..2^-25",
            _ => "clip scale 2^-24..2^-1",
        },
        s => match exp_label(s) {
            "exponent 1..24" => "clip scale 2^1..2^24",
            "exponent 25..120" => "clip scale 2^25..2^120",
            _ => "clip scale > 2^120",
        },
    });
    if w_top < f.minnorm() - 1 {
        cx.label("clip w subnormal");
    }
    if eye_sub {
        cx.label("eye-space coordinate subnormal");
    }
    sample!(cx, "{} unit frame: modelview={:?} proj={:?} viewport(x,y,w,h)={:?} p={:?} clip={:?}; handed to vek: modelview x 2^{} , proj x 2^{}, world unit x 2^{}: modelview={:?} proj={:?} p={:?}", S::NAME, u.mv, u.proj, u.vp, u.p, an.clip, a, b, j, sc.mv, sc.proj, sc.p);
    let rect = Rect { x: sc.vp[0], y: sc.vp[1], w: sc.vp[2], h: sc.vp[3] };
    let tol = proj_tol::<S>(&u, &an, a, b, j);
    macro_rules! layout {
        ($l:ident, $n:expr) => {{
            let (mv, pr) = ($l::Mat4::<S>::from_arr(&sc.mv), $l::Mat4::<S>::from_arr(&sc.proj));
            let got_no = vk::a3(&$l::Mat4::<S>::world_to_viewport_no(vk::v3(&sc.p), mv, pr, rect));
            let got_zo = vk::a3(&$l::Mat4::<S>::world_to_viewport_zo(sc.p, mv, pr, rect));
            if let Some(tl) = &tol {
                let (wn, wz) = (rat3(&want_no), rat3(&want_zo));
                for i in 0..3 {
                    if !near::<S>(cx, got_no[i], wn[i], tl.no[i]) {
                        fail!("{} {} world_to_viewport_no, modelview x 2^{}, proj x 2^{}, world unit x 2^{} (clip w = {:?} x 2^{}{}): coordinate {} = {:?}, the unscaled projection gives {:?} (tolerance {:.3e}); got {:?} want {:?}", $n, S::NAME, a, b, j, an.clip[3], a + b, if tl.exact_clip { ", clip space exact" } else { "" }, i, got_no[i], wn[i], tl.no[i], got_no, wn);
                    }
                    if !near::<S>(cx, got_zo[i], wz[i], tl.zo[i]) {
                        fail!("{} {} world_to_viewport_zo, modelview x 2^{}, proj x 2^{}, world unit x 2^{} (clip w = {:?} x 2^{}{}): coordinate {} = {:?}, the unscaled projection gives {:?} (tolerance {:.3e}); got {:?} want {:?}", $n, S::NAME, a, b, j, an.clip[3], a + b, if tl.exact_clip { ", clip space exact" } else { "" }, i, got_zo[i], wz[i], tl.zo[i], got_zo, wz);
                    }
                }
            }
        }};
    }
    layout!(rm, "row-major");
    layout!(cm, "col-major");
    match &tol {
        None => {
            cx.label("clip w below working precision after underflow (not asserted)");
            cx.set_nontrivial(false);
        }
        Some(tl) => {
            if tl.exact_clip {
                cx.label("clip space exact (dyadic)");
                if w_top < f.minnorm() - 1 {
                    cx.label("clip w subnormal, clip space exact");
                }
            }
            if tl.ndc[2].abs() > 1.0 {
                cx.label("depth outside the clip volume");
            }
            if tl.ndc[0].abs() > 1.0 || tl.ndc[1].abs() > 1.0 {
                cx.label("outside the viewport");
            }
            // non-trivial: some scaling applied, w != 1, and the bound is much tighter than the viewport / depth range
            let tight = tl.no[0] <= af(u.vp[2]) / 64.0 + 64.0 * S::eps() * af(u.vp[0]) && tl.no[2] <= (tl.ndc[2].abs() + 1.0) / 64.0;
            cx.set_nontrivial(if SP { u.nsp > 0 && tight } else { (a != 0 || b != 0 || j != 0) && an.clip[3] != Rat::ONE && tight });
        }
    }
    Ok(())
}

// ------------------------------------------------------------------------------------------------------------
// unprojection
// ------------------------------------------------------------------------------------------------------------

fn to_f(m: &M4) -> F4 {
    let mut r = [[0.0; 4]; 4];
    for i in 0..4 {
        for j in 0..4 {
            r[i][j] = m[i][j].to_f64_lossy();
        }
    }
    r
}
fn abs_mul(a: &F4, b: &F4) -> F4 {
    let mut r = [[0.0; 4]; 4];
    for i in 0..4 {
        for j in 0..4 {
            for k in 0..4 {
                r[i][j] += a[i][k].abs() * b[k][j].abs();
            }
        }
    }
    r
}
/// permanent of the absolute values of the 3x3 minor that omits row `or` and column `oc`
fn perm3(m: &F4, or: usize, oc: usize) -> f64 {
    let rows: Vec<usize> = (0..4).filter(|r| *r != or).collect();
    let cols: Vec<usize> = (0..4).filter(|c| *c != oc).collect();
    let mut s = 0.0;
    for p in PERMS {
        s += m[rows[0]][cols[p[0]]].abs() * m[rows[1]][cols[p[1]]].abs() * m[rows[2]][cols[p[2]]].abs();
    }
    s
}

struct InvAn {
    inv: F4,
    /// entrywise bound on the error of the computed inverse of the computed product proj * modelview
    dinv: F4,
}

/// Forward error of inverting the float product P*MV by any cofactor-type formula (every entry a sum of signed
/// products of three entries over a sum of signed products of four): 8 eps (perm|minor| + |inv| perm|M|) / |det|,
/// plus the first-order effect |inv| dM |inv| of the rounding dM <= 4 eps |P||MV| of the product itself.
fn inv_analysis(u: &Unit, pm: &M4, inv: &M4, det: Rat, eps: f64) -> InvAn {
    let (pmf, invf) = (to_f(pm), to_f(inv));
    let pmabs = abs_mul(&to_f(&u.proj), &to_f(&u.mv));
    let dt = af(det);
    let mut perm4 = 0.0;
    for c in 0..4 {
        perm4 += pmf[0][c].abs() * perm3(&pmf, 0, c);
    }
    let mut dm = [[0.0; 4]; 4];
    for i in 0..4 {
        for j in 0..4 {
            dm[i][j] = 4.0 * eps * pmabs[i][j];
        }
    }
    let pert = abs_mul(&abs_mul(&invf, &dm), &invf);
    let mut dinv = [[0.0; 4]; 4];
    for i in 0..4 {
        for j in 0..4 {
            dinv[i][j] = 8.0 * eps * (perm3(&pmf, j, i) + invf[i][j].abs() * perm4) / dt + pert[i][j];
        }
    }
    InvAn { inv: invf, dinv }
}

/// Tolerance of the unprojected point (unit frame) for the clip-space point `n` known to within `dn`.
fn unproj_tol(ia: &InvAn, n: &[f64; 3], dn: &[f64; 3], world: &[f64; 3], obj_w: f64, eps: f64) -> Option<[f64; 3]> {
    let n4 = [n[0].abs(), n[1].abs(), n[2].abs(), 1.0];
    let dn4 = [dn[0], dn[1], dn[2], 0.0];
    let mut e = [0.0; 4];
    for r in 0..4 {
        for c in 0..4 {
            e[r] += ia.dinv[r][c] * n4[c] + 4.0 * eps * ia.inv[r][c].abs() * n4[c] + ia.inv[r][c].abs() * dn4[c];
        }
    }
    let ow = obj_w.abs();
    if !(e[3] <= ow / 8.0) {
        return None;
    }
    let mut tol = [0.0; 3];
    for i in 0..3 {
        tol[i] = 4.0 * ((e[i] + world[i].abs() * e[3]) / (ow - e[3]) + eps * world[i].abs());
    }
    Some(tol)
}

/// viewport_to_world_{no,zo} (and the round trip through world_to_viewport) with modelview x 2^a, projection x 2^b
/// (a, b anywhere in the normal range, a + b small enough for the 4x4 inverse) and the world unit x 2^j.
fn unproj_scaled<S: Dom, const SP: bool>(t: &mut Tape, cx: &mut Cx) -> CaseResult {
    let f = fmt::<S>();
    let eps = S::eps();
    let u = gen_unit(t, cx, false, tiny_exp::<S>(), SP);
    let pm = rf::matmul(&u.proj, &u.mv);
    let det = rf::det(&pm);
    if det.numer() == 0 {
        discard!("precondition:singular");
    }
    let inv = rf::inverse(&pm).unwrap();
    let an = analyse(&u);
    // ---- exponents: every non-zero entry of the scaled product and of its inverse inside 2^-L..2^L, so that no
    // product of up to four of them (the cofactor formulas, the determinant) leaves the normal range ----
    let l: i32 = if S::NAME == "f32" { 26 } else { 240 };
    let pmabs = abs_mul(&to_f(&u.proj), &to_f(&u.mv));
    let (pmf, invf) = (to_f(&pm), to_f(&inv));
    let fits = |s: i32, j: i32| -> bool {
        for r in 0..4 {
            for c in 0..4 {
                let o = s - if c < 3 { j } else { 0 };
                if pmf[r][c] != 0.0 && hbf(pmf[r][c].abs()) + o < -l {
                    return false;
                }
                if pmabs[r][c] != 0.0 && hbf(pmabs[r][c]) + 1 + o > l {
                    return false;
                }
                let oi = -s + if r < 3 { j } else { 0 };
                if invf[r][c] != 0.0 && (hbf(invf[r][c].abs()) + oi < -l || hbf(invf[r][c].abs()) + 1 + oi > l) {
                    return false;
                }
            }
        }
        (hbf(af(det)) + 4 * s - 3 * j).abs() <= 4 * l - 8
    };
    let mode = if SP && !t.chance(64) { 0 } else { t.below(8) };
    let mut j = if mode >= 5 { strat(t, -l / 2, l / 2) } else { 0 };
    let mut s = if mode == 0 || mode == 5 { 0 } else { strat(t, -(l - 2), l - 2) };
    // shrink the drawn exponents until the dynamic range admits them
    let (s0, j0) = (s, j);
    let mut found = false;
    for num in [8, 7, 6, 5, 4, 3, 2, 1, 0] {
        s = s0 * num / 8;
        j = j0 * num / 8;
        if fits(s, j) {
            found = true;
            break;
        }
    }
    if !found {
        discard!("excluded:dynamic-range-of-the-4x4-inverse");
    }
    if exp_range::<S>(&u.p, &|_| j).is_none() {
        discard!("regime:point-not-representable");
    }
    let ra = exp_range::<S>(&flat(&u.mv), &|i| off_mv(0, j, i / 4, i % 4));
    let rb = exp_range::<S>(&flat(&u.proj), &|i| off_pr(0, j, i % 4));
    let (ra, rb) = match (ra, rb) {
        (Some(x), Some(y)) => (x, y),
        _ => discard!("regime:matrix-not-representable"),
    };
    // a anywhere such that b = s - a is admissible too and eye space stays finite and normal
    let mut a_lo = ra.0.max(s - rb.1);
    let mut a_hi = ra.1.min(s - rb.0);
    for r in 0..4 {
        if an.a_eye[r] > 0.0 {
            let o = if r < 3 { j } else { 0 };
            a_hi = a_hi.min(f.emax - 3 - hbf(an.a_eye[r]) - o);
            if an.q_eye[r] != i32::MAX {
                a_lo = a_lo.max(f.minnorm() + f.mant - an.q_eye[r].min(hbf(an.a_eye[r])) - o);
            }
        }
    }
    if a_lo > a_hi {
        discard!("excluded:no-admissible-exponent");
    }
    let a = if mode <= 1 { 0.clamp(a_lo, a_hi) } else { strat(t, a_lo, a_hi) };
    let b = s - a;
    let sc = match scale_inputs::<S>(&u, a, b, j) {
        Some(x) => x,
        None => discard!("regime:not-representable"),
    };
    cx.label(match (a != 0 || b != 0, j != 0) {
        (false, false) => "scaling: none",
        (true, false) => "scaling: matrices",
        (false, true) => "scaling: world unit x 2^j",
        _ => "scaling: world unit and matrices",
    });
    if a.abs() > 2 * l {
        cx.label("|a|, |b| far beyond the range of a + b");
    }
    cx.label(match s {
        0 => "product scale 2^0",
        s if s < 0 => "product scale < 1",
        _ => "product scale > 1",
    });
    let rect = Rect { x: sc.vp[0], y: sc.vp[1], w: sc.vp[2], h: sc.vp[3] };
    let ia = inv_analysis(&u, &pm, &inv, det, eps);
    let back = pw(-j);
    let mut asserted = 0;
    let mut tight = false;

    // ---- (B) a dyadic window point, reference unprojection ----
    let depth = match t.below(8) {
        0 => Rat::ZERO,
        1 => Rat::ONE,
        2 => d(1, -1),
        3 => {
            cx.label("window depth outside [0,1]");
            t.pick(&[d(-1, -2), d(3, -1), d(2, 0), d(-1, 0)])
        }
        _ => d(t.int(1, 63), -6),
    };
    let (mut n1, mut n2) = (t.int(-8, 24), t.int(-8, 24));
    let mut depth = depth;
    let mut win_special = false;
    if SP && t.chance(176) {
        cx.label("window point: viewport corner / edge midpoint / centre, depth exactly 0, 1/2 or 1");
        n1 = t.pick(&[0i64, 8, 16]);
        n2 = t.pick(&[0i64, 8, 16]);
        depth = t.pick(&[Rat::ZERO, d(1, -1), Rat::ONE]);
        win_special = true;
    }
    let mut win = [u.vp[0] + u.vp[2] * d(n1, -4), u.vp[1] + u.vp[3] * d(n2, -4), depth];
    let mut win_s = [conv::<S>(win[0], 0), conv::<S>(win[1], 0), conv::<S>(win[2], 0)];
    if win_s.iter().any(|x| x.is_none()) {
        cx.label("window point at the viewport origin (offset + fraction of the size not representable)");
        win = [u.vp[0], u.vp[1], depth];
        win_s = [conv::<S>(win[0], 0), conv::<S>(win[1], 0), conv::<S>(win[2], 0)];
    }
    let win_s = [win_s[0].unwrap(), win_s[1].unwrap(), win_s[2].unwrap()];
    if n1 < 0 || n1 > 16 || n2 < 0 || n2 > 16 {
        cx.label("window point outside the viewport");
    }
    sample!(cx, "{} unit frame: modelview={:?} proj={:?} viewport(x,y,w,h)={:?} p={:?} window point={:?}; handed to vek: modelview x 2^{}, proj x 2^{}, world unit x 2^{}", S::NAME, u.mv, u.proj, u.vp, u.p, win, a, b, j);
    let two = Rat::int(2);
    for zo in [false, true] {
        let ndc = [(win[0] - u.vp[0]) / u.vp[2] * two - Rat::ONE, (win[1] - u.vp[1]) / u.vp[3] * two - Rat::ONE, if zo { win[2] } else { win[2] * two - Rat::ONE }];
        let obj = rf::matvec(&inv, &[ndc[0], ndc[1], ndc[2], Rat::ONE]);
        if obj[3].numer() == 0 {
            cx.label("unprojected point at infinity (not asserted)");
            continue;
        }
        let world = [obj[0] / obj[3], obj[1] / obj[3], obj[2] / obj[3]];
        // exact arithmetic, both layouts
        {
            let r = Rect { x: u.vp[0], y: u.vp[1], w: u.vp[2], h: u.vp[3] };
            let (mvc, prc) = (cm::Mat4::<Rat>::from_arr(&u.mv), cm::Mat4::<Rat>::from_arr(&u.proj));
            let (mvr, prr) = (rm::Mat4::<Rat>::from_arr(&u.mv), rm::Mat4::<Rat>::from_arr(&u.proj));
            let (gc, gr) = if zo { (cm::Mat4::<Rat>::viewport_to_world_zo(win, mvc, prc, r), rm::Mat4::<Rat>::viewport_to_world_zo(win, mvr, prr, r)) } else { (cm::Mat4::<Rat>::viewport_to_world_no(win, mvc, prc, r), rm::Mat4::<Rat>::viewport_to_world_no(win, mvr, prr, r)) };
            check_eq!(cx, vk::a3(&gc), world, "col-major Rat viewport_to_world_{} vs reference unprojection (unit frame)", if zo { "zo" } else { "no" });
            check_eq!(cx, vk::a3(&gr), world, "row-major Rat viewport_to_world_{} vs reference unprojection (unit frame)", if zo { "zo" } else { "no" });
        }
        let nf = rat3(&ndc);
        let wf = rat3(&world);
        let dn = [4.0 * eps * (nf[0].abs() + 1.0), 4.0 * eps * (nf[1].abs() + 1.0), if zo { 0.0 } else { eps * (nf[2].abs() + 1.0) }];
        let tol = match unproj_tol(&ia, &nf, &dn, &wf, obj[3].to_f64_lossy(), eps) {
            Some(x) => x,
            None => {
                cx.label("unprojection ill-conditioned (w of the unprojected point below its error bound; not asserted)");
                continue;
            }
        };
        asserted += 1;
        tight |= (0..3).all(|i| tol[i] <= (wf[i].abs() + 1.0) / 64.0);
        macro_rules! layout {
            ($l:ident, $n:expr) => {{
                let (mv, pr) = ($l::Mat4::<S>::from_arr(&sc.mv), $l::Mat4::<S>::from_arr(&sc.proj));
                let got = vk::a3(&if zo { $l::Mat4::<S>::viewport_to_world_zo(vk::v3(&win_s), mv, pr, rect) } else { $l::Mat4::<S>::viewport_to_world_no(vk::v3(&win_s), mv, pr, rect) });
                for i in 0..3 {
                    cx.count();
                    let g = got[i].f() * back;
                    let ok = g.is_finite() && (g - wf[i]).abs() <= tol[i];
                    if g.is_finite() && tol[i] > 0.0 {
                        cx.note_err((g - wf[i]).abs() / tol[i]);
                    }
                    if !ok {
                        fail!("{} {} viewport_to_world_{}, modelview x 2^{}, proj x 2^{}, world unit x 2^{}: window point {:?}: coordinate {} = {:?} = {:e} x 2^{}, the unit-frame unprojection gives {:e} (tolerance {:.3e}); got {:?}, want {:?} x 2^{}", $n, S::NAME, if zo { "zo" } else { "no" }, a, b, j, win, i, got[i], g, j, wf[i], tol[i], got, wf, j);
                    }
                }
            }};
        }
        layout!(rm, "row-major");
        layout!(cm, "col-major");
    }

    // ---- (A) the round trip of the property statement: p -> window -> p ----
    if an.clip[3].numer() != 0 {
        if let Some(pt) = proj_tol::<S>(&u, &an, a, b, j) {
            let pf = rat3(&u.p);
            let obj_w = 1.0 / an.clip[3].to_f64_lossy();
            for zo in [false, true] {
                let wt = if zo { &pt.zo } else { &pt.no };
                let dn = [2.0 * wt[0] / af(u.vp[2]) + 4.0 * eps * (pt.ndc[0].abs() + 1.0), 2.0 * wt[1] / af(u.vp[3]) + 4.0 * eps * (pt.ndc[1].abs() + 1.0), if zo { wt[2] } else { 2.0 * wt[2] + eps * (pt.ndc[2].abs() + 1.0) }];
                let tol = match unproj_tol(&ia, &pt.ndc, &dn, &pf, obj_w, eps) {
                    Some(x) => x,
                    None => {
                        cx.label("round trip ill-conditioned (not asserted)");
                        continue;
                    }
                };
                asserted += 1;
                tight |= (0..3).all(|i| tol[i] <= (pf[i].abs() + 1.0) / 64.0);
                macro_rules! layout {
                    ($l:ident, $n:expr) => {{
                        let (mv, pr) = ($l::Mat4::<S>::from_arr(&sc.mv), $l::Mat4::<S>::from_arr(&sc.proj));
                        let w = if zo { $l::Mat4::<S>::world_to_viewport_zo(vk::v3(&sc.p), mv, pr, rect) } else { $l::Mat4::<S>::world_to_viewport_no(vk::v3(&sc.p), mv, pr, rect) };
                        let got = vk::a3(&if zo { $l::Mat4::<S>::viewport_to_world_zo(w, mv, pr, rect) } else { $l::Mat4::<S>::viewport_to_world_no(w, mv, pr, rect) });
                        for i in 0..3 {
                            cx.count();
                            let g = got[i].f() * back;
                            let ok = g.is_finite() && (g - pf[i]).abs() <= tol[i];
                            if g.is_finite() && tol[i] > 0.0 {
                                cx.note_err((g - pf[i]).abs() / tol[i]);
                            }
                            if !ok {
                                fail!("{} {} viewport_to_world_{f}(world_to_viewport_{f}(p)), modelview x 2^{}, proj x 2^{}, world unit x 2^{}: p = {:?} x 2^{}, window = {:?}, coordinate {} of the result = {:?} = {:e} x 2^{}, want {:e} (tolerance {:.3e}); got {:?}", $n, S::NAME, a, b, j, u.p, j, w, i, got[i], g, j, pf[i], tol[i], got, f = if zo { "zo" } else { "no" });
                            }
                        }
                    }};
                }
                layout!(rm, "row-major");
                layout!(cm, "col-major");
            }
        }
    }
    cx.set_nontrivial(asserted > 0 && tight && if SP { u.nsp > 0 || win_special } else { a != 0 || b != 0 || j != 0 });
    Ok(())
}

// ------------------------------------------------------------------------------------------------------------
// picking matrix
// ------------------------------------------------------------------------------------------------------------

/// picking_region with all window lengths (viewport, centre, size) x 2^k: the matrix is a function of ratios of
/// lengths only. Every entry is compared with the exact matrix the property determines:
/// x' = (vw/dx) x + ((vw - 2 (cx - vx))/dx) w, likewise y, z and w untouched.
fn picking_scaled<S: Dom, const SP: bool>(t: &mut Tape, cx: &mut Cx) -> CaseResult {
    let f = fmt::<S>();
    let eps = S::eps();
    let mut nsp = 0;
    let vp = if SP && t.chance(176) {
        nsp += 1;
        sp_vp(t, cx)
    } else {
        gen_vp(t, cx, tiny_exp::<S>())
    };
    let mut centre = match t.below(4) {
        0 | 1 => [vp[0] + vp[2] * d(t.int(-4, 12), -3), vp[1] + vp[3] * d(t.int(-4, 12), -3)],
        2 => {
            cx.label("centre far outside the viewport");
            [vp[0] + vp[2] * d(t.int(-1000, 1000), 0), vp[1] + vp[3] * d(t.int(-1000, 1000), 0)]
        }
        _ => {
            cx.label("centre unrelated to the viewport");
            [d(t.int(-2000, 2000), -1), d(t.int(-2000, 2000), -1)]
        }
    };
    // offset + fraction of the size may need more mantissa bits than the type has: then the centre sits on the
    // viewport origin (always representable)
    if centre.iter().any(|x| x.numer() != 0 && dy(*x).map(|(m, _)| bits(m) > f.mant).unwrap_or(true)) {
        cx.label("centre at the viewport origin (offset + fraction of the size not representable)");
        centre = [vp[0], vp[1]];
    }
    let half = d(1, -1);
    let mut centre_is_vp_centre = false;
    if SP && t.chance(176) {
        nsp += 1;
        cx.label("centre: special exact value");
        centre = match t.below(8) {
            0 | 1 | 2 => {
                cx.label("centre: the viewport centre");
                centre_is_vp_centre = true;
                [vp[0] + vp[2] * half, vp[1] + vp[3] * half]
            }
            3 => {
                cx.label("centre: the viewport origin");
                [vp[0], vp[1]]
            }
            4 => {
                cx.label("centre: the far corner of the viewport");
                [vp[0] + vp[2], vp[1] + vp[3]]
            }
            5 => {
                cx.label("centre: (0,0)");
                [Rat::ZERO, Rat::ZERO]
            }
            6 => {
                cx.label("centre: (1,1)");
                [Rat::ONE, Rat::ONE]
            }
            _ => {
                cx.label("centre: viewport centre in x only");
                [vp[0] + vp[2] * half, vp[1]]
            }
        };
    }
    let rel = if SP && t.chance(176) { 4 } else { t.below(4) };
    let mut size = [Rat::ZERO; 2];
    for i in 0..2 {
        let base = d(t.int(1, 255), -2);
        size[i] = match rel {
            0 | 1 => base,
            2 => base * Rat::new(vp[2 + i].numer().abs(), vp[2 + i].denom()) * d(1, -(t.int(8, 20) as i32)),
            3 => base * d(1, t.int(8, 20) as i32),
            _ => Rat::ZERO,
        };
    }
    if rel == 4 {
        nsp += 1;
        let av = [Rat::new(vp[2].numer().abs(), vp[2].denom()), Rat::new(vp[3].numer().abs(), vp[3].denom())];
        size = match t.below(8) {
            0 | 1 | 2 => {
                cx.label("size: exactly the viewport size");
                if centre_is_vp_centre {
                    cx.label("picking region = the whole viewport");
                }
                av
            }
            3 => {
                cx.label("size: exactly (1,1)");
                [Rat::ONE, Rat::ONE]
            }
            4 => {
                cx.label("size: exactly (2,2)");
                [Rat::int(2), Rat::int(2)]
            }
            5 => {
                cx.label("size: half the viewport size");
                [av[0] * half, av[1] * half]
            }
            6 => {
                cx.label("size: viewport size in one coordinate, 1 in the other");
                if t.bool() { [av[0], Rat::ONE] } else { [Rat::ONE, av[1]] }
            }
            _ => {
                cx.label("size: a power of two");
                [d(1, t.int(-4, 8) as i32), d(1, t.int(-4, 8) as i32)]
            }
        };
    }
    cx.label(match rel {
        0 | 1 => "size: ordinary",
        2 => "size: 2^-8..2^-20 of the viewport",
        3 => "size: huge",
        _ => "size: special exact value",
    });
    let all = [vp[0], vp[1], vp[2], vp[3], centre[0], centre[1], size[0], size[1]];
    let (lo, hi) = match exp_range::<S>(&all, &|_| 0) {
        Some(r) => r,
        None => discard!("regime:not-representable"),
    };
    // 2 (cx - vx) and vw - 2 (cx - vx) must stay finite
    let mag = all.iter().fold(0.0f64, |m, x| m.max(af(*x)));
    let hi = hi.min(f.emax - 4 - hbf(mag));
    if hi < lo {
        discard!("excluded:overflow");
    }
    let dmin = hbf(af(size[0]).min(af(size[1])));
    let k = match if SP && !t.chance(64) { 0 } else { t.below(8) } {
        0 => 0.clamp(lo, hi),
        1 | 2 => {
            // the smaller size subnormal
            (f.minnorm() - 1 - t.int(0, (f.mant - 2) as i64) as i32 - dmin).clamp(lo, hi)
        }
        _ => strat(t, lo, hi),
    };
    cx.label(exp_label(k));
    if dmin + k < f.minnorm() {
        cx.label("size subnormal");
    }
    if hbf(af(vp[2]).max(af(vp[3]))) + k < f.minnorm() {
        cx.label("viewport size subnormal");
    }
    let c = |r: Rat| conv::<S>(r, k).unwrap();
    let rect = Rect { x: c(vp[0]), y: c(vp[1]), w: c(vp[2]), h: c(vp[3]) };
    let (cs, ds) = (Vec2 { x: c(centre[0]), y: c(centre[1]) }, Vec2 { x: c(size[0]), y: c(size[1]) });
    sample!(cx, "{} unit frame: viewport(x,y,w,h)={:?} centre={:?} size={:?}; all x 2^{}: viewport={:?} centre={:?} size={:?}", S::NAME, vp, centre, size, k, rect, cs, ds);
    let two = Rat::int(2);
    // exact matrix and per-entry tolerances: sc = vw/dx (one division), tr = (vw - 2(cx - vx))/dx (two subtractions,
    // one division; additions and subtractions of floats carry no underflow error, the quotients are of order >= 2^-60)
    let mut want = [[0.0f64; 4]; 4];
    let mut tol = [[0.0f64; 4]; 4];
    let mut want_r = zero4();
    for i in 0..2 {
        let num = vp[2 + i] - two * (centre[i] - vp[i]);
        want_r[i][i] = vp[2 + i] / size[i];
        want_r[i][3] = num / size[i];
        want[i][i] = want_r[i][i].to_f64_lossy();
        want[i][3] = want_r[i][3].to_f64_lossy();
        tol[i][i] = 4.0 * eps * want[i][i].abs();
        tol[i][3] = 4.0 * eps * ((2.0 * af(centre[i] - vp[i]) + af(num)) / af(size[i]) + want[i][3].abs());
        for cc in 0..3 {
            if cc != i {
                tol[i][cc] = tol[i][i];
            }
        }
    }
    want[2][2] = 1.0;
    want[3][3] = 1.0;
    want_r[2][2] = Rat::ONE;
    want_r[3][3] = Rat::ONE;
    cx.set_nontrivial(if SP { nsp > 0 } else { k != 0 && want[0][3] != 0.0 && want[1][3] != 0.0 && want[0][0] != want[1][1] });
    // exact arithmetic in the unit frame
    {
        let r = Rect { x: vp[0], y: vp[1], w: vp[2], h: vp[3] };
        let m = cm::Mat4::<Rat>::picking_region(Vec2 { x: centre[0], y: centre[1] }, Vec2 { x: size[0], y: size[1] }, r).to_arr();
        check_eq!(cx, m, want_r, "col-major Rat picking_region vs the matrix determined by the property (unit frame)");
        let m = rm::Mat4::<Rat>::picking_region([centre[0], centre[1]], [size[0], size[1]], r).to_arr();
        check_eq!(cx, m, want_r, "row-major Rat picking_region (array operands) vs the matrix determined by the property (unit frame)");
    }
    macro_rules! layout {
        ($l:ident, $n:expr) => {{
            let m = $l::Mat4::<S>::picking_region(cs, ds, rect).to_arr();
            for r in 0..4 {
                for cc in 0..4 {
                    if !near::<S>(cx, m[r][cc], want[r][cc], tol[r][cc]) {
                        fail!("{} {} picking_region with all window lengths x 2^{}: entry ({},{}) = {:?}, want {:e} (tolerance {:.3e}); unit frame viewport {:?} centre {:?} size {:?}; handed to vek: viewport {:?} centre {:?} size {:?}; got {:?}", $n, S::NAME, k, r, cc, m[r][cc], want[r][cc], tol[r][cc], vp, centre, size, rect, cs, ds, m);
                    }
                }
            }
        }};
    }
    layout!(rm, "row-major");
    layout!(cm, "col-major");
    Ok(())
}

pub fn add(checks: &mut Vec<Check>) {
    macro_rules! tape {
        ($name:expr, $about:expr, $len:expr, $q:expr, $th:expr, $f:expr) => {
            checks.push(Check { name: $name, about: $about, kind: Kind::Tape { len: $len, quick: $q, thorough: $th, f: $f } });
        };
    }
    let a = "world_to_viewport_{no,zo} is invariant under modelview x 2^a, projection x 2^b and a change of the world unit by 2^j: exact dyadic unit-frame case (perspective / frustum / orthographic / structured bottom rows (0,0,c,1).. / arbitrary; viewports with large offsets, tiny, huge, negative sizes; points close to the eye plane), exponents over the whole normal range and down to a subnormal clip w; compared with the exact unit-frame projection within a per-case forward error bound (clip space exact when all terms are representable); the unit frame also evaluated by vek in exact arithmetic; both layouts";
    tape!("scaled-projection-f32", a, 192, 8_000, 300_000, proj_scaled::<f32, false>);
    tape!("scaled-projection-f64", a, 192, 8_000, 300_000, proj_scaled::<f64, false>);
    let b = "viewport_to_world_{no,zo} of a dyadic window point (depth inside / on the ends of / outside [0,1], inside and outside the viewport) vs the exact unit-frame unprojection, and the round trip viewport_to_world(world_to_viewport(p)) = p, with modelview x 2^a, projection x 2^b (a, b anywhere in the normal range, |a+b| within the dynamic range of the 4x4 inverse) and the world unit x 2^j; per-case forward error bound (permanents of the minors); unit frame in exact arithmetic; both layouts";
    tape!("scaled-unprojection-f32", b, 192, 5_000, 200_000, unproj_scaled::<f32, false>);
    tape!("scaled-unprojection-f64", b, 192, 5_000, 200_000, unproj_scaled::<f64, false>);
    let c = "picking_region with viewport, centre and size x 2^k (k over the whole normal range and down to subnormal sizes; sizes 2^-20 of the viewport and huge; centres far outside; viewports with large offsets / tiny / negative sizes): every entry vs the exact matrix the property determines; unit frame in exact arithmetic; both layouts";
    tape!("scaled-picking-f32", c, 64, 10_000, 400_000, picking_scaled::<f32, false>);
    tape!("scaled-picking-f64", c, 64, 10_000, 400_000, picking_scaled::<f64, false>);
    let sa = "special exact values: each of modelview (identity, pure translation, signed permutation, 2^g scale, z flip), projection (identity, diag(1,1,-1,1), power-of-two orthographic, perspective with focal length 1 / power of two, bottom row exactly (0,0,0,1) / (0,0,-1,0) / (0,0,1,1), 2^g I), viewport ((-1,-1,2,2), (0,0,1,1), (0,0,2,2), (-1,-1,1,1), (-1/2,-1/2,1,1), (1,1,1,1), zero offset with power-of-two sizes, symmetric about 0) and point (exactly on ndc x,y,z in {-1,-1/2,0,1/2,1}: near / far plane, viewport centre, corners; world origin; unit points; eye-plane neighbours) is special in 11 cases out of 16 and ordinary otherwise, all combinations; world_to_viewport_{no,zo} vs the reference projection (exact in Rat on every case, floats within the forward bound), mostly unscaled, one case in four also scaled by 2^a, 2^b, 2^j; both layouts";
    tape!("special-projection-f32", sa, 224, 4_000, 200_000, proj_scaled::<f32, true>);
    tape!("special-projection-f64", sa, 224, 4_000, 200_000, proj_scaled::<f64, true>);
    let sb = "special exact values (as special-projection) for viewport_to_world_{no,zo}: window points exactly on the viewport corners / edge midpoints / centre with depth exactly 0, 1/2, 1 vs the exact unprojection (Rat on every case, floats within the forward bound), and the round trip viewport_to_world(world_to_viewport(p)) = p for the special points; both layouts";
    tape!("special-unprojection-f32", sb, 224, 3_000, 150_000, unproj_scaled::<f32, true>);
    tape!("special-unprojection-f64", sb, 224, 3_000, 150_000, unproj_scaled::<f64, true>);
    let sc = "special exact values for picking_region: viewports as above; centre = viewport centre / origin / far corner / (0,0) / (1,1); size = exactly the viewport size (region = whole viewport: the identity) / (1,1) / (2,2) / half the viewport / a power of two; every entry vs the exact matrix (Rat on every case); both layouts";
    tape!("special-picking-f32", sc, 96, 5_000, 200_000, picking_scaled::<f32, true>);
    tape!("special-picking-f64", sc, 96, 5_000, 200_000, picking_scaled::<f64, true>);
}
