//! Scalar parameters of the spatial functions over their whole (undocumented, hence unrestricted) domain.
//!
//! `refracted(i, n, eta)`: the doc comment ("The refraction vector for this incident vector, a surface normal and a
//! ratio of indices of refraction (`eta`)") puts no restriction on `eta`; the property demands the Snell formula and the
//! zero vector on total internal reflection. The formula is the GLSL one, k = 1 - eta^2 (1 - (n.i)^2), zero vector
//! for k < 0, eta i - (eta (n.i) + sqrt k) n otherwise; it is a polynomial-and-radical identity in eta, so it is
//! asserted for every real eta: negative (in (-1, 0), exactly -1, below -1), zero, exactly 1, 1 +- 2^-j, tiny
//! (down to 1e-6 and 2^-20), large (up to 1e6 and 2^20), and on both sides of and exactly at the boundary k = 0 at
//! every one of these magnitudes (the critical eta is 1 / sin(th1): incidence angles from 1e-6 off the normal to
//! grazing put it anywhere between 1 and 1e6). Exact in `Rat` (incidence and refraction angles are Pythagorean,
//! (2m, m^2-1, m^2+1) for m up to 2e6, so every radical is rational), with derived tolerances in f64 / f32.
//!
//! `Vec3::slerp_unclamped(from, to, factor)` ("without implicitly constraining `factor` to be between 0 and 1 ...
//! their length is also linearly interpolated") and the clamped `slerp` with factors far outside [0, 1]: integers,
//! half-integers, +-2^j, +-1e3 / 1e6 / 1e9, random magnitudes up to 1e6, a hair outside the interval, whole turns
//! (factor * angle a multiple of 2 pi), and, for the clamped forms, +-1e30 and the largest finite value.

use crate::generic::{kahan_angle, near_abs};
use crate::scale::p2;
use crate::*;
use num_traits::Zero;
use vek::ops::Slerp;
use vek::vec::repr_c::Vec3;
use vkit::refmath as rf;

type O<S> = <S as Lift>::O;

fn o_i<S: Lift>(n: i64) -> O<S> {
    <O<S> as Dom>::i(n)
}

/// Orthonormal pair of signed coordinate axes.
fn axis_pair<S: Dom, const N: usize>(t: &mut Tape) -> ([S; N], [S; N]) {
    let a = t.below(N);
    let mut b = t.below(N - 1);
    if b >= a {
        b += 1;
    }
    let mut n = [S::zero(); N];
    let mut g = [S::zero(); N];
    n[a] = if t.bool() { S::one() } else { -S::one() };
    g[b] = if t.bool() { S::one() } else { -S::one() };
    (n, g)
}

/// Parameters m of the triples (2m, m^2 - 1, m^2 + 1): sin = 2m / (m^2 + 1) ~ 2 / m.
const MS: [i64; 9] = [32, 1000, 1024, 2000, 32768, 100_000, 1_000_000, 1_048_576, 2_000_000];
/// Moderately extreme Pythagorean triples (sine, cosine, hypotenuse).
const MODS: [(i64, i64, i64); 8] = [(20, 99, 101), (99, 20, 101), (60, 899, 901), (899, 60, 901), (24, 7, 25), (40, 9, 41), (60, 11, 61), (28, 195, 197)];

fn mag_label(cx: &mut Cx, e: f64) {
    let a = e.abs();
    cx.label(if e == 0.0 {
        "eta = 0"
    } else if e == 1.0 {
        "eta = 1 exactly"
    } else if e == -1.0 {
        "eta = -1 exactly"
    } else if e < 0.0 {
        if a < 1e-3 {
            "eta in (-1e-3, 0)"
        } else if a < 1.0 {
            "eta in (-1, -1e-3]"
        } else if a < 1e3 {
            "eta in (-1e3, -1)"
        } else {
            "eta <= -1e3"
        }
    } else if a < 1e-3 {
        "eta in (0, 1e-3)"
    } else if a < 1.0 {
        "eta in [1e-3, 1)"
    } else if a < 1e3 {
        "eta in (1, 1e3)"
    } else {
        "eta >= 1e3"
    });
}

/// refracted over the whole range of eta.
pub fn refract_eta<S: Lift, V: Sp<S, N>, const N: usize>(t: &mut Tape, cx: &mut Cx) -> CaseResult {
    // --- incidence angle th1: (sin, cos, hypotenuse); `big1`: a triple with a hypotenuse beyond 1e10
    let (a1, b1, h1, big1) = match t.below(8) {
        2 => {
            cx.label("incidence: moderately near normal / grazing (sin or cos in 1/15 .. 1/3)");
            let (a, b, h) = MODS[t.below(MODS.len())];
            (a, b, h, false)
        }
        3 => {
            cx.label("incidence: 2/m off the normal, m = 32 .. 2e6 (critical eta = m/2)");
            let m = MS[t.below(MS.len())];
            (2 * m, m * m - 1, m * m + 1, m >= 100_000)
        }
        4 => {
            cx.label("incidence: 2/m off grazing, m = 32 .. 2e6 (critical eta = 1 + 2/m^2)");
            let m = MS[t.below(MS.len())];
            (m * m - 1, 2 * m, m * m + 1, m >= 100_000)
        }
        5 => {
            cx.label("incidence: exactly normal (i = -+n, k = 1 for every eta)");
            (0, 1, 1, false)
        }
        6 => {
            cx.label("incidence: exactly grazing (n.i = 0, k = 1 - eta^2)");
            (1, 0, 1, false)
        }
        _ => {
            cx.label("incidence: ordinary Pythagorean angle");
            let (a, b, h) = PYTH[t.below(PYTH.len())];
            (a, b, h, false)
        }
    };
    let (s1, c1) = (S::q(a1, h1), S::q(b1, h1));
    // size class of the triple: bounds the second triple / the multipliers so that eta^2 stays inside the range of Rat
    let lvl = if h1 > 2_000_000_000 { 2 } else if h1 > 2000 { 1 } else { 0 };
    // --- the plane of incidence
    let axis = t.chance(64) || (S::EXACT && big1 && N > 4);
    let (nrm, tan): ([S; N], [S; N]) = if axis {
        cx.label("plane of incidence: two signed coordinate axes");
        axis_pair(t)
    } else {
        cx.label("plane of incidence: Householder orthonormal pair");
        ortho_pair(t)
    };
    let front = t.bool();
    cx.label(if front { "incident against the normal (n.i <= 0)" } else { "incident along the normal (n.i >= 0)" });
    let ci = if front { -c1 } else { c1 };
    let inc: [S; N] = std::array::from_fn(|i| ci * nrm[i] + s1 * tan[i]);
    // --- eta
    let sg = |t: &mut Tape, x: S| if t.bool() { -x } else { x };
    let lit_big = |t: &mut Tape| -> S { t.pick(&[S::i(1000), S::i(1_000_000), S::i(1 << 10), S::i(1 << 20)]) };
    let lit_tiny = |t: &mut Tape| -> S { t.pick(&[S::q(1, 1000), S::q(1, 1_000_000), S::q(1, 1 << 10), S::q(1, 1 << 20)]) };
    // Some(c2): the construction makes k = c2^2 exactly (harness self-check in Rat)
    let mut want_c2: Option<S> = None;
    let sel = if a1 == 0 { 7 + t.below(7) } else { t.below(16) };
    let eta: S = match sel {
        0 => {
            cx.label("eta = +-1/sin(th1): k = 0 exactly (critical angle)");
            want_c2 = Some(S::zero());
            sg(t, S::q(h1, a1))
        }
        1 => {
            cx.label("eta = +-(1 + 2^-j)/sin(th1), j = 4, 10, 20, 30: k < 0 by a hair");
            let j = [t.pick(&[4i64, 10, 20, 30]), t.pick(&[4i64, 10, 20]), t.pick(&[4i64, 10])][lvl];
            sg(t, S::q(h1, a1) * (S::one() + S::q(1, 1 << j)))
        }
        2 => {
            cx.label("eta = +-r/sin(th1), r = 2, 3, 9, 1e3, 1e6: k < 0 (total internal reflection)");
            let r = if lvl == 2 { t.pick(&[2i64, 3, 9, 1000]) } else { t.pick(&[2i64, 3, 9, 1000, 1_000_000]) };
            sg(t, S::q(h1, a1) * S::i(r))
        }
        3 => {
            cx.label("eta = +-sin(th2)/sin(th1), th2 = 90 degrees - 2/m: k = 4/m^2 > 0 by a hair");
            let m = [t.pick(&[32i64, 1024, 32768]), t.pick(&[32i64, 1024, 16384]), t.pick(&[32i64, 256, 256])][lvl];
            want_c2 = Some(S::q(2 * m, m * m + 1));
            sg(t, S::q(m * m - 1, m * m + 1) / s1)
        }
        6 => {
            cx.label("eta = +-sin(th2)/sin(th1), sin(th2) = 2/m small (m = 100 .. 1e6): k a hair below 1");
            let m = [t.pick(&[1000i64, 32768, 1_000_000]), t.pick(&[1000i64, 16384, 16384]), t.pick(&[100i64, 400, 400])][lvl];
            want_c2 = Some(S::q(m * m - 1, m * m + 1));
            sg(t, S::q(2 * m, m * m + 1) / s1)
        }
        7 => {
            cx.label("eta = +-1 literally (k = (n.i)^2)");
            want_c2 = Some(c1);
            sg(t, S::one())
        }
        8 => {
            cx.label("eta = 0 literally (k = 1, result -n)");
            want_c2 = Some(S::one());
            S::zero()
        }
        9 => {
            cx.label("eta = +-(1 +- 2^-j) literally, j = 10, 20");
            let d = S::q(1, 1 << t.pick(&[10i64, 20]));
            let m = if t.bool() { S::one() + d } else { S::one() - d };
            sg(t, m)
        }
        10 => {
            cx.label("eta = +-1e3, 1e6, 2^10, 2^20 literally");
            let b = lit_big(t);
            sg(t, b)
        }
        11 => {
            cx.label("eta = +-1e-3, 1e-6, 2^-10, 2^-20 literally");
            let b = lit_tiny(t);
            sg(t, b)
        }
        12 => {
            cx.label("eta = +-p/8 literally, p = 1 .. 7");
            let p = t.int(1, 7);
            sg(t, S::q(p, 8))
        }
        13 => {
            cx.label("eta = +-p/4 literally, p = 5 .. 40");
            let p = t.int(5, 40);
            sg(t, S::q(p, 4))
        }
        _ => {
            cx.label("eta = +-sin(th2)/sin(th1), th2 Pythagorean: k = cos^2(th2) > 0");
            let (a2, b2, h2) = if t.bool() { PYTH[t.below(PYTH.len())] } else { MODS[t.below(MODS.len())] };
            want_c2 = Some(S::q(b2, h2));
            sg(t, S::q(a2, h2) / s1)
        }
    };
    let (io, no, eo) = (lift_v(&inc), lift_v(&nrm), eta.lift());
    let ef = eo.f();
    mag_label(cx, ef);
    let ndi = rf::dot(&no, &io);
    let one = o_i::<S>(1);
    let zero = <O<S> as Zero>::zero();
    let k = one - eo * eo * (one - ndi * ndi);
    // the class of this module: eta outside the "physically ordinary" (2^-12, 16) or within 2^-9 of 1
    cx.set_nontrivial(nonzero_count(&inc) >= 2 && (ef <= 0.0 || ef < p2(-12) || ef > 16.0 || (ef - 1.0).abs() <= p2(-9)));
    sample!(cx, "{}<{}> i={:?} n={:?} eta={:?} k={:?}", V::NAME, S::NAME, inc, nrm, eta, k);
    let call = || V::mk(inc).k_refracted(V::mk(nrm), eta).rd();
    if S::EXACT {
        if let Some(c2) = want_c2 {
            check_eq!(cx, k, c2.lift() * c2.lift(), "harness self-check: k of the construction (i={:?} n={:?} eta={:?})", inc, nrm, eta);
        }
        if k < zero {
            cx.label("asserted: zero vector (k < 0)");
            check_eq!(cx, call(), [S::zero(); N], "{}<{}>::refracted i={:?} n={:?} eta={:?}: k = {:?} < 0 must give the zero vector", V::NAME, S::NAME, inc, nrm, eta, k);
        } else if let Some(rk) = S::sqrt_o(k) {
            cx.label(if k.is_zero() { "asserted: Snell formula at k = 0 exactly" } else { "asserted: Snell formula (k > 0)" });
            let want: [O<S>; N] = std::array::from_fn(|i| eo * io[i] - (eo * ndi + rk) * no[i]);
            near_vec!(cx, S, call(), want, 1.0, 1.0, "{}<{}>::refracted i={:?} n={:?} eta={:?} (k = {:?}): want eta*i - (eta*(n.i) + sqrt(k))*n", V::NAME, S::NAME, inc, nrm, eta, k);
        } else {
            cx.label("Rat: sqrt(k) irrational (not called)");
            cx.set_nontrivial(false);
        }
        return Ok(());
    }
    // floats. Rounding of k = 1 - eta^2 (1 - (n.i)^2), operation by operation (u = eps): n.i is a sum of m non-zero
    // products (m roundings, m - 1 additions that are not additions of an exact zero): d(n.i) <= (2m - 1) u sum|n_j i_j|,
    // and 0 when the only non-zero product has a factor +-1; its square adds u (n.i)^2 (nothing when |n.i| = 1),
    // the difference from 1 adds u |q|, q = 1 - (n.i)^2; eta^2, its product with q and the last difference add
    // 3 u eta^2 |q| + u |k|. The oracle (f64) is subject to the same bound when S = f64, hence the factor 2.
    let kf = k.f();
    let u = S::eps();
    let (nfl, ifl): ([f64; N], [f64; N]) = (std::array::from_fn(|j| no[j].f()), std::array::from_fn(|j| io[j].f()));
    let m = (0..N).filter(|&j| nfl[j] * ifl[j] != 0.0).count();
    let exact_dot = m == 0 || (m == 1 && (0..N).any(|j| nfl[j] * ifl[j] != 0.0 && (nfl[j].abs() == 1.0 || ifl[j].abs() == 1.0)));
    let d_ndi = if exact_dot { 0.0 } else { (2 * m - 1) as f64 * u * absdot(&no, &io) };
    let nd = ndi.f();
    let q = 1.0 - nd * nd;
    let d_q = 2.0 * nd.abs() * d_ndi + d_ndi * d_ndi + if nd.abs() == 1.0 { 0.0 } else { u * nd * nd } + u * q.abs();
    let dk = 2.0 * (ef * ef * (d_q + 3.0 * u * q.abs()) + u * kf.abs());
    cx.label(if exact_dot { "floats: n.i exact (single product with a factor +-1)" } else { "floats: n.i rounded" });
    if kf < -2.0 * dk {
        cx.label("asserted: zero vector (k < 0)");
        check_eq!(cx, call(), [S::zero(); N], "{}<{}>::refracted i={:?} n={:?} eta={:?}: k = {:?} < 0 must give the zero vector", V::NAME, S::NAME, inc, nrm, eta, k);
    } else if kf > 8.0 * dk {
        cx.label("asserted: Snell formula (k > 0)");
        if ef.abs() >= 1000.0 {
            cx.label("asserted: Snell formula (k > 0) with |eta| >= 1e3");
        }
        let rk = S::sqrt_o(k).unwrap();
        let want: [O<S>; N] = std::array::from_fn(|i| eo * io[i] - (eo * ndi + rk) * no[i]);
        // lane = i_j eta - n_j c, c = eta (n.i) + sqrt k: |eta| d(n.i) + d(sqrt k) + the roundings of the two products,
        // the sum c, the lane products and the lane difference; d(sqrt k) <= dk / sqrt k
        let sc = (2.0 * m as f64 + 8.0) * (ef.abs() + rk.f() + 1.0) + dk / (u * rk.f());
        near_vec!(cx, S, call(), want, sc, 2.0, "{}<{}>::refracted i={:?} n={:?} eta={:?} (k = {:?}): want eta*i - (eta*(n.i) + sqrt(k))*n", V::NAME, S::NAME, inc, nrm, eta, k);
    } else {
        cx.label("floats: k within rounding of 0 (called, not asserted)");
        cx.set_nontrivial(false);
        let _ = call();
    }
    Ok(())
}

// ---------------------------------------------------------------------------------------------
// Vec3 slerp: factors far outside [0, 1]
// ---------------------------------------------------------------------------------------------

fn unit3(v: [f64; 3]) -> Option<[f64; 3]> {
    let l = rf::dot(&v, &v).sqrt();
    if l > 0.0 && l.is_finite() {
        Some([v[0] / l, v[1] / l, v[2] / l])
    } else {
        None
    }
}

fn perp_to(u: &[f64; 3]) -> [f64; 3] {
    let w = if u[0].abs() < 0.9 { [1.0, 0.0, 0.0] } else { [0.0, 1.0, 0.0] };
    let p = rf::dot(&w, u);
    unit3([w[0] - p * u[0], w[1] - p * u[1], w[2] - p * u[2]]).unwrap()
}

pub fn slerp_factor<S: Lift>(t: &mut Tape, cx: &mut Cx) -> CaseResult {
    let eps = S::eps();
    let f32ish = eps > 1e-10;
    let pi = std::f64::consts::PI;
    // zone in which the computed cosine may round to 1 (see slerp_edge.rs); this check stays 8x outside it
    let th_def = (2.0 * 8.25 * eps).sqrt();
    let r1: [f64; 3] = [t.range_f64(-1.0, 1.0), t.range_f64(-1.0, 1.0), t.range_f64(-1.0, 1.0)];
    let r2: [f64; 3] = [t.range_f64(-1.0, 1.0), t.range_f64(-1.0, 1.0), t.range_f64(-1.0, 1.0)];
    let u = if t.chance(32) { [[1.0, 0.0, 0.0], [0.0, 1.0, 0.0], [0.0, 0.0, -1.0]][t.below(3)] } else { unit3(r1).filter(|_| rf::dot(&r1, &r1) > 1e-4).unwrap_or([0.6, 0.0, -0.8]) };
    let proj = rf::dot(&r2, &u);
    let e0 = [r2[0] - proj * u[0], r2[1] - proj * u[1], r2[2] - proj * u[2]];
    let e = if rf::dot(&e0, &e0) > 1e-4 { unit3(e0).unwrap() } else { perp_to(&u) };
    let al0 = match t.below(8) {
        0 => {
            cx.label("right angle");
            pi / 2.0
        }
        1 | 2 => {
            cx.label("small angle (log-uniform, 8 TH_DEF .. 0.2)");
            let lo = 8.0 * th_def;
            lo * (0.2 / lo).powf(t.unit_f64())
        }
        3 => {
            cx.label("angle in (pi - 0.2, pi - 0.05)");
            pi - t.range_f64(0.05, 0.2)
        }
        _ => {
            cx.label("ordinary angle (0.2 .. pi - 0.2)");
            t.range_f64(0.2, pi - 0.2)
        }
    };
    let len = |t: &mut Tape| (if t.chance(16) { 1.0 } else { t.range_f64(0.5, 2.0) }) * p2(t.int(-4, 4) as i32);
    let (la0, lb0) = (len(t), len(t));
    let a: [S; 3] = std::array::from_fn(|i| S::of_f64(u[i] * la0));
    let b: [S; 3] = std::array::from_fn(|i| S::of_f64((u[i] * al0.cos() + e[i] * al0.sin()) * lb0));
    // oracle frame from the endpoints as actually passed
    let af: [f64; 3] = std::array::from_fn(|i| a[i].f());
    let bf: [f64; 3] = std::array::from_fn(|i| b[i].f());
    let (la, lb) = (rf::dot(&af, &af).sqrt(), rf::dot(&bf, &bf).sqrt());
    let lmx = la.max(lb);
    let al = kahan_angle(&af, &bf);
    let ah: [f64; 3] = std::array::from_fn(|i| af[i] / la);
    let bh: [f64; 3] = std::array::from_fn(|i| bf[i] / lb);
    let cab = rf::dot(&ah, &bh);
    let eh = unit3(std::array::from_fn(|i| bh[i] - cab * ah[i])).unwrap_or_else(|| perp_to(&ah));
    let nh = unit3(rf::cross(&ah, &eh)).unwrap_or([0.0, 0.0, 0.0]);
    let sgn = |t: &mut Tape, x: f64| if t.bool() { -x } else { x };
    let log_uniform = |t: &mut Tape, lo: f64, hi: f64| lo * (hi / lo).powf(t.unit_f64());
    let (f, clamped_only): (S, bool) = match t.below(12) {
        0 => {
            cx.label("factor: integer, 2 <= |t| <= 16");
            let k = t.int(2, 16) as f64;
            (S::of_f64(sgn(t, k)), false)
        }
        1 => {
            cx.label("factor: half-integer, 1.5 <= |t| <= 16.5");
            let k = t.int(1, 16) as f64 + 0.5;
            (S::of_f64(sgn(t, k)), false)
        }
        2 => {
            cx.label("factor: +-2^j, j = 1 .. 20 (f32) / 40 (f64)");
            let j = t.int(1, if f32ish { 20 } else { 40 }) as i32;
            (S::of_f64(sgn(t, p2(j))), false)
        }
        3 => {
            cx.label("factor: +-1e3, +-1e6 (and +-1e9 in f64)");
            let k = if f32ish { t.pick(&[1e3, 1e6]) } else { t.pick(&[1e3, 1e6, 1e9]) };
            (S::of_f64(sgn(t, k)), false)
        }
        4 => {
            cx.label("factor: log-uniform magnitude 1.5 .. 1e3");
            let k = log_uniform(t, 1.5, 1e3);
            (S::of_f64(sgn(t, k)), false)
        }
        5 => {
            cx.label("factor: log-uniform magnitude 1e3 .. 1e6");
            let k = log_uniform(t, 1e3, 1e6);
            (S::of_f64(sgn(t, k)), false)
        }
        6 => {
            cx.label("factor: a hair outside [0, 1] (-2^-j or 1 + 2^-j, j = 1 .. 20)");
            let d = p2(-(t.int(1, 20) as i32));
            (S::of_f64(if t.bool() { -d } else { 1.0 + d }), false)
        }
        7 => {
            cx.label("factor: -1 or 2 exactly");
            (S::of_f64(if t.bool() { -1.0 } else { 2.0 }), false)
        }
        8 => {
            cx.label("factor: whole turns (t * angle next to a multiple of 2 pi)");
            let k = t.int(1, 8) as f64;
            (S::of_f64(sgn(t, 2.0 * pi * k / al)), false)
        }
        9 => {
            cx.label("factor: +-1e30 / largest finite value (clamped forms only)");
            let big = if t.bool() { S::of_f64(1e30) } else { S::max_value() };
            (if t.bool() { -big } else { big }, true)
        }
        _ => {
            cx.label("factor: log-uniform magnitude 1.5 .. 100");
            let k = log_uniform(t, 1.5, 100.0);
            (S::of_f64(sgn(t, k)), false)
        }
    };
    let tf = f.f();
    cx.label(if tf < 0.0 { "factor < 0" } else { "factor > 1" });
    cx.set_nontrivial((la - lb).abs() > 1e-3 * lmx && !(-0.5..=1.5).contains(&tf));
    sample!(cx, "Vec3<{}> from={:?} to={:?} factor={:?} (angle {:e}, |from| {:e}, |to| {:e})", S::NAME, a, b, f, al, la, lb);
    let ctx = format!("from={:?} to={:?} factor={:?} (angle {:e}, |from| = {:e}, |to| = {:e})", a, b, f, al, la, lb);
    let (va, vb) = (vk::v3(&a), vk::v3(&b));
    const FORMS: [&str; 4] = ["Vec3::slerp_unclamped", "Vec3::slerp", "<Vec3 as Slerp>::slerp_unclamped", "<Vec3 as Slerp>::slerp"];
    let eval = |form: usize| -> [f64; 3] {
        let r = match form {
            0 => Vec3::slerp_unclamped(va, vb, f),
            1 => Vec3::slerp(va, vb, f),
            2 => <Vec3<S> as Slerp<S>>::slerp_unclamped(va, vb, f),
            _ => <Vec3<S> as Slerp<S>>::slerp(va, vb, f),
        };
        [r.x.f(), r.y.f(), r.z.f()]
    };
    macro_rules! vec_near {
        ($got:expr, $want:expr, $tol:expr, $($arg:tt)*) => {{
            let g: [f64; 3] = $got;
            let w: [f64; 3] = $want;
            let tol: f64 = $tol;
            for i in 0..3 {
                if !near_abs(cx, g[i], w[i], tol) {
                    fail!("Vec3<{}>: {}: lane {}: got {:?}, want {:?} (tolerance {:.3e}); {}", S::NAME, format!($($arg)*), i, g, w, tol, ctx);
                }
            }
        }};
    }
    // --- clamped forms: the end point on the side of the factor, as for factor 0 / 1 (slerp_edge.rs)
    for form in [1usize, 3] {
        let g = eval(form);
        if tf <= 0.0 {
            vec_near!(g, af, 8.0 * eps * la, "{}(.., t <= 0) must be `from` (factor clamped)", FORMS[form]);
        } else {
            vec_near!(g, bf, 8.0 * eps * lmx, "{}(.., t >= 1) must be `to` (factor clamped)", FORMS[form]);
        }
    }
    if clamped_only {
        return Ok(());
    }
    // --- unclamped forms: |result| = |lerp(|from|, |to|, t)|, result in the plane of the end points, direction at t * angle
    let s = al.sin();
    let (w1, w2) = ((1.0 / s).min((1.0 - tf).abs() * al / s), (1.0 / s).min(tf.abs() * al / s));
    let wsum = (1.0 - tf).abs() + tf.abs();
    let l = la + tf * (lb - la);
    // |from^ t1 + to^ t2|^2 = 1 + 2 t1 t2 d, |d| <= 8 eps, for the weights at the computed angle (|t1| <= w1, |t2| <= w2
    // up to the 1% by which the computed angle may differ 8 TH_DEF away from 0); rounding of the weights; the
    // arguments (1-t) alpha, t alpha of sin carry a relative error of 2 eps
    let k_len = 10.0 * w1 * w2 + 5.0 * (w1 + w2) + 2.5 * wsum * al / s + 8.0;
    let k_vec = 32.0 * (1.0 + tf.abs()) / (s * s);
    let reference: [f64; 3] = std::array::from_fn(|i| (ah[i] * (tf * al).cos() + eh[i] * (tf * al).sin()) * l);
    for form in [0usize, 2] {
        let g = eval(form);
        check!(cx, g.iter().all(|x| x.is_finite()), "Vec3<{}>: {} is not finite: {:?}; {}", S::NAME, FORMS[form], g, ctx);
        if k_len * eps <= 1.0 / 64.0 {
            cx.label("asserted: length = |lerp(|from|, |to|, t)|");
            let tol_len = eps * (k_len * l.abs() + 4.0 * wsum * lmx);
            if !near_abs(cx, rf::dot(&g, &g).sqrt(), l.abs(), tol_len) {
                fail!("Vec3<{}>: {}: length {:e} is not |lerp(|from|, |to|, factor)| = {:e} (tolerance {:.3e}); {}", S::NAME, FORMS[form], rf::dot(&g, &g).sqrt(), l.abs(), tol_len, ctx);
            }
        } else {
            cx.label("length tolerance above 2^-6 relative (not asserted)");
        }
        // out of plane: the two unit vectors carry 2 eps each, times the weights; the oracle's own normal is known to 8 eps(f64) / sin
        // (the interpolated length itself is only known to 4 eps (|1-t| + |t|) max(|from|, |to|): it matters when it is next to 0)
        let tol_plane = (eps * (4.0 * (w1 + w2) + 8.0) + 8.0 * f64::EPSILON / s) * (l.abs() + 4.0 * eps * wsum * lmx);
        if !near_abs(cx, rf::dot(&g, &nh), 0.0, tol_plane.max(f64::MIN_POSITIVE)) {
            fail!("Vec3<{}>: {}: result {:?} leaves the plane of the end points by {:e} (tolerance {:.3e}); {}", S::NAME, FORMS[form], g, rf::dot(&g, &nh), tol_plane, ctx);
        }
        if k_vec * eps <= 1.0 / 64.0 {
            cx.label("asserted: direction at t * angle (full reference)");
            vec_near!(g, reference, eps * (k_vec * l.abs() + 4.0 * wsum * lmx), "{} vs (a^ cos(t al) + e^ sin(t al)) * lerp(|a|, |b|, t)", FORMS[form]);
        } else {
            cx.label("direction tolerance above 2^-6 relative (not asserted)");
        }
    }
    Ok(())
}

pub fn checks(checks: &mut Vec<Check>) {
    use vek::vec::repr_c::*;
    let r = "refracted(i, n, eta) for every real eta (the doc comment restricts nothing): negative, 0, +-1, 1 +- 2^-j, tiny (1e-6, 2^-20), large (1e6, 2^20), below / exactly at / above the critical value 1/sin(th1) for incidence angles from 1e-6 off the normal to grazing: k < 0 gives the zero vector, k >= 0 gives eta*i - (eta*(n.i) + sqrt k)*n; exact in Rat (Pythagorean angles, every radical rational)";
    macro_rules! reg {
        ($V:ident, $N:expr, $qr:expr, $qf:expr) => {{
            const N: usize = $N;
            let mut add = |name: &'static str, q: u64, f: fn(&mut Tape, &mut Cx) -> CaseResult| {
                checks.push(Check { name, about: r, kind: Kind::Tape { len: N + 48, quick: q, thorough: q * 60, f } });
            };
            add(concat!("refract-eta-", stringify!($V), "-rat"), $qr, refract_eta::<Rat, $V<Rat>, N>);
            add(concat!("refract-eta-", stringify!($V), "-f64"), $qf, refract_eta::<f64, $V<f64>, N>);
            add(concat!("refract-eta-", stringify!($V), "-f32"), $qf, refract_eta::<f32, $V<f32>, N>);
        }};
    }
    reg!(Vec2, 2, 2500, 3000);
    reg!(Vec3, 3, 2500, 3000);
    reg!(Vec4, 4, 2500, 3000);
    reg!(Extent2, 2, 1500, 2000);
    reg!(Extent3, 3, 1500, 2000);
    reg!(Vec8, 8, 1200, 2000);
    reg!(Vec16, 16, 800, 1500);
    reg!(Vec32, 32, 500, 1000);
    reg!(Vec64, 64, 300, 800);
    let s = "Vec3 slerp with factors far outside [0, 1] (integers, half-integers, +-2^j, +-1e3 .. 1e9, whole turns, a hair outside, +-1e30 / MAX for the clamped forms), all four entry points: clamped forms give the end point on the side of the factor; unclamped forms: |result| = |lerp(|from|, |to|, t)|, result in the plane of the end points, direction at t * angle within 32 (1 + |t|) eps / sin^2";
    let mut add = |name: &'static str, q: u64, f: fn(&mut Tape, &mut Cx) -> CaseResult| {
        checks.push(Check { name, about: s, kind: Kind::Tape { len: 96, quick: q, thorough: q * 100, f } });
    };
    add("slerp-factor-Vec3-f64", 6000, slerp_factor::<f64>);
    add("slerp-factor-Vec3-f32", 6000, slerp_factor::<f32>);
}
