//! Functions every spatial vector type has: dot, magnitude(_squared), distance(_squared), the normalisation
//! family and its predicates, reflected, refracted, face_forward, angle_between.

use crate::*;
use num_traits::Zero;
use vkit::refmath as rf;

type O<S> = <S as Lift>::O;

fn o_i<S: Lift>(n: i64) -> O<S> {
    <O<S> as Dom>::i(n)
}

/// dot, magnitude_squared, distance_squared, magnitude, distance, normalized / try_normalized / normalize /
/// *_and_get_magnitude, is_normalized / is_approx_zero / is_magnitude_close_to.
pub fn metric<S: Lift, V: Sp<S, N>, const N: usize>(t: &mut Tape, cx: &mut Cx) -> CaseResult {
    let nf = N as f64;
    let a: [S; N] = gen_any(t);
    let b: [S; N] = gen_any(t);
    let (ao, bo) = (lift_v(&a), lift_v(&b));
    // --- no square root involved: exact in Rat
    near!(cx, S, V::mk(a).k_dot(V::mk(b)).lift(), rf::dot(&ao, &bo), absdot(&ao, &bo), nf + 2.0, "{}<{}>::dot a={:?} b={:?}", V::NAME, S::NAME, a, b);
    near!(cx, S, V::mk(a).k_magnitude_squared().lift(), rf::dot(&ao, &ao), absdot(&ao, &ao), nf + 2.0, "{}<{}>::magnitude_squared of {:?}", V::NAME, S::NAME, a);
    {
        let d = rf::subv(&ao, &bo);
        near!(cx, S, V::mk(a).k_distance_squared(V::mk(b)).lift(), rf::dot(&d, &d), absdot(&d, &d), nf + 6.0, "{}<{}>::distance_squared a={:?} b={:?}", V::NAME, S::NAME, a, b);
    }
    // --- a vector v whose length the oracle domain can express
    let sel = t.below(8);
    let v: [S; N] = match sel {
        0 => {
            cx.label("zero vector");
            [S::zero(); N]
        }
        1 => {
            cx.label("small but clearly non-zero (1e-3 <= |v| <= 4e-3)");
            let l = S::q(t.int(1, 4), 1000);
            scale_s(&unit_n::<S, N>(t), l)
        }
        2 if !S::EXACT => {
            if t.bool() {
                cx.label("tiny (0 < |v| < 1e-3: try_normalized not asserted)");
                let e = S::of_f64(t.pick(&[1e-5, 3e-6, 1e-7, 1e-12]));
                scale_s(&unit_n::<S, N>(t), e)
            } else {
                cx.label("denormal length (not asserted)");
                let e = S::of_f64(if S::eps() > 1e-10 { 1e-41 } else { 1e-310 });
                let mut z = [S::zero(); N];
                z[t.below(N)] = e;
                z[t.below(N)] = -e;
                z
            }
        }
        _ => {
            if S::EXACT || t.bool() {
                cx.label("L * (rational unit vector)");
                let l = pos_len::<S>(t);
                scale_s(&unit_n::<S, N>(t), l)
            } else {
                cx.label("random float vector");
                let k = S::of_f64(2f64.powi(t.int(-6, 6) as i32));
                scale_s(&gen_any::<S, N>(t), k)
            }
        }
    };
    let vo = lift_v(&v);
    let m2 = rf::dot(&vo, &vo);
    let m = match S::sqrt_o(m2) {
        Some(m) => m,
        None => discard!("irrational length"),
    };
    cx.set_nontrivial(nonzero_count(&v) >= 2 && a != b);
    sample!(cx, "{}<{}> a={:?} b={:?} v={:?} |v|={:?}", V::NAME, S::NAME, a, b, v, m);
    let vv = V::mk(v);
    if m2.is_zero() {
        // exact zero vector: the fallible form refuses, the predicates are clear-cut
        check!(cx, vv.k_try_normalized().is_none(), "{}<{}>::try_normalized(zero vector) must be None, got {:?}", V::NAME, S::NAME, vv.k_try_normalized());
        check!(cx, vv.k_is_approx_zero(), "{}<{}>::is_approx_zero(zero vector) must be true", V::NAME, S::NAME);
        check!(cx, !vv.k_is_normalized(), "{}<{}>::is_normalized(zero vector) must be false", V::NAME, S::NAME);
        check!(cx, vv.k_is_magnitude_close_to(S::zero()), "{}<{}>::is_magnitude_close_to(0) on the zero vector must be true", V::NAME, S::NAME);
        check!(cx, !vv.k_is_magnitude_close_to(S::one()), "{}<{}>::is_magnitude_close_to(1) on the zero vector must be false", V::NAME, S::NAME);
        check_eq!(cx, vv.k_magnitude_squared(), S::zero(), "{}<{}>::magnitude_squared(zero)", V::NAME, S::NAME);
        check_eq!(cx, vv.k_magnitude(), S::zero(), "{}<{}>::magnitude(zero)", V::NAME, S::NAME);
        check_eq!(cx, vv.k_distance(vv), S::zero(), "{}<{}>::distance(zero, zero)", V::NAME, S::NAME);
        return Ok(());
    }
    if m2.f() < 1e-6 * (1.0 + 1e-3) {
        if m2.f() >= 1e-6 {
            // rounding of the construction put it a hair below / at the line: treat as "between"
            cx.label("at the 1e-3 line (not asserted)");
        }
        if m2.f() < 1e-6 {
            // between 0 and 1e-3: only exercised, nothing asserted about Some / None
            let _ = vv.k_try_normalized();
            let _ = vv.k_is_approx_zero();
            return Ok(());
        }
    }
    let mf = m.f();
    // magnitude family
    near!(cx, S, vv.k_magnitude().lift(), m, mf, nf + 4.0, "{}<{}>::magnitude of {:?}", V::NAME, S::NAME, v);
    near!(cx, S, vv.k_magnitude_squared().lift(), m2, m2.f(), nf + 2.0, "{}<{}>::magnitude_squared of {:?}", V::NAME, S::NAME, v);
    {
        // magnitude^2 = magnitude_squared, on vek's own two results
        let mg = vv.k_magnitude().lift();
        near!(cx, S, mg * mg, vv.k_magnitude_squared().lift(), m2.f(), 2.0 * nf + 8.0, "{}<{}>: magnitude^2 vs magnitude_squared of {:?}", V::NAME, S::NAME, v);
    }
    {
        // distance(b + v, b) = |v| ; the oracle uses the sum as actually formed
        let c = rf::addv(&b, &v);
        let d = rf::subv(&lift_v(&c), &bo);
        let d2 = rf::dot(&d, &d);
        if let Some(dm) = S::sqrt_o(d2) {
            let cancel = (vmax(&lift_v(&c)) + vmax(&bo)).max(dm.f());
            near!(cx, S, V::mk(c).k_distance(V::mk(b)).lift(), dm, cancel, nf + 6.0, "{}<{}>::distance a={:?} b={:?}", V::NAME, S::NAME, c, b);
            near!(cx, S, V::mk(b).k_distance(V::mk(c)).lift(), dm, cancel, nf + 6.0, "{}<{}>::distance (swapped) a={:?} b={:?}", V::NAME, S::NAME, b, c);
            near!(cx, S, V::mk(c).k_distance_squared(V::mk(b)).lift(), d2, cancel * cancel, 2.0 * nf + 12.0, "{}<{}>::distance_squared a={:?} b={:?}", V::NAME, S::NAME, c, b);
            let dg = V::mk(c).k_distance(V::mk(b)).lift();
            near!(cx, S, dg * dg, V::mk(c).k_distance_squared(V::mk(b)).lift(), cancel * cancel, 2.0 * nf + 16.0, "{}<{}>: distance^2 vs distance_squared a={:?} b={:?}", V::NAME, S::NAME, c, b);
        }
    }
    // normalisation family: lane i of the result is v[i] / |v|, hence unit length, parallel, same direction
    let mut want = vo;
    for i in 0..N {
        want[i] = vo[i] / m;
    }
    let kn = nf + 8.0;
    let n1 = vv.k_normalized();
    near_vec!(cx, S, n1.rd(), want, 1.0, kn, "{}<{}>::normalized of {:?}", V::NAME, S::NAME, v);
    {
        let no = lift_v(&n1.rd());
        near!(cx, S, rf::dot(&no, &no), o_i::<S>(1), 1.0, 2.0 * nf + 16.0, "{}<{}>::normalized of {:?} is not of unit length", V::NAME, S::NAME, v);
        near!(cx, S, rf::dot(&no, &vo), m, mf, 2.0 * nf + 16.0, "{}<{}>::normalized of {:?}: n.v must equal |v| (parallel, same direction)", V::NAME, S::NAME, v);
    }
    let (n2, mg2) = vv.k_normalized_and_get_magnitude();
    near_vec!(cx, S, n2.rd(), want, 1.0, kn, "{}<{}>::normalized_and_get_magnitude (vector) of {:?}", V::NAME, S::NAME, v);
    near!(cx, S, mg2.lift(), m, mf, nf + 4.0, "{}<{}>::normalized_and_get_magnitude (magnitude) of {:?}", V::NAME, S::NAME, v);
    let mut n3 = vv;
    n3.k_normalize();
    near_vec!(cx, S, n3.rd(), want, 1.0, kn, "{}<{}>::normalize (in place) of {:?}", V::NAME, S::NAME, v);
    let mut n4 = vv;
    let mg4 = n4.k_normalize_and_get_magnitude();
    near_vec!(cx, S, n4.rd(), want, 1.0, kn, "{}<{}>::normalize_and_get_magnitude (vector) of {:?}", V::NAME, S::NAME, v);
    near!(cx, S, mg4.lift(), m, mf, nf + 4.0, "{}<{}>::normalize_and_get_magnitude (returned magnitude) of {:?}", V::NAME, S::NAME, v);
    match vv.k_try_normalized() {
        Some(n5) => near_vec!(cx, S, n5.rd(), want, 1.0, kn, "{}<{}>::try_normalized of {:?}", V::NAME, S::NAME, v),
        None => fail!("{}<{}>::try_normalized refused the clearly non-zero vector {:?} (|v| = {:?} >= 1e-3)", V::NAME, S::NAME, v, m),
    }
    // predicates, clear-cut inputs only
    check!(cx, !vv.k_is_approx_zero(), "{}<{}>::is_approx_zero({:?}) must be false (|v| = {:?} >= 1e-3)", V::NAME, S::NAME, v, m);
    if (m2.f() - 1.0).abs() > 1e-3 {
        check!(cx, !vv.k_is_normalized(), "{}<{}>::is_normalized({:?}) must be false (|v|^2 = {:?})", V::NAME, S::NAME, v, m2);
        check!(cx, !vv.k_is_magnitude_close_to(S::one()), "{}<{}>::is_magnitude_close_to(1) on {:?} must be false (|v|^2 = {:?})", V::NAME, S::NAME, v, m2);
    }
    if S::EXACT {
        check_eq!(cx, vv.k_is_normalized(), m2 == o_i::<S>(1), "{}<{}>::is_normalized({:?}), |v|^2 = {:?}", V::NAME, S::NAME, v, m2);
        check!(cx, n1.k_is_normalized(), "{}<{}>::is_normalized(normalized({:?})) must be true", V::NAME, S::NAME, v);
        check!(cx, vv.k_is_magnitude_close_to(S::back(m)), "{}<{}>::is_magnitude_close_to(|v|) on {:?} must be true (|v| = {:?})", V::NAME, S::NAME, v, m);
    }
    {
        // is_magnitude_close_to: x = |v| accepted when exact (Rat); x = 1.01 |v| + 0.01 rejected everywhere
        // (x^2 is off by >= 2% relative and >= 1e-4 absolute, far beyond 4 * default epsilon / max_relative)
        let off = S::back(m) * S::q(101, 100) + S::q(1, 100);
        check!(cx, !vv.k_is_magnitude_close_to(off), "{}<{}>::is_magnitude_close_to({:?}) on {:?} must be false (|v| = {:?})", V::NAME, S::NAME, off, v, m);
        check!(cx, !vv.k_is_magnitude_close_to(S::zero()), "{}<{}>::is_magnitude_close_to(0) on {:?} must be false", V::NAME, S::NAME, v);
    }
    // `true` answers on inputs whose squared length is exact (Rat) or within 2 eps relative (floats)
    {
        let k = t.below(N);
        let mut e = [S::zero(); N];
        if t.bool() {
            e[k] = if t.bool() { S::one() } else { -S::one() };
        } else {
            let mut j = t.below(N - 1);
            if j >= k {
                j += 1;
            }
            e[k] = S::q(3, 5);
            e[j] = S::q(-4, 5);
        }
        check!(cx, V::mk(e).k_is_normalized(), "{}<{}>::is_normalized({:?}) must be true", V::NAME, S::NAME, e);
        check!(cx, V::mk(e).k_is_magnitude_close_to(S::one()), "{}<{}>::is_magnitude_close_to(1) on {:?} must be true", V::NAME, S::NAME, e);
        check!(cx, !V::mk(e).k_is_approx_zero(), "{}<{}>::is_approx_zero({:?}) must be false", V::NAME, S::NAME, e);
        // integer vector: |w|^2 = M exactly; x = sqrt(M) (rounded once in floats, rational for Rat only if M is a square)
        let mut w = [S::zero(); N];
        let mut mm = 0i64;
        for i in 0..N {
            let c = t.int(-3, 3);
            w[i] = S::i(c);
            mm += c * c;
        }
        if mm > 0 {
            let r = (mm as f64).sqrt().round() as i64;
            let x = if r * r == mm { Some(S::i(r)) } else if S::EXACT { None } else { Some(S::of_f64((mm as f64).sqrt())) };
            if let Some(x) = x {
                check!(cx, V::mk(w).k_is_magnitude_close_to(x), "{}<{}>::is_magnitude_close_to({:?}) on {:?} must be true (|w|^2 = {})", V::NAME, S::NAME, x, w, mm);
            }
        }
    }
    Ok(())
}

/// reflected, face_forward, refracted.
pub fn surface<S: Lift, V: Sp<S, N>, const N: usize>(t: &mut Tape, cx: &mut Cx) -> CaseResult {
    let nf = N as f64;
    let v: [S; N] = gen_any(t);
    let n: [S; N] = gen_any(t);
    let (vo, no) = (lift_v(&v), lift_v(&n));
    let two = o_i::<S>(2);
    let vn = rf::dot(&vo, &no);
    cx.set_nontrivial(nonzero_count(&v) >= 2 && nonzero_count(&n) >= 2 && !vn.is_zero());
    sample!(cx, "{}<{}> v={:?} n={:?}", V::NAME, S::NAME, v, n);
    // --- reflected = v - 2 (v.n) n, any n
    {
        let mut want = vo;
        for i in 0..N {
            want[i] = vo[i] - two * vn * no[i];
        }
        let sc = vmax(&vo) + 2.0 * absdot(&vo, &no) * vmax(&no);
        near_vec!(cx, S, V::mk(v).k_reflected(V::mk(n)).rd(), want, sc, nf + 8.0, "{}<{}>::reflected v={:?} n={:?}", V::NAME, S::NAME, v, n);
    }
    // --- mirror decomposition for a unit normal: normal component negated, tangential component kept, length kept
    {
        let u: [S; N] = unit_n(t);
        let uo = lift_v(&u);
        let r = lift_v(&V::mk(v).k_reflected(V::mk(u)).rd());
        let (vu, ru) = (rf::dot(&vo, &uo), rf::dot(&r, &uo));
        let sc = vmax(&vo).max(1.0) * nf.sqrt();
        near!(cx, S, ru, -vu, sc, 4.0 * nf + 32.0, "{}<{}>::reflected v={:?} unit n={:?}: normal component must be negated", V::NAME, S::NAME, v, u);
        let mut tang_r = r;
        let mut tang_v = vo;
        for i in 0..N {
            tang_r[i] = r[i] - ru * uo[i];
            tang_v[i] = vo[i] - vu * uo[i];
        }
        for i in 0..N {
            near!(cx, S, tang_r[i], tang_v[i], sc, 4.0 * nf + 32.0, "{}<{}>::reflected v={:?} unit n={:?}: tangential component (lane {}) must be kept", V::NAME, S::NAME, v, u, i);
        }
        near!(cx, S, rf::dot(&r, &r), rf::dot(&vo, &vo), sc * sc, 8.0 * nf + 64.0, "{}<{}>::reflected v={:?} unit n={:?}: length must be kept", V::NAME, S::NAME, v, u);
    }
    // --- face_forward(v, incident, reference)
    {
        let sel = t.below(6);
        let (inc, rfr): ([S; N], [S; N]) = match sel {
            0 | 1 => {
                // exactly perpendicular integer pair (dot product exactly 0 in every domain), optionally nudged
                let (p, q) = (t.int(1, 5), t.int(-5, 5));
                let i0 = t.below(N);
                let mut j0 = t.below(N - 1);
                if j0 >= i0 {
                    j0 += 1;
                }
                let mut a = [S::zero(); N];
                let mut b = [S::zero(); N];
                a[i0] = S::i(p);
                a[j0] = S::i(q);
                b[i0] = S::i(-q);
                b[j0] = S::i(p);
                match t.below(3) {
                    0 => cx.label("face_forward: reference.incident == 0 exactly"),
                    1 => {
                        cx.label("face_forward: dot = +1/64");
                        b[i0] = b[i0] + S::q(1, 64 * p);
                    }
                    _ => {
                        cx.label("face_forward: dot = -1/64");
                        b[i0] = b[i0] - S::q(1, 64 * p);
                    }
                }
                (a, b)
            }
            2 => (n, n),
            3 => (n, neg_v(&n)),
            _ => (n, gen_any(t)),
        };
        let d = rf::dot(&lift_v(&rfr), &lift_v(&inc));
        let amb = if S::EXACT { d.is_zero() } else { d.f().abs() <= 4.0 * nf * S::eps() * absdot(&lift_v(&rfr), &lift_v(&inc)) };
        let got = V::mk(v).k_face_forward(V::mk(inc), V::mk(rfr)).rd();
        let flipped = neg_v(&v);
        if amb {
            cx.label("face_forward: sign of the dot product not decidable / zero (only `v or -v` asserted)");
            check!(cx, got == v || got == flipped, "{}<{}>::face_forward v={:?} incident={:?} reference={:?}: result {:?} is neither v nor -v", V::NAME, S::NAME, v, inc, rfr, got);
        } else if d < <O<S> as Zero>::zero() {
            cx.label("face_forward: dot < 0 (kept)");
            check_eq!(cx, got, v, "{}<{}>::face_forward v={:?} incident={:?} reference={:?} (reference.incident = {:?} < 0: v must be kept)", V::NAME, S::NAME, v, inc, rfr, d);
        } else {
            cx.label("face_forward: dot > 0 (flipped)");
            check_eq!(cx, got, flipped, "{}<{}>::face_forward v={:?} incident={:?} reference={:?} (reference.incident = {:?} > 0: v must be flipped)", V::NAME, S::NAME, v, inc, rfr, d);
        }
    }
    // --- refracted
    refract::<S, V, N>(t, cx)
}

fn refract<S: Lift, V: Sp<S, N>, const N: usize>(t: &mut Tape, cx: &mut Cx) -> CaseResult {
    let nf = N as f64;
    let sel = t.below(8);
    if sel < 6 {
        // Snell construction in the plane of an orthonormal pair (nrm, tan):
        // i = -+cos(th1) nrm + sin(th1) tan,  eta = sin(th2)/sin(th1)  =>  k = cos^2(th2), result = sin(th2) tan - cos(th2) nrm
        let (nrm, tan) = ortho_pair::<S, N>(t);
        // incidence angle: ordinary Pythagorean triple, or (1 in 4) next to normal / grazing incidence
        let (a1, b1, h1) = if t.chance(64) {
            cx.label("refracted: incidence next to normal / grazing (sin or cos th1 = 20/101, 28/197, 60/901)");
            t.pick(&[(20i64, 99i64, 101i64), (99, 20, 101), (28, 195, 197), (195, 28, 197), (60, 899, 901), (899, 60, 901)])
        } else {
            PYTH[t.below(PYTH.len())]
        };
        let (s1, c1) = (S::q(a1, h1), S::q(b1, h1));
        let front = !t.chance(64); // incident against the normal (physical) or along it
        let ci = if front { -c1 } else { c1 };
        let mut inc = [S::zero(); N];
        for i in 0..N {
            inc[i] = ci * nrm[i] + s1 * tan[i];
        }
        let (eta, want_s2c2): (S, Option<(S, S)>) = match sel {
            0 => {
                cx.label("refracted: k = 0 exactly (critical angle)");
                (S::q(h1, a1), Some((S::one(), S::zero())))
            }
            1 => {
                cx.label("refracted: k < 0 (total internal reflection)");
                (S::q(h1, a1) * S::i(t.int(2, 9)), None)
            }
            2 => {
                cx.label("refracted: k < 0 by a hair (eta = (1 + 2^-10) / sin th1)");
                (S::q(h1, a1) * S::q(1025, 1024), None)
            }
            3 => {
                cx.label("refracted: k > 0, refraction angle near 90 degrees (sin th2 = 24/25, 40/41, 60/61)");
                // th2 close to 90 degrees: sin th2 = 24/25 or 40/41
                let (a2, b2, h2) = t.pick(&[(24i64, 7i64, 25i64), (40, 9, 41), (60, 11, 61)]);
                (S::q(a2, h2) / s1, Some((S::q(a2, h2), S::q(b2, h2))))
            }
            _ => {
                cx.label("refracted: k > 0 (Pythagorean refraction angle)");
                let (a2, b2, h2) = PYTH[t.below(PYTH.len())];
                (S::q(a2, h2) / s1, Some((S::q(a2, h2), S::q(b2, h2))))
            }
        };
        let got = V::mk(inc).k_refracted(V::mk(nrm), eta).rd();
        let (io, no, eo) = (lift_v(&inc), lift_v(&nrm), eta.lift());
        let ndi = rf::dot(&no, &io);
        let one = o_i::<S>(1);
        let k = one - eo * eo * (one - ndi * ndi);
        match want_s2c2 {
            None => {
                if S::EXACT || k.f() < -64.0 * nf * S::eps() * (1.0 + eo.f() * eo.f()) {
                    check_eq!(cx, got, [S::zero(); N], "{}<{}>::refracted i={:?} n={:?} eta={:?}: k = {:?} < 0 must give the zero vector", V::NAME, S::NAME, inc, nrm, eta, k);
                }
            }
            Some((s2, c2)) => {
                // by construction: tangential part eta * tangential(i) = sin(th2) tan, normal part -sqrt(k) nrm = -cos(th2) nrm
                let mut want = io;
                let (to, s2o, c2o) = (lift_v(&tan), s2.lift(), c2.lift());
                for i in 0..N {
                    want[i] = s2o * to[i] - c2o * no[i];
                }
                if S::EXACT {
                    check_eq!(cx, k, c2o * c2o, "harness self-check: k of the construction");
                    near_vec!(cx, S, got, want, 1.0, 1.0, "{}<{}>::refracted i={:?} n={:?} eta={:?} (k = {:?}): Snell: want sin(th2)*t - cos(th2)*n with sin th2 = {:?}", V::NAME, S::NAME, inc, nrm, eta, k, s2);
                } else {
                    // floats: sqrt(k) has condition 1/(2 sqrt k); skip when k is within rounding of 0
                    let dk = 16.0 * nf * S::eps() * (1.0 + eo.f() * eo.f());
                    if c2o.f() * c2o.f() > 16.0 * dk {
                        let sc = eo.f().max(1.0) * (1.0 + 1.0 / c2o.f());
                        near_vec!(cx, S, got, want, sc, 16.0 * nf + 64.0, "{}<{}>::refracted i={:?} n={:?} eta={:?}: Snell: want sin(th2)*t - cos(th2)*n with sin th2 = {:?}", V::NAME, S::NAME, inc, nrm, eta, s2);
                    } else {
                        cx.label("refracted: k within rounding of 0 in floats (not asserted)");
                    }
                }
            }
        }
        return Ok(());
    }
    // unit vectors in general position: the GLSL / Snell formula evaluated in the oracle domain
    let inc: [S; N] = unit_n(t);
    let nrm: [S; N] = unit_n(t);
    let (io, no) = (lift_v(&inc), lift_v(&nrm));
    let ndi = rf::dot(&no, &io);
    let one = o_i::<S>(1);
    let eta = if t.chance(64) {
        cx.label("refracted: eta a power of two in 2^-12 .. 2^4");
        let e = t.int(-12, 4);
        if e < 0 { S::q(1, 1 << -e) } else { S::i(1 << e) }
    } else if S::EXACT || t.bool() {
        S::q(t.int(1, 12), t.pick(&[1i64, 2, 3, 4, 5, 7]))
    } else {
        S::of_f64(t.range_f64(0.2, 3.0))
    };
    let eo = eta.lift();
    let k = one - eo * eo * (one - ndi * ndi);
    let dk = 16.0 * nf * S::eps() * (1.0 + eo.f() * eo.f());
    if (S::EXACT && k < <O<S> as Zero>::zero()) || (!S::EXACT && k.f() < -4.0 * dk) {
        cx.label("refracted: general unit vectors, k < 0");
        let got = V::mk(inc).k_refracted(V::mk(nrm), eta).rd();
        check_eq!(cx, got, [S::zero(); N], "{}<{}>::refracted i={:?} n={:?} eta={:?}: k = {:?} < 0 must give the zero vector", V::NAME, S::NAME, inc, nrm, eta, k);
    } else if let (Some(rk), true) = (S::sqrt_o(k), S::EXACT || k.f() > 16.0 * dk) {
        cx.label("refracted: general unit vectors, k >= 0");
        let got = V::mk(inc).k_refracted(V::mk(nrm), eta).rd();
        let mut want = io;
        for i in 0..N {
            want[i] = eo * io[i] - (eo * ndi + rk) * no[i];
        }
        let sc = eo.f().max(1.0) * (1.0 + 1.0 / rk.f().max(1e-300));
        near_vec!(cx, S, got, want, sc, 16.0 * nf + 64.0, "{}<{}>::refracted i={:?} n={:?} eta={:?} (k = {:?})", V::NAME, S::NAME, inc, nrm, eta, k);
        // Snell decomposition: tangential part = eta * tangential(i), normal part = -sqrt(k)
        let g = lift_v(&got);
        let gn = rf::dot(&g, &no);
        near!(cx, S, gn, -rk, sc, 32.0 * nf + 128.0, "{}<{}>::refracted i={:?} n={:?} eta={:?}: normal component must be -sqrt(k)", V::NAME, S::NAME, inc, nrm, eta);
        for i in 0..N {
            near!(cx, S, g[i] - gn * no[i], eo * (io[i] - ndi * no[i]), sc, 32.0 * nf + 128.0, "{}<{}>::refracted i={:?} n={:?} eta={:?}: tangential component (lane {}) must be eta * tangential(i)", V::NAME, S::NAME, inc, nrm, eta, i);
        }
    } else {
        cx.label("refracted: general unit vectors, sqrt(k) not expressible / k within rounding of 0 (not called)");
    }
    Ok(())
}

/// |got - want| <= tol (absolute, floats only); records the error ratio.
pub fn near_abs(cx: &mut Cx, got: f64, want: f64, tol: f64) -> bool {
    cx.count();
    let d = (got - want).abs();
    if !d.is_finite() {
        return false;
    }
    if d > 0.0 {
        cx.note_err(d / tol);
    }
    d <= tol
}

/// Kahan's angle between two non-zero vectors: 2 atan2(|a^ - b^|, |a^ + b^|); well conditioned on all of [0, pi].
pub fn kahan_angle<const N: usize>(a: &[f64; N], b: &[f64; N]) -> f64 {
    let la = rf::dot(a, a).sqrt();
    let lb = rf::dot(b, b).sqrt();
    let (mut d, mut s) = (0.0f64, 0.0f64);
    for i in 0..N {
        let (x, y) = (a[i] / la, b[i] / lb);
        d += (x - y) * (x - y);
        s += (x + y) * (x + y);
    }
    2.0 * d.sqrt().atan2(s.sqrt())
}

/// angle_between (floats): range, value, symmetry, invariance under positive scaling.
pub fn angle<S: Lift, V: Sp<S, N>, const N: usize>(t: &mut Tape, cx: &mut Cx) -> CaseResult {
    let nf = N as f64;
    let sel = t.below(8);
    let mut a: [S; N] = gen_any(t);
    if rf::dot(&lift_v(&a), &lift_v(&a)).f() < 1e-2 {
        for i in 0..N {
            a[i] = S::i([1, 2, -3, 5][i % 4]);
        }
    }
    let pow2 = |t: &mut Tape| S::of_f64(2f64.powi(t.int(-5, 5) as i32));
    let b: [S; N] = match sel {
        0 => {
            cx.label("exactly parallel (b = 2^e a)");
            let l = pow2(t);
            scale_s(&a, l)
        }
        1 => {
            cx.label("exactly antiparallel (b = -2^e a)");
            let l = pow2(t);
            scale_s(&a, -l)
        }
        2 => {
            cx.label("exactly perpendicular integer pair");
            let (p, q) = (t.int(1, 7), t.int(1, 7));
            let i0 = t.below(N);
            let mut j0 = t.below(N - 1);
            if j0 >= i0 {
                j0 += 1;
            }
            let mut x = [S::zero(); N];
            let mut y = [S::zero(); N];
            x[i0] = S::i(p);
            x[j0] = S::i(q);
            y[i0] = S::i(-q);
            y[j0] = S::i(p);
            a = x;
            y
        }
        3 | 4 => {
            let l = if sel == 3 { pow2(t) } else { -pow2(t) };
            if sel == 3 { cx.label("nearly parallel") } else { cx.label("nearly antiparallel") }
            let mut y = scale_s(&a, l);
            let k0 = t.below(N);
            y[k0] = y[k0] + S::of_f64(t.pick(&[1e-2, 1e-3, 1e-4, 1e-6]));
            y
        }
        _ => {
            cx.label("random pair");
            let mut y: [S; N] = gen_any(t);
            if rf::dot(&lift_v(&y), &lift_v(&y)).f() < 1e-2 {
                for i in 0..N {
                    y[i] = S::i([2, -1, 1, 3][i % 4]);
                }
            }
            y
        }
    };
    let (ao, bo) = (lift_v(&a), lift_v(&b));
    let af: [f64; N] = std::array::from_fn(|i| ao[i].f());
    let bf: [f64; N] = std::array::from_fn(|i| bo[i].f());
    let th = kahan_angle(&af, &bf);
    cx.set_nontrivial(nonzero_count(&a) >= 2 && nonzero_count(&b) >= 2);
    sample!(cx, "{}<{}> a={:?} b={:?} angle={:?}", V::NAME, S::NAME, a, b, th);
    // rounding of the computed cosine, amplified by d(acos)/dx = 1/sin(angle), capped by sqrt(2 delta) at the ends
    let delta = (4.0 * nf + 16.0) * S::eps();
    let tol = 2.0 * (delta / th.sin().abs().max(1e-300)).min((2.0 * delta).sqrt()) + 8.0 * S::eps();
    let pi = <S as num_traits::FloatConst>::PI();
    let g = V::mk(a).k_angle_between(V::mk(b));
    check!(cx, g >= S::zero() && g <= pi, "{}<{}>::angle_between a={:?} b={:?} = {:?} is not in [0, pi]", V::NAME, S::NAME, a, b, g);
    if !near_abs(cx, g.f(), th, tol) {
        fail!("{}<{}>::angle_between a={:?} b={:?}: got {:?}, want {:?} (tolerance {:.3e})", V::NAME, S::NAME, a, b, g, th, tol);
    }
    // the deprecated degrees form is the same angle in degrees ("Use to_degrees() on the value returned by angle_between() instead")
    let gd = V::mk(a).k_angle_between_degrees(V::mk(b));
    check!(cx, gd.f() >= 0.0 && gd.f() <= 180.0, "{}<{}>::angle_between_degrees a={:?} b={:?} = {:?} is not in [0, 180]", V::NAME, S::NAME, a, b, gd);
    if !near_abs(cx, gd.f(), g.f().to_degrees(), 2.0 * tol.to_degrees() + 720.0 * S::eps()) {
        fail!("{}<{}>::angle_between_degrees a={:?} b={:?}: got {:?}, but angle_between is {:?} rad = {:?} degrees", V::NAME, S::NAME, a, b, gd, g, g.f().to_degrees());
    }
    let g2 = V::mk(b).k_angle_between(V::mk(a));
    if !near_abs(cx, g2.f(), g.f(), 2.0 * tol) {
        fail!("{}<{}>::angle_between is not symmetric: a={:?} b={:?}: {:?} vs {:?}", V::NAME, S::NAME, a, b, g, g2);
    }
    let (l, m) = (S::of_f64(t.pick(&[0.5, 3.0, 7.25, 0.3, 1.0, 12.0])), S::of_f64(t.pick(&[2.0, 0.75, 5.5, 0.1, 9.0, 1.0])));
    let g3 = V::mk(scale_s(&a, l)).k_angle_between(V::mk(scale_s(&b, m)));
    check!(cx, g3 >= S::zero() && g3 <= pi, "{}<{}>::angle_between (scaled operands) = {:?} is not in [0, pi]", V::NAME, S::NAME, g3);
    if !near_abs(cx, g3.f(), th, 2.0 * tol) {
        fail!("{}<{}>::angle_between is not invariant under positive scaling: a={:?}*{:?} b={:?}*{:?}: got {:?}, want {:?} (tolerance {:.3e})", V::NAME, S::NAME, a, l, b, m, g3, th, 2.0 * tol);
    }
    Ok(())
}

pub fn checks(checks: &mut Vec<Check>) {
    use vek::vec::repr_c::*;
    const TH: u64 = 50;
    let m = "dot, magnitude_squared, distance_squared vs sums of products; magnitude / distance vs the (rational / f64) square root and vek's own squares; normalized, normalized_and_get_magnitude, normalize, normalize_and_get_magnitude: lane i = v[i]/|v|, unit, n.v = |v|, magnitudes returned; try_normalized: None on the zero vector, Some(unit) for |v| >= 1e-3; is_normalized / is_approx_zero / is_magnitude_close_to on clear-cut inputs";
    let s = "reflected = v - 2(v.n)n and mirror decomposition for unit n; face_forward keeps v for reference.incident < 0, flips for > 0 (exact; perpendicular and +-1/64 cases forced); refracted on Householder orthonormal pairs with Pythagorean angles: k = 0 boundary, k < 0 (zero vector), k > 0 (sin(th2) t - cos(th2) n), and on general unit vectors vs eta*i - (eta n.i + sqrt k) n with the Snell decomposition";
    let a = "angle_between in [0, pi], equals Kahan's 2 atan2(|a^-b^|, |a^+b^|) within delta/sin(angle) (capped at sqrt(2 delta)), symmetric, invariant under positive scaling; exactly (anti)parallel, perpendicular, nearly (anti)parallel and random pairs";
    macro_rules! reg {
        ($V:ident, $N:expr, $q:expr) => {{
            const N: usize = $N;
            let q: u64 = $q;
            let mut add = |name: &'static str, about: &'static str, len: usize, q: u64, f: fn(&mut Tape, &mut Cx) -> CaseResult| {
                checks.push(Check { name, about, kind: Kind::Tape { len, quick: q, thorough: q * TH, f } });
            };
            add(concat!("metric-", stringify!($V), "-rat"), m, 12 * N + 64, q, metric::<Rat, $V<Rat>, N>);
            add(concat!("metric-", stringify!($V), "-f64"), m, 24 * N + 64, q, metric::<f64, $V<f64>, N>);
            add(concat!("metric-", stringify!($V), "-f32"), m, 24 * N + 64, q, metric::<f32, $V<f32>, N>);
            add(concat!("surface-", stringify!($V), "-rat"), s, 12 * N + 64, q, surface::<Rat, $V<Rat>, N>);
            add(concat!("surface-", stringify!($V), "-f64"), s, 24 * N + 64, q, surface::<f64, $V<f64>, N>);
            add(concat!("surface-", stringify!($V), "-f32"), s, 24 * N + 64, q, surface::<f32, $V<f32>, N>);
            add(concat!("angle-", stringify!($V), "-f64"), a, 14 * N + 32, q, angle::<f64, $V<f64>, N>);
            add(concat!("angle-", stringify!($V), "-f32"), a, 14 * N + 32, q, angle::<f32, $V<f32>, N>);
            let ie = "one lane holds +inf / -inf / NaN / -NaN / +0 / -0 / the smallest subnormal / -MIN_POSITIVE, the others ordinary values: magnitude_squared, magnitude, distance_squared, distance (both operand orders) and the magnitude returned by normalize(d)_and_get_magnitude are all +inf resp. all NaN resp. what they are with 0 in that lane";
            let total = N as u64 * crate::ieee::KINDS;
            checks.push(Check { name: concat!("ieee-", stringify!($V), "-f64"), about: ie, kind: Kind::Index { total, quick: total, thorough: total, f: crate::ieee::ieee_case::<f64, $V<f64>, N> } });
            checks.push(Check { name: concat!("ieee-", stringify!($V), "-f32"), about: ie, kind: Kind::Index { total, quick: total, thorough: total, f: crate::ieee::ieee_case::<f32, $V<f32>, N> } });
        }};
    }
    reg!(Vec2, 2, 10_000);
    reg!(Vec3, 3, 10_000);
    reg!(Vec4, 4, 10_000);
    reg!(Extent2, 2, 10_000);
    reg!(Extent3, 3, 10_000);
    reg!(Vec8, 8, 6000);
    reg!(Vec16, 16, 4000);
    reg!(Vec32, 32, 3000);
    reg!(Vec64, 64, 2000);
}
