//! IEEE special values in one lane: "magnitude, distance and their squares agree" also where they are
//! infinite or NaN. idx = p * KINDS + k: lane p holds the special value k, the other lanes ordinary values.
//!
//! * an infinite lane (and no NaN): magnitude_squared, magnitude, distance_squared, distance (to a finite
//!   point, both operand orders) and the magnitude returned by normalize(d)_and_get_magnitude are all +inf
//! * a NaN lane: all of them are NaN
//! * a zero of either sign, the smallest subnormal, MIN_POSITIVE: same magnitudes as with 0 in that lane
//!   (their squares underflow to 0), bit for bit between +0 and -0
//! Lanes whose SQUARE overflows although the length is representable (MAX, 2^k beyond sqrt(MAX)) are not
//! exercised here: there the outcome depends on the evaluation order, which the property does not prescribe.

use crate::Sp;
use vkit::*;

pub const KINDS: u64 = 8;

pub trait Fl: Dom + Copy + PartialEq + std::fmt::Debug {
    fn special(k: u64) -> (Self, &'static str);
    fn nan(self) -> bool;
    fn pos_inf(self) -> bool;
    fn from64(x: f64) -> Self;
    fn bits(self) -> u64;
}
macro_rules! fl {
    ($t:ident) => {
        impl Fl for $t {
            fn special(k: u64) -> (Self, &'static str) {
                match k {
                    0 => ($t::INFINITY, "+inf"),
                    1 => ($t::NEG_INFINITY, "-inf"),
                    2 => ($t::NAN, "NaN"),
                    3 => (-$t::NAN, "-NaN"),
                    4 => (0.0, "+0"),
                    5 => (-0.0, "-0"),
                    6 => ($t::from_bits(1), "smallest subnormal"),
                    _ => (-$t::MIN_POSITIVE, "-MIN_POSITIVE"),
                }
            }
            fn nan(self) -> bool { self.is_nan() }
            fn pos_inf(self) -> bool { self == $t::INFINITY }
            fn from64(x: f64) -> Self { x as $t }
            fn bits(self) -> u64 { self.to_bits() as u64 }
        }
    };
}
fl!(f32);
fl!(f64);

pub fn ieee_case<S: Fl, V: Sp<S, N>, const N: usize>(idx: u64, cx: &mut Cx) -> CaseResult {
    let k = idx % KINDS;
    let p = (idx / KINDS) as usize;
    let (x, label) = S::special(k);
    let base: [S; N] = std::array::from_fn(|i| S::from64([1.5, -2.0, 0.75, 3.0, -0.5, 4.0, 1.25][i % 7]));
    let other: [S; N] = std::array::from_fn(|i| S::from64([0.5, 1.0, -1.5, 2.0][i % 4]));
    let mut a = base;
    a[p] = x;
    let mut z = base;
    z[p] = S::from64(0.0);
    sample!(cx, "{}<{}> lane {} = {}: {:?}", V::NAME, S::NAME, p, label, a);
    cx.label(label);
    cx.nontrivial();
    let (va, vo) = (V::mk(a), V::mk(other));
    let mut n1 = va;
    let m_inplace = n1.k_normalize_and_get_magnitude();
    let m_pair = va.k_normalized_and_get_magnitude().1;
    let got: [(&str, S); 8] = [
        ("magnitude_squared", va.k_magnitude_squared()),
        ("magnitude", va.k_magnitude()),
        ("distance_squared(v, finite)", va.k_distance_squared(vo)),
        ("distance(v, finite)", va.k_distance(vo)),
        ("distance_squared(finite, v)", vo.k_distance_squared(va)),
        ("distance(finite, v)", vo.k_distance(va)),
        ("normalize_and_get_magnitude", m_inplace),
        ("normalized_and_get_magnitude().1", m_pair),
    ];
    match k {
        0 | 1 => {
            for (what, g) in got {
                check!(cx, g.pos_inf(), "{}<{}>::{} of {:?} (lane {} = {}) is {:?}, want +inf", V::NAME, S::NAME, what, a, p, label, g);
            }
        }
        2 | 3 => {
            for (what, g) in got {
                check!(cx, g.nan(), "{}<{}>::{} of {:?} (lane {} = {}) is {:?}, want NaN", V::NAME, S::NAME, what, a, p, label, g);
            }
        }
        _ => {
            let vz = V::mk(z);
            let mut nz = vz;
            let want: [S; 8] = [
                vz.k_magnitude_squared(), vz.k_magnitude(), vz.k_distance_squared(vo), vz.k_distance(vo), vo.k_distance_squared(vz), vo.k_distance(vz),
                nz.k_normalize_and_get_magnitude(), vz.k_normalized_and_get_magnitude().1,
            ];
            for (i, (what, g)) in got.into_iter().enumerate() {
                if k <= 5 || i < 2 || i >= 6 {
                    // zeros of either sign and values whose square underflows: identical to a 0 lane, bit for bit
                    check!(cx, g.bits() == want[i].bits(), "{}<{}>::{} of {:?} (lane {} = {}) is {:?}, with 0 in that lane it is {:?}", V::NAME, S::NAME, what, a, p, label, g, want[i]);
                } else {
                    // distances: (tiny - ordinary) may round differently from (0 - ordinary) by construction only in the last place
                    let (gf, wf) = (g.f(), want[i].f());
                    check!(cx, (gf - wf).abs() <= 4.0 * S::eps() * wf.abs(), "{}<{}>::{} of {:?} (lane {} = {}) is {:?}, with 0 in that lane it is {:?}", V::NAME, S::NAME, what, a, p, label, g, want[i]);
                }
            }
        }
    }
    Ok(())
}
